import ConduitModel.Model.Errs
import ConduitModel.Spec.Errs
import ConduitModel.Generated.Errs
import ConduitModel.Driver.Util

/-
Driver components for C20.

`errtree`  — one constructor expression per line (s-expression), result = canonical classification
             of the value the REAL constructors build:
    nil | new | other | (s NAME) | (ef HEXFMT ARG…) | (sw KIND X) | (j ARG…) | (f X)
    | (cn REASON GRPC) | (cw REASON GRPC X) | (wc X REASON GRPC) | (wu X GRPC) | (g GRPC)
    | (vs X) | (fs X)
  output: `nil`  or
    `fatal=<0|1> code=<reason>/<g>|- rt=<reason>/<g>|- st=<g>/<reason|->|- exit=<n> api=<P>;<C>;<R>;<L> is=<names,…|->`
`errfmt`   — `HEXFMT KINDS` (KINDS: string over e=error, s=non-error, n=nil error; `-` for none):
             which argument the real `cerrors.Errorf` wraps → `wrap=<index|->`
`errsite`  — `LOC HEXFMT ARGC` (a call site of the code base): `wrap=<index|-> prop=<ok|lost:…>`
-/
namespace Conduit.Driver
open Conduit.Errs

namespace ErrsD

def exitCfg : ExitCfg :=
  { table := Generated.Errs.fromGRPCCodeTable
    dflt := Generated.Errs.fromGRPCCodeDefault
    ok := Generated.Errs.exitOK
    runtime := Generated.Errs.exitRuntime
    environment := Generated.Errs.exitEnvironment
    canceled := "context.Canceled"
    envSentinels := ["syscall.ECONNREFUSED", "syscall.EADDRINUSE"] }

def env : Env := { registry := Generated.Errs.registry, unknownReason := Generated.Errs.unknownReason }

def targetOf (s : String) : Target :=
  if s.startsWith "&" then .validation else .sentinel s

def armsOf (l : List (String × Nat)) : List (Target × Nat) := l.map fun p => (targetOf p.1, p.2)

def common : IsSwitch := ⟨armsOf Generated.Errs.codeFromErrorArms, Generated.Errs.codeFromErrorDefault⟩

def apiCfg (own : List (String × Nat)) : ApiCfg :=
  { unknownReason := Generated.Errs.unknownReason, common := common, own := armsOf own }

/-! s-expression reader -/

inductive Tok where
  | lp | rp | atom (s : String)
deriving Repr

def tokenize (s : String) : List Tok :=
  let flush (cur : List Char) (acc : List Tok) : List Tok :=
    if cur.isEmpty then acc else .atom (String.ofList cur.reverse) :: acc
  let rec go (cs : List Char) (cur : List Char) (acc : List Tok) : List Tok :=
    match cs with
    | [] => (flush cur acc).reverse
    | c :: cs =>
      if c = '(' then go cs [] (.lp :: flush cur acc)
      else if c = ')' then go cs [] (.rp :: flush cur acc)
      else if c = ' ' then go cs [] (flush cur acc)
      else go cs (c :: cur) acc
  go s.toList [] []

inductive SX where
  | atom (s : String)
  | list (l : List SX)
deriving Repr, Inhabited

/-- parse one s-expression; fuel-bounded. Returns the rest of the tokens. -/
def parseSX : Nat → List Tok → Option (SX × List Tok)
  | 0, _ => none
  | _, [] => none
  | _, .atom s :: ts => some (.atom s, ts)
  | _, .rp :: _ => none
  | fuel + 1, .lp :: ts => parseList fuel ts []
where
  parseList : Nat → List Tok → List SX → Option (SX × List Tok)
    | 0, _, _ => none
    | _, [], _ => none
    | _, .rp :: ts, acc => some (.list acc.reverse, ts)
    | fuel + 1, ts, acc =>
      match parseSX fuel ts with
      | some (x, rest) => parseList fuel rest (x :: acc)
      | none => none

def hexVal (c : Char) : Option Nat :=
  if '0' ≤ c ∧ c ≤ '9' then some (c.toNat - 48)
  else if 'a' ≤ c ∧ c ≤ 'f' then some (c.toNat - 87)
  else none

def hexBytes : List Char → Option (List Nat)
  | [] => some []
  | [_] => none
  | a :: b :: r => do
    let x ← hexVal a
    let y ← hexVal b
    let t ← hexBytes r
    pure ((x * 16 + y) :: t)

/-- `-` = empty format -/
def fmtOf (s : String) : Option (List Nat) :=
  if s = "-" then some [] else hexBytes s.toList

partial def toExpr : SX → Option Expr
  | .atom "nil" => some .nil
  | .atom "new" => some .new
  | .atom "other" => some .other
  | .atom _ => none
  | .list (.atom "s" :: [.atom n]) => some (.sentinel n)
  | .list (.atom "ef" :: .atom f :: args) => do
    let f ← fmtOf f
    let as ← args.mapM toExpr
    pure (.errorf f as)
  | .list [.atom "sw", .atom k, x] => do pure (.stdwrap k (← toExpr x))
  | .list (.atom "j" :: args) => do pure (.join (← args.mapM toExpr))
  | .list [.atom "f", x] => do pure (.fatal (← toExpr x))
  | .list [.atom "cn", .atom r, .atom g] => do pure (.cnew ⟨r, ← g.toNat?⟩)
  | .list [.atom "cw", .atom r, .atom g, x] => do pure (.cwrap ⟨r, ← g.toNat?⟩ (← toExpr x))
  | .list [.atom "wc", x, .atom r, .atom g] => do pure (.withCode (← toExpr x) ⟨r, ← g.toNat?⟩)
  | .list [.atom "wu", x, .atom g] => do pure (.withUnknown (← toExpr x) (← g.toNat?))
  | .list [.atom "g", .atom g] => do pure (.grpc (← g.toNat?))
  | .list [.atom "vs", x] => do pure (.viaStatus (← toExpr x))
  | .list [.atom "fs", x] => do pure (.fromStatus (← toExpr x))
  | _ => none

def parseExpr (line : String) : Option Expr :=
  let ts := tokenize line
  match parseSX (ts.length + 1) ts with
  | some (sx, []) => toExpr sx
  | _ => none

/-- sentinel names occurring in an expression (only these can be matched by `Is`). -/
partial def sentinelsOf : Expr → List String
  | .sentinel s => [s]
  | .errorf _ as => as.flatMap sentinelsOf
  | .stdwrap k x => (if k = "val" then ["&ValidationError"] else []) ++ sentinelsOf x
  | .join as => as.flatMap sentinelsOf
  | .fatal x | .cwrap _ x | .withCode x _ | .withUnknown x _ | .viaStatus x | .fromStatus x => sentinelsOf x
  | _ => []

def insertSorted (s : String) : List String → List String
  | [] => [s]
  | x :: xs => if s < x then s :: x :: xs else if s = x then x :: xs else x :: insertSorted s xs

def sortDedup (l : List String) : List String := l.foldr insertSorted []

def codeStr : Option Code → String
  | none => "-"
  | some c => s!"{c.reason}/{c.grpc}"

def statusErrStr : E → String
  | some (.status g r) => s!"{g}/{r.getD "-"}"
  | none => "nil"
  | _ => "?"

def classify (x : Expr) : String :=
  match eval env x with
  | none => "nil"
  | some e =>
    let fatal := if isFatalErr e then "1" else "0"
    let code := getErr e
    let rt := code.map fun c => fromStatus env.registry env.unknownReason (toStatus c)
    let st := match grpcFromError e with
      | none => "-"
      | some s => s!"{s.grpc}/{s.reason.getD "-"}"
    let ex := exitCode exitCfg (some e)
    let api := ";".intercalate ([Generated.Errs.pipelineErrorArms, Generated.Errs.connectorErrorArms,
        Generated.Errs.processorErrorArms, []].map fun own => statusErrStr (apiStatus (apiCfg own) e))
    let names := sortDedup (sentinelsOf x)
    let hits := names.filter fun n =>
      isErr (if n = "&ValidationError" then .validation else .sentinel n) e
    let isS := if hits.isEmpty then "-" else ",".intercalate hits
    s!"fatal={fatal} code={codeStr code} rt={codeStr rt} st={st} exit={ex} api={api} is={isS}"

def kindsOf (s : String) : Option (List Val) :=
  if s = "-" then some [] else
  s.toList.mapM fun c =>
    if c = 'e' then some (.err (.leaf "")) else if c = 's' ∨ c = 'n' then some .other else none

/-- index of the wrapped argument: arguments are made distinguishable by position. -/
def wrapIndex (fmt : List Nat) (n : Nat) (isErrArg : Nat → Bool) : Option Nat :=
  let args : List Val := (List.range n).map fun i =>
    if isErrArg i then .err (.leaf s!"arg{i}") else .other
  match errorfWraps fmt args with
  | some (.leaf s) => (s.drop 3).toNat?
  | _ => none

def optNat : Option Nat → String
  | none => "-"
  | some n => toString n

end ErrsD

open ErrsD in
def errtreeLine (line : String) : String :=
  if line.startsWith "reg " then
    match words line with
    | [_, r, g] =>
      match g.toNat? with
      | some g => s!"registered={decide ((r, g) ∈ Generated.Errs.registry)}"
      | none => "bad-op"
    | _ => "bad-op"
  else
  match parseExpr line with
  | some x => classify x
  | none => "bad-op"

open ErrsD in
def errfmtLine (line : String) : String :=
  match words line with
  | [f, ks] =>
    match fmtOf f, kindsOf ks with
    | some f, some ks =>
      let isErrArg := fun i => match ks[i]? with | some (.err _) => true | _ => false
      s!"wrap={optNat (wrapIndex f ks.length isErrArg)}"
    | _, _ => "bad-op"
  | _ => "bad-op"

open ErrsD in
/-- `site LOC HEXFMT ARGC`: every argument is a distinct error; which stay reachable in the
result of `cerrors.Errorf`, and the monitor: every `%w` argument must be among them. -/
def errsiteLine (line : String) : String :=
  match words line with
  | ["site", _, f, n] =>
    match fmtOf f, n.toNat? with
    | some f, some n =>
      let args : List Val := (List.range n).map fun i => .err (.leaf s!"arg{i}")
      let res := errorf f args
      let keeps := (List.range n).map fun i => isErr (.sentinel s!"arg{i}") res
      let pw := parsePercentW f
      let lost := pw.ws.filter fun i => i < n && !(keeps.getD i false)
      let prop :=
        if goodSite f n then "ok"
        else if pw.exotic then "unsupported-directive"
        else s!"lost:{natsStr lost}"
      s!"keeps={if n = 0 then "-" else bitsStr keeps} prop={prop}"
    | _, _ => "bad-op"
  | _ => "bad-op"

end Conduit.Driver
