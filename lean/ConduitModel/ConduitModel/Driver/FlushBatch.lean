import ConduitModel.Model.FlushBatch
import ConduitModel.Driver.Util

/-
Driver component `srcbatch`: K real Sources on ONE real Persister, round by round.

  case line:  k=<K> ; <ops (ignored)> ; <trace>
  trace, per flush round (the harness quiesces after every flush):
    a<i>:<p>   engine acked position p of source i (Source.Ack)
    FS<i>      the store Set of source i's state failed in this round's transaction
    FC         the Commit failed
    C:<p0>/<p1>/…   the transaction committed; stored position of every source afterwards (- = none)
    S<i>:<p>   source i's plugin received the ack for p
    |          end of the round

  The expected outcome of a round is `FlushBatch.flushNow .keep` (the shape the theorems of
  Props/C02Batch.lean are about) on the round's batch with the observed per-key results: committed or
  not, the store content, and exactly which acks are delivered. The C02 clause is evaluated on the
  trace itself: a delivered ack must be covered by the stored position of its source.
  result: `ok` | `reject@<round>:<why>` and/or `fail:C02:ack-delivered-before-durable`
-/
namespace Conduit.Driver.FlushBatchD
open Conduit.Driver Conduit.FlushBatch

structure Src where
  hi : Nat := 0              -- last position acked by the engine
  batch : Option Nat := none -- position in the persister's current batch
  store : Nat := 0           -- stored position (0 = none)
  delivered : Nat := 0       -- last position delivered to the plugin
deriving Repr, Inhabited

structure Round where
  fails : List Nat := []
  commitFail : Bool := false
  commit : Option (List Nat) := none
  sacks : List (Nat × Nat) := []
deriving Repr, Inhabited

def parseIdx (s : String) (pre : String) : Option Nat :=
  if s.startsWith pre then (s.drop pre.length).toString.toNat? else none

def posN (s : String) : Option Nat := if s = "-" then some 0 else s.toNat?

/-- `exp` / `obs`: acks expected / observed to have been delivered so far (the delivery goroutines are
concurrent with the harness: a delivery may be logged in a later round than the commit that released
it; what must never happen is a delivery that is not expected by then, and at the end everything
expected has been delivered) -/
partial def runTrace (k : Nat) : List String → Array Src → Round → Nat → List String →
    (exp obs : List (Nat × Nat)) → List String
  | [], _, _, _, out, exp, obs =>
    if exp.all (obs.contains ·) then out else out ++ ["reject@end:expected-acks-not-delivered"]
  | t :: rest, srcs, r, rn, out, exp, obs =>
    if t = "|" then
      -- expected outcome of the round
      let batch : List Entry := (List.range k).filterMap fun i =>
        match (srcs[i]!).batch with
        | some _ => some (i, !(r.fails.contains i))
        | none => none
      if batch.isEmpty then
        let obs := obs ++ r.sacks
        let ok := r.commit.isNone && obs.all (exp.contains ·)
        runTrace k rest srcs {} (rn+1) (if ok then out else out ++ [s!"reject@{rn}:activity-without-batch"]) exp obs
      else
        let res := flushNow .keep batch (!r.commitFail)
        -- expected store and deliveries
        let srcs' := (List.range k).foldl (fun (a : Array Src) i =>
          let s := a[i]!
          match s.batch with
          | some p => if res.committed then a.set! i { s with store := p, batch := none, delivered := s.hi }
                      else a.set! i { s with batch := none }
          | none => a) srcs
        let expSacks : List (Nat × Nat) := (List.range k).flatMap fun i =>
          let s := srcs[i]!
          match s.batch with
          | some _ => if res.cbNil then (List.range (s.hi - s.delivered)).map (fun j => (i, s.delivered + j + 1)) else []
          | none => []
        let expStore := (List.range k).map fun i => (srcs'[i]!).store
        let why :=
          if res.committed != r.commit.isSome then some "commit-outcome"
          else if res.committed && r.commit != some expStore then some "store-content"
          else if !((obs ++ r.sacks).all ((exp ++ expSacks).contains ·)) then some "delivered-acks"
          else none
        -- C02 on the trace itself: delivered ⇒ covered by what the store holds for that source
        let obsStore : List Nat := match r.commit with
          | some st => st
          | none => (List.range k).map fun i => (srcs[i]!).store
        let bad := r.sacks.any fun (i, p) => decide (obsStore.getD i 0 < p)
        let out := match why with | some w => out ++ [s!"reject@{rn}:{w}"] | none => out
        let out := if bad && !out.contains "fail:C02:ack-delivered-before-durable" then out ++ ["fail:C02:ack-delivered-before-durable"] else out
        -- continue from the OBSERVED store (so that one divergence is reported once)
        let srcs'' := match r.commit with
          | some st => (List.range k).foldl (fun (a : Array Src) i => a.set! i { a[i]! with store := st.getD i 0 }) srcs'
          | none => srcs'
        runTrace k rest srcs'' {} (rn+1) out (exp ++ expSacks) (obs ++ r.sacks)
    else if t = "FC" then runTrace k rest srcs { r with commitFail := true } rn out exp obs
    else match parseIdx t "FS" with
    | some i => runTrace k rest srcs { r with fails := i :: r.fails } rn out exp obs
    | none =>
      match t.splitOn ":" with
      | ["C", ps] =>
        match (ps.splitOn "/").mapM posN with
        | some st => runTrace k rest srcs { r with commit := some st } rn out exp obs
        | none => out ++ ["bad-op"]
      | [h, p] =>
        match parseIdx h "a", parseIdx h "S", p.toNat? with
        | some i, _, some p =>
          if i < k ∧ p = (srcs[i]!).hi + 1 then
            runTrace k rest (srcs.set! i { srcs[i]! with hi := p, batch := some p }) r rn out exp obs
          else out ++ ["bad-op"]
        | none, some i, some p => runTrace k rest srcs { r with sacks := (i, p) :: r.sacks } rn out exp obs
        | _, _, _ => out ++ ["bad-op"]
      | _ => out ++ ["bad-op"]

def srcbatchLine (line : String) : String :=
  match line.splitOn ";" with
  | [cfgS, _, trS] =>
    match (words cfgS).filterMap (fun w => parseIdx w "k=") with
    | [k] =>
      let out := runTrace k (words trS) (Array.replicate k {}) {} 0 [] [] []
      if out.contains "bad-op" then "bad-op" else if out.isEmpty then "ok" else ";".intercalate out
    | _ => "bad-op"
  | _ => "bad-op"

end Conduit.Driver.FlushBatchD
