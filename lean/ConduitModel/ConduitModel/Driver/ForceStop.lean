import ConduitModel.Model.ForceStop
import ConduitModel.Driver.Util

/- Driver component `forcestop`: a string over {s,t} (start / stop calls) → per start, is its
context cancelled at the end (bits), `-` when there was no start. -/
namespace Conduit.Driver
open Conduit.ForceStop

def forcestopLine (line : String) : String :=
  let evs : Option (List Ev) := line.trimAscii.toString.toList.mapM fun c =>
    if c = 's' then some Ev.start else if c = 't' then some Ev.stop else none
  match evs with
  | none => "bad-op"
  | some evs =>
    let l := run {} evs
    if l.ctxs.isEmpty then "-" else bitsStr l.ctxs

end Conduit.Driver
