import ConduitModel.Model.Funnel
import ConduitModel.Spec.FunnelMon
import ConduitModel.Driver.Util

/-
Driver component `funnel`: one case = window config, task tree, fan-out order, plugin scripts
and a sequence of source batches; output = the canonical event log of the passes and the result.

  win <size> <thr> | tree S0(P1(D2,D3)) | order 1,0;0,1 | script T1=<reply>;<reply> T2=… | batch 1:1,2:2 | batch …

record   <tag>:<pos>          pos ∈ n (nil) | e (empty) | k ≥ 1
proc reply   comma list of: s<tag>:<pos> | f | x<err> | x- | m[<rec>+<rec>…] | z ;  `-` = empty list
dest reply   ok|w<err> then `/`-separated Ack() responses: E<err> | `-` | <pos>[!<err>],…
-/
namespace Conduit.Driver
open Conduit.Funnel

def parsePos (s : String) : Option PosV :=
  if s = "n" then some none else if s = "e" then some (some 0) else s.toNat?.map some

def parseRec (s : String) : Option Rec :=
  match s.splitOn ":" with
  | [t, p] => do let t ← t.toNat?; let p ← parsePos p; pure { tag := t, pos := p }
  | _ => none

def parseRecs (sep : String) (s : String) : Option (List Rec) :=
  if s = "-" ∨ s = "" then some [] else (s.splitOn sep).mapM parseRec

def parseErr (s : String) : Option Err := s.toNat?.map fun n => { script := some n }

def parsePR (s : String) : Option PR :=
  match s.toList with
  | 's' :: r => (parseRec (String.ofList r)).map .single
  | ['f'] => some .filter
  | ['z'] => some .nil
  | ['x', '-'] => some (.error none)
  | 'x' :: r => (parseErr (String.ofList r)).map fun e => .error (some e)
  | 'm' :: '[' :: r =>
    let body := String.ofList (r.takeWhile (· ≠ ']'))
    (parseRecs "+" body).map .multi
  | _ => none

def parseAck (s : String) : Option (PosV × Option Err) :=
  match s.splitOn "!" with
  | [p] => (parsePos p).map fun p => (p, none)
  | [p, e] => do let p ← parsePos p; let e ← parseErr e; pure (p, some e)
  | _ => none

def parseAckResp (s : String) : Option AckResp :=
  match s.toList with
  | 'E' :: r => (parseErr (String.ofList r)).map .err
  | _ => if s = "-" then some (.acks []) else ((s.splitOn ",").mapM parseAck).map .acks

def parseReply (s : String) : Option Reply :=
  match s.splitOn "/" with
  | [] => none
  | hd :: rest =>
    if hd = "ok" then (rest.mapM parseAckResp).map (.dest none)
    else match hd.toList with
      | 'w' :: r => do let e ← parseErr (String.ofList r); let a ← rest.mapM parseAckResp; pure (.dest (some e) a)
      | _ => if rest.isEmpty then
               (if hd = "-" then some (.proc []) else ((hd.splitOn ",").mapM parsePR).map .proc)
             else none

def parseScript (s : String) : Option (Nat × List Reply) :=
  match s.splitOn "=" with
  | [t, body] =>
    match t.toList with
    | 'T' :: r => do
      let id ← (String.ofList r).toNat?
      let rs ← if body = "" then some [] else (body.splitOn ";").mapM parseReply
      pure (id, rs)
    | _ => none
  | _ => none

/-- tree parser: node := K<id>[ '(' node {',' node} ')' ] -/
partial def parseNode (cs : List Char) : Option (TaskNode × List Char) :=
  match cs with
  | k :: rest =>
    let kind? : Option TaskKind := if k = 'S' then some .source else if k = 'P' then some .proc else if k = 'D' then some .dest else none
    match kind? with
    | none => none
    | some kind =>
      let ds := rest.takeWhile Char.isDigit
      let rest := rest.dropWhile Char.isDigit
      match (String.ofList ds).toNat? with
      | none => none
      | some id =>
        match rest with
        | '(' :: rest =>
          let rec kids (cs : List Char) (acc : List TaskNode) : Option (List TaskNode × List Char) :=
            match parseNode cs with
            | none => none
            | some (n, ',' :: cs') => kids cs' (acc ++ [n])
            | some (n, ')' :: cs') => some (acc ++ [n], cs')
            | _ => none
          match kids rest [] with
          | some (ks, rest) => some (.mk id kind ks, rest)
          | none => none
        | _ => some (.mk id kind [], rest)
  | [] => none

def showPos : PosV → String
  | none => "n" | some 0 => "e" | some k => toString k

def showRec (r : Rec) : String := s!"{r.tag}:{showPos r.pos}"

def showErrO : Option Err → String
  | none => "-"
  | some e => match e.script with | some n => toString n | none => "?"

def showEv : Ev → String
  | .pcall t rs => s!"P{t}[{",".intercalate (rs.map showRec)}]"
  | .write t rs => s!"W{t}[{",".intercalate (rs.map showRec)}]"
  | .dlqw t rs => s!"Q{t}[{",".intercalate (rs.map fun (r, e, k) => s!"{showRec r}!{showErrO e}@{k}")}]"
  | .sack ps => s!"A[{",".intercalate (ps.map showPos)}]"

def showErr (e : Err) : String :=
  s!"err fatal={if e.fatal then 1 else 0} code={e.code.getD "-"} script={match e.script with | some n => toString n | none => "-"}"

structure FCase where
  size : Nat := 0
  thr : Nat := 0
  tree : Option TaskNode := none
  orders : List (List Nat) := []
  scripts : List (Nat × List Reply) := []
  batches : List (List Rec) := []

def parseCase (line : String) : Option FCase := do
  let secs := (line.splitOn "|").map fun s => words s
  let mut c : FCase := {}
  for sec in secs do
    match sec with
    | ["win", a, b] => c := { c with size := ← a.toNat?, thr := ← b.toNat? }
    | ["tree", t] =>
      match parseNode t.toList with
      | some (n, []) => c := { c with tree := some n }
      | _ => none
    | ["order", o] => c := { c with orders := ← (o.splitOn ";").mapM parseNats }
    | "script" :: ss => c := { c with scripts := ← ss.mapM parseScript }
    | ["batch", b] => c := { c with batches := c.batches ++ [← parseRecs "," b] }
    | [] => pure ()
    | _ => none
  pure c

def runCase (c : FCase) (tree : TaskNode) : String :=
  let ps0 : PS := { win := Conduit.Dlq.Win.new c.size c.thr, thr := c.thr, size := c.size, dlqTask := 99,
                    scripts := c.scripts, orders := c.orders }
  let rec go : List (List Rec) → PS → String → String
    | [], ps, _ => " ; ".intercalate (ps.log.toList.map showEv) ++ " => ok"
    | b :: bs, ps, acc =>
      let (res, ps') := (runPass 1000000 tree b).run.run { ps with heap := #[], mas := #[] }
      match res with
      | .ok () => go bs ps' acc
      | .error (.err e) => " ; ".intercalate (ps'.log.toList.map showEv) ++ " => " ++ showErr e
      | .error (.panic _) => " ; ".intercalate (ps'.log.toList.map showEv) ++ " => panic"
  go c.batches ps0 ""

def funnelLine (line : String) : String :=
  if line.startsWith "skip" then "skipped" else
  match parseCase line with
  | some c => match c.tree with
    | some t => runCase c t
    | none => "bad-op"
  | none => "bad-op"

end Conduit.Driver

/-! ## component `funnelmon`: `<case> ## <event log> => <result>` → `ok` | `fail: …` -/
namespace Conduit.Driver
open Conduit.Funnel

def parseBracket (s : String) : Option (String × String) :=
  -- "X12[body]" → ("X12", "body")
  match s.splitOn "[" with
  | [hd, tl] => if tl.endsWith "]" then some (hd, (tl.dropEnd 1).toString) else none
  | _ => none

def parseQ (s : String) : Option (Rec × Option Err × Nat) :=
  match s.splitOn "!" with
  | [r, rest] =>
    match rest.splitOn "@" with
    | [e, t] => do
      let r ← parseRec r
      let t ← t.toNat?
      let e : Option Err := if e = "-" then none else some { script := e.toNat? }
      pure (r, e, t)
    | _ => none
  | _ => none

def parseEv (tok : String) : Option Ev := do
  let (hd, body) ← parseBracket tok
  match hd.toList with
  | 'P' :: r => do pure (.pcall (← (String.ofList r).toNat?) (← parseRecs "," body))
  | 'W' :: r => do pure (.write (← (String.ofList r).toNat?) (← parseRecs "," body))
  | 'Q' :: r => do
    let qs ← if body = "" then some [] else (body.splitOn ",").mapM parseQ
    pure (.dlqw (← (String.ofList r).toNat?) qs)
  | ['A'] => do
    let ps ← if body = "" then some [] else (body.splitOn ",").mapM parsePos
    pure (.sack ps)
  | _ => none

def parseLog (s : String) : Option (List Ev) :=
  let body := (s.splitOn " => ").head!
  let body := body.trimAscii.toString
  if body = "" then some [] else (body.splitOn " ; ").mapM fun t => parseEv t.trimAscii.toString

/-- `T`, `R<k>`, `RE`, `SR`, `SD`, `Z` (stop protocol, component `workerstop`) and every token
starting with `S` (shared-sink protocol, component `sharedsink`: `SN[…]`, `SP[…]`, `SW<d>[…]`,
`SK<d>[…]`, `SZ[…]`) -/
def isStopCtlTok (t : String) : Bool :=
  t = "T" || t.startsWith "S" || t = "Z" || t = "RE" ||
  (t.startsWith "R" && t.length > 1 && (t.drop 1).all Char.isDigit)

def funnelMonLine (line : String) : String :=
  if line.startsWith "skip" then "ok" else
  -- the harness marks two Source.Ack calls of one source being in flight at the same time
  if (line.splitOn "X[overlap]").length > 1 then "fail: C04 overlapping Source.Ack calls (acks to one source must be serialised)" else
  -- graceful-stop runs (component funnelstop): `T` marks the source teardown
  if (line.splitOn "X[late-ack]").length > 1 then
    "fail: C06 ack attempted after the source connector was torn down (a written record is left unacknowledged)" else
  if (line.splitOn "stop-hang").length > 1 || (line.splitOn "X[stop-error]").length > 1 then
    "fail: C06 graceful stop did not complete" else
  -- control tokens of the stop protocol (`T` teardown, `R<k>`/`RE` Read returned batch k / EOF, `SR`/`SD` Stop
  -- requested / returned, `Z` Do returned: component `workerstop` replays them) are not engine events
  let (stopped, line) :=
    match line.splitOn " ## " with
    | [cs, lg] =>
      match lg.splitOn " => " with
      | body :: rest =>
        let toks := (body.splitOn " ; ").map fun (t : String) => t.trimAscii.toString
        (toks.contains "T", cs ++ " ## " ++ " => ".intercalate (" ; ".intercalate (toks.filter fun t => !isStopCtlTok t) :: rest))
      | [] => (false, line)
    | _ => (false, line)
  match line.splitOn " ## " with
  | [cs, lg] =>
    match parseCase cs, parseLog lg with
    | some c, some log =>
      match c.tree with
      | some t =>
        let endOk := (lg.splitOn "=> ok").length > 1
        let extra := if stopped && endOk then Mon.halfHandled t c.scripts c.batches log else []
        match Mon.run t c.scripts c.batches log ++ extra with
        | [] => "ok"
        | vs => "fail: " ++ "; ".intercalate vs
      | none => "bad-op"
    | _, _ => "bad-op"
  | _ => "bad-op"

end Conduit.Driver
