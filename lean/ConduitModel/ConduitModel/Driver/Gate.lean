import ConduitModel.Generated.Gate
import ConduitModel.Model.LockTable
import ConduitModel.Driver.Live

/-
Driver components `locks` and `apigate` (C16).

`locks <seed> <goroutines> <ids> <rounds>`: the harness hammers the REAL `pipelineLocks` with
goroutines released together on never-used ids and counts overlapping per-id sections. The model
side takes the section structure REGENERATED from lock.go, explores every interleaving of two
first-ever callers of one id in the event system (`Model/LockTable.lean`) and prints `overlaps=0`
when none has both callers inside the section (what `C16_apply_lock_mutual_exclusion` proves for
the code's structure), else the schedule.

`gatesearch` / `gate <allow> <dev> <status> <change> <stopOk> <startOk>`: the harness serves the
REAL gRPC API through `Runtime.serveGRPCAPI` under a configuration with the operator flag
`API.AllowLiveRestartApply = allow` and `Dev.Enabled = dev`, and plans + applies a change over
gRPC. The model side is the SPECIFICATION: the handler's authorisation is the operator flag and
nothing else (`applyPlanLive … allow …`). `gatesearch` additionally searches the configuration
space for an assignment on which the regenerated gate expression differs from the flag.
Core-only.
-/
namespace Conduit.Driver
open Conduit.LockTable Conduit.Generated.Gate

/-- depth-first search over the interleavings of callers 0 and 1 for a state with both inside. -/
def exploreOverlap (sys : Sys Nat) : Nat → LockTable.LT Nat → List Nat → Option (List Nat)
  | 0, s, sched => if holdsB s 0 && holdsB s 1 then some sched.reverse else none
  | fuel + 1, s, sched =>
    if holdsB s 0 && holdsB s 1 then some sched.reverse
    else
      let go (c : Nat) : Option (List Nat) :=
        match step sys s c with
        | none => none
        | some s' => exploreOverlap sys fuel s' (c :: sched)
      match go 0 with
      | some r => some r
      | none => go 1

def locksVerdict : String :=
  match shapeOfSegments lockSegments with
  | none => "unknown-section-structure"
  | some shape =>
    let sys : Sys Nat := ⟨shape, fun _ => 7, fun _ x => x + 1⟩
    match exploreOverlap sys (2 * (shape.length + 4) + 1) (LT.init fun _ => 0) [] with
    | none => "overlaps=0"
    | some sched => "overlaps=possible schedule=" ++ ",".intercalate (sched.map toString)

def locksLine (line : String) : String :=
  match words line with
  | "locks" :: _ => locksVerdict
  | _ => "bad-op"

/-- configurations on which the allow flag that reaches `ApplyPlanLive` through the API
(constructor argument → field → handler argument, all regenerated) is not the operator flag. -/
def gateWitnesses : List GateCfg :=
  allGateCfgs.filter fun cfg =>
    (apiGateAt cfg).isEmpty ||
    (apiGateAt cfg).any fun g => apiHandlerPasses (apiCtorStores g) != cfg.API_AllowLiveRestartApply

def gateBase : String := "P1:1:0:2:100:1:0/C11:1:1:1:1(R12:1:1:1:0)/R15:1:1:2:0"

def gateDesired : String → Option String
  | "0" => some gateBase
  | "1" => some "P1:1:0:2:100:1:0/C11:1:1:1:1(R12:1:1:1:0)/R15:1:2:2:0"   -- processor settings: live-eligible
  | "2" => some "P1:1:0:2:100:1:0/C11:1:1:1:2(R12:1:1:1:0)/R15:1:1:2:0"   -- connector settings: restart
  | "3" => some "P1:1:1:2:100:1:0/C11:1:1:1:1(R12:1:1:1:0)/R15:1:1:2:0"   -- description: live-eligible
  | _ => none

def bit (s : String) : Bool := s = "0" || s = "1"

def apigateLine (line : String) : String :=
  match words line with
  | ["gatesearch"] =>
    "00:0 01:0 10:1 11:1 srcgate=" ++
      (match gateWitnesses with
       | [] => "none"
       | ws => ",".intercalate (ws.map GateCfg.show))
  | ["gate", allow, dev, st, ch, so, sa] =>
    match gateDesired ch with
    | none => "bad-op"
    | some d =>
      if !(bit allow && bit dev && bit so && bit sa) then "bad-op" else
      -- the specification: the authorisation is the operator flag, whatever `dev` is
      let l := s!"imp {gateBase};st 1 {st};live {d} {allow} 0 {so} {sa} -"
      let out := liveLine l
      match (out.splitOn " | ").getLast? with
      | none => "bad-op"
      | some last =>
        match last.splitOn "#" with
        | cls :: lg :: _ => cls ++ "#" ++ lg
        | _ => last
  | _ => "bad-op"

end Conduit.Driver
