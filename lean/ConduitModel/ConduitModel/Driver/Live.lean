import ConduitModel.Spec.Live
import ConduitModel.Driver.Prov

/-
Driver component `live` (C16): chain of steps, `;`-separated:
  imp <cfg> [!k] | ss <id> <pos> | st <id> <status>            (as component `import`)
  live <cfg> <allow> <hash> <stopOk> <startOk> <reconf|-> [flip] [!k]
  plan <cfg>                     Plan(cfg): prints the changes, keeps the plan's REAL hash for `<hash> = 2`
  xcu <id> <plugin> <name> <settings> | xru <id> <plugin> <settings> <workers> | xpu <id> <name> <desc>
                                 out-of-band change through the connector / processor / pipeline service
      ApplyPlanLive(cfg, hash, allow): <hash> 0 = the hash of a plan computed just now, 1 = a bogus
      hash, 2 = the hash kept by the last `plan` step (stale iff the plan computed now differs from it
      in any change, config path, live-swappability or in the desired config); lifecycle outcomes scripted:
      StopAndWait / Start succeed iff 1; reconf = comma list per ReconfigureProcessor call
      (0 ok, 1 not-live-reconfigurable, 2 error); `flip` = an external Start sets the pipeline
      running between ApplyPlanLive's first status read and its re-read
Output per live step: <class>#<event log>#<Export after>#<observe>.
-/
namespace Conduit.Driver
open Conduit.Ctl

inductive LStep where
  | p (s : PStep)
  | live (c : PipeCfg) (allow : Bool) (sel : Nat) (env : LiveEnv) (k : Option Nat)
  /-- `Plan(cfg)`: print the changes, remember the plan (hash) for a later `live … 2 …`. -/
  | plan (c : PipeCfg)
  /-- out-of-band change through a service (not through a plan): connector / processor / pipeline update. -/
  | oob (f : Variant → Svc)

def parseBool (s : String) : Option Bool := if s = "1" then some true else if s = "0" then some false else none

def parseSel (s : String) : Option Nat := if s = "0" then some 0 else if s = "1" then some 1 else if s = "2" then some 2 else none

def parseLStep (s : String) : Option LStep :=
  match words s with
  | ["plan", c] => (parseCfg c).map .plan
  | ["xcu", i, pl, n, st] => do
    let i ← i.toNat?; let pl ← pl.toNat?; let n ← n.toNat?; let st ← st.toNat?
    pure (.oob fun v => svcCnUpdate v i pl n st)
  | ["xru", i, pl, st, w] => do
    let i ← i.toNat?; let pl ← pl.toNat?; let st ← st.toNat?; let w ← parseInt w
    pure (.oob fun v => svcPrUpdate v i pl st w)
  | ["xpu", i, n, d] => do
    let i ← i.toNat?; let n ← n.toNat?; let d ← d.toNat?
    pure (.oob fun v => svcPlUpdate v i n d)
  | "live" :: c :: a :: st :: so :: sa :: rc :: rest0 => do
    let flip := rest0.head? = some "flip"
    let rest := if flip then rest0.drop 1 else rest0
    let k ← match rest with
      | [] => some none
      | [k] => if k.startsWith "!" then (k.drop 1).toString.toNat?.map (fun n => if n = 0 then none else some n) else none
      | _ => none
    let script ← if rc = "-" then some [] else (rc.splitOn ",").mapM String.toNat?
    pure (.live (← parseCfg c) (← parseBool a) (← parseSel st)
      { stopOk := ← parseBool so, startOk := ← parseBool sa, reconf := script, becomesRunning := flip } k)
  | _ => (parsePStep s).map .p

def liveRun (v : Variant) (kept : Option PlanView) : St → Nat → List LStep → List String → Option String → List String × Option String
  | _, _, [], outs, mon => (outs.reverse, mon)
  | s, i, .p (.env op) :: rest, outs, mon =>
    let r := exec v s op none
    let s' := { r.2 with next := idUniverse }
    liveRun v kept s' (i + 1) rest ((errStr r.1 ++ "#" ++ observe s') :: outs) mon
  | s, i, .plan c :: rest, outs, mon =>
    let fv := freshView v s.mem c
    liveRun v fv s (i + 1) rest (viewStr fv :: outs) mon
  | s, i, .oob f :: rest, outs, mon =>
    let r := (f v).run { s with ctr := 0, failAt := none }
    let s' := { r.2 with ctr := 0, next := idUniverse }
    liveRun v kept s' (i + 1) rest ((errStr r.1 ++ "#" ++ observe s') :: outs) mon
  | s, i, .p (.imp c k) :: rest, outs, mon =>
    let before := showPlan v s.mem c
    let r := applyPlan v c { s with ctr := 0, failAt := k }
    let s' := { r.2 with ctr := 0, failAt := none, next := idUniverse }
    let out := errStr r.1 ++ "#" ++ before ++ "#" ++ showExport v s'.mem c.id ++ "#" ++ showPlan v s'.mem c ++ "#" ++ observe s'
    liveRun v kept s' (i + 1) rest (out :: outs) mon
  | s, i, .live c allow sel env k :: rest, outs, mon =>
    let r := applyPlanLive v c (presentedPlan v s.mem c sel kept) allow env { s with ctr := 0, failAt := k }
    let s' := { r.2.1 with ctr := 0, failAt := none, next := idUniverse }
    let mon := match mon with
      | some m => some m
      | none => (liveMonitor v s c allow sel kept env k).map fun why =>
          if why = "scope-end" then why else s!"{why}!{match k with | some n => toString n | none => "-"}@{i}"
    let out := errStr r.1 ++ "#" ++ logStr r.2.2 ++ "#" ++ showExport v s'.mem c.id ++ "#" ++ observe s'
    liveRun v kept s' (i + 1) rest (out :: outs) mon

def liveLine (line : String) : String :=
  match (line.splitOn ";").mapM parseLStep with
  | none => "bad-op"
  | some steps =>
    let (outs, mon) := liveRun genVariant none { St.init with next := idUniverse } 0 steps [] none
    " | ".intercalate outs ++
      (match mon with | none => " mon=ok" | some m => if m = "scope-end" then " mon=ok" else " mon=FAIL:" ++ m)

end Conduit.Driver
