import ConduitModel.Spec.Live
import ConduitModel.Driver.Prov

/-
Driver component `live` (C16): chain of steps, `;`-separated:
  imp <cfg> [!k] | ss <id> <pos> | st <id> <status>            (as component `import`)
  live <cfg> <allow> <stale> <stopOk> <startOk> <reconf|-> [flip] [!k]
      ApplyPlanLive(cfg, hash, allow): `stale` = present a wrong hash; lifecycle outcomes scripted:
      StopAndWait / Start succeed iff 1; reconf = comma list per ReconfigureProcessor call
      (0 ok, 1 not-live-reconfigurable, 2 error); `flip` = an external Start sets the pipeline
      running between ApplyPlanLive's first status read and its re-read
Output per live step: <class>#<event log>#<Export after>#<observe>.
-/
namespace Conduit.Driver
open Conduit.Ctl

inductive LStep where
  | p (s : PStep)
  | live (c : PipeCfg) (allow stale : Bool) (env : LiveEnv) (k : Option Nat)

def parseBool (s : String) : Option Bool := if s = "1" then some true else if s = "0" then some false else none

def parseLStep (s : String) : Option LStep :=
  match words s with
  | "live" :: c :: a :: st :: so :: sa :: rc :: rest0 => do
    let flip := rest0.head? = some "flip"
    let rest := if flip then rest0.drop 1 else rest0
    let k ← match rest with
      | [] => some none
      | [k] => if k.startsWith "!" then (k.drop 1).toString.toNat?.map (fun n => if n = 0 then none else some n) else none
      | _ => none
    let script ← if rc = "-" then some [] else (rc.splitOn ",").mapM String.toNat?
    pure (.live (← parseCfg c) (← parseBool a) (← parseBool st)
      { stopOk := ← parseBool so, startOk := ← parseBool sa, reconf := script, becomesRunning := flip } k)
  | _ => (parsePStep s).map .p

def liveRun (v : Variant) : St → Nat → List LStep → List String → Option String → List String × Option String
  | _, _, [], outs, mon => (outs.reverse, mon)
  | s, i, .p (.env op) :: rest, outs, mon =>
    let r := exec v s op none
    let s' := { r.2 with next := idUniverse }
    liveRun v s' (i + 1) rest ((errStr r.1 ++ "#" ++ observe s') :: outs) mon
  | s, i, .p (.imp c k) :: rest, outs, mon =>
    let before := showPlan v s.mem c
    let r := applyPlan v c { s with ctr := 0, failAt := k }
    let s' := { r.2 with ctr := 0, failAt := none, next := idUniverse }
    let out := errStr r.1 ++ "#" ++ before ++ "#" ++ showExport v s'.mem c.id ++ "#" ++ showPlan v s'.mem c ++ "#" ++ observe s'
    liveRun v s' (i + 1) rest (out :: outs) mon
  | s, i, .live c allow stale env k :: rest, outs, mon =>
    let r := applyPlanLive v c (presentedPlan v s.mem c stale) allow env { s with ctr := 0, failAt := k }
    let s' := { r.2.1 with ctr := 0, failAt := none, next := idUniverse }
    let mon := match mon with
      | some m => some m
      | none => (liveMonitor v s c allow stale env k).map fun why =>
          if why = "scope-end" then why else s!"{why}!{match k with | some n => toString n | none => "-"}@{i}"
    let out := errStr r.1 ++ "#" ++ logStr r.2.2 ++ "#" ++ showExport v s'.mem c.id ++ "#" ++ observe s'
    liveRun v s' (i + 1) rest (out :: outs) mon

def liveLine (line : String) : String :=
  match (line.splitOn ";").mapM parseLStep with
  | none => "bad-op"
  | some steps =>
    let (outs, mon) := liveRun genVariant { St.init with next := idUniverse } 0 steps [] none
    " | ".intercalate outs ++
      (match mon with | none => " mon=ok" | some m => if m = "scope-end" then " mon=ok" else " mon=FAIL:" ++ m)

end Conduit.Driver
