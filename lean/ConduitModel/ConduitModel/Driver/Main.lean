import ConduitModel.Driver.Dlq
import ConduitModel.Driver.Funnel
import ConduitModel.Driver.Arbiter
import ConduitModel.Driver.Ctl
import ConduitModel.Driver.Prov
import ConduitModel.Driver.Live
import ConduitModel.Driver.Gate
import ConduitModel.Driver.Errs
import ConduitModel.Driver.Egress
import ConduitModel.Driver.ErrPaths
import ConduitModel.Driver.AckErr
import ConduitModel.Driver.ProcSvc
import ConduitModel.Driver.TreeBuild
import ConduitModel.Driver.Rebuild
import ConduitModel.Driver.Registry
import ConduitModel.Driver.Codec
import ConduitModel.Driver.Lifecycle
import ConduitModel.Driver.ForceStop
import ConduitModel.Driver.ProcNode
import ConduitModel.Driver.SrcAck
import ConduitModel.Driver.Stream
import ConduitModel.Driver.WorkerStop
import ConduitModel.Driver.SharedSink
import ConduitModel.Driver.FlushBatch

/-
`driver <component>` : reads cases from stdin (one per line), writes one result line per case.
Core-only (no Mathlib anywhere below this file) so that it links as a native executable.
-/
open Conduit.Driver

def component (name : String) : Option (String → String) :=
  match name with
  | "dlqwindow" => some dlqLine
  | "funnel" => some funnelLine
  | "funnelmon" => some funnelMonLine
  | "arbiter" => some arbiterLine
  | "crud" => some crudLine
  | "import" => some importLine
  | "live" => some liveLine
  | "locks" => some locksLine
  | "apigate" => some apigateLine
  | "errtree" => some errtreeLine
  | "errfmt" => some errfmtLine
  | "errsite" => some errsiteLine
  | "egress" => some egressLine
  | "workernack" => some workernackLine
  | "ackerr" => some ackerrLine
  | "procsvc" => some procsvcLine
  | "b64" => some b64Line
  | "jsonstr" => some jsonstrLine
  | "storedoc" => some storedocLine
  | "golden" => some goldenLine
  | "pre041" => some pre041Line
  | "oldstore" => some oldstoreLine
  | "resume" => some resumeLine
  | "pathclean" => some pathcleanLine
  | "extract" => some extractLine
  | "extractbig" => some extractLine
  | "corruption" => some corruptionLine
  | "install" => some installLine
  | "hwmseq" => some hwmseqLine
  | "hwmconc" => some hwmconcLine
  | "atomicfile" => some atomicfileLine
  | "atomickill" => some atomicfileLine
  | "lifecycle" => some lifecycleLine
  | "forcestop" => some forcestopLine
  | "procnode" => some procnodeLine
  | "srcack" => some SrcAckD.srcackLine
  | "condmerge" => some StreamD.condMergeLine
  | "pipe" => some StreamD.pipeLine
  | "workerstop" => some WorkerStopD.workerstopLine
  | "treeshape" => some TreeBuildD.treeshapeLine
  | "appendtoend" => some TreeBuildD.appendtoendLine
  | "sharedsink" => some SharedSinkD.sharedsinkLine
  | "rebuild" => some RebuildD.rebuildLine
  | "srcbatch" => some FlushBatchD.srcbatchLine
  | _ => none

partial def loop (h : IO.FS.Stream) (out : IO.FS.Stream) (f : String → String) : IO Unit := do
  let line ← h.getLine
  if line.isEmpty then return ()
  let l := (line.dropEndWhile (fun c => c = '\n' || c = '\r')).toString
  out.putStrLn (f l)
  loop h out f

def main (args : List String) : IO UInt32 := do
  match args with
  | [name] =>
    match component name with
    | some f =>
      let stdin ← IO.getStdin
      let stdout ← IO.getStdout
      loop stdin stdout f
      stdout.flush
      return 0
    | none => IO.eprintln s!"unknown component {name}"; return 2
  | _ => IO.eprintln "usage: driver <component>"; return 2
