import ConduitModel.Model.ProcNode
import ConduitModel.Spec.ProcNode
import ConduitModel.Driver.Util
import Std.Data.HashSet

/-
Driver component `procnode`: trace acceptance for `stream.ProcessorNode` with live reconfiguration.

A case line is `<script> | <trace>`; the script (what the harness executed) is ignored here, the trace is a
space-separated token list recorded by `harness/cmd/h_procnode` from one run of the real node.

Token classes (who writes them and what they mean for the model):

  permissions — written by the harness main goroutine BEFORE it acts; they enable internal (unobserved) steps
    B           Run goroutine started
    F<i> Fx<i>  about to send record i on `in` (x: the message arrives already filtered)
    C<r>        about to call Reconfigure for request r (processor r) on its own goroutine
    X<r>        about to cancel the context of request r
    K  Z        about to cancel Run's context / close `in`
    D           about to receive from the node's out channel
  exact steps — written on the Run goroutine inside the fake processor / the nack handler, i.e. within the step
    o<g>+ o<g>- Open called on processor g (succeeds / fails)
    p<g>.<i>    Process entered on processor g with record i
    q<i><k>     Process returns for record i with kind k ∈ s c f e m u w
    t<g>r t<g>p TeardownForReconfigure / plain Teardown called on processor g
    n<i>+ n<i>- nack handler of record i called (returns nil / an error)
  observations — written by the harness main goroutine AFTER it noticed a stable fact (or, for S, while holding swapMu)
    f<i>        the send of record i on `in` completed (marker for the trace monitor only: the receive is folded
                into `p<g>.<i>` / the internal pass-through receive, which may be logged after it)
    d<i>.<g>.<k> received record i from out; stamp g (or -), k ∈ s f x ;  d- : out is closed
    a<i>        the upstream ack handler of record i ran (harness acked it downstream)
    r<r>=<c>    Reconfigure r returned c ∈ o e j c  (ok, open error, rejected busy, cancelled)
    S1 S0       n.pending != nil / == nil, read and logged while holding swapMu
    e=<c>       Run returned c ∈ n c e  (nil, ctx error, other error)

Acceptance is a subset construction: a set of model states, closed under the internal steps the permissions
allow, advanced by each exact step and filtered by each observation. `ok` iff the set never becomes empty and
the monitors hold; `reject@k:<tok>` names the first token no candidate state enables.
-/
namespace Conduit.Driver.ProcNode
open Conduit.Model.ProcNode Conduit.Driver

inductive Tok
  | B | K | Z | D
  | F (i : Nat) (pre : Bool)
  | C (r : Nat)
  | X (r : Nat)
  | o (g : Nat) (ok : Bool)
  | p (g i : Nat)
  | q (i : Nat) (k : Kind)
  | t (g : Nat) (plain : Bool)
  | n (i : Nat) (ok : Bool)
  | f (i : Nat)
  | d (i : Nat) (g : Option Nat) (k : Fwd)
  | dClosed
  | a (i : Nat)
  | r (r : Nat) (res : Res)
  | S (staged : Bool)
  | e (c : ExitC)
deriving Repr, DecidableEq

def kindOf : Char → Option Kind
  | 's' => some .single | 'c' => some .posChanged | 'f' => some .filter | 'e' => some .error
  | 'm' => some .multi | 'u' => some .unknown | 'w' => some .wrongCount | _ => none

def signOf : Char → Option Bool
  | '+' => some true | '-' => some false | _ => none

def natOf (cs : List Char) : Option Nat :=
  if cs.isEmpty then none else (String.ofList cs).toNat?

/-- split `cs` at its last character. -/
def unsnoc (cs : List Char) : Option (List Char × Char) :=
  match cs.reverse with
  | [] => none
  | c :: r => some (r.reverse, c)

def parseTok (s : String) : Option Tok :=
  match s.toList with
  | ['B'] => some .B
  | ['K'] => some .K
  | ['Z'] => some .Z
  | ['D'] => some .D
  | ['S', '1'] => some (.S true)
  | ['S', '0'] => some (.S false)
  | ['d', '-'] => some .dClosed
  | ['e', '=', 'n'] => some (.e .clean)
  | ['e', '=', 'c'] => some (.e .ctx)
  | ['e', '=', 'e'] => some (.e .err)
  | 'F' :: 'x' :: r => (natOf r).map (Tok.F · true)
  | 'F' :: r => (natOf r).map (Tok.F · false)
  | 'C' :: r => (natOf r).map Tok.C
  | 'X' :: r => (natOf r).map Tok.X
  | 'f' :: r => (natOf r).map Tok.f
  | 'a' :: r => (natOf r).map Tok.a
  | 'o' :: r => do let (ds, c) ← unsnoc r; let b ← signOf c; let g ← natOf ds; pure (.o g b)
  | 'n' :: r => do let (ds, c) ← unsnoc r; let b ← signOf c; let i ← natOf ds; pure (.n i b)
  | 'q' :: r => do let (ds, c) ← unsnoc r; let k ← kindOf c; let i ← natOf ds; pure (.q i k)
  | 't' :: r => do
      let (ds, c) ← unsnoc r
      let g ← natOf ds
      if c = 'r' then pure (.t g false) else if c = 'p' then pure (.t g true) else none
  | 'p' :: r =>
      match (String.ofList r).splitOn "." with
      | [g, i] => do pure (.p (← g.toNat?) (← i.toNat?))
      | _ => none
  | 'd' :: r =>
      match (String.ofList r).splitOn "." with
      | [i, g, k] => do
          let i ← i.toNat?
          let g ← (if g = "-" then some none else g.toNat?.map some)
          let k ← (match k with | "s" => some Fwd.single | "f" => some Fwd.filtered | "x" => some Fwd.passthrough | _ => none)
          pure (.d i g k)
      | _ => none
  | 'r' :: r =>
      match (String.ofList r).splitOn "=" with
      | [q, c] => do
          let q ← q.toNat?
          let c ← (match c with | "o" => some Res.ok | "e" => some Res.openErr | "j" => some Res.rejected | "c" => some Res.cancelled | _ => none)
          pure (.r q c)
      | _ => none
  | _ => none

/-- what the harness has permitted so far. -/
structure Perms where
  started : Bool := false
  fed     : List (Nat × Bool) := []
  calls   : List Nat := []
  active  : List Nat := []   -- calls whose return has not been observed yet
  cancels : List Nat := []
  stopK   : Bool := false
  closeZ  : Bool := false
  reads   : Nat := 0

/-- finite, comparable image of a state (requests restricted to those the trace mentions). -/
structure Snap where
  pc : Pc
  cur : Nat
  pending : Option Nat
  wake : Bool
  cst : List CSt
  done : List (Option Res)
  nextIn : Nat
  log : List Stamp
  hist : List Nat
  outc : List Outcome
  opened : List Nat
  torn : List (Nat × Bool)
  instRunning : Bool
  claimed : List Nat
  withdrawn : List Nat
  exitc : Option ExitC
deriving DecidableEq

/-- cheap hash over the small fields (the history lists are compared only on a hash match). -/
instance : Hashable Snap where
  hash k := mixHash (hash k.pc) <| mixHash (hash k.cur) <| mixHash (hash k.pending) <| mixHash (hash k.wake) <|
    mixHash (hash k.cst) <| mixHash (hash k.done) <| mixHash (hash k.nextIn) <| mixHash (hash k.hist.length) <|
    mixHash (hash k.torn.length) <| mixHash (hash k.claimed) <| mixHash (hash k.withdrawn) (hash k.exitc)

def snap (reqs : List Nat) (s : State) : Snap :=
  { pc := s.pc, cur := s.cur, pending := s.pending, wake := s.wake, cst := reqs.map s.cst, done := reqs.map s.done,
    nextIn := s.nextIn, log := s.log, hist := s.hist, outc := s.outc, opened := s.opened, torn := s.torn,
    instRunning := s.instRunning, claimed := s.claimed, withdrawn := s.withdrawn, exitc := s.exitc }

def fwdCount (s : State) : Nat := (s.outc.filter (·.fate = .forwarded)).length

/-- internal events the permissions allow in state `s` (each is then tried through `step`). -/
def tauEvents (P : Perms) (s : State) : List Event :=
  (if P.started then
    [Event.claim, .deliver, .wakeRecv]
    ++ (if P.fed.contains (s.nextIn, true) then [Event.recvPre s.nextIn] else [])
    ++ (if P.closeZ then [Event.inClosed] else [])
    ++ (if P.stopK then [Event.ctxDone, .sendCtxDone] else [])
    ++ (if fwdCount s < P.reads then [Event.sendOk] else [])
   else [])
  ++ P.active.flatMap (fun r => [Event.stage r, .wakeSend r, .doneRecv r])
  ++ (P.cancels.filter P.active.contains).map Event.cancel

abbrev Seen := Std.HashSet Snap

def insertNew (reqs : List Nat) (seen : Seen) (acc : List State) (s : State) : Seen × List State :=
  let k := snap reqs s
  if seen.contains k then (seen, acc) else (seen.insert k, s :: acc)

/-- breadth-first closure under internal steps; `fuel` bounds the number of rounds. -/
def closure (P : Perms) (fuel : Nat) (seen : Seen) (frontier all : List State) : List State :=
  match fuel with
  | 0 => all
  | fuel + 1 =>
    if frontier.isEmpty then all else
    let (seen', next) := frontier.foldl (fun (acc : Seen × List State) s =>
        (tauEvents P s).foldl (fun acc ev =>
          match step s ev with
          | some s' => insertNew P.calls acc.1 acc.2 s'
          | none => acc) acc) (seen, [])
    closure P fuel seen' next (next ++ all)

def close (P : Perms) (ss : List State) : List State :=
  let (seen, uniq) := ss.foldl (fun (acc : Seen × List State) s => insertNew P.calls acc.1 acc.2 s) (({} : Seen), [])
  closure P 200 seen uniq uniq

/-- exact loop-side token → the model event it is, given the state. -/
def exactEvent (s : State) : Tok → Option Event
  | .o g ok => if s.pc = .init then (if g = s.cur then some (.runOpen ok) else none) else some (.openNew g ok)
  | .p g i => some (.procCall g i)
  | .q i k => if s.pc = .processing i then some (.procRet k) else none
  | .t g false => some (.teardownRc g)
  | .t g true => some (.finalTeardown g)
  | .n i ok => (match s.pc with | .nacking j _ _ => if i = j then some (.nack ok) else none | _ => none)
  | _ => none

/-- observation tokens → predicate on candidate states. -/
def observe (s : State) : Tok → Bool
  | .d i g k =>
      s.outc.any (fun o => o.idx = i ∧ o.fate = .forwarded ∧ o.fwd = k) &&
      (match k, g with
       | .single, some g => s.log.any (fun st => st.idx = i ∧ st.gen = g)
       | .single, none => false
       | _, some _ => false
       | _, none => true)
  | .dClosed => decide (s.pc = .exited)
  | .r q res => decide (s.cst q = .returned res)
  | .S b => decide (s.pending.isSome = b)
  | .e c => decide (s.pc = .exited ∧ s.exitc = some c)
  | _ => true

def applyPerm (P : Perms) : Tok → Option Perms
  | .B => some { P with started := true }
  | .K => some { P with stopK := true }
  | .Z => some { P with closeZ := true }
  | .D => some { P with reads := P.reads + 1 }
  | .F i pre => some { P with fed := (i, pre) :: P.fed }
  | .C r => if P.calls.contains r then none else some { P with calls := r :: P.calls, active := r :: P.active }
  | .X r => some { P with cancels := r :: P.cancels }
  | _ => none

def isExact : Tok → Bool
  | .o .. | .p .. | .q .. | .t .. | .n .. => true
  | _ => false

/-- advance the candidate set by one token. -/
def advance (P : Perms) (ss : List State) (tk : Tok) : Perms × List State :=
  match applyPerm P tk with
  | some P' => (P', close P' ss)
  | none =>
    if isExact tk then
      let ok := match tk with
        | .p _ i => P.fed.contains (i, false) && P.started
        | _ => P.started
      let next := if ok then ss.filterMap (fun s => (exactEvent s tk).bind (step s)) else []
      (P, close P next)
    else
      match tk with
      | .a _ => (P, ss)
      | .r q _ =>
        let P' := { P with active := P.active.filter (· != q) }
        (P', close P' (ss.filter (observe · tk)))
      | _ => (P, close P (ss.filter (observe · tk)))

/-! The state monitor is `Conduit.Model.ProcNode.C13.monitor` (Spec/ProcNode.lean), proved to hold in every
reachable model state by `C13_monitor_holds`. -/

/-! ### trace-level monitors (independent of the model: folds over the tokens) -/

structure TM where
  procd   : List (Nat × Nat) := []   -- (record, gen) of `p`, newest first
  gens    : List Nat := []           -- distinct gens in order of first use, newest first
  outs    : List Nat := []           -- records with an outcome (d or n), newest first
  dels    : List Nat := []           -- forwarded records (d), newest first
  acks    : List Nat := []
  fedDone : List Nat := []
  openOk  : List Nat := []
  openBad : List Nat := []
  plainTd : Bool := false
  exited  : Bool := false
  bad     : Option String := none

def TM.fail (m : TM) (why : String) : TM := if m.bad.isSome then m else { m with bad := some why }

def tmStep (m : TM) : Tok → TM
  | .p g i =>
    let m := if m.plainTd then m.fail "step-after-final-teardown" else m
    let m := if m.procd.any (·.1 = i) then m.fail "record-processed-twice" else m
    let m := if m.procd.any (fun x => decide (i ≤ x.1)) then m.fail "process-order" else m
    let m := if m.openBad.contains g then m.fail "failed-processor-used" else m
    let m := match m.gens with
      | g' :: rest => if g = g' then m else if rest.contains g then m.fail "generation-not-monotone" else { m with gens := g :: m.gens }
      | [] => { m with gens := [g] }
    { m with procd := (i, g) :: m.procd }
  | .o g true => (if m.plainTd then m.fail "step-after-final-teardown" else m) |> fun m => { m with openOk := g :: m.openOk }
  | .o g false => (if m.plainTd then m.fail "step-after-final-teardown" else m) |> fun m => { m with openBad := g :: m.openBad }
  | .t _ true => if m.plainTd then m.fail "plain-teardown-twice" else { m with plainTd := true }
  | .t _ false => if m.plainTd then m.fail "step-after-final-teardown" else m
  | .d i g k =>
    let m := if m.outs.contains i then m.fail "record-two-outcomes" else m
    let m := if m.outs.any (fun j => decide (i ≤ j)) then m.fail "records-reordered" else m
    let m := match k, g with
      | .single, some g => if m.procd.contains (i, g) then m else m.fail "stamp-mismatch"
      | _, _ => m
    { m with outs := i :: m.outs, dels := i :: m.dels }
  | .n i _ =>
    let m := if m.outs.contains i then m.fail "record-two-outcomes" else m
    let m := if m.outs.any (fun j => decide (i ≤ j)) then m.fail "records-reordered" else m
    { m with outs := i :: m.outs }
  | .a i =>
    let m := if m.dels.contains i && !m.acks.contains i then m else m.fail "ack-without-delivery-or-twice"
    { m with acks := i :: m.acks }
  | .f i => { m with fedDone := i :: m.fedDone }
  | .r q .ok => if m.openOk.contains q then m else m.fail "ok-without-successful-open"
  | .r q .openErr => if m.openBad.contains q then m else m.fail "open-error-without-failed-open"
  | .r q .rejected => if m.openOk.contains q || m.openBad.contains q then m.fail "rejected-request-opened" else m
  | .e _ => { m with exited := true }
  | _ => m

def tmFinal (m : TM) : Option String :=
  match m.bad with
  | some w => some w
  | none =>
    if m.exited && !m.fedDone.all (m.outs.contains ·) then some "record-dropped"
    else if m.exited && !m.plainTd then some "no-final-teardown"
    else none

/-- fold the trace; returns the canonical result line. -/
def runTrace (toks : List Tok) (raw : List String) : String :=
  let rec go (k : Nat) (P : Perms) (ss : List State) : List Tok → List String → String
    | [], _ =>
      match ss.findSome? (C13.monitor P.calls) with
      | some w => s!"fail:{w}"
      | none =>
        match tmFinal (toks.foldl tmStep {}) with
        | some w => s!"fail:trace-{w}"
        | none => "ok"
    | tk :: rest, rw =>
      let (P', ss') := advance P ss tk
      if ss'.isEmpty then s!"reject@{k}:{rw.headD "?"}"
      else go (k + 1) P' ss' rest rw.tail
  go 0 {} [init] toks raw

def procnodeLine (line : String) : String :=
  let tr := match line.splitOn "|" with
    | [_, t] => some t
    | [t] => some t
    | _ => none
  match tr with
  | none => "bad-op"
  | some t =>
    let ws := words t
    match ws.mapM parseTok with
    | none => "bad-op"
    | some toks => runTrace toks ws

end Conduit.Driver.ProcNode

namespace Conduit.Driver
def procnodeLine (line : String) : String := ProcNode.procnodeLine line
end Conduit.Driver
