import ConduitModel.Driver.ProcNode
import ConduitModel.Model.ProcSvc
import ConduitModel.Generated.ProcSvc

/-
Driver component `procsvc`: traces of the real `lifecycle.Service.ReconfigureProcessor` driving the real
`stream.ProcessorNode` (harness/cmd/h_procnode, component `procsvc`).

The trace vocabulary is that of `procnode` plus
    T<g>        the plugin of runnable g was torn down ON THE API GOROUTINE, inside ReconfigureProcessor
                (t<g>r / t<g>p remain the node's own teardowns on the Run goroutine).
Acceptance: the node part (all tokens but T) must be accepted by the `procnode` acceptor; a `T<g>` is a
`svcTeardown g` step of `Model/ProcSvc.lean`, enabled only when the regenerated source fact
`svcTearsDownAfterReconfigure` is true and the request's Reconfigure has returned an error. On top, the C13
monitor of the service level: every Process call is served by a live processor and the processor a
successful Open installs is torn down by the node only.
-/
namespace Conduit.Driver.ProcSvc
open Conduit.Driver.ProcNode Conduit.Model.ProcNode

def parseT (s : String) : Option Nat :=
  match s.toList with
  | 'T' :: r => natOf r
  | _ => none

structure SM where
  svcTorn  : List Nat := []      -- T<g> seen
  nodeTorn : List Nat := []      -- t<g>r / t<g>p seen
  openedOk : List Nat := []
  failedRet : List Nat := []     -- requests whose Reconfigure returned an error (r<q>=e|j|c)
  bad      : Option String := none

def SM.fail (m : SM) (w : String) : SM := if m.bad.isSome then m else { m with bad := some w }

def smStep (tdOnError : Bool) (k : Nat) (m : SM) (raw : String) : SM :=
  match parseT raw with
  | some g =>
    -- the model step `svcTeardown g`
    let m := if !tdOnError then m.fail s!"reject@{k}:{raw}" else m
    let m := if m.openedOk.contains g ∧ !m.nodeTorn.contains g then m.fail "installed-processor-torn-down-by-service" else m
    { m with svcTorn := g :: m.svcTorn }
  | none =>
    match parseTok raw with
    | some (.o g true) =>
      let m := if m.svcTorn.contains g then m.fail "service-torn-down-processor-installed" else m
      { m with openedOk := g :: m.openedOk }
    | some (.p g _) => if m.svcTorn.contains g then m.fail "record-processed-by-torn-down-processor" else m
    | some (.t g _) => { m with nodeTorn := g :: m.nodeTorn }
    | _ => m

def procsvcLine (line : String) : String :=
  let tr := match line.splitOn "|" with
    | [_, t] => some t
    | [t] => some t
    | _ => none
  match tr with
  | none => "bad-op"
  | some t =>
    let ws := Conduit.Driver.words t
    let nodeWs := ws.filter fun w => (parseT w).isNone
    match nodeWs.mapM parseTok with
    | none => "bad-op"
    | some toks =>
      -- service layer first: its verdict names the token of the wrapper step
      let tdOnError := Conduit.Generated.ProcSvc.svcTearsDownAfterReconfigure
      let m := (ws.zipIdx).foldl (fun m (w, k) => smStep tdOnError k m w) ({} : SM)
      match m.bad with
      | some w => if w.startsWith "reject@" then w else s!"fail:{w}"
      | none => runTrace toks nodeWs

end Conduit.Driver.ProcSvc

namespace Conduit.Driver
def procsvcLine (line : String) : String := ProcSvc.procsvcLine line
end Conduit.Driver
