import ConduitModel.Spec.Prov
import ConduitModel.Driver.Ctl

/-
Driver component `import` (C15): a case line is a chain of steps, `;`-separated:
  imp <cfg> [!k]     Plan(cfg) then ApplyPlan(cfg, fresh hash); the k-th store operation fails
  ss <id> <pos>      connector position written (what the persister does)
  st <id> <status>   pipeline status written (what lifecycle does)
<cfg> = P<id>:<name>:<desc>:<dlqplugin>:<dlqsettings>:<ws>:<thr>{/C<id>:<typ>:<plugin>:<name>:<settings>(R…,R…)}{/R<id>:<plugin>:<settings>:<workers>:<cond>}
Output per imp step: <class>#<changes planned before>#<Export after>#<changes planned after>#<observe>,
per env step <class>#<observe>; then ` mon=ok` / ` mon=FAIL:<clause>!<k>@<index>`.
The id universe for printing is `[0, 1000)`.
-/
namespace Conduit.Driver
open Conduit.Ctl

def splitColon (s : String) : List String := s.splitOn ":"

def parseProc (s : String) : Option ProcCfg :=
  match s.toList with
  | 'R' :: r =>
    match splitColon (String.ofList r) with
    | [i, pl, st, w, c] => do
      pure { id := ← i.toNat?, plugin := ← pl.toNat?, settings := ← st.toNat?, workers := ← parseInt w, cond := ← c.toNat? }
    | _ => none
  | _ => none

def parseConn (s : String) : Option ConnCfg :=
  match s.toList with
  | 'C' :: r =>
    let body := String.ofList r
    match body.splitOn "(" with
    | [hd, tl] =>
      let inner := (tl.dropEndWhile (· = ')')).toString
      let procs := if inner = "" then some [] else (inner.splitOn ",").mapM parseProc
      match splitColon hd, procs with
      | [i, t, pl, n, st], some ps => do
        pure { id := ← i.toNat?, typ := ← t.toNat?, plugin := ← pl.toNat?, name := ← n.toNat?, settings := ← st.toNat?, procs := ps }
      | _, _ => none
    | _ => none
  | _ => none

def parseCfg (s : String) : Option PipeCfg :=
  match s.splitOn "/" with
  | [] => none
  | hd :: rest =>
    match hd.toList with
    | 'P' :: r =>
      match splitColon (String.ofList r) with
      | [i, n, d, dp, ds, ws, thr] => do
        let conns ← (rest.filter (·.startsWith "C")).mapM parseConn
        let procs ← (rest.filter (·.startsWith "R")).mapM parseProc
        if (rest.all fun e => e.startsWith "C" || e.startsWith "R") then
          pure { id := ← i.toNat?, name := ← n.toNat?, desc := ← d.toNat?,
                 dlq := { plugin := ← dp.toNat?, settings := ← ds.toNat?, ws := ← parseInt ws, thr := ← parseInt thr },
                 conns, procs }
        else none
      | _ => none
    | _ => none

inductive PStep where
  | imp (c : PipeCfg) (k : Option Nat)
  | env (op : Op)

def parsePStep (s : String) : Option PStep :=
  match words s with
  | ["imp", c] => (parseCfg c).map fun c => .imp c none
  | ["imp", c, k] =>
    if k.startsWith "!" then
      match parseCfg c, (k.drop 1).toString.toNat? with
      | some c, some k => some (.imp c (if k = 0 then none else some k))
      | _, _ => none
    else none
  | ["ss", i, p] => do pure (.env (.envState (← i.toNat?) (← p.toNat?)))
  | ["st", i, st] => do pure (.env (.envStatus (← i.toNat?) (← st.toNat?)))
  | _ => none

def idUniverse : Nat := 1000

def provRun (v : Variant) : St → Nat → List PStep → List String → Option String → List String × Option String
  | _, _, [], outs, mon => (outs.reverse, mon)
  | s, i, .env op :: rest, outs, mon =>
    let r := exec v s op none
    let s' := { r.2 with next := idUniverse }
    provRun v s' (i + 1) rest ((errStr r.1 ++ "#" ++ observe s') :: outs) mon
  | s, i, .imp c k :: rest, outs, mon =>
    let before := showPlan v s.mem c
    let r := applyPlan v c { s with ctr := 0, failAt := k }
    let s' := { r.2 with ctr := 0, failAt := none, next := idUniverse }
    let mon := match mon with
      | some m => some m
      | none => (importMonitor v s c k).map fun why =>
          if why = "scope-end" then why else s!"{why}!{match k with | some n => toString n | none => "-"}@{i}"
    let out := errStr r.1 ++ "#" ++ before ++ "#" ++ showExport v s'.mem c.id ++ "#" ++ showPlan v s'.mem c ++ "#" ++ observe s'
    provRun v s' (i + 1) rest (out :: outs) mon

def importLineV (v : Variant) (line : String) : String :=
  match (line.splitOn ";").mapM parsePStep with
  | none => "bad-op"
  | some steps =>
    let (outs, mon) := provRun v { St.init with next := idUniverse } 0 steps [] none
    " | ".intercalate outs ++
      (match mon with | none => " mon=ok" | some m => if m = "scope-end" then " mon=ok" else " mon=FAIL:" ++ m)

def importLine (line : String) : String := importLineV genVariant line

end Conduit.Driver
