import ConduitModel.Spec.Rebuild
import ConduitModel.Driver.TreeBuild

/-
Driver component `rebuild` (harness `h_tree`): trace acceptance of a recorded sequence of build
attempts / run ends / configuration edits of the REAL lifecycle services against Model/Rebuild.lean,
plus the C11 monitor `noLeakAfterFailedBuild` (Spec/Rebuild.lean).

  <v1|v2> P=<procs> C=<conn>;… | <step>,<step>,… => <observed>
  step      b | t | s | mk<id> | rmp<id> | rmc<id> | adds<id> | addd<id> | fp<id> | fc<id> | fx
  observed  per b: ok{ids} | err:<class>{ids}; per s: s:ok{ids} | s:ran{ids} | s:err:<class>{ids}; per t: t{ids}
            ({ids} = reserved processor instances afterwards)

  result    ok                         the model produces exactly the observed tokens and the monitor holds
            reject@<k>:model=… observed=…   the k-th token differs (model ≠ code)
            fail: C11 <eng> …            the monitor fails on the (accepted) trace
            bad-op
-/
namespace Conduit.Driver.RebuildD
open Conduit.Driver
open Conduit.Funnel
open Conduit.Rebuild

def showIds (l : List Nat) : String := "{" ++ ",".intercalate ((l.mergeSort (· ≤ ·)).map toString) ++ "}"

def showOutcome : Outcome → String
  | .ok => "ok"
  | .err e => TreeBuildD.showBuildErr e

def showObs : Obs → Option String
  | .built o h => some (showOutcome o ++ showIds h)
  | .torn h => some ("t" ++ showIds h)
  | .started o h =>
    some ("s:" ++ (match o with
      | .ok => "ok" | .ran => "ran" | .buildErr e => TreeBuildD.showBuildErr e
      | .openFailed => "err:open" | .plRunning => "err:plrunning") ++ showIds h)
  | .none => none

def parseStep (s : String) : Option Step :=
  if s = "b" then some .build
  else if s = "t" then some .teardown
  else if s = "s" then some .start
  else if s = "fx" then some .failclear
  else if s.startsWith "fp" then (TreeBuildD.parseId (s.drop 2).toString).map .failp
  else if s.startsWith "fc" then (TreeBuildD.parseId (s.drop 2).toString).map .failc
  else if s.startsWith "mk" then (TreeBuildD.parseId (s.drop 2).toString).map .mk
  else if s.startsWith "rmp" then (TreeBuildD.parseId (s.drop 3).toString).map .rmp
  else if s.startsWith "rmc" then (TreeBuildD.parseId (s.drop 3).toString).map .rmc
  else if s.startsWith "adds" then (TreeBuildD.parseId (s.drop 4).toString).map (.addc .source)
  else if s.startsWith "addd" then (TreeBuildD.parseId (s.drop 4).toString).map (.addc .dest)
  else none

/-- one id names one connector: `adds` / `addd` need an id that never was in `pl.ConnectorIDs` -/
def addsFresh (listed : List Nat) : List Step → Bool
  | [] => true
  | .addc _ id :: rest => !listed.contains id && addsFresh (id :: listed) rest
  | _ :: rest => addsFresh listed rest

structure RCase where
  eng : Eng
  cfg : PipeCfg
  steps : List Step

def parseHead (head : String) : Option RCase :=
  match head.splitOn "|" with
  | cfgs :: rest@(_ :: _) =>
    match words cfgs with
    | [e, p, c] =>
      let eng? : Option Eng := if e = "v1" then some .v1 else if e = "v2" then some .v2 else none
      match eng?, TreeBuildD.parsePipe ["pipe", p, c] with
      | some eng, some cfg =>
        let ss := ("|".intercalate rest).trimAscii.toString
        let steps? : Option (List Step) :=
          if ss = "-" then some [] else (ss.splitOn ",").mapM fun t => parseStep t.trimAscii.toString
        match steps? with
        | some steps => if addsFresh (cfg.conns.map (·.id)) steps then some { eng, cfg, steps } else none
        | none => none
      | _, _ => none
    | _ => none
  | _ => none

def showEng : Eng → String | .v1 => "v1" | .v2 => "v2"

def firstDiff (k : Nat) : List String → List String → Option String
  | [], [] => none
  | m :: ms, o :: os => if m = o then firstDiff (k+1) ms os else some s!"reject@{k}:model={m} observed={o}"
  | m :: _, [] => some s!"reject@{k}:model={m} observed=<none>"
  | [], o :: _ => some s!"reject@{k}:model=<none> observed={o}"

def rebuildLine (line : String) : String :=
  match line.splitOn "=>" with
  | [head, obs] =>
    let obs := obs.trimAscii.toString
    match parseHead head.trimAscii.toString with
    | none => if obs = "bad-op" then "ok" else "bad-op"
    | some c =>
      if obs = "bad-op" then "reject@0:model accepts the case, observed=bad-op" else
      let tr := run c.eng { cfg := c.cfg } c.steps
      let model := tr.filterMap fun (_, _, _, o) => showObs o
      let observed := if obs = "-" then [] else words obs
      match firstDiff 0 model observed with
      | some d => d
      | none =>
        match monitorFrom c.eng 0 tr with
        | .ok => "ok"
        | .failedBuildKeepsReservations k l =>
          s!"fail: C11 {showEng c.eng} failed build keeps reservations: step {k} returned an error and holds {showIds l}"
        | .failedOpenKeepsReservations k l =>
          s!"fail: C11 {showEng c.eng} failed open keeps reservations: step {k} returned an error and holds {showIds l}"
        | .heldAfterAllRunsEnded k l =>
          s!"fail: C11 {showEng c.eng} reservations held after every run ended: step {k} {showIds l}"
        | .resultDependsOnHistory k =>
          s!"fail: C11 {showEng c.eng} build result depends on an earlier attempt: step {k}"
  | _ => "bad-op"

end Conduit.Driver.RebuildD
