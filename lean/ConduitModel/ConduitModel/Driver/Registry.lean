import ConduitModel.Model.PathClean
import ConduitModel.Model.PathCleanBytes
import ConduitModel.Model.Extract
import ConduitModel.Model.Install
import ConduitModel.Model.Corruption
import ConduitModel.Model.IndexState
import ConduitModel.Model.AtomicFile
import ConduitModel.Driver.Util

/-
Driver components of C19 (registry).

  pathclean : `p <hexA> <hexB>`  ->  `<hex Clean(A)> <IsAbs(A)> <hex Join(A,B)> <hex Dir(A)>`
  extract   : `x <entry>;<entry>;… [!]`  entry = `<t>:<hexname>:<size>[:<avail>]`, t ∈ r d s h o,
              trailing `!` = corrupt header after the last entry
              ->  `ok:<hex rel path of binary>|<tree>` or `err:<class>|<tree>`
              tree = sorted, comma separated `d:<hex rel path>` / `f:<hex rel path>:<size>` below the
              destination directory; anything outside it prints as `ESCAPE:<hex abs path>`.
Hex of the empty string is `-`.
-/
namespace Conduit.Driver
open Conduit.Registry

def hexDigit (c : Char) : Option Nat :=
  if '0' ≤ c ∧ c ≤ '9' then some (c.toNat - '0'.toNat)
  else if 'a' ≤ c ∧ c ≤ 'f' then some (c.toNat - 'a'.toNat + 10)
  else none

def hexToBytesAux : List Char → Option (List Nat)
  | [] => some []
  | [_] => none
  | a :: b :: r => do
    let x ← hexDigit a
    let y ← hexDigit b
    let t ← hexToBytesAux r
    pure ((x * 16 + y) :: t)

def hexToBytes (s : String) : Option (List Nat) :=
  if s = "-" then some [] else hexToBytesAux s.toList

def hexChar (n : Nat) : Char := "0123456789abcdef".toList.getD n '?'

def bytesToHex (b : List Nat) : String :=
  if b = [] then "-" else String.ofList (b.flatMap fun x => [hexChar (x / 16 % 16), hexChar (x % 16)])

def boolStr (b : Bool) : String := if b then "1" else "0"

def pathcleanLine (line : String) : String :=
  match words line with
  | ["p", a, b] =>
    match hexToBytes a, hexToBytes b with
    | some a, some b =>
      -- Clean(A): the byte-level loop (proved equal to `clean`: C19_clean_bytes_model); a disagreement would show as `!=`
      let cb := cleanBytes a
      let c := if cb == clean a then bytesToHex cb else bytesToHex cb ++ "!=" ++ bytesToHex (clean a)
      s!"{c} {boolStr (isAbs a)} {bytesToHex (join2 a b)} {bytesToHex (dir a)}"
    | _, _ => "bad-op"
  | _ => "bad-op"

def parseEntry (s : String) : Option Entry :=
  let mk (t : String) (n : String) (sz av : String) : Option Entry := do
    let typ ← match t with
      | "r" => some EType.reg | "d" => some EType.dir | "s" => some EType.symlink
      | "h" => some EType.link | "o" => some EType.other | _ => none
    let name ← hexToBytes n
    let size ← sz.toNat?
    let avail ← av.toNat?
    pure { name := name, typ := typ, size := size, avail := avail }
  match s.splitOn ":" with
  | [t, n, sz] => mk t n sz sz
  | [t, n, sz, av] => mk t n sz av
  | _ => none

/-- the abstract destination directory used by the driver. -/
def drvDest : Path := "/sandbox/dest".toUTF8.toList.map (·.toNat)

def relTo (destSegs : List Seg) (p : List Seg) : Option (List Seg) :=
  if destSegs.isPrefixOf p ∧ destSegs.length < p.length then some (p.drop destSegs.length) else none

def segsHex (p : List Seg) : String := bytesToHex (joinSlash p)

def strLe (a b : String) : Bool := !(b < a)

def treeStr (dest : Path) (fs : FS) : String :=
  let ds := pathSegs dest
  let init := FS.initial dest
  let dl := (fs.dirs.filter fun d => !init.dirs.contains d).map fun d =>
    match relTo ds d with
    | some r => "d:" ++ segsHex r
    | none => "ESCAPE:" ++ segsHex d
  let fl := fs.files.map fun (f, n) =>
    match relTo ds f with
    | some r => "f:" ++ segsHex r ++ ":" ++ toString n
    | none => "ESCAPE:" ++ segsHex f
  let all : List String := (dl ++ fl).mergeSort strLe
  if all.isEmpty then "-" else ",".intercalate all

def exErrStr : ExErr → String
  | .corrupt => "corrupt" | .escape => "escape" | .link => "link" | .mkdir => "mkdir"
  | .create => "create" | .copy => "copy" | .toobig => "toobig" | .multi => "multi"
  | .nocandidate => "nocandidate"

def extractWith (cap : Nat) (es : String) (tail : Bool) : String :=
  let parts := if es = "-" then [] else es.splitOn ";"
  match parts.mapM parseEntry with
  | none => "bad-op"
  | some entries =>
    let r := extractBinary cap nameMaxLinux drvDest entries tail
    let t := treeStr drvDest r.fs
    match r.result with
    | .ok p =>
      let ds := pathSegs drvDest
      match relTo ds (pathSegs p) with
      | some rel => s!"ok:{segsHex rel}|{t}"
      | none => s!"ok:ESCAPE:{bytesToHex p}|{t}"
    | .error e => s!"err:{exErrStr e}|{t}"

def extractLine (line : String) : String :=
  match words line with
  | ["x", es] => extractWith maxExtractedBytes es false
  | ["x", es, "!"] => extractWith maxExtractedBytes es true
  | _ => "bad-op"

/-! ## corruption -/
def corruptionLine (line : String) : String :=
  match words line with
  | ["c", g, w] =>
    match hexToBytes g, hexToBytes w with
    | some g, some w => if g.length = 32 then (if checkCorruption g w then "ok" else "corrupt") else "bad-op"
    | _, _ => "bad-op"
  | _ => "bad-op"

/-! ## install -/
open Conduit.Install Conduit.Generated.Policy in
/-- `key=value` fields of an install scenario line. -/
def kvs (ws : List String) : List (String × String) :=
  ws.filterMap fun w => match w.splitOn "=" with
    | [k, v] => some (k, v)
    | _ => none

def kv (m : List (String × String)) (k : String) : Option String := (m.find? (·.1 == k)).map (·.2)

def parseBit (s : String) : Option Bool := if s = "1" then some true else if s = "0" then some false else none

open Conduit.Install Conduit.Generated.Policy in
def parseFetch (s : String) : Option Fetch :=
  match s with | "ok" => some .ok | "404" => some .notFound | "big" => some .tooLarge | _ => none

open Conduit.Install Conduit.Generated.Policy in
def parseScenario (m : List (String × String)) : Option Scenario := do
  let b (k : String) : Option Bool := (kv m k).bind parseBit
  let ctxs ← kv m "ctx"
  let bits ← bitsOf ctxs
  let ctx : Context ← match bits with
    | [a, b, c, d, e, f] => some { TTY := a, CIEnv := b, IsMCP := c, OperatorPolicy := d, EnvVarSet := e, TypedConfirmation := f }
    | _ => none
  let dig ← match (← kv m "dig") with
    | "match" => some DigestCase.matches | "mismatch" => some .mismatch | "malformed" => some .malformed | _ => none
  let ver ← match (← kv m "ver") with
    | "signed" => some Verifier.signed | "unsigned" => some .unsignedOk | "refuse" => some .refuse | _ => none
  let cache ← match (← kv m "cache") with
    | "1" => some true | "0" => some false | "p" => some false | _ => none
  let arch ← kv m "arch"
  pure {
    idxOK := ← b "idx", known := ← b "known", platform := ← b "plat", already := ← b "already",
    cacheHit := cache, download := ← (kv m "dl").bind parseFetch, digest := dig,
    allowUnsigned := ← b "au", ctx := ctx,
    sigFetch := ← (kv m "sig").bind parseFetch, provFetch := ← (kv m "prov").bind parseFetch,
    verifier := ver, unsignedLogOK := ← b "ulog", archiveOK := arch == "valid",
    renameOK := ← b "ren", manifestOK := ← b "man", auditOK := ← b "aud" }

def reasonOf (code : String) : String :=
  match Conduit.Generated.RegistryInstall.codeReason.find? (·.1 == code) with
  | some (_, r) => r
  | none => code

open Conduit.Install in
def installLine (line : String) : String :=
  match words line with
  | "i" :: rest =>
    let m := kvs rest
    match parseScenario m, kv m "snap" with
    | some s, some snap =>
      let o := runInstall s
      let res := if o.result = "ok" ∨ o.result = "already" then o.result else reasonOf o.result
      let sg := match o.signed with | some true => "1" | some false => "0" | none => "-"
      let callText := (Conduit.Generated.RegistryInstall.chaosCallPoint.find? (·.2 == snap)).map (·.1)
      let sn := match callText with
        | none => "-"
        | some pt => match snapshotAt installOrder s pt with
          | none => "-"
          | some (b, mn) => s!"{boolStr b},{boolStr mn}"
      s!"res={res} bin={boolStr o.installed} man={boolStr o.manifest} aud={boolStr o.audited} signed={sg} vcall={boolStr o.verifierCalled} ulog={boolStr o.unsignedLogged} stg=1 snap={sn}"
    | _, _ => "bad-op"
  | _ => "bad-op"

/-! ## hwmseq / hwmconc -/
open Conduit.IndexState in
def parseReq (s : String) : Option Req :=
  match s.splitOn ":" with
  | [k, v, c, f] => do
    let sig ← match k with
      | "r" => some SigKind.root | "f" => some .freshness | "b" => some .bad | "u" => some .unknownKey | _ => none
    let ver ← v.toInt?
    let cont ← c.toNat?
    let fr ← parseBit f
    pure { sig := sig, version := ver, content := cont, fresh := fr }
  | _ => none

open Conduit.IndexState in
def parseState (s : String) : Option State :=
  if s = "none" then some { version := 0, content := none } else
  match s.splitOn ":" with
  | [v, c] => do
    let ver ← v.toInt?
    let cont ← if c = "-" then some none else c.toNat?.map some
    pure { version := ver, content := cont }
  | _ => none

open Conduit.IndexState in
def stateStr (st : State) : String :=
  s!"{st.version}:" ++ (match st.content with | some c => toString c | none => "-")

open Conduit.IndexState in
def hwmSeqRun : State → List Req → List String
  | _, [] => []
  | st, r :: rs =>
    let a := step st r
    let res := match a.2 with | none => "ok" | some c => reasonOf c
    (res ++ "@" ++ stateStr a.1) :: hwmSeqRun a.1 rs

def hwmseqLine (line : String) : String :=
  match words line with
  | ["h", init, calls] =>
    match (init.dropPrefix? "init=").bind (fun x => parseState x.toString), (calls.splitOn ",").mapM parseReq with
    | some st, some rs => ",".intercalate (hwmSeqRun st rs)
    | _, _ => "bad-op"
  | _ => "bad-op"

/-- all orders in which the calls can take the lock. -/
def perms {α : Type} : List α → List (List α)
  | [] => [[]]
  | x :: xs => (perms xs).flatMap fun p => (List.range (p.length + 1)).map fun i => p.take i ++ x :: p.drop i

open Conduit.IndexState in
/-- trace acceptance for concurrent `VerifyIndex` calls (all root-signed, fresh): the recorded
results and final version are those of *some* order of the calls under the lock, and the monitor
(final ≥ initial, final ≥ every accepted version) holds. -/
def hwmconcLine (line : String) : String :=
  match words line with
  | ["hc", init, calls, fin] =>
    match (init.dropPrefix? "init=").bind (fun x => x.toString.toInt?), (fin.dropPrefix? "final=").bind (fun x => x.toString.toInt?) with
    | some v0, some vf =>
      let parsed := (calls.splitOn ",").mapM fun c => match c.splitOn ":" with
        | [v, r] => (v.toInt?).map fun v => (v, r)
        | _ => none
      match parsed with
      | none => "bad-op"
      | some cs =>
        let idx := List.range cs.length
        let st0 : State := { version := v0, content := some 1 }
        let okOrder := (perms idx).any fun order =>
          let reqs := order.filterMap fun i => cs[i]?.map fun c => ({ sig := .root, version := c.1, content := 1, fresh := true } : Req)
          let out := runSeq verifyIndexOrder st0 reqs
          let res := out.2.map fun r => match r with | none => "ok" | some c => reasonOf c
          let want := order.filterMap fun i => cs[i]?.map (·.2)
          res == want && out.1.version == vf
        let monitor := decide (v0 ≤ vf) && cs.all fun c => c.2 != "ok" || decide (c.1 ≤ vf)
        if !monitor then "fail:high-water-mark-decreased"
        else if okOrder then "ok" else "reject:no-lock-order-explains-the-results"
    | _, _ => "bad-op"
  | _ => "bad-op"

/-! ## atomicfile -/
open Conduit.AtomicFile in
def patt (tag n : Nat) : Content := (List.range n).map fun i => (tag * 37 + i * 11 + 1) % 256

open Conduit.AtomicFile in
def atomicfileLine (line : String) : String :=
  match words line with
  | "w" :: rest =>
    let m := kvs rest
    match kv m "old", (kv m "new").bind String.toNat?, kv m "fault" with
    | some o, some n, some fault =>
      let old : Option (Option Content) := if o = "-" then some none else o.toNat?.map fun k => some (patt 1 k)
      match old, mainOps writeFileCalls with
      | some old, some ops =>
        let new := patt 2 n
        let renameIdx := (List.range ops.length).find? fun i => ops[i]? == some Op.rename
        let failAt : Option (Option Nat) := match fault with
          | "none" => some none
          | "nodir" => some (some 0)
          | "tgtdir" => renameIdx.map some
          | _ => none
        match failAt with
        | none => "bad-op"
        | some fa =>
          -- for `nodir` there is no directory at all: nothing exists before or after
          let init : FSt := { target := if fault = "nodir" then none else old, tmp := none }
          let r := runWriteFile new init ops fa
          let tgt :=
            if fault = "tgtdir" then (if r.2.target == init.target then "old" else "other")
            else if r.2.target == some new then "new"
            else if r.2.target.isNone then "absent"
            else if r.2.target == init.target then "old" else "other"
          s!"res={if r.1 then "ok" else "err"} target={tgt} tmp={if r.2.tmp.isSome then 1 else 0}"
      | _, _ => "bad-op"
    | _, _, _ => "bad-op"
  | "k" :: rest =>
    let m := kvs rest
    match kv m "obs", (kv m "tmp").bind String.toNat? with
    | some obs, some t =>
      -- C19_atomic_replace: a kill leaves the complete old or new content; at most the one temp file exists
      if (obs = "old" ∨ obs = "new") ∧ t ≤ 1 then "ok" else "reject:torn-or-foreign-target"
    | _, _ => "bad-op"
  | _ => "bad-op"

end Conduit.Driver
