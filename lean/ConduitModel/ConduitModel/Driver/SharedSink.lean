import ConduitModel.Model.SharedSink
import ConduitModel.Driver.Util

/-
Driver component `sharedsink`: trace acceptance of a recorded concurrent run of 2-3 real
`funnel.Worker`s on one shared sink (harness h_funnel, component `funnelshared`) against
Model/SharedSink.lean, plus an observational serializability monitor on the same trace.

  line:  <funnel case of one source> ## <tok> ; <tok> ; … => <result of that source>
  (the log is the GLOBAL log of the run minus the other sources' acks; only the tokens starting
  with `S` are read here)

  observed token            model event
    SN[R:W]                   R roots, W workers (first token)
    SP[r:src:l:p]             procCall src r
    SW<d>[r:src:q:ok:l:p]     write src r d q ok p          (p: poison latch seen at that instant)
    SK<d>[r:src:n:l:p]        ackRead src r d n
    SZ[src:ok]                finish src
    SZ[src:err|psn]           the worker has failed (join with a failed branch, or `fail src`);
                              psn additionally needs a poisoned root
  hidden: checkPoison, setPoison, release, join are taken as soon as enabled (`norm`); fanStart,
  acquire and subEnd ok|err are explored on demand before an observation (`demandEvs`); a set of
  model states (modulo `key`) is carried along.
  l = 0 (the root's lock was NOT held during the call) and p = 1 on SP / SK are failures on
  their own.

  result: `ok` | `reject@<k>:<tok>` (no model run produces the k-th S-token, 0-based among the
  S-tokens) | `fail: C01 C04 C05 shared sink: …` (probe / monitor; tagged for the three properties whose checks run this job) | `bad-op`
-/
namespace Conduit.Driver.SharedSinkD
open Conduit.Driver
open Conduit.SharedSink

structure Cfg where
  R : Nat
  W : Nat
  dests : List Nat

/-- the part of a state that matters for the future, on the finite index ranges of the run.
Hand-off numbers are left out (and the tags of outstanding acks reduced to the worker): a worker
changes hand-off inside a root only when the root's streams are empty or the root is poisoned, so
two states that differ only there accept the same continuations. -/
def key (c : Cfg) (s : St) :=
  let rs := List.range c.R
  let ws := List.range c.W
  (rs.map s.lock, rs.map s.poison, ws.map s.wpc,
   ws.map (fun w => rs.map (s.bpc w)), rs.map (fun r => c.dests.map (fun d => (s.pend r d).map (·.1))), rs.map s.live, s.foreign)

def sameState (c : Cfg) (a b : St) : Bool := key c a == key c b

/-- Partial-order reduction: the statements that follow deterministically (poison check right
after the lock, poison store after a failed sub-pass, the deferred unlock, the join once every
branch is back) are taken at once. Each is a real `step`; none can disable a later observation
(the poison of a root can only be changed by the lock holder; an earlier unlock / join only
enables more). -/
def forcedEvs (c : Cfg) : List Ev :=
  (List.range c.W).flatMap fun w =>
    (List.range c.R).flatMap (fun r => [.checkPoison w r, .setPoison w r, .release w r]) ++ [.join w]

def normalize (c : Cfg) : Nat → St → St
  | 0, s => s
  | fuel+1, s =>
    match (forcedEvs c).findSome? (step c.R s) with
    | some s' => normalize c fuel s'
    | none => s

/-- the same state with every component tabulated on the index ranges of the run (the `upd`
chains of a long replay are flattened; outside the ranges nothing was ever touched, so this is the
same function) and the ghost log dropped (no guard reads it) -/
def compact (c : Cfg) (s : St) : St :=
  let rs := List.range c.R
  let ws := List.range c.W
  let lockA := (rs.map s.lock).toArray
  let poisonA := (rs.map s.poison).toArray
  let errA := (rs.map s.errEnded).toArray
  let liveA := (rs.map s.live).toArray
  let wpcA := (ws.map s.wpc).toArray
  let seqA := (ws.map s.seq).toArray
  let bpcA := (ws.map fun w => (rs.map (s.bpc w)).toArray).toArray
  let pendA := (rs.map fun r => c.dests.map fun d => (d, s.pend r d)).toArray
  { lock := fun r => lockA.getD r none, poison := fun r => poisonA.getD r false,
    wpc := fun w => wpcA.getD w .between, seq := fun w => seqA.getD w 0,
    bpc := fun w r => (bpcA.getD w #[]).getD r .idle,
    pend := fun r d => (((pendA.getD r []).find? (·.1 == d)).map (·.2)).getD [],
    live := fun r => liveA.getD r [], errEnded := fun r => errA.getD r false,
    foreign := s.foreign, rlog := fun _ => [] }

def norm (c : Cfg) (s : St) : St := compact c (normalize c 1000 s)

def insertNew (c : Cfg) (acc : List St) (s : St) : List St × Bool :=
  if acc.any (sameState c s) then (acc, false) else (s :: acc, true)

/-- closure under the given hidden events (each followed by `norm`) -/
def closure (c : Cfg) (evs : List Ev) : Nat → List St → List St → List St
  | 0, _, acc => acc
  | _, [], acc => acc
  | fuel+1, s :: work, acc =>
    let (acc', work') := ((evs.filterMap (step c.R s)).map (norm c)).foldl (fun (p : List St × List St) n =>
      let (a, isNew) := insertNew c p.1 n
      if isNew then (a, n :: p.2) else p) (acc, work)
    closure c evs fuel work' acc'

def closeUnder (c : Cfg) (evs : List Ev) (ss : List St) : List St :=
  let init := ss.foldl (fun acc s => (insertNew c acc s).1) []
  closure c evs 100000 init init

def dedupe (c : Cfg) (ss : List St) : List St := ss.foldl (fun acc s => (insertNew c acc s).1) []

/-- Hidden moves explored on demand before an observation of worker `w` (inside root `r?`, or its
`Worker.Do` returning): `w` starts its next hand-off, takes the lock(s) it needs, its own running
sub-passes end (ok / error), and so do the sub-passes of whoever holds a lock `w` needs. Ends of
sub-passes nobody is waiting for stay pending (they are explored when someone needs them). -/
def demandEvs (c : Cfg) (w : Nat) (r? : Option Nat) : List Ev :=
  let roots := match r? with | some r => [r] | none => List.range c.R
  [.fanStart w] ++ roots.map (fun r => .acquire w r) ++
  (List.range c.R).flatMap (fun r => [.subEnd w r true, .subEnd w r false]) ++
  (List.range c.W).flatMap (fun h => if h = w then [] else roots.flatMap fun r => [.subEnd h r true, .subEnd h r false])

inductive Obs
  | ev (w r : Nat) (e : Ev)
  | done (w : Nat) (cls : String)

def applyObs (c : Cfg) (ss : List St) : Obs → List St
  | .ev w r e => ((closeUnder c (demandEvs c w (some r)) ss).filterMap fun s => step c.R s e).map (norm c)
  | .done w cls =>
    let cands := closeUnder c (demandEvs c w none) ss
    if cls = "ok" then cands.filterMap fun s => step c.R s (.finish w)
    else
      let failed := cands.filter (fun s => s.wpc w == .failed) ++ cands.filterMap (fun s => step c.R s (.fail w))
      if cls = "psn" then failed.filter fun s => (List.range c.R).any s.poison else failed

def parseNatList (s : String) : Option (List Nat) := (s.splitOn ":").mapM String.toNat?

structure Tok where
  kind : String          -- SP | SW | SK | SZ
  d : Nat := 0
  r : Nat := 0
  src : Option Nat := none
  n : Nat := 0
  ok : Bool := true
  l : Bool := true
  p : Bool := false
  cls : String := ""

def parseSrc (s : String) : Option (Option Nat) :=
  if s = "-1" then some none else s.toNat?.map some

def parseTok (t : String) : Option Tok :=
  match t.splitOn "[" with
  | [hd, tl] =>
    if !tl.endsWith "]" then none else
    let body := (tl.dropEnd 1).toString
    let fs := body.splitOn ":"
    if hd = "SZ" then
      match fs with
      | [w, cls] => do pure { kind := "SZ", src := ← parseSrc w, cls := cls }
      | _ => none
    else if hd = "SP" then
      match fs with
      | [r, w, l, p] => do pure { kind := "SP", r := ← r.toNat?, src := ← parseSrc w, l := l = "1", p := p = "1" }
      | _ => none
    else if hd.startsWith "SW" then
      match fs with
      | [r, w, q, ok, l, p] => do
        pure { kind := "SW", d := ← (hd.drop 2).toString.toNat?, r := ← r.toNat?, src := ← parseSrc w, n := ← q.toNat?,
               ok := ok = "1", l := l = "1", p := p = "1" }
      | _ => none
    else if hd.startsWith "SK" then
      match fs with
      | [r, w, n, l, p] => do
        pure { kind := "SK", d := ← (hd.drop 2).toString.toNat?, r := ← r.toNat?, src := ← parseSrc w, n := ← n.toNat?,
               l := l = "1", p := p = "1" }
      | _ => none
    else none
  | _ => none

/-- the workers an event of unknown origin could belong to -/
def workersOf (c : Cfg) (t : Tok) : List Nat :=
  match t.src with
  | some w => [w]
  | none => List.range c.W

def obsOf (c : Cfg) (t : Tok) : List Obs :=
  (workersOf c t).map fun w =>
    if t.kind = "SP" then .ev w t.r (.procCall w t.r)
    else if t.kind = "SW" then .ev w t.r (.write w t.r t.d t.n t.ok t.p)
    else if t.kind = "SK" then .ev w t.r (.ackRead w t.r t.d t.n)
    else .done w t.cls

/-- observational serializability monitor: per root, (worker that touched it last, acks queued by
its writes and not consumed yet); another worker may touch the root only when nothing is outstanding -/
def monitor (toks : List Tok) : Option String :=
  let rec go (st : List (Nat × Nat × Nat)) : List Tok → Option String
    | [] => none
    | t :: rest =>
      if t.kind = "SZ" then go st rest else
      match t.src with
      | none => go st rest
      | some w =>
        let (owner, out) := match st.find? (·.1 == t.r) with
          | some (_, o, k) => (some o, k)
          | none => (none, 0)
        if owner != none && owner != some w && out != 0 then
          some s!"C01 C04 C05 shared sink: root {t.r}: worker {w} is inside the shared root while {out} ack(s) of worker {owner.getD 0} are outstanding (sub-passes interleave)"
        else
          let out := if owner == some w then out else 0
          let out := if t.kind = "SW" && t.ok then out + t.n else if t.kind = "SK" then out - t.n else out
          go ((t.r, w, out) :: st.filter (·.1 != t.r)) rest
  go [] toks

def replay (c : Cfg) (toks : List (String × Tok)) : String :=
  let rec go (k : Nat) (ss : List St) : List (String × Tok) → String
    | [] =>
      if ss.any (fun s => s.foreign) then "fail: C01 C04 C05 shared sink: an ack of another sub-pass was consumed" else "ok"
    | (raw, t) :: rest =>
      if t.kind != "SZ" && !t.l then s!"fail: C01 C04 C05 shared sink: the root's lock was not held during {raw}" else
      let ss' := dedupe c ((obsOf c t).flatMap (applyObs c ss))
      if ss'.isEmpty then s!"reject@{k}:{raw}" else
      -- the model has no run for an event inside a poisoned root either (C01_v2_shared_poison_latch);
      -- the probe tells even when the failed sub-pass left nothing the replay could notice
      if t.kind != "SZ" && t.kind != "SW" && t.p then s!"fail: C01 C04 C05 shared sink: event inside a poisoned root: {raw}" else
      go (k+1) ss' rest
  go 0 [init] toks

def sharedsinkLine (line : String) : String :=
  if line.startsWith "skip" then "ok" else
  match line.splitOn " ## " with
  | [cs, lg] =>
    -- the lines of one run (one per source) carry the same global S-tokens: the run is replayed on
    -- the line of its first source only
    if (cs.splitOn "tree S").length > 1 && (cs.splitOn "tree S200(").length == 1 then "ok" else
    match lg.splitOn " => " with
    | body :: _ =>
      let raws := ((body.splitOn " ; ").map fun (t : String) => t.trimAscii.toString).filter (·.startsWith "S")
      match raws with
      | [] => "ok"   -- not a shared-sink trace
      | hd :: rest =>
        let cfg? : Option (Nat × Nat) :=
          if hd.startsWith "SN[" && hd.endsWith "]" then
            match parseNatList ((hd.drop 3).dropEnd 1).toString with
            | some [r, w] => some (r, w)
            | _ => none
          else none
        match cfg?, rest.mapM fun raw => (parseTok raw).map fun t => (raw, t) with
        | some (r, w), some toks =>
          let dests := (toks.map (·.2.d)).eraseDups
          let c : Cfg := { R := r, W := w, dests := dests }
          match replay c toks with
          | "ok" =>
            match monitor (toks.map (·.2)) with
            | some m => "fail: " ++ m
            | none => "ok"
          | r => r
        | _, _ => "bad-op"
    | [] => "bad-op"
  | _ => "bad-op"

end Conduit.Driver.SharedSinkD
