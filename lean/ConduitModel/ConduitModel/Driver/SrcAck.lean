import ConduitModel.Model.SrcAck
import ConduitModel.Spec.SrcAck
import ConduitModel.Driver.Util
import ConduitModel.Generated.SrcAck
import Std.Data.HashMap

/-
Driver component `srcack`: trace acceptance against M3 + the C02/C03/C06 monitors.

  case line:  <cfg> ; <ops (ignored)> ; <trace>
  cfg   mr=<maxRetries> bt=<bundleThreshold> to=<0|1 timeouts may fire>
        (model parameters txFailCallbacks / stopAfterDrop are taken from Generated/SrcAck.lean)
  trace E:<p> (plugin handed out record p) SP:<pos> (Source.Stop returned) NE/NH (SourceNode.Run returned / hangs)
        a:<p,..> A C:<pos>/<reopen> FT FS FC S:<p,..> N EP ES T P1 P0 R1 R0 W WH X O:<pos>

  result: `ok` | `reject@<k>:<token>` (the model does not enable the k-th observation) and/or
          `fail:<monitor reason>` (joined by `;`) | `bad-op`

Hidden (unobserved) model events are closed over between observations (powerset simulation).
-/
namespace Conduit.Driver.SrcAckD
open Conduit.Driver
open Conduit.SrcAck

structure TCfg where
  cfg : Cfg
  timeouts : Bool
  /-- code shape of `Source.Stop` (`stopResult`): from the regenerated fact -/
  fallback : Bool := false
  /-- the trace was recorded with a real v1 `SourceNode` in front of the source -/
  node : Bool := false

def parseKV (s : String) : Option (String × Nat) :=
  match s.splitOn "=" with
  | [k, v] => v.toNat?.map fun n => (k, n)
  | _ => none

def parseTCfg (s : String) : Option TCfg := do
  let kvs ← (words s).mapM parseKV
  let get := fun k => (kvs.find? (·.1 == k)).map (·.2)
  let mr ← get "mr"
  let bt ← get "bt"
  let to ← get "to"
  -- the two code-shape parameters of the model come from the facts regenerated from the source
  -- on this run (an explicit tx= / sd= token overrides them: used for experiments only)
  let tx := (get "tx").map (· == 1) |>.getD Conduit.Generated.SrcAck.flushNowTxFailRunsCallbacks
  let sd := (get "sd").map (· == 1) |>.getD Conduit.Generated.SrcAck.deliveryStopsAfterDrop
  some { cfg := { maxRetries := mr, bundleThr := bt, txFailCallbacks := tx, stopAfterDrop := sd },
         timeouts := to == 1,
         fallback := (get "fb").map (· == 1) |>.getD (!Conduit.Generated.SrcAck.sourceStopReturnsPluginReply),
         node := (get "nd") == some 1 }

def parsePosOpt (s : String) : Option (Option Pos) :=
  if s = "-" then some none else s.toNat?.map some

def parsePosList (s : String) : Option (List Pos) :=
  if s = "" then some [] else (s.splitOn ",").mapM String.toNat?

def parseObs (t : String) : Option Obs :=
  match t with
  | "FT" => some (.flushFail .txFail)
  | "FS" => some (.flushFail .setFail)
  | "FC" => some (.flushFail .commitFail)
  | "N" => some .sendFail
  | "T" => some .tdBegin
  | "P1" => some (.pluginTd true)
  | "P0" => some (.pluginTd false)
  | "R1" => some (.tdRet true)
  | "R0" => some (.tdRet false)
  | "W" => some .waited
  | "WH" => some .waitHang
  | "X" => some .crash
  | "A" => some .ackRet
  | "NE" => some .nodeEnded
  | "NH" => some .nodeHang
  | _ =>
    match t.splitOn ":" with
    | ["a", ps] => (parsePosList ps).map .ack
    | ["S", ps] => (parsePosList ps).map .sack
    | ["O", p] => (parsePosOpt p).map .reopen
    | ["E", p] => p.toNat?.map .emit
    | ["SP", p] => (parsePosOpt p).map .stopRet
    | ["C", pr] =>
      match pr.splitOn "/" with
      | [p, r] => do
        let p ← parsePosOpt p
        let r ← parsePosOpt r
        some (.commit p r)
      | [p] => (parsePosOpt p).map fun p => .commit p p
      | _ => none
    | _ => none

/-- generations that can still influence the future: the latest one, the one Teardown waits on,
and every one whose write or callback is still outstanding. A finished older generation is only
history (no guard reads it), so two states that differ in such generations behave alike. -/
def liveGens (s : St) : List Gen :=
  let n := s.gens.length
  let waited : Option Nat := match s.td with | .waiting og => og | _ => none
  (s.gens.zipIdx).filterMap fun (g, i) =>
    if i + 1 < n ∧ waited ≠ some i ∧
       (g.stat = .txFailed ∨ ((g.stat = .ok ∨ g.stat = .failed) ∧ g.cbSt = .done)) then none else some g

/-- equality on the part of the state that is neither determined by the observations so far nor
dead history -/
def coreEq (a b : St) : Bool :=
  a.alive == b.alive && a.fresh == b.fresh && a.durable == b.durable && a.pending == b.pending &&
  a.deferred == b.deferred && a.attempt == b.attempt && a.escalating == b.escalating &&
  a.dgDone == b.dgDone && a.closed == b.closed && a.tearing == b.tearing &&
  a.streamStopped == b.streamStopped && a.pluginUp == b.pluginUp && a.td == b.td && a.swDone == b.swDone &&
  a.batch == b.batch && a.bundle == b.bundle && a.mustTrigger == b.mustTrigger && liveGens a == liveGens b &&
  a.dropped == b.dropped && a.droppedG == b.droppedG && a.dgFailed == b.dgFailed && a.inst == b.inst && a.store == b.store

/-- driver state: model state + the `Source.Ack` call that was observed to start and has not
taken effect yet (the call's effects happen atomically somewhere before its return) -/
structure DSt where
  s : St
  inflight : Option (List Pos)
  /-- a crash was observed and the `O:<pos>` of the restarted process has not been seen yet -/
  awaitO : Bool := false
  /-- read side of the current run (plugin stream, Source.Stop, SourceNode loop) -/
  r : RSide := {}

def dEq (a b : DSt) : Bool := a.inflight == b.inflight && a.awaitO == b.awaitO && a.r == b.r && coreEq a.s b.s

/-- hash of exactly the fields `dEq` compares -/
def dHash (d : DSt) : UInt64 :=
  let s := d.s
  mixHash (hash d.inflight) <| mixHash (hash d.awaitO) <| mixHash (hash d.r) <| mixHash (hash (liveGens s)) <| mixHash (hash s.pending) <|
  mixHash (hash s.deferred) <| mixHash (hash s.td) <| mixHash (hash s.batch) <|
  mixHash (hash s.durable) <| mixHash (hash s.attempt) <|
  mixHash (hash (s.alive, s.fresh, s.escalating, s.dgDone, s.closed, s.tearing, s.streamStopped)) <|
  mixHash (hash (s.pluginUp, s.swDone, s.mustTrigger, s.dgFailed, s.bundle)) <|
  mixHash (hash s.dropped) <| mixHash (hash s.droppedG) <| mixHash (hash s.inst) (hash s.store)

/-- a set of driver states: buckets by `dHash`, membership by `dEq` -/
structure DSet where
  buckets : Std.HashMap UInt64 (List DSt) := {}
  elems : List DSt := []

def DSet.insert (m : DSet) (d : DSt) : DSet × Bool :=
  let h := dHash d
  let b := m.buckets.getD h []
  if b.any (dEq d) then (m, false)
  else ({ buckets := m.buckets.insert h (d :: b), elems := d :: m.elems }, true)

/-- hidden events possibly enabled in `s` -/
def hiddenEvs (timeouts : Bool) (s : St) : List Ev :=
  [.restart, .openPersist, .trigger, .backoffAbort, .discard, .dgExit, .tdFlush, .tdSnap, .tdWaited false, .closeQueue,
   .tdDrained false, .stopStream, .join]
  ++ (if timeouts then [.tdWaited true, .tdDrained true] else [])
  -- Callbacks. Those of FAILED generations only hand an error to `errs`: always explored. Those of
  -- committed generations release acks; until the delivery queue is closed only three things can tell
  -- whether one has run: a delivery (explored on demand at `S:` / `N`, see `withCallbacks`), Teardown's
  -- wait on the generation it snapshotted, and `closeQueue` itself (run before: delivered, after:
  -- dropped). So before the close they are explored only where that matters: for the waited-on
  -- generation while Teardown waits, and in the statement right before `closeQueue`.
  ++ (List.range s.gens.length).filterMap (fun i =>
        match s.gens[i]? with
        | some g =>
          if g.stat = .failed then some (.callback i)
          else if s.closed then some (.callback i)
          else match s.td with
            | .waited => some (.callback i)
            | .waiting og => if og = some i then some (.callback i) else none
            | _ => none
        | none => none)
  -- the node reads `errs` only while the pipeline runs
  ++ (if s.td = .idle then .errReadS :: (List.range s.gens.length).map .errReadP else [])

/-- Partial-order reduction. Hidden events whose only effect is bookkeeping no later guard can
tell apart are taken eagerly (each is a real `step`, so acceptance still exhibits a model run):
callbacks that drain nothing (`seq ≤ durable`, or Open's callback), callbacks of committed
generations once the delivery queue is closed (they can only drop: nothing observable depends on
when, and running them only enables the waits on `callbacksDone`) and the error hand-off of
failed generations other than the latest (only the latest generation's `callbacksDone` is ever
waited on once it exists). Callbacks that DO release acks are never taken eagerly while the queue is
open: whether they run before or after `closeQueue` decides between delivery and drop (see `pruneLazy`). -/
def noopCb (s : St) (g : Gen) : Bool :=
  match g.cb with
  | none => true
  | some q => decide (q ≤ s.durable)

def normEvs (s : St) : List Ev :=
  let n := s.gens.length
  (List.range n).flatMap fun i =>
    match s.gens[i]? with
    | none => []
    | some g =>
      if g.stat = .ok ∧ g.cbSt = .notRun ∧ (noopCb s g = true ∨ s.closed = true) then [.callback i]
      else if g.stat = .failed ∧ i + 1 < n ∧ g.cbSt = .notRun then [.callback i, .errReadP i]
      else if g.stat = .failed ∧ i + 1 < n ∧ g.cbSt = .blocked then [.errReadP i]
      else if g.stat = .failed ∧ i + 1 = n ∧ g.cbSt = .notRun ∧ s.td ≠ .idle then [.callback i]
      else []

def norm (c : Cfg) (d : DSt) : DSt :=
  { d with s := (normEvs d.s).foldl (fun s e => (step c s e).getD s) d.s }

/-- hidden read-side steps: the node loop processes a handed-out record / the stop control message -/
def readSucc (c : Cfg) (fb : Bool) (d : DSt) : List DSt :=
  [REv.nodeRead, REv.ctl].filterMap fun e =>
    (rstep c fb { m := d.s, r := d.r } e).map fun x => { d with r := x.r }

def succs (c : Cfg) (timeouts : Bool) (d : DSt) (fb : Bool := false) : List DSt :=
  let hs := ((hiddenEvs timeouts d.s).filterMap (step c d.s)).map fun s' => norm c { d with s := s' }
  let hs := readSucc c fb d ++ hs
  match d.inflight with
  | some ps =>
    if ackOk d.s ps then
      match step c d.s (.ack ps) with
      | some s' => norm c { d with s := s', inflight := none } :: hs
      | none => hs
    else hs
  | none => hs

/-- closure under hidden events (worklist, fuel-bounded) -/
def closure (c : Cfg) (timeouts : Bool) (fb : Bool) : Nat → List DSt → DSet → DSet
  | 0, _, acc => acc
  | _, [], acc => acc
  | fuel+1, d :: work, acc =>
    let (acc', work') := (succs c timeouts d fb).foldl (fun (p : DSet × List DSt) n =>
      let (a, isNew) := p.1.insert n
      if isNew then (a, n :: p.2) else p) (acc, work)
    closure c timeouts fb fuel work' acc'

def closeStates (t : TCfg) (ss : List DSt) : List DSt :=
  let init := ss.foldl (fun (acc : DSet) s => (acc.insert s).1) {}
  (closure t.cfg t.timeouts t.fallback 100000 init.elems init).elems

/-- on-demand exploration of the releasing callbacks while the delivery queue is open: the state itself and
the states after the callback of one committed generation (a later generation's callback subsumes
the earlier ones: `durable` becomes its sequence number) -/
def withCallbacks (c : Cfg) (d : DSt) : List DSt :=
  if !d.s.closed then
    d :: (List.range d.s.gens.length).filterMap fun i =>
      match d.s.gens[i]? with
      | some g => if g.stat = .ok ∧ g.cbSt = .notRun then
                    (step c d.s (.callback i)).map fun s' => norm c { d with s := s' }
                  else none
      | none => none
  else [d]

def onS (d : DSt) (r : Option St) : List DSt := r.toList.map fun s' => { d with s := s' }

/-- model events an observation may correspond to, with a check on the resulting state -/
def matchObs (t : TCfg) (d : DSt) : Obs → List DSt
  | .ack ps => if d.inflight.isNone then [{ d with inflight := some ps }] else []
  | .ackRet => if d.inflight.isNone ∧ ¬ d.s.mustTrigger then [d] else []
  | .commit pos _ => (onS d (step t.cfg d.s (.flushRes .ok))).filter (fun d' => d'.s.store.pos == pos)
  | .flushFail r => onS d (step t.cfg d.s (.flushRes r))
  | .sack ps => (withCallbacks t.cfg d).flatMap fun d =>
      (onS d (step t.cfg d.s (.deliver true))).filter (fun d' => (d'.s.delivered.getLast?.map (·.ps)) == some ps)
  | .sendFail => (withCallbacks t.cfg d).flatMap fun d => onS d (step t.cfg d.s (.deliver false))
  -- behind a SourceNode, Source.Teardown is the node's deferred call: the loop has ended
  | .tdBegin => if t.node ∧ ¬ d.r.ended then [] else onS d (step t.cfg d.s .tdBegin)
  | .pluginTd ok => onS d (step t.cfg d.s (.pluginTeardown ok))
  | .emit p => (rstep t.cfg t.fallback { m := d.s, r := d.r } (.emit p)).toList.map fun x => { d with r := x.r }
  | .stopRet pos =>
    ((rstep t.cfg t.fallback { m := d.s, r := d.r } .stopRpc).toList.map fun x => { d with r := x.r }).filter
      (fun d' => d'.r.fetched == some pos)
  | .nodeEnded => if d.r.ended then [d] else []
  -- the node had all the time it needs: only a state in which the loop has nothing left to process
  -- and has not ended explains a hang
  | .nodeHang => if !d.r.ended && (readSucc t.cfg t.fallback d).isEmpty then [d] else []
  | .tdRet ok => if d.s.td = .done ok then [d] else []
  | .waited => onS d (step t.cfg d.s .waitPersisted)
  | .waitHang =>
    -- the implementation had all the time it needs: only a state in which nothing internal is
    -- left to do and WaitPersisted is still disabled explains a hang
    if (step t.cfg d.s .waitPersisted).isNone && (succs t.cfg false d).isEmpty then [d] else []
  | .crash => (onS d (step t.cfg d.s .crash)).map fun d' => { d' with inflight := none, awaitO := true, r := {} }
  -- `O:<pos>` is logged when the new process's Source.Open has returned; the process start itself
  -- (Service.Init + the state Source.Open will hand to the plugin) is the hidden `restart`, because
  -- Source.Open persists (and with a bundle threshold of 1 even commits) the lifecycle event BEFORE it
  -- calls plugin.Open: that commit is observed before the `O` token. The position was fixed at restart.
  | .reopen pos =>
    if d.awaitO ∧ d.s.alive ∧ d.s.opened.getLast? = some pos then [{ d with awaitO := false }] else []

/-- the state as if no releasing callback had run yet: undelivered acks all pending, `durable` 0,
callbacks of committed generations not run -/
def lazyProj (d : DSt) : DSt :=
  { d with s := { d.s with pending := d.s.deferred ++ d.s.pending, deferred := [], durable := 0,
                           gens := d.s.gens.map fun g => if g.stat = .ok then { g with cbSt := .notRun } else g } }

/-- Subsumption. While the delivery queue is not closed, a state in which fewer acks have been moved
from `pending` to the delivery queue reaches, by hidden callback steps alone, every state that
differs from it only in having moved more (the generation whose callback moved them is committed and
its callback still outstanding in the former). So of such a family only the least-moved member is
kept between observations; the closure before the next observation regenerates the others. After
`closeQueue` the members are genuinely different (delivered vs dropped) and all are kept. -/
def pruneLazy (ss : List DSt) : List DSt :=
  let (openQ, closedQ) := ss.partition (fun d => !d.s.closed)
  let m : Std.HashMap UInt64 (List (DSt × DSt)) := openQ.foldl (fun m d =>
    let p := lazyProj d
    let h := dHash p
    let b := m.getD h []
    match b.find? (fun e => dEq e.1 p) with
    | some e =>
      if d.s.pending.length > e.2.s.pending.length ∨
         (d.s.pending.length = e.2.s.pending.length ∧ d.s.durable < e.2.s.durable) then
        m.insert h ((p, d) :: b.filter (fun e' => !dEq e'.1 p))
      else m
    | none => m.insert h ((p, d) :: b)) {}
  closedQ ++ m.fold (fun acc _ b => b.map (·.2) ++ acc) []

def acceptLoop (t : TCfg) : Nat → List DSt → List (String × Obs) → Option (Nat × String)
  | _, _, [] => none
  | k, ss, (tok, o) :: rest =>
    let cl := closeStates t ss
    let next := cl.foldl (fun (acc : DSet) d => (matchObs t d o).foldl (fun a n => (a.insert (norm t.cfg n)).1) acc) {}
    if next.elems.isEmpty then some (k, tok) else acceptLoop t (k+1) (pruneLazy next.elems) rest

def srcackLine (line : String) : String :=
  match line.splitOn ";" with
  | [cfgS, _, trS] =>
    match parseTCfg cfgS with
    | none => "bad-op"
    | some t =>
      let toks := words trS
      -- EP / ES (the node received an error from `errs`) are logged by a concurrent reader: their
      -- position in the log carries no order information; the model treats the read as hidden
      let toks := toks.filter (fun x => x ≠ "EP" ∧ x ≠ "ES")
      match toks.mapM (fun x => (parseObs x).map fun o => (x, o)) with
      | none => "bad-op"
      | some obs =>
        let rej := match acceptLoop t 0 [{ s := init, inflight := none }] obs with
          | none => []
          | some (k, tok) => [s!"reject@{k}:{tok}"]
        let mon := match (monRun (!t.timeouts) (obs.map (·.2))).bad with
          | none => []
          | some why => [s!"fail:{why}"]
        if rej.isEmpty ∧ mon.isEmpty then "ok" else ";".intercalate (rej ++ mon)
  | _ => "bad-op"

end Conduit.Driver.SrcAckD
