import ConduitModel.Model.StreamCondMerge
import ConduitModel.Model.StreamPipe
import ConduitModel.Spec.StreamMonitor
import ConduitModel.Driver.Util

/-
Driver components of the default (v1) engine.

  condmerge   `cm <pattern> <kinds>`          -> the merged result of `condMerge` (equality with the
                                                 real RunnableProcessor.Process)
  pipe        `<scenario> | <trace tokens>`   -> `ok` iff the recorded trace of the real node graph is
                                                 a behaviour of the pipeline model (every observed
                                                 event, after the internal events it needs, is an
                                                 enabled `Pipe.step`) AND the C01/C04/C05/C07 monitors
                                                 hold of it; else `reject@<k>:<why>` / `fail:<monitor>`.

The trace holds only what the fake plugins saw. The internal events of the model (hand-offs,
fan-out deliveries, ticket enqueue, buffered acks, anonymous nacks, `DLQHandlerNode.Ack`) are
reconstructed here: FIFO hand-offs are forced moves, so "pull the message to where the observed
event needs it, pushing what is queued in front of it" is deterministic. Nothing is trusted about
this reconstruction: the event list it produces is checked by `Pipe.step`, event by event.
-/
namespace Conduit.Driver.StreamD
open Conduit.Driver
open Conduit.Stream
open Conduit.Stream.CondMerge

/-! ### condmerge -/

def condOfChar : Char → Option Cond
  | 'k' => some .keep
  | 'p' => some .pass
  | 'e' => some .err
  | _ => none

def cmTok : Out Nat (Nat × Char) → String
  | .single r => s!"s{r}"
  | .res (j, k) => s!"t{j}{k}"
  | .condErr => "C"
  | .moreErr => "M"

def condMergeLine (line : String) : String :=
  match words line with
  | ["cm", pat, kinds] =>
    let kinds := if kinds = "-" then "" else kinds
    match pat.toList.mapM condOfChar with
    | none => "bad-op"
    | some conds =>
      if kinds.toList.all (fun c => c = 's' || c = 'f' || c = 'x') then
        let reply : List (Nat × Char) := (List.range kinds.length).zip kinds.toList
        match condMerge conds (List.range conds.length) (fun _ => reply) with
        | .error _ => "panic"
        | .ok [] => "-"
        | .ok res => ",".intercalate (res.map cmTok)
      else "bad-op"
  | _ => "bad-op"

/-! ### pipe: scenario and trace parsing -/

structure ProcSpec where
  workers : Nat
deriving Repr

structure Scn where
  n : Nat
  m : Nat
  size : Nat
  thr : Nat
  sp : Nat → List ProcSpec
  pp : List ProcSpec
  dp : Nat → List ProcSpec

def parseChain (v : String) : Option (List ProcSpec) :=
  if v = "-" ∨ v = "" then some [] else
  (v.splitOn ";").mapM fun p =>
    match p.splitOn ":" with
    | w :: _ => w.toNat?.map fun w => ⟨w⟩
    | _ => none

def kvOf (toks : List String) : List (String × String) :=
  toks.filterMap fun t => match t.splitOn "=" with
    | [k, v] => some (k, v)
    | _ => none

def lookupKV (kv : List (String × String)) (k : String) : Option String :=
  (kv.find? fun p => p.1 = k).map (·.2)

def parseScn (toks : List String) : Option Scn := do
  let kv := kvOf toks
  let n ← (lookupKV kv "n").bind String.toNat?
  let m ← (lookupKV kv "m").bind String.toNat?
  let w := (lookupKV kv "w").getD "0/0"
  let (size, thr) ← match w.splitOn "/" with
    | [a, b] => do pure (← a.toNat?, ← b.toNat?)
    | _ => none
  let chainOf (k : String) : Option (List ProcSpec) := match lookupKV kv k with
    | some v => parseChain v
    | none => some []
  let sps ← (List.range n).mapM fun s => chainOf s!"sp{s}"
  let pp ← chainOf "pp"
  let dps ← (List.range m).mapM fun d => chainOf s!"dp{d}"
  pure { n := n, m := m, size := size, thr := thr,
         sp := fun s => sps.getD s [], pp := pp, dp := fun d => dps.getD d [] }

def chainWidth (c : List ProcSpec) : Nat := (c.map fun p => if p.workers > 1 then 2 else 1).sum

/-- input stage of processor `j` of a chain whose processors start at stage `base`. -/
def procStage (base : Nat) (c : List ProcSpec) (j : Nat) : Nat := base + chainWidth (c.take j)

def isJobsIn (base : Nat) (c : List ProcSpec) (k : Nat) : Bool :=
  (List.range c.length).any fun j => (c.getD j ⟨1⟩).workers > 1 && procStage base c j + 1 == k

def Scn.topo (sc : Scn) : Topo :=
  { nDst := sc.m
    srcLen := fun s => 2 + chainWidth (sc.sp s)
    plLen := chainWidth sc.pp + 1
    dstLen := fun d => chainWidth (sc.dp d) + 2
    jobs := fun g k => match g with
      | .src s => isJobsIn 2 (sc.sp s) k
      | .pl => isJobsIn 0 sc.pp k
      | .dst d => isJobsIn 0 (sc.dp d) k }

/-- observed events (trace tokens). -/
inductive Obs where
  | read (s i : Nat)
  | proc (g : Char) (x k s i : Nat) (kind : Char)
  | write (d s i : Nat) (ok : Bool) (stamps : Option String)
  | dreply (d : Nat) (acks : List DAck)
  | dreplyErr (d : Nat)
  | dlqw (s i : Nat) (ok : Bool)
  | dlqa (s i : Nat) (ok : Bool)
  | sack (s i : Nat) (r : SRes)
  | ackAfterTeardown (s i : Nat)
  | other
deriving Repr

def parseAck (t : String) : Option DAck :=
  match t.splitOn "." with
  | [s, i, c] =>
    let ok := c = "o"
    if c ≠ "o" ∧ c ≠ "n" then none else
    if s = "?" then some (none, ok) else do pure (some (← s.toNat?, ← i.toNat?), ok)
  | _ => none

def parseObs (t : String) : Option Obs :=
  match t.splitOn ":" with
  | ["R", s, i] => do pure (.read (← s.toNat?) (← i.toNat?))
  | ["P", g, x, k, s, i, kind] => do
    pure (.proc (g.toList.headD 'S') (← x.toNat?) (← k.toNat?) (← s.toNat?) (← i.toNat?) (kind.toList.headD 's'))
  | ["W", d, s, i, r] => do
    if s = "?" then none else pure (.write (← d.toNat?) (← s.toNat?) (← i.toNat?) (r = "o") none)
  | ["W", d, s, i, r, st] => do
    if s = "?" then none else pure (.write (← d.toNat?) (← s.toNat?) (← i.toNat?) (r = "o") (some st))
  | ["A", d, l] => do
    let d ← d.toNat?
    if l = "!" then pure (.dreplyErr d)
    else if l = "-" then pure (.dreply d [])
    else pure (.dreply d (← (l.splitOn "+").mapM parseAck))
  | ["Q", s, i, r] => do
    if s = "?" then none else pure (.dlqw (← s.toNat?) (← i.toNat?) (r = "o"))
  | ["U", s, i, r] => do
    if s = "?" then none else pure (.dlqa (← s.toNat?) (← i.toNat?) (r = "o"))
  | ["S", s, i, "t"] => do
    if s = "?" then none else pure (.ackAfterTeardown (← s.toNat?) (← i.toNat?))
  | ["S", s, i, r] => do
    if s = "?" then none else
    pure (.sack (← s.toNat?) (← i.toNat?) (if r = "o" then .ok else if r = "f" then .eof else .err))
  | "X" :: _ => some .other
  | "E" :: _ => some .other
  | _ => none

/-! ### pipe: reconstruction of the internal events -/

structure ESt where
  p : Pipe
  obs : List Ev      -- observable events so far, newest first (the monitors' input)
  steps : Nat
  /-- per destination: the clone its acker worker acked last (it waits there until the original
  message is settled, `FanoutNode` ack handler). -/
  lastAck : Nat → Option (Nat × Nat)

abbrev EM := StateT ESt (Except String)

def tryEmit (τ : Topo) (e : Ev) : EM Bool := do
  let st ← get
  match Pipe.step τ st.p e with
  | some p' =>
    -- remember which clone a worker has just acked
    let la := match e with
      | .dbuf d | .dreply d _ =>
        match (st.p.ack.aq d)[0]? with
        | some (s, i) =>
          if st.p.ack.clone s i d == .open && p'.ack.clone s i d == .acked then upd st.lastAck d (some (s, i))
          else st.lastAck
        | none => st.lastAck
      | _ => st.lastAck
    set { st with p := p', obs := if e.observable then e :: st.obs else st.obs, steps := st.steps + 1, lastAck := la }
    pure true
  | none => pure false

def emit (τ : Topo) (e : Ev) : EM Unit := do
  if !(← tryEmit τ e) then
    let st ← get
    let a := st.p.ack
    let why := match e with
      | .dlqw s i _ | .sack s i _ | .hfail s i =>
        s!" [handler={repr (a.hst s)} released={a.released s} tickets={a.tickets s} status={repr (a.ost s i)} fail={a.fail s} dlqBroken={a.broken} dlqAccepts={a.dlqAccepts} flowOk={(Flow.step τ st.p.flow e).isSome}]"
      | _ => s!" [flowOk={(Flow.step τ st.p.flow e).isSome} ackOk={(Ack.step a e).isSome}]"
    throw s!"model does not enable {repr e}{why}"

inductive Where where
  | stage (g : Seg) (k pos : Nat)
  | cur
  | gone
deriving Repr

/-- stage index and number of older messages of the same source in that stage. -/
def findIn (st : Stages) (s i : Nat) : Option (Nat × Nat) :=
  let rec go (l : Stages) (k : Nat) : Option (Nat × Nat) :=
    match l with
    | [] => none
    | q :: rest =>
      match q.findIdx? (fun m => m.s == s && m.i == i) with
      | some pos => some (k, ((q.take pos).filter fun m => m.s == s).length)
      | none => go rest (k+1)
  go st 0

/-- where is `(s,i)` on its way to destination `d` (or, `d = none`, in front of the fan-out). -/
def locate (f : Flow) (d : Option Nat) (s i : Nat) : Where :=
  match findIn (f.src s) s i with
  | some (k, pos) => .stage (.src s) k pos
  | none =>
    match findIn f.pl s i with
    | some (k, pos) => .stage .pl k pos
    | none =>
      match d with
      | none => if f.cur.any (fun m => m.s == s && m.i == i) then .cur else .gone
      | some d =>
        match findIn (f.dst d) s i with
        | some (k, pos) => .stage (.dst d) k pos
        | none => if f.cur.any (fun m => m.s == s && m.i == i) && f.pend.contains d then .cur else .gone

/-- oldest message of source `s` in stage `k` of chain `g`. -/
def headOf (f : Flow) (g : Seg) (k s : Nat) : Option Msg := ((f.chain g)[k]?).bind fun q => q.find? fun m => m.s == s

/-- let the oldest message of source `s` in stage `k` of chain `g` take its next step. -/
def advance (τ : Topo) (g : Seg) (k s : Nat) : EM Unit := do
  let st ← get
  let f := st.p.flow
  match headOf f g k s with
  | none => throw "nothing to move"
  | some m =>
    -- a filtered message passes a ParallelNode worker unprocessed: that job is finished too
    if τ.jobs g k && m.filt && !(f.done.contains (g, k, m.s, m.i)) then emit τ (.pdone g k m.s m.i)
    match g with
    | .src s => if k = 0 then emit τ (.enq s m.i) else emit τ (.mv (.src s) k m.s m.i)
    | .pl =>
      if k + 1 < f.pl.length then emit τ (.mv .pl k m.s m.i)
      else do
        -- FanoutNode: every branch accepts the previous message first
        for d in f.pend do emit τ (.fdeliver d)
        emit τ (.fan m.s m.i)
    | .dst d =>
      let a := st.p.ack
      if τ.jobs (.dst d) k && !m.filt && !(f.done.contains (Seg.dst d, k, m.s, m.i)) &&
          a.ost m.s m.i == .nacked && a.clone m.s m.i d == .open then
        -- a job no worker ever finished, of a message that is known to have been nacked: this clone
        -- was nacked too (handed to a worker whose node had stopped: "worker not running")
        emit τ (.nackB d m.s m.i)
      else
      if k + 1 < (f.dst d).length then emit τ (.mv (.dst d) k m.s m.i)
      else if m.filt then emit τ (.fpass d m.s m.i)
      else throw s!"record {m.s}.{m.i} is in front at destination {d} and was not written"

def segRank : Seg → Nat
  | .src _ => 0
  | .pl => 1
  | .dst _ => 2

/-- bring `(s,i)` to the front (of its source) of stage `tk` of chain `tg`. -/
def pullTo (τ : Topo) (tg : Seg) (tk : Nat) (s i : Nat) : Nat → EM Unit
  | 0 => throw "pull: out of fuel"
  | fuel+1 => do
    let st ← get
    let f := st.p.flow
    let d := match tg with | .dst d => some d | _ => none
    match locate f d s i with
    | .gone => throw s!"message {s}.{i} is not in flight towards there"
    | .cur =>
      match tg with
      | .dst d => emit τ (.fdeliver d); pullTo τ tg tk s i fuel
      | _ => throw s!"message {s}.{i} already left"
    | .stage g k pos =>
      if g = tg ∧ k = tk then
        if pos = 0 then pure () else do advance τ g k s; pullTo τ tg tk s i fuel
      else if segRank g < segRank tg ∨ (g = tg ∧ k < tk) then do
        advance τ g k s; pullTo τ tg tk s i fuel
      else throw s!"message {s}.{i} is already past that point"

def cloneSt (a : Ack) (s i d : Nat) : Status := a.clone s i d

/-- make destination d's acker worker get to (and handle) the clone of `(s,i)`, using only what it
already has: buffered acks and the filtered flag. -/
def settleClone (τ : Topo) (d s i : Nat) : Nat → EM Unit
  | 0 => throw "settle: out of fuel"
  | fuel+1 => do
    let st ← get
    let a := st.p.ack
    if a.fanned s i = false then throw s!"{s}.{i} has not reached the fan-out" else
    match cloneSt a s i d with
    | .acked => pure ()
    | .nacked => pure ()
    | .open =>
      if (a.aq d).contains (s, i) then do
        emit τ (.dbuf d)
        settleClone τ d s i fuel
      else do
        -- a filtered clone on its way to the acker
        match locate st.p.flow (some d) s i with
        | .gone => pure ()        -- already handed to the acker
        | _ => do
          pullTo τ (.dst d) ((st.p.flow.dst d).length - 1) s i 10000
          emit τ (.fpass d s i)
        emit τ (.fack d s i)

/-- does the rest of the trace still mention destination d's clone of `(s,i)`? (replies of a
destination whose acker worker is gone are only drained, they do not count.) -/
def mentionsClone (dead : Nat → Bool) (rest : List Obs) (d s i : Nat) : Bool :=
  rest.any fun o => match o with
    | .write d' s' i' _ _ => d' == d && s' == s && i' == i
    | .proc 'D' x _ s' i' _ => x == d && s' == s && i' == i
    | .dreply d' acks => !dead d && d' == d && acks.any fun a => a.1 == some (s, i)
    | _ => false

def pkindOf : Char → PKind
  | 's' => .pass
  | 'f' => .filter
  | _ => .fail

def toFanout (τ : Topo) (s i : Nat) : EM Unit := do
  let st ← get
  if st.p.ack.fanned s i then pure () else do
    pullTo τ .pl (st.p.flow.pl.length - 1) s i 10000
    advance τ .pl (st.p.flow.pl.length - 1) s

/-- will `(s,i)` be acked to its source by its ack handler (a later `Source.Ack` that is not preceded
by a DLQ write of it)? Then every destination's clone of it still has to be acked. -/
def ackedLater (rest : List Obs) (s i : Nat) : Bool :=
  let rec go : List Obs → Bool
    | [] => false
    | .dlqw s' i' _ :: r => if s' == s && i' == i then false else go r
    | .sack s' i' _ :: r => if s' == s && i' == i then true else go r
    | _ :: r => go r
  go rest

/-- destination d's acker worker is about to be declared gone (inferred, not observed). The model
does not queue filtered clones, so the ones that worker must still have acked — filtered clones of
messages the trace acks later — are acked first. -/
def preSettle (nSrc : Nat) (τ : Topo) (rest : List Obs) (d : Nat) : EM Unit := do
  for s in List.range nSrc do
    let n := (← get).p.ack.reads s
    for i in List.range n do
      let a := (← get).p.ack
      if a.ost s i == .open && ackedLater rest s i &&
          ((a.fanned s i && a.clone s i d == .open && a.clFilt s i d) || (!a.fanned s i && a.filt s i)) then
        try
          toFanout τ s i
          let a := (← get).p.ack
          if a.clone s i d == .open && a.clFilt s i d then settleClone τ d s i 10000
        catch _ => pure ()

def killWorker (nSrc : Nat) (τ : Topo) (rest : List Obs) (d : Nat) : EM Unit := do
  preSettle nSrc τ rest d
  emit τ (.wkill d)

/-- the handler of `(s,i)` has run (its ticket was released) or will never be waited for. -/
def settled (a : Ack) (s i : Nat) : Bool :=
  match a.ost s i with
  | .open => false
  | .nacked => true
  | .acked => decide (i < a.released s) || !(a.tickets s).contains i

/-- acker workers stop when a handler returns an error. What can be inferred from the state:
  * the clone a worker acked last belongs to a message that was nacked meanwhile
    ("message was nacked by another node");
  * a worker that is not waiting has a buffered ack that does not match its queue head
    ("received unexpected ack"), or that acks a clone of an already nacked message. -/
def reapWorkers (nSrc sc_m : Nat) (τ : Topo) (rest : List Obs) : EM Unit := do
  for d in List.range sc_m do
    for _ in List.range 64 do
      let st ← get
      let a := st.p.ack
      if a.wdead d then break
      let blocked := match st.lastAck d with
        | some (s, i) => !settled a s i
        | none => false
      match st.lastAck d with
      | some (s, i) => if a.ost s i == .nacked then do killWorker nSrc τ rest d; break
      | none => pure ()
      if blocked then break
      match (a.aq d)[0]?, a.buf d with
      | some (s, i), x :: _ =>
        if x.1 != some (s, i) then do preSettle nSrc τ rest d; emit τ (.dbuf d); break
        else if x.2 && a.ost s i == .nacked && a.clone s i d == .open then do
          -- what the worker acked before it got to this reply element comes first
          killWorker nSrc τ rest d
          break
        else break
      | _, _ => break

/-- the stamps of all processors between source `s` and destination `d`, in order. -/
def expectedStamps (sc : Scn) (s d : Nat) : String :=
  let l := ((List.range (sc.sp s).length).map fun k => s!"S{s}k{k}") ++
           ((List.range sc.pp.length).map fun k => s!"P0k{k}") ++
           ((List.range (sc.dp d).length).map fun k => s!"D{d}k{k}")
  if l.isEmpty then "-" else "+".intercalate l

def handle (sc : Scn) (τ : Topo) (o : Obs) (rest : List Obs) : EM Unit := do
  match o with
  | .other => pure ()
  | .read s i =>
    let st ← get
    if st.p.ack.reads s ≠ i then throw s!"source {s} emitted index {i} out of turn" else do
      emit τ (.read s)
      -- SourceNode hands it straight to the SourceAckerNode (ticket)
      emit τ (.enq s i)
  | .proc g x k s i kind =>
    let (seg, chain, base, br) := match g with
      | 'S' => (Seg.src x, sc.sp x, 2, (none : Option Nat))
      | 'P' => (Seg.pl, sc.pp, 0, none)
      | _ => (Seg.dst x, sc.dp x, 0, some x)
    let idx := procStage base chain k
    let par := (chain.getD k ⟨1⟩).workers > 1
    let pk := pkindOf kind
    if par then do
      -- a worker finished the job; when it was dispatched is not observable (nor needed)
      match br with
      | some d =>
        let st ← get
        match locate st.p.flow (some d) s i with
        | .stage (.dst _) _ _ => pure ()
        | _ => pullTo τ seg 0 s i 10000
      | none => pure ()
      emit τ (.pdone seg (idx + 1) s i)
      emit τ (.proc br s i pk)
    else do
      pullTo τ seg idx s i 10000
      emit τ (.proc br s i pk)
      if pk ≠ .fail then advance τ seg idx s
  | .write d s i ok stamps =>
    -- what a destination is given went through every processor on its way (each fake processor
    -- stamps the record it returns): an unprocessed record must never reach a destination
    match stamps with
    | some st =>
      if st ≠ expectedStamps sc s d then
        throw s!"record {s}.{i} reached destination {d} with processor stamps {st}, expected {expectedStamps sc s d}"
    | none => pure ()
    let st ← get
    pullTo τ (.dst d) ((st.p.flow.dst d).length - 1) s i 10000
    emit τ (.write d s i ok)
  | .ackAfterTeardown s i =>
    throw s!"source {s} was acked for record {i} after its Teardown: the drain did not wait for the records in flight"
  | .dreply d acks =>
    let st ← get
    if st.p.ack.wdead d then emit τ (.dreply d acks) else do
      -- the worker first gets rid of what it can handle without asking the plugin
      for _ in List.range 10000 do
        let st ← get
        let a := st.p.ack
        if a.wdead d then break
        match (a.aq d)[0]? with
        | some _ => if !(a.buf d).isEmpty then emit τ (.dbuf d) else break
        | none => break
      if !(← tryEmit τ (.dreply d acks)) then do
        -- not what a live worker can have asked for: the worker is gone, teardown drains the plugin
        killWorker sc.n τ rest d
        emit τ (.dreply d acks)
  | .dreplyErr d =>
    if !(← tryEmit τ (.dreplyErr d)) then killWorker sc.n τ rest d
  | .sack s i r =>
    let st ← get
    match st.p.ack.hst s with
    | .needSack _ => emit τ (.sack s i r)
    | _ => do
      toFanout τ s i
      for d in List.range sc.m do settleClone τ d s i 10000
      emit τ (.sack s i r)
      if r ≠ .err then emit τ (.winAck s)
      else
        -- the error goes back to every branch's ack handler: all acker workers stop
        for d in List.range sc.m do killWorker sc.n τ rest d
  | .dlqw s i ok =>
    -- if the trace still mentions a clone of it, it went through the fan-out before it was nacked
    if (← get).p.ack.ost s i = .open ∧ (← get).p.ack.fanned s i = false ∧
        (List.range sc.m).any (fun d => mentionsClone (fun _ => false) rest d s i) then
      toFanout τ s i
    let st ← get
    let a := st.p.ack
    if a.ost s i = .open then
      if a.fanned s i = false then emit τ (.nackO s i)
      else do
        -- a nack waiting in some destination's reply buffer?
        let viaBuf := (List.range sc.m).find? fun d =>
          !a.wdead d && (a.buf d).any (fun x => x.1 == some (s, i) && !x.2) && (a.aq d).contains (s, i)
        match viaBuf with
        | some d => settleClone τ d s i 10000
        | none =>
          -- an anonymous nack by whoever holds one of the clones (teardown, cancelled context …):
          -- first choice a branch whose worker is gone, then one the trace never mentions again,
          -- then one that is only mentioned in later replies of its destination (those replies are
          -- then drained by `teardown`: the acker node has stopped)
          let isOpen := fun d => cloneSt a s i d == .open
          let noAct := fun d => !mentionsClone (fun _ => true) rest d s i     -- no later Write / processor event
          -- still on its way to the destination and never seen there again: dropped on the way
          let onWay := fun d => match locate st.p.flow (some d) s i with
            | .stage (.dst _) _ _ => true
            | .cur => true
            | _ => false
          let cand := ((List.range sc.m).find? fun d => isOpen d && a.wdead d && noAct d).orElse
            fun _ => ((List.range sc.m).find? fun d => isOpen d && onWay d && noAct d).orElse
            fun _ => ((List.range sc.m).find? fun d => isOpen d && !mentionsClone a.wdead rest d s i).orElse
            fun _ => (List.range sc.m).find? fun d => isOpen d && noAct d
          match cand with
          | some d =>
            if !a.wdead d && (a.aq d).contains (s, i) && mentionsClone a.wdead rest d s i then killWorker sc.n τ rest d
            emit τ (.nackB d s i)
          | none => throw s!"no clone of {s}.{i} can have been nacked"
    emit τ (.dlqw s i ok)
  | .dlqa s i ok => emit τ (.dlqa s i ok)

def runTrace (sc : Scn) (τ : Topo) : List Obs → Nat → EM Unit
  | [], _ => pure ()
  | o :: rest, k => do
    try
      handle sc τ o rest
      reapWorkers sc.n sc.m τ rest
    catch e => throw s!"reject@{k}:{e}"
    runTrace sc τ rest (k+1)

def sanitize (s : String) : String :=
  String.ofList (s.toList.map fun c => if c = '\n' ∨ c = '\r' then ' ' else c)

def pipeLine (line : String) : String :=
  match line.splitOn " | " with
  | [scn, tr] =>
    match parseScn (words scn) with
    | none => "bad-op"
    | some sc =>
      match (words tr).mapM parseObs with
      | none => "bad-op"
      | some obs =>
        let τ := sc.topo
        let st0 : ESt := { p := Pipe.init τ sc.size sc.thr, obs := [], steps := 0, lastAck := fun _ => none }
        match (runTrace sc τ obs 0).run st0 with
        | .error e => sanitize e
        | .ok (_, st) =>
          if !monC01 sc.m st.obs then "fail:C01 unjustified source ack"
          else if !monC04 st.obs then "fail:C04 ack out of read order"
          else if !monC05 st.obs then "fail:C05 write out of order / filtered record written"
          else if !monC07 st.obs then "fail:C07 DLQ discipline"
          else "ok"
  | _ => "bad-op"

end Conduit.Driver.StreamD
