import ConduitModel.Model.TreeBuild
import ConduitModel.Driver.Funnel

/-
Driver components `treeshape` and `appendtoend` (harness `h_tree`): the model of the arch-v2
task-tree construction (Model/TreeBuild.lean) on the case lines the harness runs through the REAL
`lifecycle-poc.(*Service).buildRunnablePipeline` / `buildSharedTail` / `funnel.(*TaskNode).AppendToEnd`.

  treeshape    pipe P=<procs> C=<conn>;<conn>;…     conn = <s|d|x><id>:<procs>   procs = - | <id>[?],…
               tail P=<ids> B=none | <branch>;…      branch = - | <K><id>.<K><id>…
  appendtoend  <tree> + <tree>,<tree>,…  |  <tree> + -

  result       ok <tree> | <tree> …   (one per worker / shared root)   |   err:<class>   |   bad-op
               appendtoend: ok <tree> | err <receiver, unchanged>
  trees        K<id>(child,child…), K = S | P | D
-/
namespace Conduit.Driver.TreeBuildD
open Conduit.Driver
open Conduit.Funnel

mutual
def showTree : TaskNode → String
  | .mk id k next =>
    (match k with | .source => "S" | .proc => "P" | .dest => "D") ++ toString id ++
      (match next with
       | [] => ""
       | n :: ns => "(" ++ showTree n ++ showRest ns ++ ")")
def showRest : List TaskNode → String
  | [] => ""
  | n :: ns => "," ++ showTree n ++ showRest ns
end

def showTrees (ts : List TaskNode) : String := "ok " ++ " | ".intercalate (ts.map showTree)

def showTreeErr : TreeErr → String
  | .emptyBranch => "emptyBranch" | .multiNext => "multiNext" | .noTasks => "noTasks"

def showBuildErr : BuildErr → String
  | .connector => "err:connector" | .connRunning => "err:connrunning" | .processor => "err:processor" | .running => "err:running"
  | .nosrc => "err:nosrc" | .nodst => "err:nodst" | .tail e => "err:tail:" ++ showTreeErr e
  | .sink => "err:sink" | .append e => "err:append:" ++ showTreeErr e | .worker => "err:worker"

/-- decimal id below 2^32 (what the harness accepts) -/
def parseId (s : String) : Option Nat :=
  if s.isEmpty || !s.toList.all Char.isDigit then none
  else
    let v := s.toList.foldl (fun acc c => acc * 10 + (c.toNat - '0'.toNat)) 0
    if v < 4294967296 then some v else none

def parseProcs (s : String) : Option (List ProcRef) :=
  if s = "-" then some []
  else (s.splitOn ",").mapM fun t =>
    if t.endsWith "?" then (parseId (t.dropEnd 1).toString).map fun i => (i, false)
    else (parseId t).map fun i => (i, true)

def parseConn (t : String) : Option ConnCfg :=
  match t.toList with
  | k :: rest =>
    let kind? : Option ConnKind := if k = 's' then some .source else if k = 'd' then some .dest else if k = 'x' then some .missing else none
    match kind?, (String.ofList rest).splitOn ":" with
    | some kind, [ids, ps] => do
      let id ← parseId ids
      let procs ← parseProcs ps
      pure { kind, id, procs }
    | _, _ => none
  | [] => none

/-- one id names one entity: a connector id listed twice carries the same kind and processor list, a
processor id the same found-flag -/
def consistent (cfg : PipeCfg) : Bool :=
  let allP := cfg.procs ++ (cfg.conns.map (·.procs)).flatten
  allP.all (fun p => allP.all fun q => p.1 != q.1 || p.2 == q.2) &&
  cfg.conns.all (fun c => cfg.conns.all fun d => c.id != d.id || (c.kind == d.kind && c.procs == d.procs))

def parsePipe (ws : List String) : Option PipeCfg :=
  match ws with
  | [_, p, c] =>
    if !p.startsWith "P=" || !c.startsWith "C=" then none else do
      let procs ← parseProcs (p.drop 2).toString
      let cs := (c.drop 2).toString
      let conns ← if cs = "-" then some [] else (cs.splitOn ";").mapM parseConn
      let cfg : PipeCfg := { conns, procs }
      if consistent cfg then some cfg else none
  | _ => none

def parseTaskSpec (t : String) : Option TaskSpec :=
  match t.toList with
  | k :: rest =>
    let kind? : Option TaskKind := if k = 'S' then some .source else if k = 'P' then some .proc else if k = 'D' then some .dest else none
    match kind?, parseId (String.ofList rest) with
    | some kind, some id => some (id, kind)
    | _, _ => none
  | [] => none

def tailLine (ws : List String) : String :=
  match ws with
  | [_, p, b] =>
    if !p.startsWith "P=" || !b.startsWith "B=" then "bad-op" else
    match parseProcs (p.drop 2).toString with
    | none => "bad-op"
    | some ps =>
      if ps.any (fun q => !q.2) then "bad-op" else
      let bs := (b.drop 2).toString
      let branches? : Option (List (List TaskSpec)) :=
        if bs = "none" then some []
        else (bs.splitOn ";").mapM fun br => if br = "-" then some [] else (br.splitOn ".").mapM parseTaskSpec
      match branches? with
      | none => "bad-op"
      | some branches =>
        match buildSharedTail (ps.map (·.1)) branches with
        | .ok roots => showTrees roots
        | .error e => "err:" ++ showTreeErr e
  | _ => "bad-op"

def treeshapeLine (line : String) : String :=
  let ws := words line
  match ws.head? with
  | some "pipe" =>
    match parsePipe ws with
    | none => "bad-op"
    | some cfg =>
      match buildWorkers cfg with
      | .ok trees => showTrees trees
      | .error e => showBuildErr e
  | some "tail" => tailLine ws
  | _ => "bad-op"

def idsOk (t : TaskNode) : Bool := (nodeIds t).all (· < 4294967296)

def parseTreeFull (s : String) : Option TaskNode :=
  match parseNode s.toList with
  | some (t, []) => if idsOk t then some t else none
  | _ => none

/-- comma separated trees at nesting depth 0 -/
partial def parseTreeList (cs : List Char) (acc : List TaskNode) : Option (List TaskNode) :=
  match parseNode cs with
  | some (t, []) => if idsOk t then some (acc ++ [t]) else none
  | some (t, ',' :: rest) => if idsOk t then parseTreeList rest (acc ++ [t]) else none
  | _ => none

def appendtoendLine (line : String) : String :=
  match line.splitOn " + " with
  | [l, r] =>
    let r := r.trimAscii.toString
    match parseTreeFull l.trimAscii.toString, (if r = "-" then some [] else parseTreeList r.toList []) with
    | some recv, some next =>
      match appendToEnd recv next with
      | some t => "ok " ++ showTree t
      | none => "err " ++ showTree recv
    | _, _ => "bad-op"
  | _ => "bad-op"

end Conduit.Driver.TreeBuildD
