/-
Shared helpers of the line-protocol driver. One case per input line, one output line per case.
-/
namespace Conduit.Driver

def words (s : String) : List String :=
  (s.splitOn " ").filter (· ≠ "")

def bitsOf (s : String) : Option (List Bool) :=
  s.toList.mapM fun c => if c = '1' then some true else if c = '0' then some false else none

def bitsStr (l : List Bool) : String :=
  String.ofList (l.map fun b => if b then '1' else '0')

def natsStr (l : List Nat) : String :=
  ",".intercalate (l.map toString)

def parseNats (s : String) : Option (List Nat) :=
  if s = "-" ∨ s = "" then some [] else (s.splitOn ",").mapM String.toNat?

end Conduit.Driver
