import ConduitModel.Model.WorkerStop
import ConduitModel.Driver.Funnel

/-
Driver component `workerstop`: trace acceptance of a recorded graceful stop of the real
`funnel.Worker` (harness h_funnel, component `funnelstop`) against Model/WorkerStop.lean.

  line:  <funnel case> ## <tok> ; <tok> ; … => <result of Worker.Do>[ stop-hang]

  observed tokens                                   model event
    R<k>         Source.Read returned batch k         readReturn (.batch |batch k|)
    RE           Source.Read returned io.EOF          readReturn .eof
    P…[…]        processor call                       passStep
    W…[…] Q…[…]  destination / DLQ write              passWrite
    A[p,…]       Source.Ack of n positions            passAck n false
    X[late-ack]  Source.Ack after the teardown        passAck 0 true
    T            Source.Teardown called               teardownSource .stopper | .reader | close, EFFECTIVE
                                                      (the call counter grows: the once-guard let it through)
    SR / SD      Stop called / returned nil           stopRequest / stopReturn
    Z            Do returned (ok ⇔ result = ok)        doReturn
  hidden (closed over between observations): loopTest, readBegin, lockAcquire, stopCheck,
  passEnd ok|err, lockRelease, eofSetStop, stopLockAcquire, setStopFlag, stopRelease (Stop's deferred
  `release()`: the caller sees the return only later), and the teardownSource /
  close steps that find the source already torn down (no `Source.Teardown` call).

  result: `ok` iff some model run produces the observations AND in every model state compatible
  with them `Drained` holds from the return of Stop on (and no state has `lateAck`);
  `reject@<k>:<tok>` when no model run enables the k-th observation (0-based);
  `fail: C06 …` for a stop that did not complete / a post-condition failure; `bad-op`.
-/
namespace Conduit.Driver.WorkerStopD
open Conduit.Driver
open Conduit.WorkerStop

def hiddenEvs : List Ev :=
  [.loopTest, .readBegin, .lockAcquire, .stopCheck, .passEnd true, .passEnd false, .lockRelease, .eofSetStop,
   .stopLockAcquire, .setStopFlag, .stopRelease]

def teardownEvs : List Ev := [.teardownSource .stopper, .teardownSource .reader, .close]

/-- hidden successors: hidden events, and teardown calls stopped by the once-guard -/
def hiddenSuccs (s : St) : List St :=
  hiddenEvs.filterMap (step s) ++
  (teardownEvs.filterMap (step s)).filter fun s' => s'.teardowns == s.teardowns

def insertNew (acc : List St) (s : St) : List St × Bool :=
  if acc.contains s then (acc, false) else (s :: acc, true)

/-- closure under hidden events (worklist, fuel-bounded; the state sets are tiny) -/
def closure : Nat → List St → List St → List St
  | 0, _, acc => acc
  | _, [], acc => acc
  | fuel+1, s :: work, acc =>
    let (acc', work') := (hiddenSuccs s).foldl (fun (p : List St × List St) n =>
      let (a, isNew) := insertNew p.1 n
      if isNew then (a, n :: p.2) else p) (acc, work)
    closure fuel work' acc'

def closeStates (ss : List St) : List St :=
  let init := ss.foldl (fun acc s => (insertNew acc s).1) []
  closure 10000 init init

inductive Obs
  | ev (e : Ev)      -- one model event
  | teardown         -- an effective teardown by whoever
  | doRet (ok : Bool)
deriving Repr

def applyObs (o : Obs) (s : St) : List St :=
  match o with
  | .ev e => (step s e).toList
  | .teardown => (teardownEvs.filterMap (step s)).filter fun s' => s'.teardowns == s.teardowns + 1
  | .doRet ok => ((step s .doReturn).toList).filter fun s' => s'.rpc == .done ok

def isNatStr (s : String) : Bool := s.length > 0 && s.all Char.isDigit

def parseTok (sizes : List Nat) (ok : Bool) (t : String) : Option Obs :=
  if t = "T" then some .teardown
  else if t = "SR" then some (.ev .stopRequest)
  else if t = "SD" then some (.ev .stopReturn)
  else if t = "Z" then some (.doRet ok)
  else if t = "RE" then some (.ev (.readReturn .eof))
  else if t = "X[late-ack]" then some (.ev (.passAck 0 true))
  else if t.startsWith "R" && isNatStr (t.drop 1).toString then
    match (t.drop 1).toString.toNat? with
    | some (k+1) => (sizes[k]?).map fun n => .ev (.readReturn (.batch n))
    | _ => none
  else match parseEv t with
    | some (.pcall _ _) => some (.ev .passStep)
    | some (.write _ _) => some (.ev .passWrite)
    | some (.dlqw _ _) => some (.ev .passWrite)
    | some (.sack ps) => some (.ev (.passAck ps.length false))
    | none => none

/-- the C06 post-condition on a set of model states: from the return of Stop on `Drained`, and
never an ack after the teardown -/
def postFail (ss : List St) : Option String :=
  if ss.any (fun s => s.lateAck) then some "C06 an ack was attempted after the source teardown"
  else if ss.any (fun s => s.spc == .returned && !decide (Drained s)) then
    some "C06 Stop has returned but the worker is not drained (pass in flight / teardown count / half-handled batch)"
  else none

def replay (obs : List (String × Obs)) : String :=
  let rec go (k : Nat) (ss : List St) : List (String × Obs) → String
    | [] =>
      match postFail ss with
      | some m => "fail: " ++ m
      | none =>
        -- a complete run: Do has returned, and a requested stop has returned
        if ss.all (fun s => s.spc != .idle && s.spc != .returned) then "fail: C06 graceful stop did not complete"
        else "ok"
    | (t, o) :: rest =>
      let ss' := closeStates (ss.flatMap (applyObs o))
      if ss'.isEmpty then s!"reject@{k}:{t}"
      else match postFail ss' with
        | some m => "fail: " ++ m
        | none => go (k+1) ss' rest
  go 0 (closeStates [init]) obs

def workerstopLine (line : String) : String :=
  if line.startsWith "skip" then "ok" else
  if (line.splitOn "X[overlap]").length > 1 then "fail: C04 overlapping Source.Ack calls (acks to one source must be serialised)" else
  if (line.splitOn "stop-hang").length > 1 || (line.splitOn "X[stop-error]").length > 1 then
    "fail: C06 graceful stop did not complete" else
  match line.splitOn " ## " with
  | [cs, lg] =>
    match parseCase cs, lg.splitOn " => " with
    | some c, [body, res] =>
      let sizes := c.batches.map List.length
      let ok := res.trimAscii.toString = "ok"
      let toks := ((body.splitOn " ; ").map fun (t : String) => t.trimAscii.toString).filter (· ≠ "")
      match toks.mapM fun t => (parseTok sizes ok t).map fun o => (t, o) with
      | some obs => replay obs
      | none => "bad-op"
    | _, _ => "bad-op"
  | _ => "bad-op"

end Conduit.Driver.WorkerStopD
