import ConduitModel.Generated.SrcAck
import ConduitModel.Props.C03

/-!
Facts obligations for C03: the restart path the model assumes (`restart`: new incarnation's state
and the plugin's `Open` position = the committed store) is what the source does.
-/
namespace Conduit.Facts.C03
open Conduit.Generated.SrcAck Conduit.SrcAck

/-- `Source.Ack` stores the LAST position of the call as the connector state (model: `inst.pos`) -/
theorem C03_fact_ack_stores_last_position :
    sourceAckStateExpr = "SourceState{Position: p[len(p)-1]}" := by decide

/-- `Source.open` hands the plugin the position of the (stored, re-loaded) connector state -/
theorem C03_fact_open_uses_stored_position : sourceOpenPositionExpr = "s.state().Position" := by decide

/-- one transaction per flush, committed after every connector's Set (model: a commit installs the
whole snapshot atomically, a crash sees either the old or the new store) -/
theorem C03_fact_single_transactional_flush :
    flushNowOrder = ["NewTransaction", "storeFunc", "Commit", "callbacks"] := by decide

/-- crash safety needs F1 repaired: a failed Set must not be followed by a commit + nil callbacks
(otherwise the plugin is told more than the store holds). FALSE at the pinned commit. -/
theorem C03_fact_store_error_propagates : flushNowStoreErrPropagates = true := by decide

/-- `connector.Service.WaitPersisted` — the durability barrier `StopAndWait` relies on before a stopped
pipeline's connectors may be re-created — is exactly the UNBOUNDED `Persister.WaitPendingWrites` (no
context / timeout variant), and that function waits on plain receives of the latest generation's
`writeDone` and `callbacksDone` (model: `waitPersisted` is enabled only when the latest generation
has finished writing and its callbacks have returned; there is no timeout event for it). With a
bounded barrier a late commit of the stopped incarnation could overwrite a re-created connector and
a crash would reopen it at the old position. -/
theorem C03_fact_waitPersisted_is_unbounded_barrier :
    serviceWaitPersistedCalls = ["s.persister.WaitPendingWrites"] ∧
    waitPendingWritesReceives = ["<-st.writeDone", "<-st.callbacksDone"] ∧
    waitPendingWritesUnbounded = true := by decide

end Conduit.Facts.C03
