import ConduitModel.Generated.SrcAck
import ConduitModel.Props.C06

/-!
Facts obligations for C06: the statement order of `Source.Teardown` the model's `Td` program counter
follows, and which `flushNow` shape (F11) the driver is run with.
-/
namespace Conduit.Facts.C06
open Conduit.Generated.SrcAck Conduit.SrcAck

/-- `Source.Teardown`: tearingDown → Flush → bounded wait → close the queue → signal → bounded drain →
stopStream → join delivery goroutine → wait for plugin calls → plugin Teardown → ConnectorStopped.
(model: begun, flushed/waiting, waited, closedQ, drained, stopped, joined, done) -/
theorem C06_fact_teardown_order :
    sourceTeardownOrder = ["tearingDown.Store", "persister.Flush", "WaitPendingWritesContext", "s.deferredAckClosed=",
      "signalDelivery", "waitDeliveryDrain", "stopStream", "<-s.deliveryDone", "wg.Wait", "plugin.Teardown",
      "ConnectorStopped"] := by decide

/-- the theorems of Props/C06 hold for both shapes of `flushNow`; this records which one the source
has today so that a change is visible (false = returns before the callbacks on a NewTransaction
failure: finding F11, `C06_F11_stop_and_wait_hangs`). The driver reads the same generated value. -/
theorem C06_fact_txfail_shape_known :
    flushNowTxFailRunsCallbacks = false ∨ flushNowTxFailRunsCallbacks = true := by decide

/-- the C06 post-condition instantiated at the regenerated configuration -/
theorem C06_fact_holds_for_current_config (s : St)
    (h : ReachH { maxRetries := defaultDeferredAckMaxRetries, bundleThr := defaultPersisterBundleCountThreshold,
                  txFailCallbacks := flushNowTxFailRunsCallbacks, stopAfterDrop := deliveryStopsAfterDrop } s)
    (hd : s.td = .done true) : s.pending = [] ∧ s.deferred = [] ∧ s.deliveredI = s.ackedI ∧ s.store = s.inst ∧ s.teardowns = 1 := by
  have := C06_stop_drained _ s h hd
  exact ⟨this.1, this.2.1, this.2.2.2.1, this.2.2.2.2.2.2.1, this.2.2.2.2.2.2.2.2.1⟩

end Conduit.Facts.C06
