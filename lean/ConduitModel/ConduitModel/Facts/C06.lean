import ConduitModel.Generated.SrcAck
import ConduitModel.Props.C06

/-!
Facts obligations for C06: the statement order of `Source.Teardown` the model's `Td` program counter
follows, and which `flushNow` shape (F11) the driver is run with.
-/
namespace Conduit.Facts.C06
open Conduit.Generated.SrcAck Conduit.SrcAck

/-- `Source.Teardown`: tearingDown → Flush → bounded wait → close the queue → signal → bounded drain →
stopStream → join delivery goroutine → wait for plugin calls → plugin Teardown → ConnectorStopped.
(model: begun, flushed/waiting, waited, closedQ, drained, stopped, joined, done) -/
theorem C06_fact_teardown_order :
    sourceTeardownOrder = ["tearingDown.Store", "persister.Flush", "WaitPendingWritesContext", "s.deferredAckClosed=",
      "signalDelivery", "waitDeliveryDrain", "stopStream", "<-s.deliveryDone", "wg.Wait", "plugin.Teardown",
      "ConnectorStopped"] := by decide

/-- the theorems of Props/C06 hold for both shapes of `flushNow`; this records which one the source
has today so that a change is visible (false = returns before the callbacks on a NewTransaction
failure: finding F11, `C06_F11_stop_and_wait_hangs`). The driver reads the same generated value. -/
theorem C06_fact_txfail_shape_known :
    flushNowTxFailRunsCallbacks = false ∨ flushNowTxFailRunsCallbacks = true := by decide

/-- the C06 post-condition instantiated at the regenerated configuration -/
theorem C06_fact_holds_for_current_config (s : St)
    (h : ReachH { maxRetries := defaultDeferredAckMaxRetries, bundleThr := defaultPersisterBundleCountThreshold,
                  txFailCallbacks := flushNowTxFailRunsCallbacks, stopAfterDrop := deliveryStopsAfterDrop } s)
    (hd : s.td = .done true) : s.pending = [] ∧ s.deferred = [] ∧ s.deliveredI = s.ackedI ∧ s.store = s.inst ∧ s.teardowns = 1 := by
  have := C06_stop_drained _ s h hd
  exact ⟨this.1, this.2.1, this.2.2.2.1, this.2.2.2.2.2.2.1, this.2.2.2.2.2.2.2.2.1⟩

/-- `connector.Service.WaitPersisted` — the durability barrier `StopAndWait` relies on before a stopped
pipeline's connectors may be re-created — is exactly the UNBOUNDED `Persister.WaitPendingWrites` (no
context / timeout variant), and that function waits on plain receives of the latest generation's
`writeDone` and `callbacksDone` (model: `waitPersisted` is enabled only when the latest generation
has finished writing and its callbacks have returned; there is no timeout event for it). With a
bounded barrier a late commit of the stopped incarnation could overwrite a re-created connector and
a crash would reopen it at the old position. -/
theorem C06_fact_waitPersisted_is_unbounded_barrier :
    serviceWaitPersistedCalls = ["s.persister.WaitPendingWrites"] ∧
    waitPendingWritesReceives = ["<-st.writeDone", "<-st.callbacksDone"] ∧
    waitPendingWritesUnbounded = true := by decide

/-- `triggerFlush` waits for a still-running previous flush with a plain receive — no select, no timer:
Teardown's forced `Flush` therefore returns only after the newest batch has been handed to a flush
generation (model: `tdFlush` is enabled only when no generation is writing and then takes the
batch), so Teardown's wait covers the newest acks and they are delivered before the plugin is torn
down (`C06_stop_drained`). -/
theorem C06_fact_triggerFlush_waits_unconditionally : triggerFlushWaitsUnconditionally = true := by decide

/-- `Source.Stop` returns exactly the plugin's reply `resp.LastPosition` — no rewrite, in particular no
fallback to the stored position (model: `stopResult false`, the shape `C06_stop_position_is_last_read`
and `C06_v1_source_node_ends` are proved for; the other shape hangs: `C06_v1_stop_fallback_hangs`). -/
theorem C06_fact_stop_returns_plugin_reply :
    sourceStopReturnExpr = "resp.LastPosition" ∧ sourceStopReturnsPluginReply = true := by decide

end Conduit.Facts.C06
