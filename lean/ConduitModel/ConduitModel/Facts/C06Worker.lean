import ConduitModel.Generated.WorkerStop
import ConduitModel.Props.C06Worker

/-!
Facts obligations for C06 (arch-v2 worker): the statement order of
/repo/pkg/lifecycle-poc/funnel/worker.go that the event system of `Model/WorkerStop.lean` follows,
regenerated from the source on every run (factgen/workerstop.go; labels: logging skipped,
`if … return …`, `if <callee> fails return`, callee names).
-/
namespace Conduit.Facts.C06Worker
open Conduit.Generated.WorkerStop Conduit.WorkerStop

/-- `doTaskAttempt`: the source task runs (`t.Do` = `Source.Read`), its error branch, then the
first-task block, and only then anything that processes or acknowledges the batch.
(model: `readReturn`, then `lockAcquire`/`stopCheck`, then the `pass…` events) -/
theorem C06_fact_first_task_block_precedes_pass :
    doTaskAttemptTop = ["t := taskNode.Task", "t.Do", "if err != nil", "if taskNode.IsFirst()", "if !b.tainted",
      "idx := 0", "for", "return nil"] ∧
    passCallsBeforeFirstTaskBlock = [] ∧
    passCallsAfterFirstTaskBlock = ["acker.Ack", "doNextTask", "acker.Ack", "doNextTask", "acker.Nack", "doTaskAttempt"] := by
  decide

/-- the first-task block takes the processing lock BEFORE it tests the stop flag, releases it by
`defer` (when the pass ends), and the discard `return nil`s without doing anything to the batch.
(model: `lockAcquire` → `stopCheck` → pass | discard → `lockRelease`; a check placed before the
lock lets `Stop` run in between and the pass start after the teardown — seeded change C06_2) -/
theorem C06_fact_lock_before_stop_check :
    firstTaskBlock = ["w.lastReadAt = time.Now()", "w.acquireProcessingLock", "if err != nil return err",
      "defer release()", "if w.stop.Load() return nil"] := by decide

/-- `Worker.Stop`: lock → `stop.Store(true)` → `tearDownSource` → (deferred) release → `return nil`.
(model: `stopLockAcquire`, `setStopFlag`, `teardownSource .stopper`, `stopReturn`) -/
theorem C06_fact_stop_order :
    stopBody = ["w.acquireProcessingLock", "if err != nil return err", "defer release()", "w.stop.Store(true)",
      "if w.tearDownSource fails return", "return nil"] := by decide

/-- `tearDownSource`: under `teardownMu` (one atomic step), guarded by `sourceTornDown`, the only
caller of `Source.Teardown` and the only writer of the flag. (model: `tearDown`) -/
theorem C06_fact_teardown_once_guard :
    tearDownSourceBody = ["w.teardownMu.Lock()", "defer w.teardownMu.Unlock()", "if w.sourceTornDown return nil",
      "if w.Source.Teardown fails return", "w.sourceTornDown = true", "return nil"] ∧
    sourceTeardownCallers = ["tearDownSource:1"] ∧
    sourceTornDownWriters = ["tearDownSource: w.sourceTornDown = true"] := by decide

/-- the Read-error branch: graceful (`ctx.Err()`) for Canceled / ErrPluginNotRunning-while-stopping,
the io.EOF branch arms the flag and then tears the source down, anything else is an error.
(model: `readReturn .notRunning | .eof | .err`, `eofSetStop`, `teardownSource .reader`) -/
theorem C06_fact_read_error_branches :
    readErrBranch = ["if taskNode.IsFirst() && (cerrors.Is(err, context.Canceled) || (cerrors.Is(err, plugin.ErrPluginNotRunning) && w.stop.Load())) return ctx.Err()",
      "if taskNode.IsFirst() && cerrors.Is(err, io.EOF) return nil {w.stop.Store(true); if w.tearDownSource fails return}",
      "return cerrors.Errorf(\"task %s: %w\", t.ID(), err)"] ∧
    eofBranch = ["w.stop.Store(true)", "if w.tearDownSource fails return", "return nil"] := ⟨rfl, by decide⟩

/-- `Worker.Do` loops while the flag is unset and returns nil afterwards; an error of `doTask` ends
it. (model: `loopTest`, `lockRelease` → `exiting false`) -/
theorem C06_fact_do_loop :
    doBody = ["for !w.stop.Load()", "return nil"] ∧ doLoopBody = ["if w.doTask fails return"] := by decide

/-- the processing lock is a 1-slot channel taken by exactly `Stop` and the first-task block; the
acquire is a blocking send (or the context's end: not modelled), the release a receive.
(model: `lock : Option Who`, `lockAcquire` / `stopLockAcquire` enabled iff free) -/
theorem C06_fact_processing_lock :
    processingLockInit = "make(chan struct{}, 1)" ∧
    acquireLockCases = ["w.processingLock <- struct{}{} => return func() { <-w.processingLock }, nil",
      "<-ctx.Done() => return func() {}, ctx.Err()"] ∧
    lockAcquirers = ["Stop:1", "doTaskAttempt:1"] := by decide

/-- `Worker.Close` tears the source down first; lifecycle-poc calls `w.Stop` from the graceful arm of
`stopRunnablePipeline` and, on the worker goroutine, `w.Do` and then `w.Close`.
(model: `close` enabled once Do has returned; one stopping goroutine) -/
theorem C06_fact_service_drives_stop_do_close :
    closeCalls = ["tearDownSource", "task.Close", "DLQ.Close"] ∧
    serviceStopCalls = ["w.Stop"] ∧ serviceDoCloseOrder = ["w.Do", "w.Close"] := by decide

end Conduit.Facts.C06Worker
