import ConduitModel.Generated.Dlq
import ConduitModel.Props.C07

/-!
Facts obligations for C07: what the window theorems assume about configurations is what the
source enforces today (regenerated from `pkg/pipeline/service.go`, `instance.go`).
-/
namespace Conduit.Facts.C07
open Conduit.Generated.Dlq Conduit.Dlq

/-- `UpdateDLQ` rejects negative sizes / thresholds (so `Nat` is the right domain for the model)
and `0 < size ≤ threshold` (so an accepted config with a window has `thr < size`). -/
theorem C07_fact_dlq_guards : dlqRejectConds =
    ["cfg.WindowSize < 0", "cfg.WindowNackThreshold < 0",
     "cfg.WindowSize > 0 && cfg.WindowSize <= cfg.WindowNackThreshold"] := by decide

/-- the default DLQ (window 1, threshold 0) tolerates no nack: every nack is refused. -/
theorem C07_fact_default_tolerates_none (h : List Bool) :
    ∀ i : Nat, h[i]? = some true →
      (runV1 (Win.new defaultWindowSize defaultWindowNackThreshold) h).2[i]? = some false :=
  C07_thr_zero_none defaultWindowSize (by decide) h

end Conduit.Facts.C07
