import ConduitModel.Generated.Dlq
import ConduitModel.Generated.DlqCfg
import ConduitModel.Props.C07

/-!
Facts obligations for C07: what the window theorems assume about configurations is what the
source enforces today (regenerated from `pkg/pipeline/service.go`, `instance.go`).
-/
namespace Conduit.Facts.C07
open Conduit.Generated.Dlq Conduit.Dlq

/-- `UpdateDLQ` rejects negative sizes / thresholds (so `Nat` is the right domain for the model)
and `0 < size ≤ threshold` (so an accepted config with a window has `thr < size`). -/
theorem C07_fact_dlq_guards : dlqRejectConds =
    ["cfg.WindowSize < 0", "cfg.WindowNackThreshold < 0",
     "cfg.WindowSize > 0 && cfg.WindowSize <= cfg.WindowNackThreshold"] := by decide

/-- the default DLQ (window 1, threshold 0) tolerates no nack: every nack is refused. -/
theorem C07_fact_default_tolerates_none (h : List Bool) :
    ∀ i : Nat, h[i]? = some true →
      (runV1 (Win.new defaultWindowSize defaultWindowNackThreshold) h).2[i]? = some false :=
  C07_thr_zero_none defaultWindowSize (by decide) h

/-- v1: the window the DLQ handler node decides with is built from exactly the pipeline's configured
parameters — `buildDLQHandlerNode` copies `pl.DLQ.WindowSize` / `pl.DLQ.WindowNackThreshold` into the node
unchanged (no rewrite on the way) and `DLQHandlerNode.Run` hands the node's fields to `newDLQWindow`.
So the window theorems (`Win.new size thr`) apply with `size`, `thr` = the CONFIGURED values; in
particular window size 0 keeps meaning "no limit" (`C07_size_zero_no_limit`). -/
theorem C07_fact_v1_window_is_configured :
    Conduit.Generated.DlqCfg.v1NodeWindowFields = ["pl.DLQ.WindowSize", "pl.DLQ.WindowNackThreshold"] ∧
    Conduit.Generated.DlqCfg.v1WindowRewrites = [] ∧
    Conduit.Generated.DlqCfg.v1WindowCtorArgs = ["n.WindowSize", "n.WindowNackThreshold"] := by decide

/-- v2: `buildDLQ` passes the configured parameters to `funnel.NewDLQ`, which passes its two window
parameters to `newDLQWindow` unchanged. -/
theorem C07_fact_v2_window_is_configured :
    Conduit.Generated.DlqCfg.v2NewDLQWindowArgs = ["pl.DLQ.WindowSize", "pl.DLQ.WindowNackThreshold"] ∧
    Conduit.Generated.DlqCfg.v2WindowRewrites = [] ∧
    Conduit.Generated.DlqCfg.v2WindowCtorArgs = Conduit.Generated.DlqCfg.v2NewDLQWindowParams := by decide

end Conduit.Facts.C07
