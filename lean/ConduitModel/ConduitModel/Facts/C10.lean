import ConduitModel.Generated.Lifecycle
import ConduitModel.Model.Lifecycle

/-!
C10 — facts regenerated from pkg/lifecycle/service.go (v1) and pkg/lifecycle-poc/service.go (v2)
that the M5 model's recovery / classification steps assume. A source change to any of them breaks
the corresponding obligation (and the check then searches for a failing input).
-/
namespace Conduit.Facts.C10
open Conduit.Generated.Lifecycle

/-- recoverPipeline: StatusRecovering is written BEFORE StartWithBackoff counts the attempt
(model: `recoverBegin` = status write, then `cnt + 1`, then the MaxRetries test). -/
theorem recover_order : v1_recover_order = ["UpdateStatus(Recovering)", "StartWithBackoff"] ∧
    v2_recover_order = ["UpdateStatus(Recovering)", "StartWithBackoff"] := by decide

/-- StartWithBackoff (v1): attempt++ → ForAttempt → AfterFunc(decrement) → sleep → map guard → Start. -/
theorem v1_backoff_order_eq : v1_backoff_order =
    ["recoveryAttempts.Add", "ForAttempt", "time.AfterFunc", "time.After", "runningPipelines.Get", "s.Start"] := by decide

/-- StartWithBackoff (v2), ignoring the two marker re-checks the fix adds: … → map guard →
graceful-shutdown check → Start. -/
theorem v2_backoff_order_eq :
    v2_backoff_order.filter (fun x => x ≠ "forceStopped.Load" ∧ x ≠ "intentionalStop.Load") =
    ["recoveryAttempts.Add", "ForAttempt", "time.AfterFunc", "time.After", "runningPipelines.Get",
     "isGracefulShutdown.Load", "s.Start"] := by decide

/-- the guards of StartWithBackoff: MaxRetries test (with the infinite-retries escape) and the
"am I still the published run" pointer comparison. -/
theorem backoff_guards :
    v1_backoff_guards = ["s.errRecoveryCfg.MaxRetries != InfiniteRetriesErrRecovery && attempt > s.errRecoveryCfg.MaxRetries",
                         "!ok || actualRp != rp"] ∧
    v2_backoff_guards.take 2 = ["s.errRecoveryCfg.MaxRetries != lifecyclev1.InfiniteRetriesErrRecovery && attempt > s.errRecoveryCfg.MaxRetries",
                                "!ok || actualRp != rp"] := by decide

/-- when the v2 re-check fix is present, it sits between the map guard and the nested Start, in the
order the model assumes: forceStopped → isGracefulShutdown → intentionalStop. -/
theorem v2_recheck_shape : v2RecheckStop = true →
    v2_backoff_guards.drop 2 = ["rp.forceStopped.Load()", "s.isGracefulShutdown.Load()", "rp.intentionalStop.Load()"] := by
  decide

/-- the cleanup switch writes each terminal status the model's `Action.status` assigns (v1 arms:
stopped / Degraded(fatal) / recover / Degraded(recovery failed); v2 adds SystemStopped and UserStopped
arms for transient errors under shutdown / intentional stop, and after the back-off). -/
def statusCalls : List String :=
  ["UpdateStatus(status)", "UpdateStatus(Degraded)", "UpdateStatus(SystemStopped)", "UpdateStatus(UserStopped)",
   "UpdateStatus(Running)", "UpdateStatus(Recovering)"]

theorem v1_cleanup_statuses : v1_cleanup_order.filter (fun x => x ∈ statusCalls) =
    ["UpdateStatus(status)", "UpdateStatus(Degraded)", "UpdateStatus(Degraded)"] := by decide

theorem v2_cleanup_statuses :
    (v2_cleanup_order.filter (fun x => x ∈ statusCalls)).eraseDups =
    ["UpdateStatus(status)", "UpdateStatus(Degraded)", "UpdateStatus(SystemStopped)", "UpdateStatus(UserStopped)"] := by decide

/-- force stop = tomb Kill with a FatalError in both engines. -/
theorem force_stop_is_fatal_kill :
    v1_forceStop_calls = ["t.Kill", "FatalError", "ForceStop"] ∧
    v2_forceStop_calls.filter (· ≠ "forceStopped.Store") = ["t.Kill", "FatalError"] := by decide

/-- the four fix-dependent source facts the driver feeds to the model are booleans extracted from
the current tree (this obligation only pins their provenance; either value is legal). -/
theorem fixes_are_facts : (v1KillBeforeDone = true ∨ v1KillBeforeDone = false) ∧
    (v2RecheckStop = true ∨ v2RecheckStop = false) ∧ (v2KeepIntent = true ∨ v2KeepIntent = false) ∧
    (v2CompareDelete = true ∨ v2CompareDelete = false) := by decide

/-- the arm of stopRunnablePipeline's switch that resets `intentionalStop` exists exactly as modelled
(`gracefulState`, branch `stopReq`): on the unchanged tree it is the bare `len(armedSources) == 0`. -/
theorem v2_stop_switch_shape :
    (v2KeepIntent = false → v2_stop_switch_arms = ["len(armedSources) == 0 => reset", "len(unarmedSources) > 0", "default"]) ∧
    (v2KeepIntent = true → v2_stop_switch_arms ≠ ["len(armedSources) == 0 => reset", "len(unarmedSources) > 0", "default"]) := by
  decide

end Conduit.Facts.C10
