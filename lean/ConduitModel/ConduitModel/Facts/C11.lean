import ConduitModel.Generated.Lifecycle
import ConduitModel.Model.Lifecycle

/-!
C11 — publication-order facts of both lifecycle services (regenerated from the Go source):
publish → StatusRunning write (→ cleanup registration in v1; cleanup registered first in v2),
terminalErrors.Set → map delete → notify, Start's and Stop's status guards, StopAndWait's sequence.
-/
namespace Conduit.Facts.C11
open Conduit.Generated.Lifecycle

/-- v1 runPipeline: `runningPipelines.Set` → `UpdateStatus(Running)` → (rollback on error) →
registration of the cleanup goroutine (model: `publish`, `writeRunning`, `cpc := waiting`). -/
theorem v1_runPipeline : v1_runPipeline_order = ["publish", "UpdateStatus(Running)", "rollback", "registerCleanup"] := by decide

/-- v2 runPipeline: cleanup goroutine registered BEFORE `runningPipelines.Set` → `UpdateStatus(Running)`
(model: `buildOk` sets `cpc := waiting`; no rollback). -/
theorem v2_runPipeline : v2_runPipeline_order = ["registerCleanup", "publish", "UpdateStatus(Running)", "releaseCleanup"] := by decide

/-- in both engines the cleanup goroutine can write its terminal status only AFTER the run's own
StatusRunning write has returned: v1 registers it after the write, v2 releases it (`close(startupDone)`)
after the write (model: `cleanupWake` needs `cpc = waiting`, set by `writeRunning` in v1, and
`phase ∈ {started, failedLive}` in v2). -/
theorem running_write_before_cleanup :
    v1_runPipeline_order.dropWhile (· ≠ "UpdateStatus(Running)") = ["UpdateStatus(Running)", "rollback", "registerCleanup"] ∧
    v2_runPipeline_order.dropWhile (· ≠ "UpdateStatus(Running)") = ["UpdateStatus(Running)", "releaseCleanup"] := by decide

/-- cleanup tail: terminal error recorded BEFORE the map entry is removed, notify last. The removal
is the compare-and-delete in v1; in v2 it is whichever the flag `v2CompareDelete` says. -/
theorem v1_tail : v1_cleanup_order.dropWhile (· ≠ "terminalErrors.Set") =
    ["terminalErrors.Set", "deleteRunningPipelineIfCurrent", "s.notify"] := by decide

theorem v2_tail : v2_cleanup_order.dropWhile (· ≠ "terminalErrors.Set") =
    ["terminalErrors.Set", if v2CompareDelete then "deleteRunningPipelineIfCurrent" else "runningPipelines.Delete", "s.notify"] := by
  decide

theorem v1_compare_delete_guard : v1_compareDelete_guards = ["ok && current == rp"] := by decide

/-- the cleanup goroutine waits for the nodes/workers, THEN reads the tomb. -/
theorem cleanup_waits_then_reads : v1_cleanup_order.take 2 = ["Wait", "t.Err"] ∧ v2_cleanup_order.take 2 = ["Wait", "t.Err"] := by
  decide

/-- Start: Get → status check → build → copy back-off state from the map entry → clear the
terminal error → runPipeline (model: `startUser`, `buildOk`). Only `StatusRunning` refuses. -/
theorem start_order : v1_start_order = ["pipelines.Get", "GetStatus", "buildRunnablePipeline", "runningPipelines.Get", "terminalErrors.Delete", "runPipeline"] ∧
    v2_start_order = v1_start_order := by decide

theorem start_guard : v1_start_guards = ["pl.GetStatus() == pipeline.StatusRunning"] ∧ v2_start_guards = v1_start_guards := by decide

/-- Stop: map lookup, then "status is neither Running nor Recovering ⇒ not running" (model `stopRes`). -/
theorem stop_guards : v1_stop_guards = ["!ok", "rp.pipeline.GetStatus() != pipeline.StatusRunning && rp.pipeline.GetStatus() != pipeline.StatusRecovering"] ∧
    v2_stop_guards = v1_stop_guards := by decide

/-- StopAndWait = Stop → WaitPipeline → WaitPersisted (the driver composes the same model events). -/
theorem stopAndWait_order : v1_stopAndWait_order = ["s.Stop", "s.WaitPipeline", "WaitPersisted"] ∧
    v2_stopAndWait_order = v1_stopAndWait_order := by decide

/-- WaitPipeline: map lookup → tomb Wait, else the terminalErrors fallback (model `waitBegin`). -/
theorem wait_order : v1_wait_order = ["runningPipelines.Get", "t.Wait", "terminalErrors.Get"] ∧ v2_wait_order = v1_wait_order := by
  decide

end Conduit.Facts.C11
