import ConduitModel.Generated.Lifecycle
import ConduitModel.Generated.OpenPhase
import ConduitModel.Model.LifecycleOpen
import ConduitModel.Model.Lifecycle

/-!
C11 — publication-order facts of both lifecycle services (regenerated from the Go source):
publish → StatusRunning write (→ cleanup registration in v1; cleanup registered first in v2),
terminalErrors.Set → map delete → notify, Start's and Stop's status guards, StopAndWait's sequence.
-/
namespace Conduit.Facts.C11
open Conduit.Generated.Lifecycle

/-- v1 runPipeline: `runningPipelines.Set` → `UpdateStatus(Running)` → (rollback on error) →
registration of the cleanup goroutine (model: `publish`, `writeRunning`, `cpc := waiting`). -/
theorem v1_runPipeline : v1_runPipeline_order = ["publish", "UpdateStatus(Running)", "rollback", "registerCleanup"] := by decide

/-- v2 runPipeline: cleanup goroutine registered BEFORE `runningPipelines.Set` → `UpdateStatus(Running)`
(model: `buildOk` sets `cpc := waiting`; no rollback). -/
theorem v2_runPipeline : v2_runPipeline_order = ["registerCleanup", "publish", "UpdateStatus(Running)", "releaseCleanup"] := by decide

/-- in both engines the cleanup goroutine can write its terminal status only AFTER the run's own
StatusRunning write has returned: v1 registers it after the write, v2 releases it (`close(startupDone)`)
after the write (model: `cleanupWake` needs `cpc = waiting`, set by `writeRunning` in v1, and
`phase ∈ {started, failedLive}` in v2). -/
theorem running_write_before_cleanup :
    v1_runPipeline_order.dropWhile (· ≠ "UpdateStatus(Running)") = ["UpdateStatus(Running)", "rollback", "registerCleanup"] ∧
    v2_runPipeline_order.dropWhile (· ≠ "UpdateStatus(Running)") = ["UpdateStatus(Running)", "releaseCleanup"] := by decide

/-- cleanup tail: terminal error recorded BEFORE the map entry is removed, notify last. The removal
is the compare-and-delete in v1; in v2 it is whichever the flag `v2CompareDelete` says. -/
theorem v1_tail : v1_cleanup_order.dropWhile (· ≠ "terminalErrors.Set") =
    ["terminalErrors.Set", "deleteRunningPipelineIfCurrent", "s.notify"] := by decide

theorem v2_tail : v2_cleanup_order.dropWhile (· ≠ "terminalErrors.Set") =
    ["terminalErrors.Set", if v2CompareDelete then "deleteRunningPipelineIfCurrent" else "runningPipelines.Delete", "s.notify"] := by
  decide

theorem v1_compare_delete_guard : v1_compareDelete_guards = ["ok && current == rp"] := by decide

/-- the cleanup goroutine waits for the nodes/workers, THEN reads the tomb. -/
theorem cleanup_waits_then_reads : v1_cleanup_order.take 2 = ["Wait", "t.Err"] ∧ v2_cleanup_order.take 2 = ["Wait", "t.Err"] := by
  decide

/-- Start: Get → status check → build → copy back-off state from the map entry → clear the
terminal error → runPipeline (model: `startUser`, `buildOk`). Only `StatusRunning` refuses. -/
theorem start_order : v1_start_order = ["pipelines.Get", "GetStatus", "buildRunnablePipeline", "runningPipelines.Get", "terminalErrors.Delete", "runPipeline"] ∧
    v2_start_order = v1_start_order := by decide

theorem start_guard : v1_start_guards = ["pl.GetStatus() == pipeline.StatusRunning"] ∧ v2_start_guards = v1_start_guards := by decide

/-- Stop: map lookup, then "status is neither Running nor Recovering ⇒ not running" (model `stopRes`). -/
theorem stop_guards : v1_stop_guards = ["!ok", "rp.pipeline.GetStatus() != pipeline.StatusRunning && rp.pipeline.GetStatus() != pipeline.StatusRecovering"] ∧
    v2_stop_guards = v1_stop_guards := by decide

/-- StopAndWait = Stop → WaitPipeline → WaitPersisted (the driver composes the same model events). -/
theorem stopAndWait_order : v1_stopAndWait_order = ["s.Stop", "s.WaitPipeline", "WaitPersisted"] ∧
    v2_stopAndWait_order = v1_stopAndWait_order := by decide

/-- WaitPipeline: map lookup → tomb Wait, else the terminalErrors fallback (model `waitBegin`). -/
theorem wait_order : v1_wait_order = ["runningPipelines.Get", "t.Wait", "terminalErrors.Get"] ∧ v2_wait_order = v1_wait_order := by
  decide

/-- v2 runPipeline, worker i fails to open: the rollback loop closes EVERY element of the slice that
collects the opened workers (`opened`, filled by `opened = append(opened, w)` right after a successful
Open), last to first, then the shared sink, then returns the error — `Shape.lo = 0` of
`Model/LifecycleOpen.lean`. -/
theorem open_rollback_v2 :
    Conduit.Generated.OpenPhase.v2RollbackLoop =
      ["j := len(opened) - 1", "j >= 0", "j--", "_ = opened[j].Close(context.Background())"] ∧
    Conduit.Generated.OpenPhase.v2RollbackCollection = "opened" ∧
    Conduit.Generated.OpenPhase.v2AfterOpenOk = ["opened = append(opened, w)"] ∧
    Conduit.Generated.OpenPhase.v2RollbackAfterLoop.head? = some "_ = rp.sink.Close(context.Background())" ∧
    Conduit.Generated.OpenPhase.v2RollbackLo = 0 := by decide

/-- v1: every connector node opens its own plugin in `Run` and registers the teardown with `defer`
immediately after the Open succeeded (only the error check lies in between), so a run that ends — for
whatever reason, including another node's failed Open — releases every plugin it opened. -/
theorem open_then_defer_v1 : Conduit.Generated.OpenPhase.v1NodeOpenThenDefer =
    [("SourceNode", true, ["if err != nil"]), ("DestinationNode", true, ["if err != nil"]),
     ("DLQHandlerNode", true, ["if err != nil"])] := by decide

/-- funnel.Worker.Open: the rollback that runs when a later task or the worker's DLQ fails to open
releases the SOURCE through the worker's own `tearDownSource`, registered right after the first task (the
source task, whose `Close` is a no-op) opened and before that task's `Close` is registered
(fix f3d54b7; before it the source plugin stayed open and its connector guard set). -/
theorem worker_open_rolls_back_source :
    Conduit.Generated.OpenPhase.v2WorkerRollsBackSource = true ∧
    Conduit.Generated.OpenPhase.v2WorkerOpenLoop =
      ["err = task.Open(ctx)", "if err != nil [", "return", "]",
       "if !sourceOpened [", "sourceOpened = true", "r.Append{tearDownSource}", "]",
       "r.Append{task.Close}"] ∧
    Conduit.Generated.OpenPhase.v2WorkerOpenCalls =
      ["r.Execute", "task.Open", "tearDownSource", "task.Close", "DLQ.Open", "r.Skip"] := by decide

/-- the open-phase shape the tree instantiates is the one `C11_failed_start_releases_all` needs. -/
def openShape : Conduit.LifecycleOpen.Shape :=
  { lo := Conduit.Generated.OpenPhase.v2RollbackLo
    workerRollsBackSource := Conduit.Generated.OpenPhase.v2WorkerRollsBackSource }

theorem open_shape_as_is : openShape = Conduit.LifecycleOpen.Shape.asIs := by decide

end Conduit.Facts.C11
