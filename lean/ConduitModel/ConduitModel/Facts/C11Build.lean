import ConduitModel.Generated.C11Build
import ConduitModel.Model.Rebuild

/-!
Facts obligations for C11 on the build step (`Model/Rebuild.lean`, `Props/C11Build.lean`), regenerated
from /repo on every run (factgen/rebuild.go; flattening as in factgen/treebuild.go): who reserves a
processor instance, who releases it, in which order the builders of the two lifecycle services
reserve, and that no builder releases anything on an error exit — the fact behind the known finding
"a failed build keeps the reservations it made" (`C11_failed_build_leaks_reservation_counterexample`).
A fix of that finding changes `C11_fact_builders_release_nothing` (and the model has to follow).
-/
namespace Conduit.Facts.C11Build
open Conduit.Generated.C11Build

/-- `MakeRunnableProcessor` reserves with one compare-and-swap and refuses a reserved instance; its OWN
later error exits release the reservation again. (model: `reserve`: `.running` when `held.contains id`,
otherwise `id` joins `held`) -/
theorem C11_fact_reserve_is_cas :
    makeRunnableProcessor = ["if !i.running.CompareAndSwap(false, true) return nil, ErrProcessorRunning",
      "egressPolicy, err := s.resolveEgressPolicy(i)", "if err != nil {", "| i.running.Store(false)", "| return nil, err", "}",
      "p, err := s.registry.NewProcessor(ctx, i.Plugin, i.ID, egressPolicy)", "if err != nil {", "| i.running.Store(false)",
      "| return nil, err", "}", "cond, err := newProcessorCondition(i.Condition)", "if err != nil {", "| i.running.Store(false)",
      "| return nil, error", "}", "return newRunnableProcessor(p, cond, i), nil"] := by decide

/-- the per-id loop of both engines: `Get`, `MakeRunnableProcessor`, and on either failure a plain
`return nil, err` — the runnables made in earlier iterations are dropped, not torn down.
(model: `reserve` returns the reservations made so far together with the error) -/
theorem C11_fact_processor_loops :
    v2BuildProcessorTasks = ["var tasks []funnel.Task", "for _, procID := range processorIDs {",
      "| instance, err := s.processors.Get(ctx, procID)", "| if err != nil return nil, error",
      "| runnableProc, err := s.processors.MakeRunnableProcessor(ctx, instance)", "| if err != nil return nil, err",
      "| tasks = append( tasks, funnel.NewProcessorTask( instance.ID, runnableProc, logger, s.newProcessorMetrics(pl.Config.Name, instance.Plugin, instance.ID), ), )",
      "}", "return tasks, nil"] ∧
    v1BuildProcessorNodes = ["var nodes []stream.Node", "prev := first", "for _, procID := range processorIDs {",
      "| instance, err := s.processors.Get(ctx, procID)", "| if err != nil return nil, error",
      "| runnableProc, err := s.processors.MakeRunnableProcessor(ctx, instance)", "| if err != nil return nil, err",
      "| var node stream.PubSubNode", "| if instance.Config.Workers > 1 {", "| | node = s.buildParallelProcessorNode(pl, runnableProc)",
      "| } else {", "| | node = s.buildProcessorNode(pl, runnableProc)", "| }", "| node.Sub(prev.Pub())", "| prev = node",
      "| nodes = append(nodes, node)", "}", "last.Sub(prev.Pub())", "return nodes, nil"] := ⟨rfl, by decide⟩

/-- the order in which the builders reserve. (model: `attemptV2` sources → destinations → pipeline
processors → tree / sink / worker checks; `attemptV1` sources → pipeline processors → destinations) -/
theorem C11_fact_builder_order :
    v2BuilderOrder = ["buildSourceTasks", "buildDestinationTasks", "buildProcessorTasks", "buildSharedTail", "NewSink", "NewWorker"] ∧
    v1BuilderOrder = ["buildSourceNodes", "buildProcessorNodes", "buildDestinationNodes"] := by decide

/-- NO `Teardown` / `Close` / `running.Store` call in `Start` or any builder function of either
lifecycle service: nothing releases the reservations of an attempt that fails.
(model: every `.err` result of `attemptV1` / `attemptV2` carries the reservations made so far) -/
theorem C11_fact_builders_release_nothing :
    v2BuilderReleaseCalls = [] ∧ v1BuilderReleaseCalls = [] := by decide

/-- the release: `RunnableProcessor.Teardown` clears the flag whatever the plugin answers;
arch-v2 reaches it from `ProcessorTask.Close`, which `Worker.Close` / `Sink.Close` call for EVERY task
(errors are collected, the loops never return early); v1 from the func deferred by
`ProcessorNode.Run` before `Open`. (model: `release`: every processor of the live runs) -/
theorem C11_fact_teardown_releases :
    runnableTeardown = ["err := p.proc.Teardown(ctx)", "p.running.Store(false)", "return err"] ∧
    processorTaskClose = ["return t.processor.Teardown(ctx)"] ∧
    workerClose = ["var errs []error", "if err := w.tearDownSource(ctx); err != nil {",
      "| errs = append(errs, cerrors.Errorf(\"failed to tear down source: %w\", err))", "}",
      "for task := range w.FirstTask.Tasks() {", "| err := task.Close(ctx)", "| if err != nil {",
      "| | errs = append(errs, cerrors.Errorf(\"task %s failed to close: %w\", task.ID(), err))", "| }", "}",
      "err := w.DLQ.Close(ctx)", "if err != nil {", "| errs = append(errs, cerrors.Errorf(\"failed to close DLQ: %w\", err))", "}",
      "return cerrors.Join(errs...)"] ∧
    sinkClose = ["var errs []error", "for _, root := range s.roots {", "| for task := range root.Tasks() {",
      "| | if err := task.Close(ctx); err != nil {",
      "| | | errs = append(errs, cerrors.Errorf(\"task %s failed to close: %w\", task.ID(), err))", "| | }", "| }", "}",
      "return cerrors.Join(errs...)"] ∧
    v1RunDeferredTeardown = ["tdErr := n.Processor.Teardown(ctx)",
      "err = cerrors.LogOrReplace(err, tdErr, func() { n.logger.Err(ctx, tdErr).Msg(\"could not tear down processor\") })"] ∧
    v1TeardownDeferredBeforeOpen = true ∧
    v1RunExitsBeforeDefer = ["if err != nil return err"] :=
  ⟨by decide, by decide, by decide, by decide, ⟨rfl, rfl, by decide⟩⟩

/-- arch-v2 `runPipeline`'s open phase: `sink.Open` failing returns at once (nothing of any worker is
closed); worker `i` failing closes the workers in `opened` (appended only AFTER a successful `Open`,
so not worker `i`, not the later ones) and the sink, then returns. (model: `openPhaseV2`,
`workersOpen`: `some (ps ++ closed ++ sinkProcs)`) -/
theorem C11_fact_v2_open_phase :
    v2OpenPhase = ["if err := rp.sink.Open(ctx); err != nil return",
      "opened := make([]*funnel.Worker, 0, len(rp.workers))",
      "for i, w := range rp.workers {",
      "| if err := w.Open(ctx); err != nil {",
      "| | for j := len(opened) - 1; j >= 0; j-- {",
      "| | | _ = opened[j].Close(context.Background())",
      "| | }",
      "| | _ = rp.sink.Close(context.Background())",
      "| | return error",
      "| }",
      "| opened = append(opened, w)",
      "}"] := by decide

/-- `Worker.Open` / `Sink.Open`: a task's `Close` joins the rollback only AFTER its `Open` succeeded;
the first failure returns: the failing task and the tasks after it are neither opened nor closed.
`ProcessorTask.Open` does not release anything when the processor's `Open` fails.
(model: `openSeq`: the processors opened before the first failure) -/
theorem C11_fact_open_rollback_covers_opened_only :
    workerOpen = ["var r rollback.R",
      "defer func() { rollbackErr := r.Execute() err = cerrors.LogOrReplace(err, rollbackErr, func() { w.logger.Err(ctx, rollbackErr).Msg(\"failed to execute rollback\") }) }()",
      "sourceOpened := false",
      "for task := range w.FirstTask.Tasks() {",
      "| err = task.Open(ctx)",
      "| if err != nil return error",
      "| if !sourceOpened {",
      "| | sourceOpened = true",
      "| | r.Append(func() error { return w.tearDownSource(ctx) })",
      "| }",
      "| r.Append(func() error { return task.Close(ctx) })",
      "}",
      "err = w.DLQ.Open(ctx)",
      "if err != nil return error",
      "r.Skip()",
      "return nil"] ∧
    sinkOpen = ["var r rollback.R",
      "defer func() { rollbackErr := r.Execute() err = cerrors.LogOrReplace(err, rollbackErr, func() {}) }()",
      "for _, root := range s.roots {",
      "| for task := range root.Tasks() {",
      "| | err = task.Open(ctx)",
      "| | if err != nil return error",
      "| | r.Append(func() error { return task.Close(ctx) })",
      "| }",
      "}",
      "r.Skip()",
      "return nil"] ∧
    processorTaskOpen = ["err := t.processor.Open(ctx)", "if err != nil return error", "return nil"] :=
  ⟨rfl, by decide, by decide⟩

/-- v1 `runPipeline` runs EVERY node unconditionally (one `rp.t.Go` per node whose body calls
`node.Run` once) — together with `C11_fact_teardown_releases` (the teardown is deferred before `Open`)
every processor of a v1 run is released whichever node fails. (model: v1 `.start` → `.ran`) -/
theorem C11_fact_v1_runs_every_node :
    v1NodeLoop = ["nodesWg.Add", "rp.t.Go { node.Run }"] := by decide

end Conduit.Facts.C11Build
