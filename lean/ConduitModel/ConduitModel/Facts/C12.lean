import ConduitModel.Generated.ForceStop
import ConduitModel.Generated.Lifecycle
import ConduitModel.Model.ForceStop

/-!
C12 — the latch model is `forceStopper` as written, and every force-stoppable node uses it in the
single-shot way the latch law assumes (one `start()` per Run, outside any loop; `stop()` in ForceStop).
-/
namespace Conduit.Facts.C12
open Conduit.Generated.ForceStop

theorem start_shape : start_body =
    ["ctx, cancel := context.WithCancel(context.Background())", "f.mu.Lock()", "defer f.mu.Unlock()",
     "f.cancel = cancel", "if f.stopped { cancel() }", "return ctx, cancel"] := by decide

theorem stop_shape : stop_body =
    ["f.mu.Lock()", "defer f.mu.Unlock()", "if f.cancel != nil { f.cancel() return }", "f.stopped = true"] := by decide

/-- the hypothesis of `C12_force_stop_latch` (exactly one `start`) holds for every node. -/
theorem nodes_single_shot : ∀ n ∈ nodes, n.2.1 = 1 ∧ n.2.2.1 = 0 ∧ n.2.2.2 = 1 := by decide

theorem nodes_covered : nodes.map (·.1) = ["SourceNode", "DestinationNode", "DestinationAckerNode", "DLQHandlerNode"] := by decide

/-- force stop kills the tomb with a FatalError in both engines. -/
theorem force_is_fatal : Conduit.Generated.Lifecycle.v1_forceStop_calls = ["t.Kill", "FatalError", "ForceStop"] ∧
    Conduit.Generated.Lifecycle.v2_forceStop_calls.filter (· ≠ "forceStopped.Store") = ["t.Kill", "FatalError"] := by decide

end Conduit.Facts.C12
