import ConduitModel.Generated.ProcNode
import ConduitModel.Generated.ProcSvc
import ConduitModel.Model.ProcSvc
import ConduitModel.Model.ProcNode

/-!
Facts obligations for C13: the statement order, guards and channel capacities that the event system
`Conduit.Model.ProcNode` assumes are what `/repo/pkg/lifecycle/stream/processor.go` (and
`pkg/processor/runnable_processor.go`, `service.go`, `pkg/lifecycle/reconfigure.go`) say today.
Each `Assumed.*` list is annotated with the model events its tokens correspond to; the theorems equate
it with the list regenerated from the source by `factgen/procnode.go` on every check run.
-/
namespace Conduit.Facts.C13
open Conduit.Generated

namespace Assumed

/-- `Run`: deferred plain `Teardown` of `n.Processor` registered before `Open` (`finalTeardown` after any
exit, also after a failed `runOpen`), `Open` before the loop (`runOpen`). -/
def runTop : List String :=
  ["_, cleanup, err := n.base.Trigger(ctx, n.logger, nil)", "if err != nil", "defer cleanup()",
   "in := n.base.In()", "wake := n.wake()", "defer func{n.Processor.Teardown(ctx)}",
   "err = n.Processor.Open(ctx)", "if err != nil", "for {"]

/-- loop body: `applyPendingSwap` is the FIRST statement (pc `atApply`: events `claim` … `deliver`), the
`select` follows (pc `atSelect`), `Process` comes after the select (`procCall` only from `atSelect`), and
the routing of the result is last (`procRet`, `sendOk`, `nack`). No second `applyPendingSwap`. -/
def runLoop : List String :=
  ["n.applyPendingSwap(ctx)", "var msg *Message", "select", "if msg.filtered", "executeTime := time.Now()",
   "recsIn := []opencdc.Record{msg.Record}", "recsOut := n.Processor.Process(msg.Ctx, recsIn)",
   "n.ProcessorTimer.Update(time.Since(executeTime))", "if len(recsIn) != len(recsOut)",
   "if err := n.handleProcessedRecord(ctx, msg, recsOut[0]); err != nil"]

/-- the select: `ctxDone` (return ctx.Err()), `wakeRecv` (continue = back to `atApply`), `procCall` /
`recvPre` / `inClosed` (return nil). -/
def runSelect : List String :=
  ["select {", "case <-ctx.Done():", "return ctx.Err()", "case <-wake:", "continue",
   "case m, ok := <-in:", "if !ok {", "return nil", "}", "msg = m", "}"]

/-- `applyPendingSwap`: `claim` = the swapMu section taking and clearing `n.pending` (nil ⇒ return);
`openNew g false` = Open fails: `teardownRc` of the NEW processor, `deliver` of an error, return — no
assignment to `n.Processor` on this branch; `openNew g true`: the assignment comes after the successful
Open, `teardownRc` of the OLD processor after the assignment, `deliver` of nil last. -/
def applyPendingSwap : List String :=
  ["n.swapMu.Lock()", "p := n.pending", "n.pending = nil", "n.swapMu.Unlock()", "if p == nil {", "return", "}",
   "if err := p.newProcessor.Open(ctx); err != nil {",
   "if tdErr := teardownForReconfigure(ctx, p.newProcessor); tdErr != nil {", "}",
   "p.done <- cerrors.Errorf(\"could not open new processor for live reconfigure, keeping current processor: %w\", err)",
   "return", "}",
   "old := n.Processor", "n.Processor = p.newProcessor",
   "if tdErr := teardownForReconfigure(ctx, old); tdErr != nil {", "}", "p.done <- nil"]

/-- `Reconfigure`: `stage r` = the swapMu section with the busy guard BEFORE the assignment of
`n.pending` (guard hit ⇒ `rejected`, nothing written); `wakeSend r` = non-blocking send; then
`doneRecv r` | `cancel r`, the latter withdrawing only if `n.pending` is still this request
(`n.pending.done == done`). -/
def reconfigure : List String :=
  ["done := make(chan error, 1)", "wake := n.wake()", "n.swapMu.Lock()", "if n.pending != nil {",
   "n.swapMu.Unlock()", "return cerrors.New(\"a processor reconfigure is already in progress\")", "}",
   "n.pending = &pendingSwap{newProcessor: newProcessor, done: done}", "n.swapMu.Unlock()",
   "select {", "case wake <- struct{}{}:", "default:", "}",
   "select {", "case err := <-done:", "return err", "case <-ctx.Done():", "n.swapMu.Lock()",
   "if n.pending != nil && n.pending.done == done {", "n.pending = nil", "}", "n.swapMu.Unlock()",
   "return ctx.Err()", "}"]

/-- `teardownRc` calls `TeardownForReconfigure` when the processor has it, else plain `Teardown`. -/
def teardownForReconfigure : List String :=
  ["if rp, ok := proc.(interface { TeardownForReconfigure(context.Context) error }); ok {",
   "return rp.TeardownForReconfigure(ctx)", "}", "return proc.Teardown(ctx)"]

def wake : List String :=
  ["n.swapMu.Lock()", "defer n.swapMu.Unlock()", "if n.wakeCh == nil {", "n.wakeCh = make(chan struct{}, 1)", "}",
   "return n.wakeCh"]

/-- `finalTeardown` on a `RunnableProcessor` clears `Instance.running` … -/
def runnableTeardown : List String := ["err := p.proc.Teardown(ctx)", "p.running.Store(false)", "return err"]
/-- … `teardownRc` does not. -/
def runnableTeardownForReconfigure : List String := ["return p.proc.Teardown(ctx)"]

end Assumed

/-- `applyPendingSwap` is the first statement of the loop body and precedes the select; `Process` follows it. -/
theorem C13_fact_run_loop : ProcNode.runLoop = Assumed.runLoop := by rfl
theorem C13_fact_run_top : ProcNode.runTop = Assumed.runTop := by rfl
theorem C13_fact_run_select : ProcNode.runSelect = Assumed.runSelect := by rfl
/-- Open precedes the assignment, the assignment precedes the teardown of the old processor, the failure
branch assigns nothing and sends an error. -/
theorem C13_fact_apply_pending_swap : ProcNode.applyPendingSwap = Assumed.applyPendingSwap := by rfl
/-- busy guard before staging; cancel withdraws only its own request. -/
theorem C13_fact_reconfigure : ProcNode.reconfigure = Assumed.reconfigure := by rfl
theorem C13_fact_teardown_for_reconfigure : ProcNode.teardownForReconfigure = Assumed.teardownForReconfigure := by rfl
theorem C13_fact_wake : ProcNode.wake = Assumed.wake := by rfl
/-- `done` and `wakeCh` have capacity 1 (the model's `done r : Option Res` and `wake : Bool`). -/
theorem C13_fact_channel_caps : ProcNode.doneCap = 1 ∧ ProcNode.wakeCap = 1 := by decide
/-- the swap is applied from exactly one place: the top of `Run`'s loop. -/
theorem C13_fact_single_apply_site : ProcNode.applyPendingSwapCallers = ["pkg/lifecycle/stream/processor.go:Run"] := by rfl
/-- `n.Processor` is assigned in exactly one statement of the engine: inside `applyPendingSwap`
(the model's `cur` changes only in `openNew _ true`). -/
theorem C13_fact_single_processor_assignment :
    ProcNode.processorAssignments = ["pkg/lifecycle/stream/processor.go:applyPendingSwap: n.Processor = p.newProcessor"] := by rfl
/-- `n.pending` is written only by `stage` (set), `cancel` (clear) and `claim` (clear). -/
theorem C13_fact_pending_writers : ProcNode.pendingAssignments =
    ["Reconfigure: n.pending = &pendingSwap{newProcessor: newProcessor, done: done}",
     "Reconfigure: n.pending = nil", "applyPendingSwap: n.pending = nil"] := by rfl
/-- only the plain `Teardown` clears `Instance.running`; neither `TeardownForReconfigure` nor
`MakeRunnableProcessorForReconfigure` mention the flag. -/
theorem C13_fact_running_flag_writers :
    ProcNode.runnableTeardown = Assumed.runnableTeardown ∧
    ProcNode.runnableTeardownForReconfigure = Assumed.runnableTeardownForReconfigure ∧
    ProcNode.rcTeardownMentionsRunning = 0 ∧ ProcNode.makeForReconfigureMentionsRunning = 0 :=
  ⟨rfl, rfl, rfl, rfl⟩
/-- the service looks the node up, builds a fresh runnable from the stored instance, then calls `Reconfigure`. -/
theorem C13_fact_service_gates : ProcNode.serviceReconfigureGates =
    ["s.runningPipelines.Get", "s.processors.Get", "s.processors.MakeRunnableProcessorForReconfigure", "node.Reconfigure"] := by rfl

/-- the service wrapper is `… → node.Reconfigure(ctx, runnable) → return`: the Reconfigure call is the last
call of `ReconfigureProcessor`, its result is returned directly, and the runnable occurs exactly twice
(built, handed to the node) — nothing on the API goroutine touches it after the node took it, in
particular no teardown. This is the parameter of `Model/ProcSvc.lean` under which
`C13_installed_processor_live` / `C13_every_record_processed_by_live_processor` apply to the tree. -/
theorem C13_fact_service_wrapper :
    Conduit.Generated.ProcSvc.svcLastStatement = "return " ++ Conduit.Generated.ProcSvc.svcReconfigureCall ∧
    Conduit.Generated.ProcSvc.svcReconfigureCall = "node.Reconfigure(ctx, runnableProc)" ∧
    Conduit.Generated.ProcSvc.svcCallsAfterReconfigure = [] ∧
    Conduit.Generated.ProcSvc.svcRunnableOccurrences = 2 ∧
    Conduit.Generated.ProcSvc.svcTearsDownAfterReconfigure = false := by decide

/-- the model configuration the tree instantiates. -/
def svcCfg : Conduit.Model.ProcSvc.Cfg := ⟨Conduit.Generated.ProcSvc.svcTearsDownAfterReconfigure⟩

theorem C13_fact_service_cfg : svcCfg.tdOnError = false := by decide

end Conduit.Facts.C13
