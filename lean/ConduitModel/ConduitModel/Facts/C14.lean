import ConduitModel.Generated.Ctl
import ConduitModel.Props.C14

/-!
Facts obligations for C14: what the M6 model assumes about the source is what the source says
today (regenerated from `pkg/{pipeline,connector,processor}/service.go`,
`pkg/orchestrator/*.go`, the `instance.go` files).
-/
namespace Conduit.Facts.C14
open Conduit.Generated.Ctl

/-- `Create` and `Delete` of all three services write the store *before* touching memory (the
model gives them `keep := true` unconditionally). -/
theorem C14_fact_store_first :
    (keepPlCreate && keepPlDelete && keepCnCreate && keepCnDelete && keepPrCreate && keepPrDelete) = true := by decide

/-- `pipeline.Service.UpdateStatus` keeps the NEW status in memory when its store write fails
(`svcPlStatus … keep := false` in the model) — deliberately unlike the ten configuration sites
(F7): the status is not a stored configuration value the memory must mirror, it reflects the
*run*. `lifecycle.runPipeline` launches the nodes first and only then records
`StatusRunning`; if that write fails the nodes keep running, and the in-memory status is what
the orchestrator's running guards (`C14_guards`) read. Restoring the old status on a failed
write would let API mutations through on a live pipeline. -/
theorem C14_fact_status_write_keeps_new : keepPlStatus = false := by decide

/-- every other mutating service method is one of the two shapes the model's `Variant`
distinguishes: mutate-then-store (`MS`) or mutate-then-store with restore (`MSR`) / store-first. -/
theorem C14_fact_shapes_modelled :
    svcShapes.all (fun p => p.2 = "SM" || p.2 = "MS" || p.2 = "MSR" || p.2 = "S") = true := by decide

/-- the guards of the orchestrator methods, in the order the model applies them. -/
theorem C14_fact_guards : orchGuards = [
    ("PipelineOrchestrator.Update", ["pl.ProvisionedBy != pipeline.ProvisionTypeAPI", "pl.GetStatus() == pipeline.StatusRunning"]),
    ("PipelineOrchestrator.UpdateDLQ", ["pl.ProvisionedBy != pipeline.ProvisionTypeAPI", "pl.GetStatus() == pipeline.StatusRunning"]),
    ("PipelineOrchestrator.Delete", ["pl.ProvisionedBy != pipeline.ProvisionTypeAPI", "pl.GetStatus() == pipeline.StatusRunning",
      "len(pl.ConnectorIDs) != 0", "len(pl.ProcessorIDs) != 0"]),
    ("ConnectorOrchestrator.Create", ["pl.ProvisionedBy != pipeline.ProvisionTypeAPI", "pl.GetStatus() == pipeline.StatusRunning"]),
    ("ConnectorOrchestrator.Update", ["conn.ProvisionedBy != connector.ProvisionTypeAPI", "pl.GetStatus() == pipeline.StatusRunning"]),
    ("ConnectorOrchestrator.Delete", ["conn.ProvisionedBy != connector.ProvisionTypeAPI", "len(conn.ProcessorIDs) != 0",
      "pl.GetStatus() == pipeline.StatusRunning"]),
    ("ProcessorOrchestrator.Create", ["pl.ProvisionedBy != pipeline.ProvisionTypeAPI", "pl.GetStatus() == pipeline.StatusRunning"]),
    ("ProcessorOrchestrator.Update", ["proc.ProvisionedBy != processor.ProvisionTypeAPI", "pl.GetStatus() == pipeline.StatusRunning"]),
    ("ProcessorOrchestrator.Delete", ["proc.ProvisionedBy != processor.ProvisionTypeAPI", "pl.GetStatus() == pipeline.StatusRunning"])] := by
  decide

/-- transaction / service call order of the orchestrator methods, with the calls made by the
registered rollbacks (`R:`) — the `orch guards steps` frames of the model, step by step. -/
theorem C14_fact_call_order : orchCalls = [
    ("PipelineOrchestrator.Update", ["pipelines.Get", "pipelines.Update"]),
    ("PipelineOrchestrator.UpdateDLQ", ["pipelines.Get", "Validate", "pipelines.UpdateDLQ"]),
    ("PipelineOrchestrator.Delete", ["pipelines.Get", "pipelines.Delete"]),
    ("ConnectorOrchestrator.Create", ["NewTransaction", "R:txn.Discard", "pipelines.Get", "Validate", "connectors.Create",
      "R:connectors.Delete", "pipelines.AddConnector", "R:pipelines.RemoveConnector", "Commit", "Skip"]),
    ("ConnectorOrchestrator.Update", ["NewTransaction", "R:txn.Discard", "connectors.Get", "pipelines.Get", "Validate",
      "connectors.Update", "R:connectors.Update", "Commit", "Skip"]),
    ("ConnectorOrchestrator.Delete", ["NewTransaction", "R:txn.Discard", "connectors.Get", "pipelines.Get", "connectors.Delete",
      "R:connectors.Create", "pipelines.RemoveConnector", "R:pipelines.AddConnector", "Commit", "Skip"]),
    ("ProcessorOrchestrator.Create", ["NewTransaction", "R:txn.Discard", "getProcessorsPipeline", "processors.Create",
      "R:processors.Delete", "pipelines.AddProcessor", "R:pipelines.RemoveProcessor", "connectors.AddProcessor",
      "R:connectors.RemoveProcessor", "Commit", "Skip"]),
    ("ProcessorOrchestrator.Update", ["NewTransaction", "R:txn.Discard", "processors.Get", "getProcessorsPipeline",
      "processors.Update", "R:processors.Update", "Commit", "Skip"]),
    ("ProcessorOrchestrator.Delete", ["NewTransaction", "R:txn.Discard", "processors.Get", "getProcessorsPipeline",
      "processors.Delete", "R:processors.Create", "pipelines.RemoveProcessor", "R:pipelines.AddProcessor",
      "connectors.RemoveProcessor", "R:connectors.AddProcessor", "Commit", "Skip"])] := by
  decide

/-- status / provision / type codes of the model (`1 = running`, `0 = API`, `1 = source`,
parent `1 = connector`, `2 = pipeline`). -/
theorem C14_fact_constants :
    statusNames = ["StatusRunning", "StatusSystemStopped", "StatusUserStopped", "StatusDegraded", "StatusRecovering"] ∧
    pipelineProvisionNames = ["ProvisionTypeAPI", "ProvisionTypeConfig"] ∧
    connectorTypeNames = ["TypeSource", "TypeDestination"] ∧
    connectorProvisionNames.take 2 = ["ProvisionTypeAPI", "ProvisionTypeConfig"] ∧
    parentTypeNames = ["ParentTypeConnector", "ParentTypePipeline"] := by decide

end Conduit.Facts.C14
