import ConduitModel.Generated.Ctl
import ConduitModel.Props.C15

/-!
Facts obligations for C15: field classes, exporter coverage and update-action coverage as the
provisioning model (`Model/Prov.lean`) assumes them, regenerated from
`pkg/provisioning/{config/parser.go,export.go,import_actions.go,import.go}`.
-/
namespace Conduit.Facts.C15
open Conduit.Generated.Ctl

def subset (a b : List String) : Bool := a.all b.contains

/-- field classes used by the diff: a connector is re-created only when `Type` differs; the
pipeline diff ignores `Status`. -/
theorem C15_fact_field_classes :
    connectorImmutableFields = ["Type"] ∧
    connectorMutableFields = ["Name", "Settings", "Processors", "Plugin"] ∧
    pipelineMutableFields = ["Name", "Description", "Connectors", "Processors", "DLQ"] ∧
    pipelineIgnoredFields = ["Status"] := by decide

/-- every config field is classified: `ID` + mutable + immutable/ignored = all fields. -/
theorem C15_fact_classes_cover :
    subset configConnectorFields ("ID" :: connectorMutableFields ++ connectorImmutableFields) = true ∧
    subset configPipelineFields ("ID" :: pipelineMutableFields ++ pipelineIgnoredFields) = true := by decide

/-- exporters copy every config field the model exports (nested lists are exported separately;
the processor `Condition` is the regenerated flag `condExported`, F6). -/
theorem C15_fact_export_coverage :
    subset (configPipelineFields.filter (fun f => f ≠ "Connectors" && f ≠ "Processors")) pipelineToConfigFields = true ∧
    subset configDLQFields dlqToConfigFields = true ∧
    subset (configConnectorFields.filter (· ≠ "Processors")) connectorToConfigFields = true ∧
    subset (configProcessorFields.filter (· ≠ "Condition")) processorToConfigFields = true ∧
    condExported = processorToConfigFields.contains "Condition" := by decide

/-- update actions pass every mutable field on to the services (the processor `Condition` is
the regenerated flag `condUpdated`, F6); create actions read every field. -/
theorem C15_fact_update_coverage :
    subset pipelineMutableFields updatePipelineActionFields = true ∧
    subset connectorMutableFields updateConnectorActionFields = true ∧
    subset ["Plugin", "Settings", "Workers"] updateProcessorActionFields = true ∧
    condUpdated = updateProcessorActionFields.contains "Condition" ∧
    subset (configConnectorFields) createConnectorActionFields = true ∧
    subset (configProcessorFields) createProcessorActionFields = true := by decide

/-- position kept on the update path: the three connector-service methods the import's
`updateConnectorAction` calls (`Update` — also for a *plugin* change, `Plugin` being a mutable
field —, `AddProcessor`, `RemoveProcessor`) assign only Plugin / Config / UpdatedAt /
ProcessorIDs, never `State` (nor `Type`): what `svcCnUpdate`, `svcCnAddProc`, `svcCnRemProc`
of the model do, and what `C15_position_kept` rests on. -/
theorem C15_fact_update_keeps_state :
    subset connectorUpdateAssigns ["Plugin", "Config", "UpdatedAt"] = true ∧
    subset connectorAddProcessorAssigns ["ProcessorIDs", "UpdatedAt"] = true ∧
    subset connectorRemoveProcessorAssigns ["ProcessorIDs", "UpdatedAt"] = true := by decide

/-- the remove loop of `updateConnectorAction.update` ranges over the live slice iff the model
simulates the aliasing (F5). -/
theorem C15_fact_remove_loop : updConnCopies = (updConnRemoveRange != "c.ProcessorIDs") := by decide

end Conduit.Facts.C15
