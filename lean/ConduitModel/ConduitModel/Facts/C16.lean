import ConduitModel.Generated.Ctl
import ConduitModel.Generated.Gate
import ConduitModel.Props.C16

/-!
Facts obligations for C16: the gate-call order of the apply paths and the "running" status set,
regenerated from `pkg/provisioning/plan.go`, as `Model/Live.lean` assumes them.
-/
namespace Conduit.Facts.C16
open Conduit.Generated.Ctl

/-- `ApplyPlanLive`: lock, re-plan, (hash check), empty check, running check, import when
stopped; else in-place attempt; else `StopAndWait` → `transactionalImport` → `Start`. -/
theorem C16_fact_apply_live_order : callsApplyPlanLive =
    ["Lock", "Plan", "Empty", "isRunning", "isRunning", "transactionalImport", "LiveEligible", "Export", "applyInPlace",
     "StopAndWait", "transactionalImport", "Start"] := by decide

/-- `ApplyPlan`: lock, re-plan, empty check, running check, import. -/
theorem C16_fact_apply_order : callsApplyPlan = ["Lock", "Plan", "Empty", "isRunning", "transactionalImport"] := by decide

/-- in-place: import first, then the swaps, rollback = re-import + re-swap. -/
theorem C16_fact_inplace_order :
    callsApplyInPlace = ["transactionalImport", "ReconfigureProcessor", "rollbackInPlace"] ∧
    callsRollbackInPlace = ["transactionalImport", "ReconfigureProcessor"] ∧
    callsTransactionalImport = ["NewTransaction", "importPipeline", "Commit"] := by decide

/-- what the plan hash binds: `Diff.computeHash` digests PipelineID, Changes and Desired, and
every field of each `Change` reaches it — in particular `ConfigPaths` (which fields of the
*current* state differ; two plans with the same set of changes but different paths are
different plans), `LiveSwappable`, `Effect` and `Code`. This is the view `Model/Live.lean`
(`PlanView`, `Change`) compares in `applyPlanLive`'s staleness test. -/
theorem C16_fact_hash_inputs :
    hashFields = ["PipelineID", "Changes", "Desired"] ∧
    ["Resource", "ID", "Action", "Effect", "ConfigPaths", "LiveSwappable", "Code"].all hashChangeFields.contains = true := by
  decide

/-- "re-check precedes gate": `ApplyPlanLive` reads the running status twice (the second read
closes the window in which an external `Start` can land) and *both* reads come before the
authorisation gate `if running && !allowRestartOnRunning` — the order `Model/Live.lean`
(`flipState`, then the gate) assumes and `C16_running_needs_authorisation` is proved for. -/
theorem C16_fact_recheck_precedes_gate : isRunningReads = 2 ∧ isRunningReadsBeforeGate = 2 := by decide

/-- `isRunningStatus` = {Running, Recovering, Degraded} = the model's `{1, 5, 4}`. -/
theorem C16_fact_running_statuses :
    runningStatuses = ["pipeline.StatusRunning", "pipeline.StatusRecovering", "pipeline.StatusDegraded"] ∧
    (List.range 7).filter Conduit.Ctl.isRunningStatus = [1, 4, 5] := by decide

/-! ## the per-pipeline lock table (`pkg/provisioning/lock.go`) -/

open Conduit.Generated.Gate

/-- the section structure of `pipelineLocks.Lock`, regenerated: the map lookup, the creation of
the mutex and the map insert sit inside ONE `p.mu` section; the per-id mutex is acquired after
that section is left. This is the structure `C16_apply_lock_mutual_exclusion` is proved for
(`codeShape`); the split variant (`splitShape`) has a counterexample. -/
theorem C16_fact_lock_sections :
    lockSegments = [("Lock", ["lookup", "create", "insert"]), ("-", ["acquire", "return-release"])] ∧
    Conduit.LockTable.shapeOfSegments lockSegments = some Conduit.LockTable.codeShape := by decide

/-- nothing else touches the map: only `Lock` (and the constructor). -/
theorem C16_fact_lock_map_private : lockMapAccessors = ["Lock", "newPipelineLocks"] := by decide

/-- `ApplyPlan` and `ApplyPlanLive` — and nothing else — take the lock of `desired.ID` as their
first statement and defer the release in the next one: it is held for the entire body. -/
theorem C16_fact_lock_held_for_body :
    lockCallers = [("ApplyPlan", "desired.ID", true, true), ("ApplyPlanLive", "desired.ID", true, true)] := by decide

/-! ## the authorisation gate of the live apply -/

/-- there is one construction site of the pipeline API: `Runtime.serveGRPCAPI`. -/
theorem C16_fact_api_gate_sites : apiGateSites.map (·.1) = ["pkg/conduit/runtime.go:serveGRPCAPI"] := by decide

/-- C16.api_gate_is_operator_flag — the allow flag handed to `api.NewPipelineAPIv1` (its source
expression regenerated and translated, local definitions inlined) is, for every configuration,
exactly the operator flag `Config.API.AllowLiveRestartApply` — dev mode does not imply it. -/
theorem C16_api_gate_is_operator_flag : ∀ cfg : GateCfg, apiGate cfg = cfg.API_AllowLiveRestartApply := by
  intro cfg; rfl

/-- the handler hands exactly its constructor argument to `ApplyPlanLive`: the constructor
stores its parameter in the field, nothing else writes the field, the handler passes the field. -/
theorem C16_api_handler_passes_constructor_arg :
    (∀ a, apiHandlerPasses (apiCtorStores a) = a) ∧ apiGateFieldWriters = ["NewPipelineAPIv1"] :=
  ⟨fun _ => rfl, by decide⟩

/-- every caller of `ApplyPlanLive`: the API handler (passing its field) and the dev watcher
(passing `true`), nothing else. -/
theorem C16_fact_apply_live_sites :
    applyLiveSites = [("pkg/conduit/dev/apply.go:applyPipeline", "true"),
                      ("pkg/http/api/pipeline_v1.go:ApplyPipeline", "p.allowLiveRestartApply")] := by decide

/-- the dev watcher is started iff `Config.Dev.Enabled`. -/
theorem C16_fact_dev_watcher_guard :
    (∀ cfg : GateCfg, devWatcherGuard cfg = cfg.Dev_Enabled) ∧ devWatcherSites.length = 1 :=
  ⟨fun _ => rfl, by decide⟩

/-- who calls `ApplyPlanLive`. -/
inductive ApplySource where
  | api | devWatcher
deriving DecidableEq, Repr

/-- the caller exists in a server with this configuration. -/
def sourceExists (cfg : GateCfg) : ApplySource → Bool
  | .api => true
  | .devWatcher => devWatcherGuard cfg

/-- the `allowRestartOnRunning` argument the caller passes, as regenerated. -/
def allowArg (cfg : GateCfg) : ApplySource → Bool
  | .api => apiHandlerPasses (apiCtorStores (apiGate cfg))
  | .devWatcher => true

open Conduit.Ctl in
/-- C16 "a running pipeline is touched only with operator authorisation", end to end: for every
server configuration and every caller of `ApplyPlanLive` that exists under it — if the pipeline
is running when the gate is evaluated, the plan is non-empty, and the apply did anything but
refuse with `unauth` leaving everything as it was, then the operator flag
`--api.allow-live-restart-apply` is set, or the caller is the dev WATCHER of a server started in
dev mode. (`C16_running_needs_authorisation` + the regenerated gate expressions.) -/
theorem C16_running_touched_needs_flag_or_watcher (cfg : GateCfg) (src : ApplySource) (hsrc : sourceExists cfg src = true)
    (v : Variant) (c : PipeCfg) (env : LiveEnv) (s : St) (old : Option PipeCfg)
    (hex : exportPl v s.mem c.id = .ok old) (hrun : runningNow (flipState c env s) c.id = true)
    (hne : build v 1 old c ≠ [])
    (htouched : applyPlanLive v c (planView v old c) (allowArg cfg src) env s ≠ (.error .unauth, flipState c env s, [])) :
    cfg.API_AllowLiveRestartApply = true ∨ (src = .devWatcher ∧ cfg.Dev_Enabled = true) := by
  cases src with
  | devWatcher => exact Or.inr ⟨rfl, by rw [← C16_fact_dev_watcher_guard.1 cfg]; exact hsrc⟩
  | api =>
    have hallow : allowArg cfg .api = cfg.API_AllowLiveRestartApply := by
      show apiHandlerPasses (apiCtorStores (apiGate cfg)) = _
      rw [C16_api_handler_passes_constructor_arg.1, C16_api_gate_is_operator_flag]
    cases hf : cfg.API_AllowLiveRestartApply with
    | true => exact Or.inl rfl
    | false =>
      rw [hallow, hf] at htouched
      exact absurd (C16_running_needs_authorisation v c env s old hex hrun hne) htouched

end Conduit.Facts.C16
