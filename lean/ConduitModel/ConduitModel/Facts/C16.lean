import ConduitModel.Generated.Ctl
import ConduitModel.Props.C16

/-!
Facts obligations for C16: the gate-call order of the apply paths and the "running" status set,
regenerated from `pkg/provisioning/plan.go`, as `Model/Live.lean` assumes them.
-/
namespace Conduit.Facts.C16
open Conduit.Generated.Ctl

/-- `ApplyPlanLive`: lock, re-plan, (hash check), empty check, running check, import when
stopped; else in-place attempt; else `StopAndWait` → `transactionalImport` → `Start`. -/
theorem C16_fact_apply_live_order : callsApplyPlanLive =
    ["Lock", "Plan", "Empty", "isRunning", "isRunning", "transactionalImport", "LiveEligible", "Export", "applyInPlace",
     "StopAndWait", "transactionalImport", "Start"] := by decide

/-- `ApplyPlan`: lock, re-plan, empty check, running check, import. -/
theorem C16_fact_apply_order : callsApplyPlan = ["Lock", "Plan", "Empty", "isRunning", "transactionalImport"] := by decide

/-- in-place: import first, then the swaps, rollback = re-import + re-swap. -/
theorem C16_fact_inplace_order :
    callsApplyInPlace = ["transactionalImport", "ReconfigureProcessor", "rollbackInPlace"] ∧
    callsRollbackInPlace = ["transactionalImport", "ReconfigureProcessor"] ∧
    callsTransactionalImport = ["NewTransaction", "importPipeline", "Commit"] := by decide

/-- what the plan hash binds: `Diff.computeHash` digests PipelineID, Changes and Desired, and
every field of each `Change` reaches it — in particular `ConfigPaths` (which fields of the
*current* state differ; two plans with the same set of changes but different paths are
different plans), `LiveSwappable`, `Effect` and `Code`. This is the view `Model/Live.lean`
(`PlanView`, `Change`) compares in `applyPlanLive`'s staleness test. -/
theorem C16_fact_hash_inputs :
    hashFields = ["PipelineID", "Changes", "Desired"] ∧
    ["Resource", "ID", "Action", "Effect", "ConfigPaths", "LiveSwappable", "Code"].all hashChangeFields.contains = true := by
  decide

/-- "re-check precedes gate": `ApplyPlanLive` reads the running status twice (the second read
closes the window in which an external `Start` can land) and *both* reads come before the
authorisation gate `if running && !allowRestartOnRunning` — the order `Model/Live.lean`
(`flipState`, then the gate) assumes and `C16_running_needs_authorisation` is proved for. -/
theorem C16_fact_recheck_precedes_gate : isRunningReads = 2 ∧ isRunningReadsBeforeGate = 2 := by decide

/-- `isRunningStatus` = {Running, Recovering, Degraded} = the model's `{1, 5, 4}`. -/
theorem C16_fact_running_statuses :
    runningStatuses = ["pipeline.StatusRunning", "pipeline.StatusRecovering", "pipeline.StatusDegraded"] ∧
    (List.range 7).filter Conduit.Ctl.isRunningStatus = [1, 4, 5] := by decide

end Conduit.Facts.C16
