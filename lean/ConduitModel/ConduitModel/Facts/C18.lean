import ConduitModel.Generated.Egress
import ConduitModel.Props.C18

/-!
Facts obligations for C18: the coverage theorems over the tables REGENERATED from
`pkg/plugin/processor/egress/ipguard.go` (every `a < 2^32`, every `x < 2^128`; `omega`, kernel
only), the instantiation of the dial theorems with them, and the construction facts of the http
client / guard order regenerated from `service.go`, `policy.go`.
-/
namespace Conduit.Facts.C18
open Conduit.Generated.Egress Conduit.Egress

/-- the tables of the source. -/
def tables : Tables :=
  { v4 := refusedV4, v6 := refusedV6, nat64 := nat64Net, translated := v4TranslatedNet,
    v4McastFirstByte := v4McastFirstByte, v6McastFirstByte := 255,
    rUnparseable := reasonUnparseable, rV4Mapped := reasonV4Mapped, rV4Compatible := reasonV4Compatible,
    rV4Translated := reasonV4Translated, rNAT64 := reasonNAT64, rSixToFour := reasonSixToFour,
    rTeredo := reasonTeredo, rMulticast := reasonMulticastEtc }

def defaults : Defaults := ⟨defaultTimeoutNs, defaultMaxResponseBytes⟩

/-! ### IPv4 -/

/-- C18.floor_refused_v4 — for ALL 2^32 IPv4 addresses: loopback, this-network, RFC 1918,
link-local (metadata), CGNAT and everything ≥ 224.0.0.0 is refused by `classifyV4` over the
regenerated `refusedV4` table and threshold. -/
theorem C18_floor_refused_v4 (a : Nat) (ha : a < P32) (hf : FloorV4 a) : (classifyV4 tables a).isSome = true := by
  unfold FloorV4 at hf
  simp only [P32] at ha
  rw [classifyV4_isSome]
  simp only [tables, refusedV4, List.any_cons, List.any_nil, cidrContains, v4McastFirstByte,
    Nat.reducePow, Nat.reduceSub, Nat.reduceDiv, Bool.or_false, Bool.or_eq_true, beq_iff_eq]
  simp only [ge_iff_le, decide_eq_true_eq]
  omega

/-- C18.v4_refused_only_floor — and nothing else: an IPv4 address outside the documented floor
(public unicast) is never refused by range, so the gate does not over-block either. -/
theorem C18_v4_refused_only_floor (a : Nat) (ha : a < P32) (hr : (classifyV4 tables a).isSome = true) : FloorV4 a := by
  unfold FloorV4
  simp only [P32] at ha
  rw [classifyV4_isSome] at hr
  simp only [tables, refusedV4, List.any_cons, List.any_nil, cidrContains, v4McastFirstByte,
    Nat.reducePow, Nat.reduceSub, Nat.reduceDiv, Bool.or_false, Bool.or_eq_true, beq_iff_eq] at hr
  simp only [ge_iff_le, decide_eq_true_eq] at hr
  omega

/-! ### IPv6 -/

/-- turn `refusedV6Part tables x = true` (goal) into arithmetic over the regenerated tables and
close it with `omega`. Written against the table *shape*, not its rows: a changed or added CIDR
re-runs the same proof. -/
macro "egress_v6_arith" : tactic => `(tactic| (
  simp only [refusedV6Part, tables, nat64Net, v4TranslatedNet, refusedV6, List.any_cons, List.any_nil,
    cidrContains, isV4Compatible, P32, Nat.reducePow, Nat.reduceSub, Nat.reduceDiv, Nat.div_one,
    Bool.or_false, Bool.or_eq_true, Bool.and_eq_true, Bool.not_eq_true', beq_iff_eq,
    Bool.or_eq_false_iff, beq_eq_false_iff_ne, ne_eq]
  omega))

/-- C18.floor_refused_v6 — for ALL 2^128 16-byte addresses: ::, ::1, fe80::/10, fec0::/10,
fc00::/7, ff00::/8 and every embedded-IPv4 form (v4-mapped, v4-compatible, IPv4-translated,
NAT64, 6to4, Teredo server and client) of a floor IPv4 address is refused. -/
theorem C18_floor_refused_v6 (x : Nat) (hx : x < P128) (hf : FloorV6 x) : refused tables (.b16 x) = true := by
  rw [refused_b16]
  simp only [P128, P32] at hx ⊢
  rcases hf with hn | ⟨a, ha, hfa, he⟩
  · -- genuinely IPv6 floor
    unfold FloorV6Native at hn
    rw [if_neg (by omega)]
    egress_v6_arith
  · have hcl := C18_floor_refused_v4 a ha hfa
    simp only [P32] at ha
    cases he with
    | mapped =>
      have h1 : (281470681743360 + a) / 4294967296 = 0xffff := by omega
      have h2 : (281470681743360 + a) % 4294967296 = a := by omega
      rw [if_pos h1, h2]; exact hcl
    | compatible => rw [if_neg (by omega)]; egress_v6_arith
    | translated => rw [if_neg (by omega)]; egress_v6_arith
    | nat64 => rw [if_neg (by omega)]; egress_v6_arith
    | sixToFour low hl => rw [if_neg (by omega)]; egress_v6_arith
    | teredoServer f hfl => rw [if_neg (by omega)]; egress_v6_arith
    | teredoClient mid hm => rw [if_neg (by omega)]; egress_v6_arith

/-- C18.synthesized_blocks_refused_wholesale — the NAT64 (64:ff9b::/96), IPv4-translated
(::ffff:0:0:0/96), 6to4 (2002::/16), Teredo (2001:0::/32) and v4-compatible (::/96) blocks are
refused whatever IPv4 address they embed (public ones too). -/
theorem C18_synthesized_blocks_refused_wholesale (x : Nat) (hx : x < P128)
    (h : x / 2 ^ 32 = 0x64ff9b0000000000000000 ∨ x / 2 ^ 32 = 0xffff0000 ∨
      x / 2 ^ 112 = 0x2002 ∨ x / 2 ^ 96 = 0x20010000 ∨ x < 2 ^ 32) : refused tables (.b16 x) = true := by
  rw [refused_b16]
  simp only [P128, P32, Nat.reducePow] at hx h ⊢
  rw [if_neg (by omega)]
  egress_v6_arith

/-- C18.covers_floor — the regenerated tables refuse the whole documented floor, in every
`net.IP` form (4-byte, 16-byte, malformed). -/
theorem C18_covers_floor : CoversFloor tables := by
  intro ip hv hf
  cases ip with
  | b4 a => rw [refused_b4]; exact C18_floor_refused_v4 a hv hf
  | b16 x => exact C18_floor_refused_v6 x hv hf
  | bad => rfl

/-- C18.dial_only_public_or_carved over the regenerated tables — the property's first sentence
for the code as it is today. -/
theorem C18_dial_only_public_or_carved_generated (p : Policy) (port : String) (expand : IP → List IP)
    (ok : IP → Bool) (hv : ∀ ip, ∀ a ∈ expand ip, a.Valid) (cands : List IP) :
    ∀ a ∈ connectAttempts (dialContext tables p port expand ok cands).flatten,
      ¬ Floor a ∨ matchesCarveOut p a port = true :=
  C18_dial_only_public_or_carved tables C18_covers_floor p port expand ok hv cands

/-- C18.do_only_public_or_carved over the regenerated tables — a whole `Service.Do`. -/
theorem C18_do_only_public_or_carved_generated (p : Policy) (scheme host port : String) (reqIP : Option IP)
    (expand : IP → List IP) (ok : IP → Bool) (hv : ∀ ip, ∀ a ∈ expand ip, a.Valid)
    (answers : Option (List IP)) (redirects : Bool) :
    ∀ a ∈ connectAttempts (doRequest tables p scheme host port reqIP expand ok answers redirects).2.flatten,
      (¬ Floor a ∨ matchesCarveOut p a port = true) ∧
      p.enabled = true ∧ matchHostPort p scheme host port reqIP = true :=
  C18_do_only_public_or_carved tables C18_covers_floor p scheme host port reqIP expand ok hv answers redirects

/-- the metadata endpoint 169.254.169.254 in its five spellings. -/
theorem C18_metadata_refused :
    refused tables (.b4 2852039166) = true ∧ refused tables (.b16 (281470681743360 + 2852039166)) = true ∧
    refused tables (.b16 2852039166) = true ∧ refused tables (.b16 (18446462598732840960 + 2852039166)) = true ∧
    refused tables (.b16 (524413980667603649783483181312245760 + 2852039166)) = true := by decide

/-- the effective policy respects the ceiling with the source's defaults. -/
theorem C18_effective_le_ceiling_generated (per c : Policy) :
    let eff := (resolvePolicy defaults per c).1
    (eff.enabled = true → per.enabled = true ∧ c.enabled = true) ∧
    (∀ e ∈ eff.allow, e ∈ per.allow ∧ ceilingAllowsEntry c e) ∧
    (∀ s ∈ eff.secrets, s ∈ per.secrets ∧ ceilingGrantsSecret c s) ∧
    (eff.enabled = true → 0 < c.timeout → eff.timeout ≤ c.timeout) ∧
    (eff.enabled = true → 0 < c.maxBytes → eff.maxBytes ≤ c.maxBytes) ∧
    (eff.enabled = true → 0 < eff.timeout ∧ 0 < eff.maxBytes) :=
  C18_effective_le_ceiling defaults (by decide) per c

/-! ### what the model assumes about the code's shape -/

/-- `Refuse` / `classifyV4` / `isV4Compatible` test what `Model.refuse` tests, in that order. -/
theorem C18_fact_refuse_guards :
    refuseGuards =
      ["ip == nil => return true, reasonUnparseable", "ip16 == nil => return true, reasonUnparseable",
       "v4 := ip.To4(); v4 != nil => return false, reasonNotRefused",
       "r := classifyV4(v4); r != reasonNotRefused => return true, r",
       "len(ip) == net.IPv6len && !isRawV4(ip) => return true, reasonV4Mapped",
       "nat64Net.Contains(ip16) => return true, reasonNAT64",
       "v4TranslatedNet.Contains(ip16) => return true, reasonV4Translated",
       "ip16[0] == 0x20 && ip16[1] == 0x02 => return true, reasonSixToFour",
       "ip16[0] == 0x20 && ip16[1] == 0x01 && ip16[2] == 0x00 && ip16[3] == 0x00 => return true, reasonTeredo",
       "isV4Compatible(ip16) => return true, reasonV4Compatible",
       "r.net.Contains(ip16) => return true, r.reason", "ip16[0] == 0xff => return true, reasonMulticastEtc"] ∧
    classifyV4Guards =
      ["v4 == nil => return reasonUnparseable", "r.net.Contains(v4) => return r.reason",
       "v4[0] >= 224 => return reasonMulticastEtc"] ∧
    isV4CompatibleBody =
      ["ip16[i] != 0 => return false", "for i := 0; i < 12; i++ { if ip16[i] != 0 { return false } }",
       "last4 := ip16[12:16]",
       "return last4[0] != 0 || last4[1] != 0 || last4[2] != 0 || (last4[3] != 0 && last4[3] != 1)"] ∧
    isRawV4Body = ["return len(ip) == net.IPv4len"] ∧ reasonNotRefused = "" := ⟨rfl, rfl, rfl, rfl, rfl⟩

/-- `dialControl` and `dialContext` gate every candidate with `Refuse` and the (IP, port)
carve-out, as `Model.dialControl` / `Model.dialContext` do. -/
theorem C18_fact_dial_guards :
    dialControlGuards =
      ["err != nil => return &dialRefusedError{reason: reasonUnparseable, port: port}",
       "ip == nil => return &dialRefusedError{reason: reasonUnparseable, port: port}",
       "refused, reason := Refuse(ip); refused => return &dialRefusedError{ip: ip, port: port, reason: reason}",
       "s.policy.matchesCarveOut(ip, port) => return nil"] ∧
    dialContextGuards =
      ["err != nil => return nil, &dialRefusedError{reason: reasonUnparseable}",
       "ip := net.ParseIP(host); ip != nil => candidates = []net.IP{ip}",
       "rerr != nil => return nil, &dnsError{err: rerr}",
       "len(ips) == 0 => return nil, &dnsError{err: cerrors.Errorf(\"no addresses for %q\", host)}",
       "refused, reason := Refuse(ip); refused && !s.policy.matchesCarveOut(ip, port) => continue",
       "derr != nil => continue",
       "lastRefusal == nil => lastRefusal = &dialRefusedError{reason: reasonUnparseable, port: port}"] ∧
    matchesCarveOutGuards = ["e.IsIP() && e.Port == port && e.IP.Equal(ip) => return true"] := ⟨rfl, rfl, rfl⟩

/-- `Do` refuses a disabled policy first, then validates the request line, then Stage 1, and only
then lets the transport dial; `classifyDoError` maps a refused dial to forbidden before anything
else; `MatchHostPort` is exact on scheme and port, by address for IP entries, by name otherwise. -/
theorem C18_fact_do_guards :
    doGuards = ["!s.policy.Enabled", "err != nil", "port == \"\"", "scheme == schemeHTTPS",
      "!s.policy.MatchHostPort(scheme, host, port)", "err != nil", "err != nil", "int64(len(body)) > limit",
      "readErr != nil", "isTimeout(readErr)"] ∧
    classifyDoErrorGuards =
      ["cerrors.As(err, &refused) => return egressErr(pprocutils.ErrHTTPForbidden, \"resolved IP refused by egress policy\")",
       "cerrors.As(err, &dnsE) => return egressErr(pprocutils.ErrHTTPDNS, \"DNS resolution failed\")",
       "cerrors.Is(err, errRedirectBlocked) => return egressErr(pprocutils.ErrHTTPForbidden, \"redirects are not followed\")",
       "isTimeout(err) => return egressErr(pprocutils.ErrHTTPTimeout, \"egress call timed out\")"] ∧
    matchHostPortGuards =
      ["e.Scheme != scheme || e.Port != port => continue", "e.IsIP() => continue",
       "reqIP != nil && e.IP.Equal(reqIP) => return true", "e.Host == host => return true"] := ⟨rfl, rfl, rfl⟩

/-- "whatever the … redirect or proxy environment": the http client is built with `Proxy: nil`
(never from the environment), the gated `DialContext` and no TLS-specific dialer that would
bypass it, the base dialer's `Control` is the gate, nothing is reassigned afterwards, and
`CheckRedirect` refuses every redirect unconditionally. -/
theorem C18_fact_http_client_construction :
    transportProxy = "nil" ∧ transportDialContext = "s.dialContext(base)" ∧ dialerControl = "s.dialControl" ∧
    clientTransport = "transport" ∧ checkRedirectBody = ["return errRedirectBlocked"] ∧
    newLaterAssignments = [] ∧ proxyOrTLSDialIdents = [] ∧
    transportFields = ["DialContext", "ExpectContinueTimeout", "ForceAttemptHTTP2", "IdleConnTimeout",
      "MaxIdleConns", "Proxy", "TLSHandshakeTimeout"] ∧
    clientFields = ["CheckRedirect", "Timeout", "Transport"] := ⟨rfl, rfl, rfl, rfl, rfl, rfl, rfl, rfl, rfl⟩

/-- headers the guest can never set (Host/:authority confusion, credential injection,
decompression-bomb bypass, connection control). -/
theorem C18_fact_reserved_headers :
    ∀ h ∈ ["Host", ":authority", "Authorization", "Accept-Encoding", "Connection", "Proxy-Connection",
           "Proxy-Authorization", "Transfer-Encoding", "Content-Length", "Upgrade", "Keep-Alive", "Te", "Trailer"],
      h ∈ reservedHeaders := by decide

/-- `ResolvePolicy` / `intersectRefs` / `entryKey` have the shape `Model.resolvePolicy` mirrors. -/
theorem C18_fact_resolve_policy_guards :
    resolvePolicyGuards =
      ["!perProcessor.Enabled => return DenyAll(), nil", "!ceiling.Enabled => return DenyAll(), perProcessor.Allowlist",
       "eff.Timeout <= 0 => eff.Timeout = DefaultTimeout",
       "eff.MaxResponseBytes <= 0 => eff.MaxResponseBytes = DefaultMaxResponseBytes",
       "ceiling.Timeout > 0 && eff.Timeout > ceiling.Timeout => eff.Timeout = ceiling.Timeout",
       "ceiling.MaxResponseBytes > 0 && eff.MaxResponseBytes > ceiling.MaxResponseBytes => eff.MaxResponseBytes = ceiling.MaxResponseBytes",
       "len(ceiling.Allowlist) == 0 => return eff, nil",
       "len(ceiling.SecretRefs) > 0 => eff.SecretRefs = intersectRefs(perProcessor.SecretRefs, ceiling.SecretRefs)",
       "_, ok := ceilingSet[entryKey(e)]; ok => eff.Allowlist = append(eff.Allowlist, e)",
       "len(eff.Allowlist) == 0 => eff.Allowlist = nil"] ∧
    intersectRefsGuards = ["_, ok := ceiling[ref]; ok => out[ref] = struct{}{}"] ∧
    entryKeyBody = ["return e.Scheme + \"|\" + e.Host + \"|\" + e.Port"] := ⟨rfl, rfl, rfl⟩

end Conduit.Facts.C18
