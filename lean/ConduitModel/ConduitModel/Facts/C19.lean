import ConduitModel.Generated.Policy
import ConduitModel.Generated.RegistryIndex
import ConduitModel.Generated.RegistryInstall
import ConduitModel.Generated.RegistryExtract
import ConduitModel.Generated.Atomicfile
import ConduitModel.Props.C19
import ConduitModel.Props.C19Flock

/-!
Facts obligations for C19: what the hand models assume about the source is what the source says
today. (The gate orders, `policy.Decide`, `index.CheckRollback` and the `WriteFile` operation list
are consumed directly by the theorems of `Props/C19.lean`; the facts here tie the remaining
hand-modelled structure.)
-/
namespace Conduit.Facts.C19
open Conduit.Generated Conduit.Gates

/-! ### ExtractBinary (Model/Extract.lean) -/

/-- the decompression cap of the model is the source's `maxExtractedBytes`. -/
theorem C19_fact_extract_cap : RegistryExtract.maxExtractedBytes = Conduit.Registry.maxExtractedBytes := by decide

/-- per entry: read header, stop at EOF, refuse a read error, clean the name, refuse an escaping
name (`IsAbs || == ".." || HasPrefix "../"`) — *before* the type switch — then switch on the type. -/
theorem C19_fact_extract_loop : RegistryExtract.extractLoopShape =
    ["assign:hdr, err := tr.Next()", "if:err == io.EOF", "if-return:err != nil",
     "assign:cleanName := filepath.Clean(hdr.Name)",
     "if-return:filepath.IsAbs(cleanName) || cleanName == \"..\" || strings.HasPrefix(cleanName, \"..\"+string(filepath.Separator))",
     "switch:hdr.Typeflag"] := by decide

/-- directories and unknown types are skipped, links refused, regular files extracted (`extractEntry`). -/
theorem C19_fact_extract_switch : RegistryExtract.extractSwitch =
    ["tar.TypeDir => continue", "tar.TypeSymlink,tar.TypeLink => return-error", "tar.TypeReg => extract",
     "default => continue"] := by decide

/-- the regular-file arm, statement by statement (`extractReg`): root test, `Join`, `MkdirAll(Dir)`,
exclusive create, bounded copy (`cap - total + 1`), total and cap test (`>`), candidate bookkeeping. -/
theorem C19_fact_extract_reg : RegistryExtract.extractRegShape =
    ["assign:isRoot := !strings.Contains(cleanName, string(filepath.Separator))",
     "assign:destPath := filepath.Join(destDir, cleanName)",
     "if-return:err := os.MkdirAll(filepath.Dir(destPath), 0o700); err != nil",
     "assign:out, err := os.OpenFile(destPath, os.O_WRONLY|os.O_CREATE|os.O_EXCL, 0o755)",
     "if-return:err != nil",
     "assign:n, copyErr := io.Copy(out, io.LimitReader(tr, maxExtractedBytes-extractedTotal+1))",
     "assign:closeErr := out.Close()", "if-return:copyErr != nil", "if-return:closeErr != nil",
     "assign:extractedTotal += n", "if-return:extractedTotal > maxExtractedBytes", "if-continue:!isRoot",
     "if-return:candidate != \"\"", "assign:candidate = cleanName"] := by decide

theorem C19_fact_extract_tail : RegistryExtract.extractTail =
    ["if-return:candidate == \"\"", "return:filepath.Join(destDir, candidate)"] := by decide

/-- the install pipeline extracts into a directory it has just created under the staging directory
(`FS.initial`: the destination exists and is empty). -/
theorem C19_fact_extract_dir : RegistryExtract.extractAndGuardAssigns =
    ["extractDir := filepath.Join(stagingDir, \"extracted\")",
     "binaryPath, err := ExtractBinary(archivePath, extractDir)",
     "guardFD, err := openRegularNoFollow(binaryPath)"] := by decide

/-! ### The verification gate (Model/Install.lean) -/

/-- `runVerificationGate`: unsigned branch first, then bundles, verifier, and the `!Signed` refusal. -/
theorem C19_fact_gate_shape :
    RegistryInstall.runVerificationGateOrder =
      [("unsignedInstallGate", true, "opts.AllowUnsigned", false), ("fetchArtifactRef", true, "", false),
       ("VerifyArtifact", true, "", false)] ∧
    RegistryInstall.runVerificationGateConds = ["opts.AllowUnsigned", "err != nil", "err != nil", "!verifyResult.Signed"] := by decide

/-- `unsignedInstallGate`: `policy.Decide` (guarded), the defensive `!dec.Allowed()` refusal, the
mandatory audit append (guarded), and only then `VerifyResult{Signed: false}`. -/
theorem C19_fact_unsigned_gate_shape :
    RegistryInstall.unsignedInstallGateOrder =
      [("Decide", true, "", false), ("AppendUnsignedInstallEvent", true, "", false)] ∧
    RegistryInstall.unsignedInstallGateConds = ["err != nil", "!dec.Allowed()"] ∧
    RegistryInstall.unsignedInstallGateResult = "VerifyResult{Signed: false, VerifiedIdentity: \"\"}" ∧
    Policy.decisionAllowedBody = "{ return d.allowed }" := by decide

/-- which install option feeds which `policy.Context` field (the model passes `ctx` straight through). -/
theorem C19_fact_policy_wiring : RegistryInstall.policyContextWiring =
    ["TTY=opts.TTY", "CIEnv=opts.CIEnv", "IsMCP=opts.IsMCP", "OperatorPolicy=opts.OperatorAllowUnsigned",
     "EnvVarSet=opts.EnvVarSet", "TypedConfirmation=opts.TypedConfirmation"] := by decide

/-- the manifest records the gate's own result (`Signed`, `AllowUnsigned = !Signed`) and the digest
of the received bytes. -/
theorem C19_fact_manifest_fields : RegistryInstall.manifestEntryVerificationFields =
    ["Digest=fmt.Sprintf(\"sha256:%x\", o.digest)", "Signed=o.verifyResult.Signed",
     "VerifiedIdentity=o.verifyResult.VerifiedIdentity", "AllowUnsigned=!o.verifyResult.Signed"] := by decide

/-- `CheckCorruption` refuses a malformed declared digest and any differing byte. -/
theorem C19_fact_corruption : RegistryInstall.checkCorruptionConds =
    ["err != nil || len(wantBytes) != len(got)", "got[i] != wantBytes[i]"] := by decide

/-- `Install` / `InstallProcessor` reach the shared core only through the index verifier. -/
theorem C19_fact_top_order :
    domBy (ofTuples RegistryInstall.installTopOrder) "VerifyIndex" "installArtifact" = true ∧
    domBy (ofTuples RegistryInstall.installProcessorTopOrder) "VerifyIndex" "installArtifact" = true := by decide

/-- the offline verification helper: both digest comparisons, then the verifier, then `!Signed`. -/
theorem C19_fact_bundle_verify :
    RegistryInstall.verifyBundleArtifactOrder =
      [("CheckCorruption", true, "", false), ("CheckCorruption", true, "", false), ("VerifyArtifact", true, "", false)] ∧
    RegistryInstall.verifyBundleArtifactConds = ["err != nil", "!verifyResult.Signed"] := by decide

/-- `verifyBundleIndex`: accepted-and-verified returns at once; anything but a stale refusal is
final; the override needs the flag, `DecideStaleBundle`, a successful verified retry on a copy of
the verifier whose only change is `MaxStaleness`, and the audit entry. -/
theorem C19_fact_bundle_index :
    RegistryInstall.verifyBundleIndexConds =
      ["err == nil", "!verified.Verified", "!ok || ce.Code != index.CodeIndexStale", "!opts.AllowStaleBundle",
       "!dec.Allowed()", "err != nil", "!verified.Verified", "logErr != nil"] ∧
    RegistryInstall.verifyBundleIndexRelaxed =
      ["relaxed := *opts.Verifier", "relaxed.MaxStaleness = 100 * 365 * 24 * time.Hour"] ∧
    RegistryInstall.verifyBundleIndexOrder =
      [("VerifyIndex", false, "", false), ("DecideStaleBundle", false, "", false), ("VerifyIndex", true, "", false),
       ("AppendAuditEvent", true, "", false)] := by decide

/-! ### Index state (Model/IndexState.lean) -/

/-- the lock is taken first (guarded) and released by `defer`: the whole function is one critical section. -/
theorem C19_fact_index_lock :
    RegistryIndex.verifyIndexOrder.head? = some ("acquireIndexStateLock", true, "", false) ∧
    RegistryIndex.verifyIndexOrder[1]? = some ("Unlock", false, "", true) := by decide

/-- `CheckRollback` compares the fetched version with the loaded state's, and exactly the fetched
version is persisted. -/
theorem C19_fact_index_wiring :
    RegistryIndex.checkRollbackArgs = ["verified.Payload.Index.Version", "state.Version"] ∧
    RegistryIndex.newStateVersionExpr = "verified.Payload.Index.Version" ∧
    RegistryIndex.newStateVersionReassigned = [] ∧
    RegistryIndex.saveStateArgs = ["v.StatePath", "newState"] := by decide

/-- index state and manifest are written through `atomicfile.WriteFile` only. -/
theorem C19_fact_atomic_writers :
    RegistryIndex.saveStateWrites = [("Marshal", true, "", false), ("WriteFile", true, "", false)] ∧
    RegistryInstall.saveManifestWrites = [("MarshalIndent", true, "", false), ("WriteFile", true, "", false)] ∧
    RegistryInstall.writeManifestEntryOrder =
      [("AcquireManifestLock", true, "", false), ("Unlock", false, "", true), ("LoadManifest", true, "", false),
       ("SaveManifest", true, "", false)] := by decide

/-! ### atomicfile.WriteFile (Model/AtomicFile.lean) -/

/-- the temp file is created in the target's own directory, its content is the whole `content`, it
is removed on every exit path (deferred, registered right after creation), and it is renamed onto
`path`; success is reported only after the rename. -/
theorem C19_fact_writefile_wiring :
    Atomicfile.writeFileWiring =
      ["dir := filepath.Dir(path)", "tmp, err := os.CreateTemp(dir, \".atomicfile-*.tmp\")", "tmpPath := tmp.Name()",
       "os.Remove(tmpPath)", "tmp.Write(content)", "os.Rename(tmpPath, path)"] ∧
    Atomicfile.writeFileOps[1]? = some ("Remove", false, "", true) ∧
    Atomicfile.writeFileLast = "return nil" ∧
    (Atomicfile.writeFileOps.filter fun t => t.2.1 == false && t.2.2.1 == "" && t.2.2.2 == false) = [] := by decide

/-- durability against power loss (outside the process-kill crash model of `C19_atomic_replace`):
the temp file is synced and closed between the write and the rename. -/
theorem C19_fact_sync_before_rename :
    (Atomicfile.writeFileOps.filter fun t => t.2.2.1 == "" && !t.2.2.2).map (·.1) =
      ["CreateTemp", "Write", "Sync", "Close", "Chmod", "Rename"] := by decide

/-- hypothesis of `C19_flock_mutual_exclusion` (Props/C19Flock.lean): no code of pkg/registry unlinks or
renames a lock file, or even reads a lock's path — the only operations on a lock are acquire
(`flock.New(path).TryLockContext`) and `Unlock`. Regenerated from every non-test file of the package. -/
theorem C19_fact_lock_files_never_unlinked : Conduit.Generated.RegistryIndex.lockFileUnlinks = [] := by decide

/-- … so every history of opens / locks / unlocks the code can produce on one lock path keeps at most one
process inside the guarded section (the model theorem, restated for event lists built from the code's
three operations). -/
theorem C19_locks_serialise (evs : List Conduit.FlockFile.Ev) (s' : Conduit.FlockFile.St)
    (hcode : ∀ e ∈ evs, (∃ p, e = .openP p) ∨ (∃ p, e = .lock p) ∨ (∃ p, e = .unlock p))
    (h : Conduit.FlockFile.run {} evs = some s') : s'.inside ≤ 1 := by
  apply Conduit.FlockFile.C19_flock_mutual_exclusion_from_start evs s' _ h
  intro hm
  rcases hcode _ hm with ⟨p, hp⟩ | ⟨p, hp⟩ | ⟨p, hp⟩ <;> cases hp

end Conduit.Facts.C19
