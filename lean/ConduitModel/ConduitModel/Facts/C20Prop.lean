import ConduitModel.Generated.ErrProp
import ConduitModel.Props.C20

/-!
Facts obligation for C20: every error-PROPAGATION site of the packages an error crosses between
a node / task failure (or an ack / nack handler) and the lifecycle service's fatal-vs-recoverable
classification — `pkg/lifecycle`, `pkg/lifecycle/stream`, `pkg/lifecycle-poc`,
`pkg/lifecycle-poc/funnel`, `pkg/connector`, `pkg/processor`, `pkg/foundation/cerrors` — puts
every error-valued argument on a `%w` its constructor honours (`Spec.propSiteOk`, decided by the
model of the xerrors format scanner on the regenerated (kind, format, arity, error-argument
indices) of each site). `C20_prop_site_keeps_errors` then says none of these sites flattens an
error, which is what makes every `…: %w` wrapper of `Model/AckErr` (and of the layer lists of
`C20_v1_route_marks_survive`) the transparent wrapper the model takes it for.

Sites that do not satisfy it are pinned one by one (file, function, format): a NEW flattening
site — `%v`, `%s`, `err.Error()`, a second `%w`, `cerrors.New(err.Error())` — breaks the
obligation.
-/
namespace Conduit.Facts.C20
open Conduit.Generated.ErrProp Conduit.Errs

/-- the sites that flatten an error they are given: (file, function, format). -/
def flatteningSites : List (String × String × String) :=
  (sites.filter fun s =>
      !propSiteOk s.2.2.2.1 (bytesOf s.2.2.2.2.2.1 s.2.2.2.2.2.2.1) s.2.2.2.2.2.2.2.1 s.2.2.2.2.2.2.2.2).map
    fun s => (s.1, s.2.1, s.2.2.2.2.1)

/-- C20 hypothesis "annotating keeps classification" for the propagation packages. The only
pinned site is a false positive of the syntactic error test: `connector.Destination.Ack` builds a
fresh error from the TEXT field `ack.Error` of the plugin's ack response (a string, not an error
value) — there is no Go error there to keep. -/
theorem C20_fact_propagation_sites_wrap :
    flatteningSites = [("pkg/connector/destination.go", "Destination.Ack", "ack.Error")] := by decide +kernel

/-- the scan covered the v1 engine, its service, and the v2 analogues. -/
theorem C20_fact_propagation_scope :
    (∀ d ∈ ["pkg/lifecycle", "pkg/lifecycle/stream", "pkg/lifecycle-poc", "pkg/lifecycle-poc/funnel"], d ∈ scope) ∧
    (sites.length ≥ 100) := by decide +kernel

/-- the three wrappers the v1 route model writes as `wrapW` are in the table with these formats
(so `Spec.fmtNacking` / `fmtAcking` / `fmtNodeStopped` are the source's formats today). -/
theorem C20_fact_route_formats :
    (sites.filter fun s => s.2.1 == "DestinationAckerNode.handleAck").map (fun s => bytesOf s.2.2.2.2.2.1 s.2.2.2.2.2.2.1)
      = [fmtNacking, fmtAcking] ∧
    ((sites.filter fun s => s.1 == "pkg/lifecycle/service.go" && s.2.1 == "Service.runPipeline").map
      (fun s => bytesOf s.2.2.2.2.2.1 s.2.2.2.2.2.2.1)).contains fmtNodeStopped = true := by decide +kernel

end Conduit.Facts.C20
