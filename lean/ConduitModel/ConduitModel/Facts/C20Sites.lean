import ConduitModel.Generated.Errs
import ConduitModel.Props.C20

/-!
Facts obligation for C20 (own module: it is the expensive one, and the one that fails while a
multi-`%w` call site exists): every `cerrors.Errorf` call site of the repository, decided by the
model of `xerrors.Errorf` on the regenerated (format, argument count) of each site.
-/
namespace Conduit.Facts.C20
open Conduit.Generated.Errs Conduit.Errs

/-- call sites that do NOT keep every `%w` argument reachable, decided by the model of
`xerrors.Errorf` on the regenerated (format, argument count) of each site. -/
def badErrorfSites : List String :=
  (errorfSites.filter fun s => !goodSite (bytesOf s.2.1 s.2.2.1) s.2.2.2).map (·.1)

/-- C20 hypothesis "every wrapper in the code base is classification-preserving": no non-test
`cerrors.Errorf` call site holds more than one `%w` (or a `%w` xerrors does not honour). -/
theorem C20_fact_errorf_sites_good : badErrorfSites = [] := by decide +kernel

/-- every format is a constant string (nothing escaped the check above). -/
theorem C20_fact_errorf_no_dynamic_format : errorfDynamic = [] := by decide

end Conduit.Facts.C20
