import ConduitModel.Generated.SharedSink
import ConduitModel.Props.SharedSink

/-!
Facts obligations for the shared-sink protocol (C01/C04/C05, arch-v2): the statement order of the
`sharedBoundary` branch of `Worker.doTask` and of its surroundings that `Model/SharedSink.lean`
follows, regenerated from /repo/pkg/lifecycle-poc/funnel/{worker,sink}.go and
lifecycle-poc/service.go on every run (factgen/sharedsink.go).
-/
namespace Conduit.Facts.SharedSink
open Conduit.Generated.SharedSink

/-- `doTask`: shared entry block → the sub-pass (`doTaskAttempt`) → failure block → return.
(model: `acquire`, `checkPoison` | the sub-pass events, `subEnd` | `setPoison` | `release`) -/
theorem C01_fact_shared_doTask_shape :
    doTaskTop = ["if taskNode.sharedBoundary", "w.doTaskAttempt", "if err != nil && taskNode.sharedBoundary", "return err"] := by
  decide

/-- the entry block: `Lock()`, the `defer Unlock()` registered right after it, THEN the poison
check, whose refusal returns the coded error without touching lock, latch, sub-pass or destination.
(model: `acquire` before `checkPoison`; a check before the lock lets a worker that passed it enter
a root poisoned meanwhile — seeded change C01_3) -/
theorem C01_fact_shared_lock_before_poison_check :
    sharedEntry = ["taskNode.sharedMu.Lock()", "defer taskNode.sharedMu.Unlock()",
      "if taskNode.poisoned.Load() return ce calls="] := by decide

/-- the failure block stores the poison; it is a statement of `doTask` itself, whose deferred
`Unlock()` therefore runs AFTER it (no window), and none of this sits in a function literal.
(model: `failedSub` → `setPoison` → `exiting` → `release`) -/
theorem C01_fact_shared_poison_before_unlock :
    sharedFailure = ["taskNode.poisoned.Store(true)"] ∧ doTaskLockCodeInFuncLit = false := by decide

/-- nobody else locks, unlocks, reads or writes the latch: `sharedMu` is allocated by
`MarkSharedBoundary` and used by `doTask` only, `poisoned` is loaded and stored by `doTask` only
(never cleared). (model: `lock` / `poison` change only in `acquire`, `release`, `setPoison`) -/
theorem C01_fact_shared_lock_and_latch_users :
    sharedMuUsers = ["doTask: sharedMu.Lock", "doTask: sharedMu.Unlock", "MarkSharedBoundary: sharedMu ="] ∧
    poisonedUsers = ["doTask: poisoned.Load", "doTask: poisoned.Store"] ∧
    markSharedBoundaryBody = ["t.sharedBoundary = true", "t.sharedMu = &sync.Mutex{}"] := by decide

/-- `doNextTask`: one next task is a plain `doTask` call; several are ALL entered, each on its own
pool goroutine, and joined by `p.Wait()`. (model: `fanStart` arms every root, `join` needs all) -/
theorem C05_fact_shared_fanout_enters_all_roots :
    doNextTaskArms = ["case 0: ", "case 1: w.doTask",
      "default: validateRunsWholeBeforeFanOut,newMultiAckNacker,pool.New,p.Go,w.doTask,p.Wait range=taskNode.Next"] := by
  decide

/-- `NewSink` marks every root; `buildSharedTail` returns ONE root when there are shared
processors and the destination branches themselves (one independently locked root each)
otherwise; every source's tail gets the same roots; the sink is opened before the workers run and
closed after all of them have returned. (model: R roots shared by all workers) -/
theorem C01_fact_shared_sink_construction :
    newSinkPerRoot = ["root.Tasks", "MarkSharedBoundary"] ∧
    buildSharedTailReturns = ["if len(procTasks) == 0 return destBranches, nil", "return []*funnel.TaskNode{procRoot}, nil"] ∧
    buildRunnablePipelineSink = ["buildSharedTail", "funnel.NewSink", "tail.AppendToEnd", "tail.AppendToEnd", "funnel.NewWorker"] ∧
    runPipelineSinkOrder = ["sink.Open", "sink.Close", "w.Do", "workersWg.Wait", "sink.Close"] := by decide

end Conduit.Facts.SharedSink
