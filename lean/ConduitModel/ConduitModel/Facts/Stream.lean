import ConduitModel.Generated.Stream

/-!
Facts obligations of the default (v1) engine model (C01, C04, C05, C07, C09 — stream halves):
the guard conditions and call orders the hand-written models `Stream.Ack`, `Stream.Flow` and
`condMerge` mirror are the ones in the source today (regenerated from pkg/lifecycle/stream/*.go,
pkg/lifecycle/dlq.go and pkg/processor/runnable_processor.go on every run). A reordered, dropped
or added guard / gate call changes the generated list and fails the obligation.
-/
namespace Conduit.Facts.Stream
open Conduit.Generated.Stream

/-- ack handler: take the ticket's turn, (deferred: fail latch, release), `fail` check, then
`Source.Ack`, then `DLQHandlerNode.Ack` — `Ack.step (.sack …)` / `.winAck`. -/
theorem C04_v1_fact_ack_handler :
    ackHandlerCalls = ["sem.Acquire", "sem.Release", "DLQHandlerNode.Done", "Source.Ack", "DLQHandlerNode.Ack"] ∧
    ackHandlerConds = ["err != nil", "n.fail", "err != nil", "!isClosedSourceStream(err)"] := by decide

/-- nack handler: ticket, `fail` check, `DLQHandlerNode.Nack` BEFORE `Source.Ack` —
`Ack.step (.dlqw …)`, `.dlqa`, `.sack` (needSack). -/
theorem C07_v1_fact_nack_handler :
    nackHandlerCalls = ["sem.Acquire", "sem.Release", "DLQHandlerNode.Done", "DLQHandlerNode.Nack", "Source.Ack"] ∧
    nackHandlerConds = ["err != nil", "n.fail", "err != nil", "err != nil", "!isClosedSourceStream(err)"] := by decide

/-- `SourceAckerNode.Run`: the ticket is enqueued in arrival order before the handlers are
registered and the message is passed on — `Ack.step (.enq …)`. -/
theorem C04_v1_fact_ticket_before_send :
    sourceAckerRunCalls = ["DLQHandlerNode.Done", "sem.Enqueue", "DLQHandlerNode.Add", "n.registerAckHandler",
      "n.registerNackHandler", "base.Send"] := by decide

/-- fan-out arbiter: the original is acked when `remaining == 0`; the node waits (`wg.Wait`) for
every branch before it takes the next message — `Ack.cloneAck`, `Flow.step (.fan …)`. -/
theorem C01_v1_fact_fanout :
    fanoutRunConds = ["n.out == nil", "n.in == nil", "n.running", "len(n.out) == 1", "!ok", "remaining == 0",
      "ctx.Err() != nil", "msg.Status() == MessageStatusNacked", "err := msg.Nack(nil, n.ID()); err != nil"] ∧
    fanoutRunCalls = ["wg.Add", "wg.Done", "msg.Clone", "atomic.AddInt32", "msg.Ack", "msg.Ack", "msg.Nack",
      "newMsg.Nack", "wg.Wait", "msg.Nack"] := by decide

/-- `Message.Clone` keeps the filtered flag (fix_F13) — `Ack.step (.fan …)` copies `filt`. -/
theorem C05_v1_fact_clone_keeps_filtered : cloneFields = ["Ctx", "Record", "SourceID", "filtered"] := by decide

/-- destination acker worker: filtered messages acked without the plugin, an EMPTY reply is an
error (fix_F3: the second `len(acks) == 0`), position equality check — `Ack.step (.dreply …)`,
`Ack.dproc`. -/
theorem C09_v1_fact_acker_worker :
    dackWorkerConds = ["n.queue.Len() == 0", "msg.filtered", "err != nil", "len(acks) == 0", "err != nil",
      "len(acks) == 0", "!bytes.Equal(msg.Record.Position, ack.Position)", "err != nil"] ∧
    dackWorkerCalls = ["queue.PushFront", "queue.PopFront", "n.handleAck", "Destination.Ack", "bytes.Equal", "n.handleAck"] ∧
    dackTeardownCalls = ["queue.PopFront", "msg.Nack", "Destination.Ack"] := by decide

/-- DLQ handler: state check (before the mutex), window verdict, `broken` latch on a failed write —
`Ack.dlqAccepts`, `Ack.step (.dlqw …)`, `.hfail`. -/
theorem C07_v1_fact_dlq_handler :
    dlqNackCalls = ["state.Watch", "m.Lock", "m.Unlock", "window.Nack", "state.Set", "n.dlqRecord", "Handler.Write"] ∧
    dlqNackConds = ["err != nil", "state != nodeStateRunning", "!ok", "n.WindowNackThreshold > 0", "err != nil",
      "err != nil", "err != nil"] ∧
    dlqAckCalls = ["state.Watch", "m.Lock", "window.Ack"] := by decide

/-- `lifecycle.DLQDestination.Write` = write, then one ack for that position without error —
the `dlqw` / `dlqa` events. -/
theorem C07_v1_fact_dlq_destination :
    dlqDestinationWriteCalls = ["Destination.Write", "Destination.Ack", "bytes.Equal"] ∧
    dlqDestinationWriteConds = ["err != nil", "err != nil", "len(ack) != 1",
      "!bytes.Equal(rec.Position, ack[0].Position)", "ack[0].Error != nil"] := by decide

/-- `Message.Ack` / `Message.Nack`: the status checks behind the "BUG:" panics — `Ack.cloneAck`,
`Ack.cloneNack` (`panicked`). -/
theorem C09_v1_fact_message_status :
    messageAckConds = ["s := m.Status(); s != MessageStatusAcked"] ∧
    messageNackConds = ["!m.hasNackHandler && m.ackNackReturnValue == nil", "s := m.Status(); s != MessageStatusNacked"] := by
  decide

/-- parallel coordinator: `job.Wait()` on the oldest job first — the jobs stage of `Flow`. -/
theorem C05_v1_fact_coordinator_waits_in_order :
    coordinatorCalls = ["job.Wait", "Message.StatusError", "Message.Status", "Message.Nack", "c.send", "Message.Nack"] := by
  decide

/-- `ProcessorNode`: one result per record, position unchanged, the four result kinds —
`procKind`. -/
theorem C09_v1_fact_processor_node :
    processorRunConds = ["err != nil", "err != nil", "!ok", "msg.filtered", "err != nil", "len(recsIn) != len(recsOut)",
      "nackErr := msg.Nack(err, n.ID()); nackErr != nil",
      "err := n.handleProcessedRecord(ctx, msg, recsOut[0]); err != nil"] ∧
    handleSingleRecordConds = ["!bytes.Equal(rec.Position, msg.Record.Position)",
      "nackErr := msg.Nack(err, n.ID()); nackErr != nil", "err != nil"] ∧
    processedRecordCases = ["sdk.SingleRecord", "sdk.FilterRecord", "sdk.ErrorRecord", "sdk.MultiRecord", "default"] := by
  decide

/-- `DestinationNode.Run`: filtered messages are forwarded unwritten — `Flow.step (.fpass …)`. -/
theorem C05_v1_fact_destination_node :
    destinationRunConds = ["err != nil", "err != nil", "err != nil || msg == nil", "msg.filtered", "err != nil",
      "err != nil", "err != nil"] := by decide

/-- `DestinationNode.Run`'s deferred drain: the destination is asked to stop (`Stop(lastPosition)`,
which makes a batching destination flush and acknowledge what it buffered) BEFORE the node waits
for its open messages, and it is torn down only after that wait — the order the graceful-stop
drain (C06) depends on: waiting first would wait for acks that only `Stop` releases. -/
theorem C06_v1_fact_destination_drain_order :
    destinationRunCalls = ["Destination.Open", "Destination.Stop", "openMsgTracker.Wait", "Destination.Teardown",
      "Destination.Write", "openMsgTracker.Add"] := by decide

/-- the condition merge of `RunnableProcessor.Process` (fix_F4): guards of `condMerge` /
`mergeLoop`. -/
theorem C09_v1_fact_cond_merge :
    condMergeConds = ["p.cond == nil", "err != nil", "keep", "len(keptRecords) > 0", "len(outRecs) > len(keptRecords)",
      "err != nil && len(outRecs) == len(keptRecords)", "len(passthroughRecordIndexes) == len(records)",
      "len(passthroughRecordIndexes) > 0", "len(pass) > 0 && pass[0] == i", "next == len(outRecs)", "ok"] := by decide

end Conduit.Facts.Stream
