import ConduitModel.Generated.TreeBuild
import ConduitModel.Model.TreeBuild

/-!
Facts obligations for the task-tree construction (C01 / C05 / C07 / C08, arch-v2): the statements of
/repo/pkg/lifecycle-poc/funnel/worker.go (`AppendToEnd`) and /repo/pkg/lifecycle-poc/service.go
(`buildSharedTail`, `buildRunnablePipeline`, `buildSourceTasks`, `buildDestinationTasks`,
`buildProcessorTasks`) that `Model/TreeBuild.lean` mirrors, regenerated from the source on every run
(factgen/treebuild.go; one label per statement, nesting as "| ", error constructors as `error`).
They pin what the `treeshape` / `appendtoend` correspondence cannot see from the outside: WHICH
statement links which edge, and that the service reaches `AppendToEnd` only through the `tail`
pointer of a chain it is building (the reason the functional model may append at the root).
-/
namespace Conduit.Facts.TreeShape
open Conduit.Generated.TreeBuild

/-- `AppendToEnd`: `switch len(t.Next)`: 0 → assign and succeed, 1 → recurse into the only child,
otherwise the error. (model: the three equations of `appendToEnd`) -/
theorem fact_appendToEnd_body :
    appendToEndSig = "func(next ...*TaskNode) error" ∧
    appendToEndBody = ["switch len(t.Next) {", "case 0:", "| t.Next = next", "| return nil", "case 1:",
      "| return t.Next[0].AppendToEnd(next...)", "default:", "| return error", "}"] := by decide

/-- `buildSharedTail`: one chain per destination branch (empty branch → error; first task is the
branch root, the rest appended one by one through `tail`); no shared processors → the branches are
the roots; otherwise a processor chain whose tail gets ALL branches in ONE `AppendToEnd` call, and
the chain's root is the only root. (model: `destBranches`, `buildSharedTail`) -/
theorem fact_buildSharedTail_body :
    buildSharedTailSig = "func( procTasks []funnel.Task, destTasks [][]funnel.Task, ) ([]*funnel.TaskNode, error)" ∧
    buildSharedTailBody = ["destBranches := make([]*funnel.TaskNode, len(destTasks))",
      "for i, destTasksBranch := range destTasks {",
      "| if len(destTasksBranch) == 0 return nil, error",
      "| branchNode := &funnel.TaskNode{Task: destTasksBranch[0]}",
      "| tail := branchNode",
      "| for _, task := range destTasksBranch[1:] {",
      "| | next := &funnel.TaskNode{Task: task}",
      "| | if err := tail.AppendToEnd(next); err != nil return",
      "| | tail = next",
      "| }",
      "| destBranches[i] = branchNode",
      "}",
      "if len(procTasks) == 0 return destBranches, nil",
      "procRoot := &funnel.TaskNode{Task: procTasks[0]}",
      "tail := procRoot",
      "for _, task := range procTasks[1:] {",
      "| next := &funnel.TaskNode{Task: task}",
      "| if err := tail.AppendToEnd(next); err != nil return",
      "| tail = next",
      "}",
      "if err := tail.AppendToEnd(destBranches...); err != nil return",
      "return []*funnel.TaskNode{procRoot}, nil"] := by decide

/-- `buildRunnablePipeline`: sources, destinations, pipeline processors (in this order: the order in
which processor instances are reserved), the two emptiness guards, `buildSharedTail(procTasks,
destTasks)`, `NewSink(sharedRoots...)`, then per source: root from `tasks[0]`, the rest appended
through `tail`, ONE `tail.AppendToEnd(sharedRoots...)`, `NewWorker(taskNode, …)`; every
error-returning call is guarded. (model: `buildWorkers`, `buildWorkerTrees`, `sourceTree`) -/
theorem fact_buildRunnablePipeline_tree_statements :
    runnableTreeStmts = ["srcTaskSets, err := s.buildSourceTasks(ctx, pl, pipelineLogger)",
      "if len(srcTaskSets) == 0 return nil, error",
      "destTasks, err := s.buildDestinationTasks(ctx, pl, pipelineLogger)",
      "if len(destTasks) == 0 return nil, error",
      "procTasks, err := s.buildProcessorTasks(ctx, pl, pl.ProcessorIDs, pipelineLogger)",
      "sharedRoots, err := s.buildSharedTail(procTasks, destTasks)",
      "sink, err := funnel.NewSink(sharedRoots...)",
      "workers := make([]*funnel.Worker, 0, len(srcTaskSets))",
      "for _, srcTaskSet := range srcTaskSets {",
      "| taskNode := &funnel.TaskNode{Task: srcTaskSet.tasks[0]}",
      "| tail := taskNode",
      "| for _, task := range srcTaskSet.tasks[1:] {",
      "| | next := &funnel.TaskNode{Task: task}",
      "| | if err := tail.AppendToEnd(next); err != nil return",
      "| | tail = next",
      "| }",
      "| if err := tail.AppendToEnd(sharedRoots...); err != nil return",
      "| worker, err := funnel.NewWorker(taskNode, dlq, pipelineLogger, timer)",
      "| workers = append(workers, worker)",
      "}"] ∧
    runnableUnguarded = [] := by decide

/-- `AppendToEnd` is called in service.go only on `tail` — the node created last, which has no `Next`
and is the end of the chain under construction — by exactly these two functions. -/
theorem fact_appendToEnd_only_on_tail :
    appendToEndCallers = ["buildRunnablePipeline: tail.AppendToEnd(next); tail.AppendToEnd(sharedRoots...)",
      "buildSharedTail: tail.AppendToEnd(next); tail.AppendToEnd(next); tail.AppendToEnd(destBranches...)"] := by decide

/-- the task lists: a source's list is the source task FOLLOWED by its processors (`srcChain`), a
destination's list its processors FOLLOWED by the destination task (`destChain`); only connectors of
the matching type are taken; `buildProcessorTasks` appends one processor task per id. -/
theorem fact_task_lists :
    sourceTaskAppends = ["tasks = append(tasks, srcTask)", "tasks = append(tasks, procTasks...)",
      "sets = append(sets, sourceTaskSet{sourceID: instance.ID, tasks: tasks})"] ∧
    sourceTaskFilters = ["instance.Type != connector.TypeSource"] ∧
    destTaskAppends = ["destTasks = append(destTasks, procTasks...)", "destTasks = append(destTasks, destTask)",
      "tasks = append(tasks, destTasks)"] ∧
    destTaskFilters = ["instance.Type != connector.TypeDestination"] ∧
    procTaskAppends = ["tasks = append( tasks, funnel.NewProcessorTask( instance.ID, runnableProc, logger, s.newProcessorMetrics(pl.Config.Name, instance.Plugin, instance.ID), ), )"] :=
  ⟨by decide, by decide, by decide, by decide, rfl⟩

end Conduit.Facts.TreeShape
