import ConduitModel.Model.Errs
import ConduitModel.Model.DlqWindow

/-
C20 — the v1 (pkg/lifecycle/stream) ack / nack route, as far as the ERROR a destination acker
node stops with is concerned:

  DestinationAckerNode.worker / handleAck  →  Message.Ack | Message.Nack (handler chain, Join)
    →  SourceAckerNode ack / nack handler   →  DLQHandlerNode.Ack | Nack (dlqWindow, DLQ write)
    →  Source.Ack

Every `cerrors.Errorf("…: %w", err)` on this route is modelled as the transparent xerrors
wrapper it is on the clean tree (`wrapW`); that each of these call sites (and every other
propagation site of the lifecycle packages) really puts its error argument on a `%w` xerrors
honours is the regenerated-table obligation `Facts/C20Prop`. The first handler error ends the
node (the worker returns it through `errChan`, `Run` returns it; the teardown error is only
logged by `LogOrReplace`), so the model is a fold that stops at the first error.
-/
namespace Conduit.AckErr
open Conduit.Errs Conduit.Dlq

/-- `cerrors.Errorf("<context>: %w", e)` — a transparent wrapper. -/
def wrapW (e : Err) : Err := .wrap "x" e

/-- what the DLQ destination does with the record `DLQHandlerNode.Nack` writes
(lifecycle.DLQDestination.Write: Write, then Ack, then the ack's own error). -/
inductive DlqOutcome where
  | ok
  | writeErr (e : Err)     -- Destination.Write fails
  | ackCallErr (e : Err)   -- Destination.Ack fails
  | nacked (e : Err)       -- the DLQ destination nacks the record (ack[0].Error)
deriving Repr, Inhabited

/-- one message as the destination acker sees it. -/
structure Msg where
  nack : Option Err        -- `none`: the destination acked it; `some reason`: ack.Error
  dlq : DlqOutcome
  srcAck : E               -- what Source.Ack returns when the ack / nack is forwarded
deriving Repr, Inhabited

/-- `DLQHandlerNode.Nack` (node running) → (window, error). -/
def dlqNack (w : Win) (thr : Nat) (reason : Err) (o : DlqOutcome) : Win × E :=
  let r := w.nack1
  if !r.2 then
    -- window refused the nack
    if thr > 0 then (r.1, fatalError (some (wrapW reason)))   -- FatalError(Errorf("DLQ nack threshold exceeded …: %w", reason))
    else (r.1, some reason)
  else
    match o with
    | .ok => (r.1, none)
    | .writeErr e => (r.1, some e)
    | .ackCallErr e => (r.1, some e)
    | .nacked e => (r.1, some e)

/-- `isClosedSourceStream`: io.EOF anywhere in the chain. -/
def closedStream (e : Err) : Bool := isErr (.sentinel "io.EOF") e

/-- forwarding to the source: an error other than a closed stream is wrapped and returned. -/
def forward (srcAck : E) : E :=
  match srcAck with
  | some e => if closedStream e then none else some (wrapW e)
  | none => none

/-- SourceAckerNode's nack handler (no earlier failure: the first failure ends the node). -/
def nackHandler (w : Win) (thr : Nat) (reason : Err) (m : Msg) : Win × E :=
  match dlqNack w thr reason m.dlq with
  | (w', some e) => (w', some (wrapW e))       -- "failed to write message to DLQ: %w"
  | (w', none) => (w', forward m.srcAck)       -- "failed to forward nack to source connector: %w"

/-- SourceAckerNode's ack handler. -/
def ackHandler (w : Win) (m : Msg) : Win × E :=
  match forward m.srcAck with                  -- "failed to forward ack to source connector: %w"
  | some e => (w, some e)
  | none => (w.ack1, none)                     -- DLQHandlerNode.Ack

/-- `Message.Nack`: handlers run newest first, results joined pairwise
(`RegisterStatusHandler`: `Join(h(), next())`): nack handler, then the (skipping) ack handler. -/
def msgNack (w : Win) (thr : Nat) (reason : Err) (m : Msg) : Win × E :=
  let r := nackHandler w thr reason m
  (r.1, join [r.2, join [none, none]])

/-- `Message.Ack`: the nack handler skips, the ack handler runs below it. -/
def msgAck (w : Win) (m : Msg) : Win × E :=
  let r := ackHandler w m
  (r.1, join [none, join [r.2, none]])

/-- `DestinationAckerNode.handleAck`. -/
def handleAck (w : Win) (thr : Nat) (m : Msg) : Win × E :=
  match m.nack with
  | some reason =>
    match msgNack w thr reason m with
    | (w', some e) => (w', some (wrapW e))     -- "error while nacking message: %w"
    | (w', none) => (w', none)
  | none =>
    match msgAck w m with
    | (w', some e) => (w', some (wrapW e))     -- "error while acking message: %w"
    | (w', none) => (w', none)

/-- the worker loop: the first error is what `DestinationAckerNode.Run` returns. -/
def run (thr : Nat) : Win → List Msg → E
  | _, [] => none
  | w, m :: ms =>
    match handleAck w thr m with
    | (_, some e) => some e
    | (w', none) => run thr w' ms

/-- a destination acker node over a fresh DLQ handler node. -/
def nodeError (size thr : Nat) (ms : List Msg) : E := run thr (Win.new size thr) ms

end Conduit.AckErr
