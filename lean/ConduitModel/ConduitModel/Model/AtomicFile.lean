import ConduitModel.Model.Gates
import ConduitModel.Generated.Atomicfile

/-
M7 — `atomicfile.WriteFile` (`/repo/pkg/foundation/atomicfile/atomicfile.go`) as the list of file
operations regenerated from its source, over a two-file file system (the target path and the temp
file `os.CreateTemp` makes next to it), with crash states: a kill can hit before, after or — for
`Write` — in the middle of an operation (torn temp file). `rename(2)` replacing the target in one
step is the POSIX assumption. Core-only.
-/
namespace Conduit.AtomicFile
open Conduit.Gates

abbrev Content := List Nat

/-- the target file and the temp file (`none` = does not exist). -/
structure FSt where
  target : Option Content
  tmp    : Option Content
deriving Repr, DecidableEq, Inhabited

inductive Op | createTemp | write | sync | close | chmod | rename | remove
deriving Repr, DecidableEq, Inhabited

def opOfName : String → Option Op
  | "CreateTemp" => some .createTemp
  | "Write" => some .write
  | "Sync" => some .sync
  | "Close" => some .close
  | "Chmod" => some .chmod
  | "Rename" => some .rename
  | "Remove" => some .remove
  | _ => none

/-- effect of a completed operation when writing `new`. `CreateTemp` makes a fresh, empty file
(`O_EXCL`, unique name); `Write` appends; `Rename(tmp, target)` replaces the target by the temp
file (no effect if the temp file does not exist: it fails); `Remove(tmp)` deletes the temp file. -/
def apply (new : Content) (st : FSt) : Op → FSt
  | .createTemp => { st with tmp := some [] }
  | .write => { st with tmp := st.tmp.map (· ++ new) }
  | .sync => st
  | .close => st
  | .chmod => st
  | .rename => match st.tmp with
    | some c => { target := some c, tmp := none }
    | none => st
  | .remove => { st with tmp := none }

def runOps (new : Content) (st : FSt) (ops : List Op) : FSt := ops.foldl (apply new) st

/-- states a kill can leave while `op` executes from `st`: not started, finished, or — for `Write` —
any prefix of the content appended. -/
def during (new : Content) (st : FSt) (op : Op) (s : FSt) : Prop :=
  match op with
  | .write => s.target = st.target ∧ ∃ k, s.tmp = st.tmp.map (· ++ new.take k)
  | op => s = st ∨ s = apply new st op

/-- `s` is a state a kill can leave when `ops` run from `st`: before, inside or after any of them. -/
def CrashState (new : Content) : FSt → List Op → FSt → Prop
  | st, [], s => s = st
  | st, op :: rest, s => during new st op s ∨ CrashState new (apply new st op) rest s

/-! ### Abstract interpretation used by the decidable safety check -/

inductive ATmp | absent | empty | torn | full | junk
deriving Repr, DecidableEq, Inhabited
inductive ATgt | old | new | bad
deriving Repr, DecidableEq, Inhabited

structure AS where
  tgt : ATgt
  tmp : ATmp
deriving Repr, DecidableEq, Inhabited

def aApply (a : AS) : Op → AS
  | .createTemp => { a with tmp := .empty }
  | .write => { a with tmp := match a.tmp with | .empty => .full | .absent => .absent | _ => .junk }
  | .sync => a
  | .close => a
  | .chmod => a
  | .rename => match a.tmp with
    | .absent => a
    | .full => { tgt := .new, tmp := .absent }
    | _ => { tgt := .bad, tmp := .absent }
  | .remove => { a with tmp := .absent }

/-- the temp file while a `Write` is in progress. -/
def tornOf : ATmp → ATmp
  | .empty => .torn
  | .absent => .absent
  | _ => .junk

/-- abstract states a kill inside `op` can leave. -/
def aDuring (a : AS) : Op → List AS
  | .write => [{ a with tmp := tornOf a.tmp }]
  | op => [a, aApply a op]

/-- no crash state of `ops` from `a` has a target that is neither the old nor the new content. -/
def aSafe : AS → List Op → Bool
  | a, [] => a.tgt != .bad
  | a, op :: rest => a.tgt != .bad && (aDuring a op).all (·.tgt != .bad) && aSafe (aApply a op) rest

def aInit : AS := { tgt := .old, tmp := .absent }

/-- the target still holds the old content before each of the operations (so an operation that
fails — no effect, or a torn temp file — leaves the old content). -/
def aOldBefore : AS → List Op → Bool
  | _, [] => true
  | a, op :: rest => a.tgt == .old && aOldBefore (aApply a op) rest

/-- the main-line operations of a regenerated call list (deferred and on-error calls set aside). -/
def mainOps (calls : List GateCall) : Option (List Op) :=
  (calls.filter fun g => g.cond == "" && !g.deferred).mapM fun g => opOfName g.name

def writeFileCalls : List GateCall := ofTuples Generated.Atomicfile.writeFileOps

/-- outcome of `WriteFile` when the `failAt`-th main-line operation fails (`none`: all succeed):
a failing operation has no effect, the function returns the error and the deferred
`os.Remove(tmpPath)` runs. Returns (returned nil?, final state). -/
def runWriteFile (new : Content) (init : FSt) (ops : List Op) (failAt : Option Nat) : Bool × FSt :=
  match failAt with
  | none => (true, apply new (runOps new init ops) .remove)
  | some k => if k < ops.length then (false, apply new (runOps new init (ops.take k)) .remove)
              else (true, apply new (runOps new init ops) .remove)

end Conduit.AtomicFile
