/-
M7 codec — base64 as the stores use it.

`opencdc.Position` is a `[]byte`; goccy/go-json (like encoding/json) writes a `[]byte` as a JSON
string holding `base64.StdEncoding` (RFC 4648 alphabet, `=` padding) and reads it back with
`base64.StdEncoding.DecodeString`, which
  * ignores every `\r` and `\n` of the input,
  * wants whole 4-character quanta, padding only in the last one,
  * is not in `Strict` mode: non-zero trailing bits of a padded quantum are accepted.
Core-only.
-/
namespace Conduit.Codec

abbrev Bytes := List UInt8

def b64Alphabet : List Char :=
  "ABCDEFGHIJKLMNOPQRSTUVWXYZabcdefghijklmnopqrstuvwxyz0123456789+/".toList

/-- the character of a sextet (`encodeStd[i]`). -/
def b64Char (i : Nat) : Char := b64Alphabet.getD (i % 64) 'A'

/-- `decodeMap`: the sextet of a character, `none` for characters outside the alphabet. -/
def b64Val (c : Char) : Option Nat :=
  let n := c.toNat
  if 65 ≤ n ∧ n ≤ 90 then some (n - 65)
  else if 97 ≤ n ∧ n ≤ 122 then some (n - 71)
  else if 48 ≤ n ∧ n ≤ 57 then some (n + 4)
  else if n = 43 then some 62
  else if n = 47 then some 63
  else none

/-- `base64.StdEncoding.EncodeToString`. -/
def b64Encode : Bytes → List Char
  | [] => []
  | [a] =>
    let a := a.toNat
    [b64Char (a / 4), b64Char (a % 4 * 16), '=', '=']
  | [a, b] =>
    let a := a.toNat; let b := b.toNat
    [b64Char (a / 4), b64Char (a % 4 * 16 + b / 16), b64Char (b % 16 * 4), '=']
  | a :: b :: c :: t =>
    let a := a.toNat; let b := b.toNat; let c := c.toNat
    b64Char (a / 4) :: b64Char (a % 4 * 16 + b / 16) :: b64Char (b % 16 * 4 + c / 64) :: b64Char (c % 64)
      :: b64Encode t

/-- quanta of an input from which `\r` and `\n` were removed. -/
def b64DecodeQ : List Char → Option Bytes
  | [] => some []
  | c0 :: c1 :: c2 :: c3 :: t =>
    match b64Val c0, b64Val c1 with
    | some v0, some v1 =>
      if c3 = '=' ∧ t = [] then
        if c2 = '=' then some [UInt8.ofNat (v0 * 4 + v1 / 16)]
        else match b64Val c2 with
          | some v2 => some [UInt8.ofNat (v0 * 4 + v1 / 16), UInt8.ofNat (v1 % 16 * 16 + v2 / 4)]
          | none => none
      else match b64Val c2, b64Val c3, b64DecodeQ t with
        | some v2, some v3, some r =>
          some (UInt8.ofNat (v0 * 4 + v1 / 16) :: UInt8.ofNat (v1 % 16 * 16 + v2 / 4)
            :: UInt8.ofNat (v2 % 4 * 64 + v3) :: r)
        | _, _, _ => none
    | _, _ => none
  | _ => none

/-- `base64.StdEncoding.DecodeString`. -/
def b64Decode (s : List Char) : Option Bytes :=
  b64DecodeQ (s.filter fun c => !(c = '\n' || c = '\r'))

end Conduit.Codec
