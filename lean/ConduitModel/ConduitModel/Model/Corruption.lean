/-
M7 — `CheckCorruption` of `/repo/pkg/registry/corruption.go`: the received bytes' sha256 (`got`, 32
bytes) against the digest the index declares (`want`, a Go string = list of bytes): strip one
optional `sha256:` prefix, `hex.DecodeString` (even length, digits `0-9a-fA-F`), same length,
byte-for-byte equal. Core-only.
-/
namespace Conduit.Registry

/-- value of one hex digit as `encoding/hex` accepts it (both cases). -/
def hexVal (c : Nat) : Option Nat :=
  if 48 ≤ c ∧ c ≤ 57 then some (c - 48)
  else if 97 ≤ c ∧ c ≤ 102 then some (c - 97 + 10)
  else if 65 ≤ c ∧ c ≤ 70 then some (c - 65 + 10)
  else none

/-- `hex.DecodeString`. -/
def hexDecode : List Nat → Option (List Nat)
  | [] => some []
  | [_] => none
  | a :: b :: r =>
    match hexVal a, hexVal b, hexDecode r with
    | some x, some y, some t => some ((x * 16 + y) :: t)
    | _, _, _ => none

/-- `strings.TrimPrefix`. -/
def trimPrefix (pre s : List Nat) : List Nat := if pre.isPrefixOf s then s.drop pre.length else s

def sha256Prefix : List Nat := [115, 104, 97, 50, 53, 54, 58]  -- "sha256:"

/-- `CheckCorruption(got, want) == nil`. -/
def checkCorruption (got want : List Nat) : Bool :=
  match hexDecode (trimPrefix sha256Prefix want) with
  | none => false
  | some wb => wb.length == got.length && got == wb

end Conduit.Registry
