/-
M6 — control-plane CRUD: the three services, the orchestrator, and the store.

Mirrors (function by function, sub-step by sub-step, in the code's order):
  * /repo/pkg/pipeline/service.go    `Service.{Create,Update,UpdateDLQ,AddConnector,RemoveConnector,
                                      AddProcessor,RemoveProcessor,Delete,UpdateStatus}` + `validatePipeline`
  * /repo/pkg/connector/service.go   `Service.{Create,Update,Delete,AddProcessor,RemoveProcessor,SetState}`
  * /repo/pkg/processor/service.go   `Service.{Create,Update,UpdateWhileRunning,Delete}`
  * /repo/pkg/orchestrator/{pipelines,connectors,processors}.go  every mutating method, with
    `rollback.R` as a stack executed (most recent first) on error, `MustExecute` panicking when a
    rollback fails
  * conduit-commons `database/inmemory` transaction: snapshot + change set; for one sequential
    client this is a working copy that `Commit` installs and `Discard` drops.

The numbered *store operations* are `NewTransaction`, `Set` (incl. delete = `Set nil`) and
`Commit`, counted within one API call; "the k-th store operation fails" is an input (`failAt`).

Values are abstract codes (`Nat`): names, descriptions, plugin names, settings maps, conditions,
positions. The harness concretises them (h_ctl/world.go); only the distinctions the code makes
are kept: name `0` = empty, `99` = over the length limit; connector plugin `1` = an existing
plugin whose config validation wants settings `≠ 0`; processor plugins `1`,`2` exist.
Timestamps are not modelled (C14/C15 are about content).

Core-only (no Mathlib): linked into the driver.
-/
namespace Conduit.Ctl

abbrev Id := Nat

/-- How each mutate-then-store site of the services behaves when `store.Set` fails
(regenerated from the source by factgen, `Generated.Ctl.variant`): `true` = the in-memory
instance is back to its old value when the method returns the error (either because the store
is written first or because the error branch restores the fields); `false` = memory keeps the
new value (the code as found at the pinned commit). -/
structure Variant where
  plUpdate    : Bool
  plUpdateDLQ : Bool
  plAddConn   : Bool
  plRemConn   : Bool
  plAddProc   : Bool
  plRemProc   : Bool
  cnUpdate    : Bool
  cnAddProc   : Bool
  cnRemProc   : Bool
  prUpdate    : Bool
  /-- `ConnectorOrchestrator.Update`'s rollback passes the plugin read *before* the update
  (`true`) or `conn.Plugin` after `conn` was reassigned (`false`, as found). -/
  cnOrchOldPlugin : Bool
  /-- provisioning `updateConnectorAction.update` iterates over a copy of `c.ProcessorIDs`
  (`true`) or over the slice that `RemoveProcessor` shifts in place (`false`, as found). -/
  updConnCopies : Bool
  /-- `processorToConfig` copies `Condition`. -/
  condExported : Bool
  /-- `updateProcessorAction.update` passes `Condition` on to the service. -/
  condUpdated : Bool
  /-- `prepareProcessorActions` turns a `Condition` change into delete + create. -/
  condRecreates : Bool
deriving Repr, DecidableEq, Inhabited

/-- the code as found at the pinned commit. -/
def Variant.asFound : Variant :=
  { plUpdate := false, plUpdateDLQ := false, plAddConn := false, plRemConn := false,
    plAddProc := false, plRemProc := false, cnUpdate := false, cnAddProc := false,
    cnRemProc := false, prUpdate := false, cnOrchOldPlugin := false,
    updConnCopies := false, condExported := false, condUpdated := false, condRecreates := false }

/-- every local repair applied. -/
def Variant.repaired : Variant :=
  { plUpdate := true, plUpdateDLQ := true, plAddConn := true, plRemConn := true,
    plAddProc := true, plRemProc := true, cnUpdate := true, cnAddProc := true,
    cnRemProc := true, prUpdate := true, cnOrchOldPlugin := true,
    updConnCopies := true, condExported := true, condUpdated := false, condRecreates := true }

/-- all service-level mutate-then-store sites restore memory on a failed store write. -/
def Variant.svcRestores (v : Variant) : Bool :=
  v.plUpdate && v.plUpdateDLQ && v.plAddConn && v.plRemConn && v.plAddProc && v.plRemProc &&
  v.cnUpdate && v.cnAddProc && v.cnRemProc && v.prUpdate

structure Dlq where
  plugin   : Nat
  settings : Nat
  ws       : Int
  thr      : Int
deriving Repr, DecidableEq, Inhabited

/-- `pipeline.DefaultDLQ`: plugin code 2 (`builtin:log`), settings code 100, window 1, threshold 0. -/
def Dlq.default : Dlq := { plugin := 2, settings := 100, ws := 1, thr := 0 }

/-- `pipeline.Instance` (status: 1 running, 2 systemStopped, 3 userStopped, 4 degraded,
5 recovering; prov: 0 API, 1 config). -/
structure Pl where
  name   : Nat
  desc   : Nat
  status : Nat
  prov   : Nat
  dlq    : Dlq
  conns  : List Id
  procs  : List Id
deriving Repr, DecidableEq, Inhabited

/-- `connector.Instance` (typ: 1 source, 2 destination; state 0 = nil). -/
structure Cn where
  typ      : Nat
  plugin   : Nat
  name     : Nat
  settings : Nat
  pipeline : Id
  prov     : Nat
  state    : Nat
  procs    : List Id
deriving Repr, DecidableEq, Inhabited

/-- `processor.Instance` (ptype: 1 connector, 2 pipeline). -/
structure Pr where
  plugin   : Nat
  settings : Nat
  workers  : Int
  cond     : Nat
  ptype    : Nat
  parent   : Id
  prov     : Nat
deriving Repr, DecidableEq, Inhabited

/-- finite maps as total functions; `dom` bookkeeping for printing lives in `St`. -/
abbrev Map (α : Type) := Id → Option α

def Map.set {α} (m : Map α) (k : Id) (v : α) : Map α := fun j => if j = k then some v else m j
def Map.del {α} (m : Map α) (k : Id) : Map α := fun j => if j = k then none else m j

@[simp] theorem Map.set_same {α} (m : Map α) (k : Id) (v : α) : (m.set k v) k = some v := by simp [Map.set]
@[simp] theorem Map.set_other {α} (m : Map α) (k j : Id) (v : α) (h : j ≠ k) : (m.set k v) j = m j := by simp [Map.set, h]
@[simp] theorem Map.del_same {α} (m : Map α) (k : Id) : (m.del k) k = none := by simp [Map.del]
@[simp] theorem Map.del_other {α} (m : Map α) (k j : Id) (h : j ≠ k) : (m.del k) j = m j := by simp [Map.del, h]

/-- the three `instances` maps + `instanceNames`. -/
structure Mem where
  pls   : Map Pl
  cns   : Map Cn
  prs   : Map Pr
  names : Nat → Bool

/-- the store: one key space per entity kind (`pipeline:instance:`, `connector:instance:`,
`processor:instance:`), values = the encoded instances. -/
structure KV where
  pls : Map Pl
  cns : Map Cn
  prs : Map Pr

inductive Err where
  | nf     -- instance not found
  | run    -- pipeline is running
  | imm    -- provisioned by config
  | att    -- has connectors / processors attached
  | inv    -- any other validation failure
  | st     -- the injected store failure
  | panic  -- `MustExecute` panicked (a rollback step failed)
  | stale  -- ApplyPlan: presented plan hash is not the current plan's (C16)
  | unauth -- ApplyPlanLive: running pipeline, no operator authorisation (C16)
  | life   -- a lifecycle call (StopAndWait / Start / ReconfigureProcessor) failed (C16)
deriving Repr, DecidableEq, Inhabited

structure St where
  mem    : Mem
  kv     : KV
  /-- open transaction: the working copy store writes go to. -/
  tx     : Option KV
  /-- store operations performed so far in this API call. -/
  ctr    : Nat
  failAt : Option Nat
  /-- next fresh id (= index of the current op in the history). -/
  next   : Nat
  /-- bookkeeping for printing: every name code ever entered into `names`. -/
  nameU  : List Nat

def Mem.empty : Mem := { pls := fun _ => none, cns := fun _ => none, prs := fun _ => none, names := fun _ => false }
def KV.empty : KV := { pls := fun _ => none, cns := fun _ => none, prs := fun _ => none }
def St.init : St := { mem := Mem.empty, kv := KV.empty, tx := none, ctr := 0, failAt := none, next := 0, nameU := [] }

/-- result + state: a failing call keeps whatever it had already mutated. -/
abbrev M (α : Type) := St → Except Err α × St

/-- `a; if err return; b`. -/
def M.andThen (a b : M Unit) : M Unit := fun s =>
  match a s with
  | (.ok (), s') => b s'
  | (.error e, s') => (.error e, s')

inductive Kind where
  | pl | cn | pr
deriving Repr, DecidableEq, Inhabited

/-- `store.Set(ctx, id, instance)` encodes the instance as it is in memory *now*; `store.Delete`
removes the key: either way the store entry `(kind, id)` becomes a copy of the memory entry. -/
def KV.sync (k : KV) (m : Mem) : Kind → Id → KV
  | .pl, id => { k with pls := fun j => if j = id then m.pls id else k.pls j }
  | .cn, id => { k with cns := fun j => if j = id then m.cns id else k.cns j }
  | .pr, id => { k with prs := fun j => if j = id then m.prs id else k.prs j }

/-- write target: the open transaction if there is one, else the store itself. -/
def St.write (s : St) (f : KV → KV) : St :=
  match s.tx with
  | some t => { s with tx := some (f t) }
  | none => { s with kv := f s.kv }

/-- A service method in normal form — the list of its atomic sub-steps:
`pre` (validation, reads memory only) → `upd` (the in-memory mutation) → one store operation
that syncs entry `(kind, id)`. `keep` says what memory holds when that store operation fails:
`true` = the old value (the method writes the store *before* touching memory, or restores the
fields in its error branch), `false` = the new value (mutate-then-store without restore). -/
structure Svc where
  pre  : Mem → Option Err
  upd  : Mem → Mem
  kind : Kind
  id   : Id
  keep : Bool
  /-- printing bookkeeping only: a name code entered into `instanceNames`. -/
  nm   : Option Nat := none

/-- one numbered store operation fails iff it is the `failAt`-th. -/
def St.failsNow (s : St) : Bool := s.failAt == some (s.ctr + 1)

def Svc.run (f : Svc) : M Unit := fun s =>
  match f.pre s.mem with
  | some e => (.error e, s)
  | none =>
    if s.failsNow then
      (.error .st, { s with ctr := s.ctr + 1, mem := if f.keep then s.mem else f.upd s.mem,
                            nameU := match f.nm with | some n => n :: s.nameU | none => s.nameU })
    else
      (.ok (), ({ s with ctr := s.ctr + 1, mem := f.upd s.mem,
                         nameU := match f.nm with | some n => n :: s.nameU | none => s.nameU }).write
                (fun k => k.sync (f.upd s.mem) f.kind f.id))

/-- service calls in sequence, no transaction (what the non-transactional callers do). -/
def seqRun : List Svc → M Unit
  | [] => fun s => (.ok (), s)
  | f :: rest => fun s =>
    match f.run s with
    | (.ok (), s') => seqRun rest s'
    | (.error e, s') => (.error e, s')

def getPl (m : Mem) (id : Id) : Except Err Pl := match m.pls id with | some p => .ok p | none => .error .nf
def getCn (m : Mem) (id : Id) : Except Err Cn := match m.cns id with | some c => .ok c | none => .error .nf
def getPr (m : Mem) (id : Id) : Except Err Pr := match m.prs id with | some r => .ok r | none => .error .nf

def setName (names : Nat → Bool) (n : Nat) (b : Bool) : Nat → Bool := fun j => if j = n then b else names j

/-! ## pipeline.Service -/

/-- `validatePipeline` (ids are always well-formed here). -/
def plValid (names : Nat → Bool) (name : Nat) : Bool := name ≠ 0 && !names name && name ≠ 99

/-- `Create`: validate → `store.Set` → insert into `instances`, `instanceNames`. -/
def svcPlCreate (id : Id) (name desc prov : Nat) : Svc :=
  { pre := fun m => if plValid m.names name then none else some .inv,
    upd := fun m => { m with pls := m.pls.set id { name, desc, status := 3, prov, dlq := Dlq.default, conns := [], procs := [] },
                             names := setName m.names name true },
    kind := .pl, id, keep := true, nm := some name }

/-- change the pipeline instance `id` in place. -/
def Mem.updPl (m : Mem) (id : Id) (f : Pl → Pl) : Mem :=
  match m.pls id with
  | some p => { m with pls := m.pls.set id (f p) }
  | none => m

def Mem.updCn (m : Mem) (id : Id) (f : Cn → Cn) : Mem :=
  match m.cns id with
  | some c => { m with cns := m.cns.set id (f c) }
  | none => m

def Mem.updPr (m : Mem) (id : Id) (f : Pr → Pr) : Mem :=
  match m.prs id with
  | some r => { m with prs := m.prs.set id (f r) }
  | none => m

/-- `Update`: Get → name checks → delete old name, set Config, add new name → `store.Set`. -/
def svcPlUpdate (v : Variant) (id : Id) (name desc : Nat) : Svc :=
  { pre := fun m => match m.pls id with
      | none => some .nf
      | some p => if name = 0 then some .inv else if m.names name && p.name ≠ name then some .inv else none,
    upd := fun m => match m.pls id with
      | none => m
      | some p => { m with pls := m.pls.set id { p with name, desc },
                           names := setName (setName m.names p.name false) name true },
    kind := .pl, id, keep := v.plUpdate, nm := some name }

def dlqValid (d : Dlq) : Bool :=
  d.plugin ≠ 0 && decide (0 ≤ d.ws) && decide (0 ≤ d.thr) && !(decide (0 < d.ws) && decide (d.ws ≤ d.thr))

/-- `UpdateDLQ`. -/
def svcPlUpdateDLQ (v : Variant) (id : Id) (d : Dlq) : Svc :=
  { pre := fun m => match m.pls id with
      | none => some .nf
      | some _ => if dlqValid d then none else some .inv,
    upd := fun m => m.updPl id fun p => { p with dlq := d },
    kind := .pl, id, keep := v.plUpdateDLQ }

def preHasPl (id : Id) : Mem → Option Err := fun m => match m.pls id with | none => some .nf | some _ => none

/-- `AddConnector`: append → `store.Set`. -/
def svcPlAddConn (v : Variant) (id cid : Id) : Svc :=
  { pre := preHasPl id, upd := fun m => m.updPl id fun p => { p with conns := p.conns ++ [cid] },
    kind := .pl, id, keep := v.plAddConn }

/-- `RemoveConnector`: find first occurrence (error if absent) → remove → `store.Set`. -/
def svcPlRemConn (v : Variant) (id cid : Id) : Svc :=
  { pre := fun m => match m.pls id with
      | none => some .nf
      | some p => if p.conns.contains cid then none else some .inv,
    upd := fun m => m.updPl id fun p => { p with conns := p.conns.erase cid },
    kind := .pl, id, keep := v.plRemConn }

def svcPlAddProc (v : Variant) (id rid : Id) : Svc :=
  { pre := preHasPl id, upd := fun m => m.updPl id fun p => { p with procs := p.procs ++ [rid] },
    kind := .pl, id, keep := v.plAddProc }

def svcPlRemProc (v : Variant) (id rid : Id) : Svc :=
  { pre := fun m => match m.pls id with
      | none => some .nf
      | some p => if p.procs.contains rid then none else some .inv,
    upd := fun m => m.updPl id fun p => { p with procs := p.procs.erase rid },
    kind := .pl, id, keep := v.plRemProc }

/-- `Delete`: Get → `store.Delete` → remove from `instances`, `instanceNames`. -/
def svcPlDelete (id : Id) : Svc :=
  { pre := preHasPl id,
    upd := fun m => match m.pls id with
      | none => m
      | some p => { m with pls := m.pls.del id, names := setName m.names p.name false },
    kind := .pl, id, keep := true }

/-- `UpdateStatus` (called by the lifecycle service; an environment op here). -/
def svcPlStatus (id : Id) (st : Nat) : Svc :=
  { pre := preHasPl id, upd := fun m => m.updPl id fun p => { p with status := st },
    kind := .pl, id, keep := false }

/-! ## connector.Service -/

def preHasCn (id : Id) : Mem → Option Err := fun m => match m.cns id with | none => some .nf | some _ => none

/-- `Create`: `validateConnector`, plugin, type checks → `store.Set` → insert. -/
def svcCnCreate (id : Id) (typ plugin : Nat) (pid : Id) (name settings prov state : Nat) : Svc :=
  { pre := fun _ => if name = 0 || name = 99 then some .inv else if plugin = 0 then some .inv
                    else if typ = 1 || typ = 2 then none else some .inv,
    upd := fun m => { m with cns := m.cns.set id { typ, plugin, name, settings, pipeline := pid, prov, state, procs := [] } },
    kind := .cn, id, keep := true }

/-- `Delete`: Get → `store.Delete` → remove (closing the instance never fails the call). -/
def svcCnDelete (id : Id) : Svc :=
  { pre := preHasCn id, upd := fun m => { m with cns := m.cns.del id }, kind := .cn, id, keep := true }

/-- `Update`: set Plugin, Config → `store.Set`. -/
def svcCnUpdate (v : Variant) (id : Id) (plugin name settings : Nat) : Svc :=
  { pre := preHasCn id, upd := fun m => m.updCn id fun c => { c with plugin, name, settings },
    kind := .cn, id, keep := v.cnUpdate }

/-- `Update` whose plugin argument is read from the instance at call time
(`conn.Plugin` in the orchestrator's rollback closure). -/
def svcCnUpdateKeepPlugin (v : Variant) (id : Id) (name settings : Nat) : Svc :=
  { pre := preHasCn id, upd := fun m => m.updCn id fun c => { c with name, settings },
    kind := .cn, id, keep := v.cnUpdate }

def svcCnAddProc (v : Variant) (id rid : Id) : Svc :=
  { pre := preHasCn id, upd := fun m => m.updCn id fun c => { c with procs := c.procs ++ [rid] },
    kind := .cn, id, keep := v.cnAddProc }

def svcCnRemProc (v : Variant) (id rid : Id) : Svc :=
  { pre := fun m => match m.cns id with
      | none => some .nf
      | some c => if c.procs.contains rid then none else some .inv,
    upd := fun m => m.updCn id fun c => { c with procs := c.procs.erase rid },
    kind := .cn, id, keep := v.cnRemProc }

/-- `SetState` (called by the persister; an environment op here). -/
def svcCnSetState (id : Id) (state : Nat) : Svc :=
  { pre := preHasCn id, upd := fun m => m.updCn id fun c => { c with state },
    kind := .cn, id, keep := false }

/-! ## processor.Service -/

def preHasPr (id : Id) : Mem → Option Err := fun m => match m.prs id with | none => some .nf | some _ => none

/-- the processor plugins that exist (`registry.NewProcessor` succeeds). -/
def prPluginKnown (plugin : Nat) : Bool := plugin = 1 || plugin = 2

/-- `Create`: workers check (0 ⇒ 1) → plugin exists → `store.Set` → insert. -/
def svcPrCreate (id : Id) (plugin ptype : Nat) (parent : Id) (settings : Nat) (workers : Int) (prov cond : Nat) : Svc :=
  { pre := fun _ => if workers < 0 then some .inv else if prPluginKnown plugin then none else some .inv,
    upd := fun m =>
      let r : Pr := { plugin, settings, workers := if workers = 0 then 1 else workers, cond, ptype, parent, prov }
      { m with prs := m.prs.set id r },
    kind := .pr, id, keep := true }

/-- `Update` / `UpdateWhileRunning` → `updateConfig` (no instance is running in this model).
`cond = some c` only in the repaired variant of provisioning's processor update. -/
def svcPrUpdate (v : Variant) (id : Id) (plugin settings : Nat) (workers : Int) (cond : Option Nat := none) : Svc :=
  { pre := fun m => match m.prs id with
      | none => some .nf
      | some _ => if plugin = 0 then some .inv else none,
    upd := fun m => m.updPr id fun r => { r with plugin, settings, workers, cond := cond.getD r.cond },
    kind := .pr, id, keep := v.prUpdate }

def svcPrDelete (id : Id) : Svc :=
  { pre := preHasPr id, upd := fun m => { m with prs := m.prs.del id }, kind := .pr, id, keep := true }

/-! ## orchestrator frame: transaction + rollback.R -/

/-- a mutating step and the rollback it registers when it succeeds. -/
structure Step where
  act  : Svc
  undo : Svc

/-- run steps in order; returns the rollback stack (most recent first) and the first error. -/
def runSteps : List Step → List Svc → St → Option Err × List Svc × St
  | [], stack, s => (none, stack, s)
  | st :: rest, stack, s =>
    match st.act.run s with
    | (.ok (), s') => runSteps rest (st.undo :: stack) s'
    | (.error e, s') => (some e, stack, s')

/-- `R.Execute`: most recent first; stops at the first failing rollback (→ `MustExecute` panics). -/
def runRollback : List Svc → St → Bool × St
  | [], s => (true, s)
  | u :: rest, s =>
    match u.run s with
    | (.ok (), s') => runRollback rest s'
    | (.error _, s') => (false, s')

/-- The common shape of every transactional orchestrator method:
`NewTransaction; AppendPure(Discard); guards; steps…; Commit; Skip` with `defer MustExecute`. -/
def orch {β} (guards : Mem → Except Err β) (steps : β → List Step) : M Unit := fun s =>
  if s.failsNow then (.error .st, { s with ctr := s.ctr + 1 }) else       -- NewTransaction
  let s := { s with ctr := s.ctr + 1, tx := some s.kv }
  match guards s.mem with
  | .error e => (.error e, { s with tx := none })                        -- only Discard registered
  | .ok b =>
    match runSteps (steps b) [] s with
    | (none, stack, s) =>
      if s.failsNow then                                                  -- Commit fails
        match runRollback stack { s with ctr := s.ctr + 1 } with
        | (true, s) => (.error .st, { s with tx := none })
        | (false, s) => (.error .panic, { s with tx := none })
      else (.ok (), { s with ctr := s.ctr + 1, kv := s.tx.getD s.kv, tx := none })
    | (some e, stack, s) =>
      match runRollback stack s with
      | (true, s) => (.error e, { s with tx := none })
      | (false, s) => (.error .panic, { s with tx := none })

/-! ## orchestrator methods -/

/-- `ConnectorOrchestrator.Validate` → plugin service `Validate{Source,Destination}Config`. -/
def connValid (typ plugin settings : Nat) : Bool := (typ = 1 || typ = 2) && plugin = 1 && settings ≠ 0

def notConfig (prov : Nat) : Except Err Unit := if prov = 0 then .ok () else .error .imm
def notRunning (p : Pl) : Except Err Unit := if p.status ≠ 1 then .ok () else .error .run
def check (c : Bool) (e : Err) : Except Err Unit := if c then .ok () else .error e

/-- guards, then one service call, no transaction (the `PipelineOrchestrator` methods). -/
def guarded (guards : Mem → Except Err Unit) (f : Svc) : M Unit := fun s =>
  match guards s.mem with
  | .error e => (.error e, s)
  | .ok () => f.run s

/-- `PipelineOrchestrator.Create`. -/
def opPlCreate (id : Id) (name desc : Nat) : M Unit := (svcPlCreate id name desc 0).run

def plGuards (m : Mem) (id : Id) : Except Err Pl := do
  let p ← getPl m id
  notConfig p.prov
  notRunning p
  pure p

/-- `PipelineOrchestrator.Update`. -/
def opPlUpdate (v : Variant) (id : Id) (name desc : Nat) : M Unit :=
  guarded (fun m => do let _ ← plGuards m id; pure ()) (svcPlUpdate v id name desc)

/-- `PipelineOrchestrator.UpdateDLQ`. -/
def opPlUpdateDLQ (v : Variant) (id : Id) (d : Dlq) : M Unit :=
  guarded (fun m => do let _ ← plGuards m id; check (connValid 2 d.plugin d.settings) .inv) (svcPlUpdateDLQ v id d)

/-- `PipelineOrchestrator.Delete`. -/
def opPlDelete (id : Id) : M Unit :=
  guarded (fun m => do
    let p ← plGuards m id
    check p.conns.isEmpty .att
    check p.procs.isEmpty .att) (svcPlDelete id)

/-- `ConnectorOrchestrator.Create`. -/
def opCnCreate (v : Variant) (id : Id) (typ plugin : Nat) (pid : Id) (name settings : Nat) : M Unit :=
  orch (fun m => do
      let _ ← plGuards m pid
      check (connValid typ plugin settings) .inv)
    (fun _ => [
      { act := svcCnCreate id typ plugin pid name settings 0 0, undo := svcCnDelete id },
      { act := svcPlAddConn v pid id, undo := svcPlRemConn v pid id } ])

def cnGuardsUpdate (m : Mem) (id : Id) (settings : Nat) : Except Err Cn := do
  let c ← getCn m id
  notConfig c.prov
  let p ← getPl m c.pipeline
  notRunning p
  check (connValid c.typ c.plugin settings) .inv
  pure c

/-- `ConnectorOrchestrator.Update`. Validation uses the *old* plugin (`conn.Plugin`); the
rollback calls `Update(id, conn.Plugin, oldConfig)` where `conn` is, as found, the instance
*after* the update. -/
def opCnUpdate (v : Variant) (id : Id) (plugin name settings : Nat) : M Unit :=
  orch (fun m => cnGuardsUpdate m id settings)
    (fun c => [
      { act := svcCnUpdate v id plugin name settings,
        undo := if v.cnOrchOldPlugin then svcCnUpdate v id c.plugin c.name c.settings
                else svcCnUpdateKeepPlugin v id c.name c.settings } ])

def cnGuardsDelete (m : Mem) (id : Id) : Except Err Cn := do
  let c ← getCn m id
  notConfig c.prov
  check c.procs.isEmpty .att
  let p ← getPl m c.pipeline
  notRunning p
  pure c

/-- `ConnectorOrchestrator.Delete`. The rollback re-creates the connector from
`(Type, Plugin, PipelineID, Config, ProvisionedBy)` — without `State`. -/
def opCnDelete (v : Variant) (id : Id) : M Unit :=
  orch (fun m => cnGuardsDelete m id)
    (fun c => [
      { act := svcCnDelete id, undo := svcCnCreate id c.typ c.plugin c.pipeline c.name c.settings c.prov 0 },
      { act := svcPlRemConn v c.pipeline id, undo := svcPlAddConn v c.pipeline id } ])

/-- `getProcessorsPipeline`. -/
def procPipeline (m : Mem) (ptype : Nat) (parent : Id) : Except Err Pl :=
  if ptype = 2 then getPl m parent
  else if ptype = 1 then do
    let c ← getCn m parent
    getPl m c.pipeline
  else .error .inv

def attachStep (v : Variant) (ptype : Nat) (parent rid : Id) : Step :=
  if ptype = 2 then { act := svcPlAddProc v parent rid, undo := svcPlRemProc v parent rid }
  else { act := svcCnAddProc v parent rid, undo := svcCnRemProc v parent rid }

def detachStep (v : Variant) (ptype : Nat) (parent rid : Id) : Step :=
  if ptype = 2 then { act := svcPlRemProc v parent rid, undo := svcPlAddProc v parent rid }
  else { act := svcCnRemProc v parent rid, undo := svcCnAddProc v parent rid }

/-- `ProcessorOrchestrator.Create`. -/
def opPrCreate (v : Variant) (id : Id) (plugin ptype : Nat) (parent : Id) (settings : Nat) (workers : Int) (cond : Nat) : M Unit :=
  orch (fun m => do
      let p ← procPipeline m ptype parent
      notConfig p.prov
      notRunning p)
    (fun _ => [
      { act := svcPrCreate id plugin ptype parent settings workers 0 cond, undo := svcPrDelete id },
      attachStep v ptype parent id ])

def prGuards (m : Mem) (id : Id) : Except Err Pr := do
  let r ← getPr m id
  notConfig r.prov
  let p ← procPipeline m r.ptype r.parent
  notRunning p
  pure r

/-- `ProcessorOrchestrator.Update`. -/
def opPrUpdate (v : Variant) (id : Id) (plugin settings : Nat) (workers : Int) : M Unit :=
  orch (fun m => prGuards m id)
    (fun r => [
      { act := svcPrUpdate v id plugin settings workers, undo := svcPrUpdate v id r.plugin r.settings r.workers } ])

/-- `ProcessorOrchestrator.Delete`. The rollback re-creates with `ProvisionTypeAPI`. -/
def opPrDelete (v : Variant) (id : Id) : M Unit :=
  orch (fun m => prGuards m id)
    (fun r => [
      { act := svcPrDelete id, undo := svcPrCreate id r.plugin r.ptype r.parent r.settings r.workers 0 r.cond },
      detachStep v r.ptype r.parent id ])

/-! ## operations of a history -/

inductive Op where
  | plCreate (name desc : Nat)
  | plUpdate (id : Id) (name desc : Nat)
  | plUpdateDLQ (id : Id) (d : Dlq)
  | plDelete (id : Id)
  | cnCreate (typ plugin : Nat) (pid : Id) (name settings : Nat)
  | cnUpdate (id : Id) (plugin name settings : Nat)
  | cnDelete (id : Id)
  | prCreate (plugin ptype : Nat) (parent : Id) (settings : Nat) (workers : Int) (cond : Nat)
  | prUpdate (id : Id) (plugin settings : Nat) (workers : Int)
  | prDelete (id : Id)
  -- environment (never fault-injected)
  | envStatus (id : Id) (st : Nat)
  | envState (id : Id) (state : Nat)
  | envPl (name : Nat)
  | envCn (typ : Nat) (pid : Id) (name settings : Nat)
  | envPr (ptype : Nat) (parent : Id) (settings : Nat)
deriving Repr, DecidableEq, Inhabited

def Op.isApi : Op → Bool
  | .envStatus .. | .envState .. | .envPl .. | .envCn .. | .envPr .. => false
  | _ => true

/-- the body of an op; `id` is the fresh id (= index of the op). -/
def opBody (v : Variant) (id : Id) : Op → M Unit
  | .plCreate name desc => opPlCreate id name desc
  | .plUpdate i name desc => opPlUpdate v i name desc
  | .plUpdateDLQ i d => opPlUpdateDLQ v i d
  | .plDelete i => opPlDelete i
  | .cnCreate typ plugin pid name settings => opCnCreate v id typ plugin pid name settings
  | .cnUpdate i plugin name settings => opCnUpdate v i plugin name settings
  | .cnDelete i => opCnDelete v i
  | .prCreate plugin ptype parent settings workers cond => opPrCreate v id plugin ptype parent settings workers cond
  | .prUpdate i plugin settings workers => opPrUpdate v i plugin settings workers
  | .prDelete i => opPrDelete v i
  | .envStatus i st => (svcPlStatus i st).run
  | .envState i state => (svcCnSetState i state).run
  | .envPl name => (svcPlCreate id name 0 1).run
  | .envCn typ pid name settings =>
      guarded (fun m => do let _ ← getPl m pid; pure ())
        (svcCnCreate id typ 1 pid name settings 1 0) |>.andThen (svcPlAddConn v pid id).run
  | .envPr ptype parent settings =>
      guarded (fun m => if ptype = 2 then (do let _ ← getPl m parent; pure ())
                        else if ptype = 1 then (do let _ ← getCn m parent; pure ()) else .error .inv)
        (svcPrCreate id 1 ptype parent settings 0 1 0) |>.andThen
          (if ptype = 2 then svcPlAddProc v parent id else svcCnAddProc v parent id).run

/-- one API call (or environment op) of a history: fresh counters, the given failing store
operation, the op's index as the fresh id. -/
def exec (v : Variant) (s : St) (op : Op) (k : Option Nat) : Except Err Unit × St :=
  let r := opBody v s.next op { s with ctr := 0, failAt := (if op.isApi then k else none) }
  (r.1, { r.2 with next := s.next + 1, failAt := none, ctr := 0 })

/-- a history = ops with optional failing store-op index. -/
def run (v : Variant) : St → List (Op × Option Nat) → St
  | s, [] => s
  | s, (op, k) :: rest => run v (exec v s op k).2 rest

end Conduit.Ctl
