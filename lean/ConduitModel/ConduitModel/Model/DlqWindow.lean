/-
M1 — the DLQ nack window (ring buffer) of both engines.

Mirrors, line for line:
  * v1: /repo/pkg/lifecycle/stream/dlq.go        `dlqWindow` (`newDLQWindow`, `Ack`, `Nack`, `store`)
  * v2: /repo/pkg/lifecycle-poc/funnel/dlq.go    `dlqWindow` (`newDLQWindow`, `Ack(count)`, `Nack(count)`, `store(count,…)`)

Core-only (no Mathlib) so that it can be linked into the driver executable.
-/
namespace Conduit.Dlq

/-- `window []bool`, `cursor`, `nackThreshold`, `nackCount` (ackCount is redundant: len - nackCount). -/
structure Win where
  win   : List Bool
  cur   : Nat
  thr   : Nat
  nacks : Nat
deriving Repr, DecidableEq, Inhabited

/-- `newDLQWindow(size, threshold)` incl. the `threshold == 0 ⇒ size = 1` rewrite. -/
def Win.new (size thr : Nat) : Win :=
  let size := if 0 < size ∧ thr = 0 then 1 else size
  { win := List.replicate size false, cur := 0, thr := thr, nacks := 0 }

/-- one turn of the ring: advance cursor, overwrite slot, adjust `nackCount`. -/
def Win.put (w : Win) (nacked : Bool) : Win :=
  let c := (w.cur + 1) % w.win.length
  if w.win[c]? = some nacked then { w with cur := c }
  else { w with cur := c, win := w.win.set c nacked,
                nacks := if nacked then w.nacks + 1 else w.nacks - 1 }

/-- v1 `store(nacked)`. -/
def Win.store1 (w : Win) (nacked : Bool) : Win :=
  if w.win.length = 0 ∨ w.thr < w.nacks then w else w.put nacked

/-- v1 `Ack()`. -/
def Win.ack1 (w : Win) : Win := w.store1 false

/-- v1 `Nack()`: store, then `nackThreshold >= nackCount`. -/
def Win.nack1 (w : Win) : Win × Bool :=
  let w' := w.store1 true
  (w', decide (w'.nacks ≤ w'.thr))

/-- v2 loop body of `store(count, nacked)`: `k` iterations left, `i` done. Returns the
early-exit index when a nack pushes `nackCount` over the threshold. -/
def Win.storeLoop (nacked : Bool) : Win → Nat → Nat → Win × Nat
  | w, 0, i => (w, i)
  | w, k+1, i =>
    let w' := w.put nacked
    if nacked ∧ w.win[(w.cur + 1) % w.win.length]? ≠ some nacked ∧ w'.thr < w'.nacks then (w', i)
    else Win.storeLoop nacked w' k (i+1)

/-- v2 `store(count, nacked)`. -/
def Win.storeN (w : Win) (count : Nat) (nacked : Bool) : Win × Nat :=
  if w.win.length = 0 then (w, count)
  else if w.thr < w.nacks then (w, 0)
  else Win.storeLoop nacked w count 0

/-- v2 `Ack(count)` with the `nackCount == 0` shortcut. -/
def Win.ackN (w : Win) (count : Nat) : Win :=
  if w.nacks = 0 then w else (w.storeN count false).1

/-- v2 `Nack(count)`: number of accepted nacks. -/
def Win.nackN (w : Win) (count : Nat) : Win × Nat := w.storeN count true

/-- the ring read oldest → newest (the slot after the cursor is the oldest). -/
def Win.logical (w : Win) : List Bool := w.win.drop (w.cur + 1) ++ w.win.take (w.cur + 1)

def Win.frozen (w : Win) : Bool := decide (w.thr < w.nacks)

/-- v1 engine fed one outcome at a time: verdict per outcome (`true` for acks). -/
def runV1 : Win → List Bool → Win × List Bool
  | w, [] => (w, [])
  | w, false :: os => let (w', vs) := runV1 w.ack1 os; (w', true :: vs)
  | w, true :: os =>
    let (w1, v) := w.nack1
    let (w', vs) := runV1 w1 os
    (w', v :: vs)

/-- v2 engine fed batches `(nacked, count)`: accepted count per batch (`count` for acks). -/
def runV2 : Win → List (Bool × Nat) → Win × List Nat
  | w, [] => (w, [])
  | w, (false, n) :: bs => let (w', ks) := runV2 (w.ackN n) bs; (w', n :: ks)
  | w, (true, n) :: bs =>
    let (w1, k) := w.nackN n
    let (w', ks) := runV2 w1 bs
    (w', k :: ks)

/-- v1 engine fed the same batches record by record, counting accepted outcomes per batch. -/
def runV1Batches : Win → List (Bool × Nat) → Win × List Nat
  | w, [] => (w, [])
  | w, (x, n) :: bs =>
    let (w1, vs) := runV1 w (List.replicate n x)
    let (w', ks) := runV1Batches w1 bs
    (w', vs.count true :: ks)

end Conduit.Dlq
