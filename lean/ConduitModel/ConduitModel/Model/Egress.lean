/-
M7 / C18 — processor egress: the resolved-IP gate, the dial loop and the policy ceiling
(core-only, executable).

Go sources mirrored (pkg/plugin/processor/egress):
  * ipguard.go  `Refuse`, `classifyV4`, `isV4Compatible`, `isRawV4`          → `refuse`, `classifyV4`, …
  * policy.go   `Policy.matchesCarveOut`, `entryKey`, `intersectRefs`, `ResolvePolicy`
                                                                             → `matchesCarveOut`, …, `resolvePolicy`
  * service.go  `dialControl`, `dialContext`, `effectiveTimeout`             → `dialControl`, `dialContext`
  * net package (modelled from its documented behaviour): `IP.To4`, `IP.To16`, `IP.Equal`,
    `IPNet.Contains`, `ParseIP(ip.String())` (re-parsing gives the 16-byte form)

Addresses: a `net.IP` is a byte slice; `b4 a` is a 4-byte slice (big-endian number `a < 2^32`),
`b16 x` a 16-byte slice (`x < 2^128`), `bad` any other length including nil.
The CIDR tables, the NAT64 / IPv4-translated prefixes, the multicast thresholds and the reason
labels are PARAMETERS (`Tables`), instantiated with the ones regenerated from ipguard.go.
-/
namespace Conduit.Egress

inductive IP where
  | b4 (a : Nat)
  | b16 (x : Nat)
  | bad
deriving DecidableEq, Repr, Inhabited

/-- 2^32, 2^128 as literals (so that `omega` sees numerals). -/
abbrev P32 : Nat := 4294967296
abbrev P128 : Nat := 340282366920938463463374607431768211456

def IP.Valid : IP → Prop
  | .b4 a => a < P32
  | .b16 x => x < P128
  | .bad => True

/-- `ip.To4()`: the 4-byte form of a 4-byte address or of a 16-byte `::ffff:a.b.c.d`. -/
def to4 : IP → Option Nat
  | .b4 a => some a
  | .b16 x => if x / P32 = 0xffff then some (x % P32) else none
  | .bad => none

/-- `ip.To16()`. -/
def to16 : IP → Option Nat
  | .b4 a => some (0xffff * P32 + a)
  | .b16 x => some x
  | .bad => none

/-- `ip.Equal(x)`: an IPv4 address and its IPv6 v4-mapped form are equal. -/
def ipEqual (a b : IP) : Bool :=
  match to16 a, to16 b with
  | some x, some y => x == y
  | _, _ => false

/-- a CIDR as (network number, prefix length); `bits` = 32 or 128. -/
def cidrContains (bits : Nat) (net : Nat × Nat) (a : Nat) : Bool :=
  a / 2 ^ (bits - net.2) == net.1 / 2 ^ (bits - net.2)

structure Tables where
  v4 : List (Nat × Nat × String)      -- refusedV4: (network, prefix length, reason)
  v6 : List (Nat × Nat × String)      -- refusedV6
  nat64 : Nat × Nat                   -- nat64Net
  translated : Nat × Nat              -- v4TranslatedNet
  v4McastFirstByte : Nat              -- `v4[0] >= 224`
  v6McastFirstByte : Nat              -- `ip16[0] == 0xff`
  -- reason labels (values of the refusedReason constants)
  rUnparseable : String
  rV4Mapped : String
  rV4Compatible : String
  rV4Translated : String
  rNAT64 : String
  rSixToFour : String
  rTeredo : String
  rMulticast : String

def firstMatch (bits : Nat) : List (Nat × Nat × String) → Nat → Option String
  | [], _ => none
  | (n, l, r) :: rest, a => if cidrContains bits (n, l) a then some r else firstMatch bits rest a

/-- `classifyV4` on a 4-byte value: reason, or `none` = reasonNotRefused. -/
def classifyV4 (t : Tables) (a : Nat) : Option String :=
  match firstMatch 32 t.v4 a with
  | some r => some r
  | none => if a / 2 ^ 24 ≥ t.v4McastFirstByte then some t.rMulticast else none

/-- `isV4Compatible(ip16)`: first 12 bytes zero and the last four not 0.0.0.0 / 0.0.0.1. -/
def isV4Compatible (x : Nat) : Bool :=
  x / P32 == 0 && !(x % P32 == 0 || x % P32 == 1)

/-- `Refuse(ip)`: `none` = allowed by range, `some reason` = refused. -/
def refuse (t : Tables) (ip : IP) : Option String :=
  match to16 ip with
  | none => some t.rUnparseable                      -- nil or not 4/16 bytes
  | some x =>
    match to4 ip with
    | some a =>
      match classifyV4 t a with
      | some r =>
        match ip with
        | .b16 _ => some t.rV4Mapped                  -- len(ip) == 16 && !isRawV4(ip)
        | _ => some r
      | none => none
    | none =>
      if cidrContains 128 t.nat64 x then some t.rNAT64
      else if cidrContains 128 t.translated x then some t.rV4Translated
      else if x / 2 ^ 112 = 0x2002 then some t.rSixToFour        -- ip16[0]==0x20 && ip16[1]==0x02
      else if x / 2 ^ 96 = 0x20010000 then some t.rTeredo        -- 20 01 00 00
      else if isV4Compatible x then some t.rV4Compatible
      else match firstMatch 128 t.v6 x with
        | some r => some r
        | none => if x / 2 ^ 120 = t.v6McastFirstByte then some t.rMulticast else none

def refused (t : Tables) (ip : IP) : Bool := (refuse t ip).isSome

/-! ## policy -/

structure AllowEntry where
  scheme : String
  host : String
  port : String
  ip : Option IP            -- set iff the entry is an IP literal
deriving DecidableEq, Repr

structure Policy where
  enabled : Bool := false
  allow : List AllowEntry := []
  secrets : List String := []       -- the key set of SecretRefs (sorted, duplicate-free)
  timeout : Int := 0                -- time.Duration (ns)
  maxBytes : Int := 0
deriving DecidableEq, Repr

def denyAll : Policy := {}

/-- `Policy.matchesCarveOut(ip, port)`: the exact (IP, port) pair is an IP-literal entry. -/
def matchesCarveOut (p : Policy) (ip : IP) (port : String) : Bool :=
  p.allow.any fun e =>
    match e.ip with
    | some eip => e.port == port && ipEqual eip ip
    | none => false

def entryKey (e : AllowEntry) : String := e.scheme ++ "|" ++ e.host ++ "|" ++ e.port

/-- `intersectRefs(requested, ceiling)` on key sets. -/
def intersectRefs (requested ceiling : List String) : List String :=
  requested.filter fun r => ceiling.contains r

structure Defaults where
  timeout : Int
  maxBytes : Int

/-- `ResolvePolicy(perProcessor, ceiling)` → (effective, dropped). -/
def resolvePolicy (d : Defaults) (per ceiling : Policy) : Policy × List AllowEntry :=
  if !per.enabled then (denyAll, [])
  else if !ceiling.enabled then (denyAll, per.allow)
  else
    let t0 := if per.timeout ≤ 0 then d.timeout else per.timeout
    let m0 := if per.maxBytes ≤ 0 then d.maxBytes else per.maxBytes
    let t1 := if ceiling.timeout > 0 ∧ t0 > ceiling.timeout then ceiling.timeout else t0
    let m1 := if ceiling.maxBytes > 0 ∧ m0 > ceiling.maxBytes then ceiling.maxBytes else m0
    if ceiling.allow.isEmpty then
      ({ enabled := true, allow := per.allow,
         secrets := if ceiling.secrets.isEmpty then per.secrets else intersectRefs per.secrets ceiling.secrets,
         timeout := t1, maxBytes := m1 }, [])
    else
      let keys := ceiling.allow.map entryKey
      ({ enabled := true, allow := per.allow.filter fun e => keys.contains (entryKey e),
         secrets := intersectRefs per.secrets ceiling.secrets,
         timeout := t1, maxBytes := m1 },
       per.allow.filter fun e => !keys.contains (entryKey e))

/-! ## the dial path -/

/-- what `net.ParseIP(ip.String())` gives back for an address handed to the base dialer:
`ParseIP` always returns the 16-byte form. -/
def reparse (ip : IP) : IP :=
  match to16 ip with
  | some x => .b16 x
  | none => .bad

/-- `dialControl` on the address string the base dialer passes: refuse unless allowed by range
or the exact (IP, port) pair is a carve-out. `true` = the connect may proceed. -/
def dialControl (t : Tables) (p : Policy) (ip : IP) (port : String) : Bool :=
  let ip' := reparse ip
  match ip' with
  | .bad => false
  | _ => !(refused t ip') || matchesCarveOut p ip' port

/-- what happens to one socket address. -/
inductive Attempt where
  | skipped (ip : IP)                 -- candidate refused by the per-candidate gate, never handed to the dialer
  | controlRefused (ip : IP)          -- handed to the base dialer, stopped by the Control hook
  | connectFailed (ip : IP)           -- Control passed, connect(2) failed
  | connected (ip : IP)               -- Control passed, connected
deriving DecidableEq, Repr

def Attempt.isConnected : Attempt → Bool
  | .connected _ => true
  | _ => false

/-- `base.DialContext(ctx, network, "ip:port")` on a literal address. The dialer derives the
socket addresses to try (`addrs`; Go tries 0.0.0.0 after a literal `::`), and for EACH of them
runs the Control hook immediately before connect(2). Stops at the first connection. -/
def baseDial (t : Tables) (p : Policy) (port : String) (connectOk : IP → Bool) : List IP → List Attempt
  | [] => []
  | a :: rest =>
    if !dialControl t p a port then .controlRefused a :: baseDial t p port connectOk rest
    else if connectOk a then [.connected a]
    else .connectFailed a :: baseDial t p port connectOk rest

/-- `dialContext` over the candidate list, one group of events per candidate. `expand` is the
base dialer's address derivation, `connectOk a` scripts whether connect(2) to `a` succeeds. The
loop stops at the first connection. -/
def dialContext (t : Tables) (p : Policy) (port : String) (expand : IP → List IP) (connectOk : IP → Bool) :
    List IP → List (List Attempt)
  | [] => []
  | ip :: rest =>
    if refused t ip && !matchesCarveOut p ip port then
      [.skipped ip] :: dialContext t p port expand connectOk rest
    else
      let ev := baseDial t p port connectOk (expand ip)
      if ev.any Attempt.isConnected then [ev]
      else ev :: dialContext t p port expand connectOk rest

/-- `Policy.MatchHostPort(scheme, host, port)` — Stage 1. `reqIP` = `net.ParseIP(host)`. -/
def matchHostPort (p : Policy) (scheme host port : String) (reqIP : Option IP) : Bool :=
  p.allow.any fun e =>
    e.scheme == scheme && e.port == port &&
      match e.ip with
      | some eip => (match reqIP with | some r => ipEqual eip r | none => false)
      | none => e.host == host

/-- how one `Service.Do` ends (the pprocutils error class, or the response). -/
inductive DoOutcome where
  | disabled                -- ErrHTTPEgressDisabled
  | forbiddenAllowlist      -- ErrHTTPForbidden: Stage-1 miss
  | forbiddenIP             -- ErrHTTPForbidden: the dial error carries a dialRefusedError
  | forbiddenRedirect       -- ErrHTTPForbidden: CheckRedirect refused a 3xx
  | dns                     -- ErrHTTPDNS
  | transport               -- ErrHTTPTransport
  | ok                      -- the response was returned to the guest
deriving DecidableEq, Repr

/-- the candidates `dialContext` works on: the single address of an IP-literal host (as
`net.ParseIP` returns it), otherwise the resolver's answer (`none` = resolver error). -/
def candidatesOf (reqIP : Option IP) (answers : Option (List IP)) : Option (List IP) :=
  match reqIP with
  | some ip => some [reparse ip]
  | none => answers

/-- the rest of `Do` once the transport dials: the outcome for a candidate list. -/
def doDial (t : Tables) (p : Policy) (port : String) (expand : IP → List IP) (connectOk : IP → Bool)
    (redirects : Bool) : Option (List IP) → DoOutcome × List (List Attempt)
  | none => (.dns, [])
  | some [] => (.dns, [])
  | some (c :: cs) =>
    let gs := dialContext t p port expand connectOk (c :: cs)
    if gs.flatten.any Attempt.isConnected then
      (if redirects then .forbiddenRedirect else .ok, gs)
    else
      -- lastRefusal: a gate / Control refusal → forbidden; the dialer's own error → transport
      match gs.getLast? with
      | none => (.forbiddenIP, gs)
      | some g =>
        match g.head? with
        | some (.skipped _) => (.forbiddenIP, gs)
        | some (.controlRefused _) => (.forbiddenIP, gs)
        | _ => (.transport, gs)

/-- `Service.Do` for a well-formed request line: deny-all, Stage 1, then the transport dials
through `dialContext`; a connection is used for exactly one exchange, and a 3xx answer is never
followed. `answers = none`: the resolver fails; `redirects`: the server answers 302. -/
def doRequest (t : Tables) (p : Policy) (scheme host port : String) (reqIP : Option IP)
    (expand : IP → List IP) (connectOk : IP → Bool) (answers : Option (List IP)) (redirects : Bool) :
    DoOutcome × List (List Attempt) :=
  if !p.enabled then (.disabled, [])
  else if !matchHostPort p scheme host port reqIP then (.forbiddenAllowlist, [])
  else doDial t p port expand connectOk redirects (candidatesOf reqIP answers)

/-- the addresses on which connect(2) was actually attempted. -/
def connectAttempts : List Attempt → List IP
  | [] => []
  | .connectFailed ip :: r => ip :: connectAttempts r
  | .connected ip :: r => ip :: connectAttempts r
  | _ :: r => connectAttempts r

end Conduit.Egress
