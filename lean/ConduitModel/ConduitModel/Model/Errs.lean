/-
M7 / C20 — error values and their classification (core-only, executable).

Go sources mirrored here (function by function):
  * `errors.As` / `errors.Is` (Go 1.20+): pre-order depth-first walk over `Unwrap() error` and
    `Unwrap() []error`                                             → `first`, `firstL`, `reach`
  * `golang.org/x/xerrors.Errorf` (= `cerrors.Errorf`), `parsePercentW` + `parsePrintfVerb` (the two
    nested scanning loops, here as one state machine `pwStep` over the format bytes), `errorAt`
                                                                    → `parsePercentW`, `errorfIdx`, `errorf`
  * `errors.Join` (= `cerrors.Join`)                                → `join`
  * `pkg/foundation/cerrors/fatal.go` `FatalError`, `IsFatalError`   → `fatalError`, `isFatal`
  * `pkg/foundation/cerrors/conduiterr/conduiterr.go` `New`, `Wrap`, `WithCode`, `Get`
                                                                    → `cnew`, `cwrap`, `withCode`, `get`
  * `conduiterr/fallback.go` `WithUnknownReason`                    → `withUnknownReason`
  * `conduiterr/status.go` `ToStatus`, `FromStatus`                 → `toStatus`, `fromStatus`
  * `google.golang.org/grpc/status` `FromError`, `(*Status).Err`, `WithDetails` (code OK cases)
                                                                    → `grpcFromError`, `Status.err`
  * `pkg/conduit/exitcode/exitcode.go` `ExitCode`, `fromGRPCCode`, `isEnvironmentSentinel`
                                                                    → `exitCode` (table is a parameter,
                                                                      instantiated with the regenerated one)
  * `pkg/http/api/status/status.go` `PipelineError` … `codeFromError`, `fallbackStatus`
                                                                    → `apiStatus` (tables are parameters)

An error value in memory is an `Err` tree; a Go `error` interface value is `Option Err`
(`none` = nil). Only what classification depends on is kept: messages, stack frames and the
remediation fields of `ConduitError` are abstracted away.
-/
namespace Conduit.Errs

/-- `conduiterr.Code`: stable reason + gRPC category (a `codes.Code` number). -/
structure Code where
  reason : String
  grpc : Nat
deriving DecidableEq, Repr, Inhabited

/-- An error value.
* `leaf s`   — an error without `Unwrap`: sentinel value / `errors.New` / `xerrors.New`. `s` is its
               identity (name of the package-level sentinel; `""` for a fresh anonymous error).
* `wrap k e` — any transparent single wrapper (`Unwrap() error` returning `e`): xerrors `wrapError`
               (k = "x"), `fmt.Errorf` `%w` (k = "f"), `*net.OpError` ("op"), `*os.SyscallError`
               ("sys"), `*connector.ValidationError` ("val", the only kind with a type-based `Is`).
* `opaque lost` — xerrors `noWrapError`: keeps text only, has NO `Unwrap`; `lost` records the error
               arguments that were formatted into the text (unreachable for As/Is).
* `join es`  — `Unwrap() []error`: `errors.Join`, `fmt.Errorf` with several `%w`.
* `fatal e`  — `*cerrors.fatalError`.
* `coded c e`— `*conduiterr.ConduitError` (its `err` is always non-nil after construction).
* `status g r` — `*status.Error` (has `GRPCStatus()`), gRPC code `g`, and the reason of a Conduit
               `ErrorInfo` detail if one is attached. -/
inductive Err where
  | leaf (s : String)
  | wrap (k : String) (e : Err)
  | opaque (lost : List Err)
  | join (es : List Err)
  | fatal (e : Err)
  | coded (c : Code) (e : Err)
  | status (g : Nat) (r : Option String)
deriving Repr, Inhabited

/-- Go `error` interface value. -/
abbrev E := Option Err

/-! ## errors.As / errors.Is : pre-order DFS -/

mutual
/-- `errors.As`/`errors.Is` walk: the first node (pre-order, children left to right) on which the
node-local probe `p` answers. `p` must not look below the node (it mirrors "type assignable to
target" / "== target or Is method"). -/
def first {α : Type} (p : Err → Option α) : Err → Option α
  | .leaf s => p (.leaf s)
  | .wrap k e => (p (.wrap k e)).or (first p e)
  | .opaque l => p (.opaque l)
  | .join es => (p (.join es)).or (firstL p es)
  | .fatal e => (p (.fatal e)).or (first p e)
  | .coded c e => (p (.coded c e)).or (first p e)
  | .status g r => p (.status g r)
def firstL {α : Type} (p : Err → Option α) : List Err → Option α
  | [] => none
  | e :: es => (first p e).or (firstL p es)
end

mutual
/-- every node `errors.As`/`Is` can see, in visiting order. -/
def reach : Err → List Err
  | .leaf s => [.leaf s]
  | .wrap k e => .wrap k e :: reach e
  | .opaque l => [.opaque l]
  | .join es => .join es :: reachL es
  | .fatal e => .fatal e :: reach e
  | .coded c e => .coded c e :: reach e
  | .status g r => [.status g r]
def reachL : List Err → List Err
  | [] => []
  | e :: es => reach e ++ reachL es
end

/-! node-local probes -/

def fatalNode : Err → Option Unit
  | .fatal _ => some ()
  | _ => none

def codeNode : Err → Option Code
  | .coded c _ => some c
  | _ => none

def statusNode : Err → Option (Nat × Option String)
  | .status g r => some (g, r)
  | _ => none

/-- `errors.Is` target. `sentinel s`: comparable value `s`; `validation`: `&ValidationError{}`
(matched by `(*ValidationError).Is`, i.e. by type). -/
inductive Target where
  | sentinel (s : String)
  | validation
deriving DecidableEq, Repr

def isNode (t : Target) : Err → Option Unit
  | .leaf s => if t = .sentinel s ∧ s ≠ "" then some () else none
  | .wrap k _ => if t = .validation ∧ k = "val" then some () else none
  | _ => none

/-- `cerrors.IsFatalError`. -/
def isFatalErr (e : Err) : Bool := (first fatalNode e).isSome
def isFatal : E → Bool
  | none => false
  | some e => isFatalErr e

/-- `conduiterr.Get` (the code of the first `*ConduitError` in the chain). -/
def getErr (e : Err) : Option Code := first codeNode e
def get : E → Option Code
  | none => none
  | some e => getErr e

/-- `cerrors.Is(err, target)`. -/
def isErr (t : Target) (e : Err) : Bool := (first (isNode t) e).isSome
def is (t : Target) : E → Bool
  | none => false
  | some e => isErr t e

/-! ## constructors of the code base -/

/-- `cerrors.FatalError`. -/
def fatalError : E → E
  | none => none
  | some e => if isFatalErr e then some e else some (.fatal e)

/-- `cerrors.New` / `errors.New`: a fresh anonymous leaf. -/
def new : Err := .leaf ""

/-- `errors.Join`: nil arguments are dropped; nil if nothing is left. -/
def join (es : List E) : E :=
  match es.filterMap id with
  | [] => none
  | l => some (.join l)

/-- `conduiterr.New`. -/
def cnew (c : Code) : Err := .coded c new

/-- `conduiterr.Wrap`: an inner ConduitError's code is passed through (never shadowed). -/
def cwrap (c : Code) (cause : E) : Err :=
  match cause with
  | none => .coded c new
  | some x => .coded ((getErr x).getD c) x

/-- `conduiterr.WithCode`: always adopts `c`. -/
def withCode (cause : E) (c : Code) : Err :=
  match cause with
  | none => .coded c new
  | some x => .coded c x

/-- `conduiterr.WithUnknownReason`: an existing ConduitError is returned *itself* (the node found
by `Get`, without whatever wrapped it); otherwise reason `unknownReason` with category `g`. -/
def firstCoded : Err → Option Err := first fun
  | .coded c e => some (.coded c e)
  | _ => none

def withUnknownReason (unknownReason : String) (cause : E) (g : Nat) : Err :=
  match cause with
  | none => .coded ⟨unknownReason, g⟩ new
  | some x =>
    match firstCoded x with
    | some ce => ce
    | none => .coded ⟨unknownReason, g⟩ x

/-! ## xerrors.Errorf -/

/-- argument of `Errorf` (`any`): an error, a nil interface / non-error value. -/
inductive Val where
  | err (e : Err)
  | other
deriving Repr, Inhabited

def Val.ofE : E → Val
  | none => .other      -- a nil error passed as `any` fails the `.(error)` assertion just like a string
  | some e => .err e

def isLetter (c : Nat) : Bool := (65 ≤ c && c ≤ 90) || (97 ≤ c && c ≤ 122)

/-- parser state of `parsePercentW` -/
structure PW where
  idx : Option Nat := none   -- index (counted in directives) of the first %w  (Go: idx, -1 = none)
  ok : Bool := true          -- false: more than one %w
  n : Nat := 0               -- directives seen
  exotic : Bool := false     -- (ghost) some directive uses `*`, `[` or a non-ASCII byte
  ws : List Nat := []        -- (ghost) directive indices of ALL %w verbs, in order
deriving Repr, DecidableEq

/-- where the scan is: outside a directive, just after a `%`, or inside a directive
(`parsePrintfVerb` looking for the verb letter). -/
inductive Mode where
  | out | pct | dir
deriving Repr, DecidableEq

/-- a directive ends with verb letter `c` (`parsePrintfVerb` returned `isW = (c == 'w')`):
the bookkeeping of `parsePercentW`'s loop body. -/
def PW.verb (st : PW) (isW : Bool) : PW :=
  { idx := if isW then (if st.idx.isSome then st.idx else some st.n) else st.idx
    ok := if isW && st.idx.isSome then false else st.ok
    n := st.n + 1
    exotic := st.exotic
    ws := if isW then st.ws ++ [st.n] else st.ws }

/-- One byte of `parsePercentW` + `parsePrintfVerb` (the two nested loops of xerrors/fmt.go as a
state machine over the bytes, which is what they are for formats whose directives are ASCII):
* outside: `%` opens; anything else is skipped (`sz = 1`);
* after `%`: a second `%` is the escape `%%` (`sz = 2`, no directive); otherwise the byte is the
  first byte of a directive;
* in a directive: "a sequence of non-letters followed by a single letter" — a letter ends it and
  is the verb; `*`, `[` and non-ASCII bytes are recorded in the ghost flag `exotic` (argument
  index ≠ directive index, resp. `unicode.IsLetter` on a decoded rune is not modelled). -/
def pwStep (s : Mode × PW) (c : Nat) : Mode × PW :=
  match s with
  | (.out, st) => if c = 37 then (.pct, st) else (.out, st)
  | (.pct, st) =>
    if c = 37 then (.out, st)
    else if isLetter c then (.out, st.verb (c = 119))
    else (.dir, { st with exotic := st.exotic || c = 42 || c = 91 || c ≥ 128 })
  | (.dir, st) =>
    if isLetter c then (.out, st.verb (c = 119))
    else (.dir, { st with exotic := st.exotic || c = 42 || c = 91 || c ≥ 128 })

/-- `parsePercentW(format)`. A directive cut off by the end of the format still counts as one
(`parsePrintfVerb` returns `len(s), false`). -/
def parsePercentW (fmt : List Nat) : PW :=
  match fmt.foldl pwStep (.out, {}) with
  | (.out, st) => st
  | (_, st) => st.verb false

def sufW : List Nat := [58, 32, 37, 119]   -- ": %w"
def sufS : List Nat := [58, 32, 37, 115]   -- ": %s"
def sufV : List Nat := [58, 32, 37, 118]   -- ": %v"

/-- the last four bytes (most recent first; 0 where the string is shorter). -/
def last4 (s : List Nat) : Nat × Nat × Nat × Nat :=
  s.foldl (fun w c => (c, w.1, w.2.1, w.2.2.1)) (0, 0, 0, 0)

/-- `strings.HasSuffix(s, suf)` for the three 4-byte suffixes `Errorf` tests. -/
def hasSuffix (s suf : List Nat) : Bool :=
  match suf with
  | [a, b, c, d] => last4 s == (d, c, b, a)
  | _ => suf.isSuffixOf s

/-- `errorAt(args, i)`: the argument if it is a (non-nil) error. -/
def errorAt (a : List Val) (i : Nat) : Option Err :=
  match a[i]? with
  | some (.err e) => some e
  | _ => none

def errsOf (a : List Val) : List Err :=
  a.filterMap fun | .err e => some e | .other => none

/-- The argument index `xerrors.Errorf(format, a...)` would wrap, from the format and `len(a)`
only (both branches of `Errorf` end in `errorAt(a, i)` for an index fixed by these):
* suffix branch (`!percentWElsewhere && (wrap || ": %s" || ": %v")`): `len(a)-1`, and only the
  `": %w"` suffix yields a `wrapError`;
* "%w anywhere" branch: the directive index of the first `%w`, refused when there are several
  (`!ok`). -/
def errorfIdxOf (wrap sv : Bool) (pw : PW) (n : Nat) : Option Nat :=
  let elsewhere := !wrap && pw.idx.isSome
  if !elsewhere && (wrap || sv) then
    if n = 0 then none            -- errorAt(a, -1) = nil
    else if wrap then some (n - 1) else none
  else
    match pw.idx with
    | none => none
    | some i => if pw.ok then some i else none

def errorfIdx (fmt : List Nat) (n : Nat) : Option Nat :=
  errorfIdxOf (hasSuffix fmt sufW) (hasSuffix fmt sufS || hasSuffix fmt sufV) (parsePercentW fmt) n

/-- which argument `xerrors.Errorf(format, a...)` wraps (`none`: the result has no `Unwrap`). -/
def errorfWraps (fmt : List Nat) (a : List Val) : Option Err :=
  (errorfIdx fmt a.length).bind (errorAt a)

/-- `cerrors.Errorf` = `xerrors.Errorf`. Never nil. -/
def errorf (fmt : List Nat) (a : List Val) : Err :=
  match errorfWraps fmt a with
  | some e => .wrap "x" e
  | none => .opaque (errsOf a)

/-! ## gRPC status encoding (`conduiterr/status.go`) -/

/-- what of a `*status.Status` matters: code and the reason of the Conduit ErrorInfo detail. -/
structure Status where
  grpc : Nat
  reason : Option String
deriving DecidableEq, Repr

/-- `ToStatus`: `WithDetails` fails for code OK (0), the detail-less status is returned then. -/
def toStatus (c : Code) : Status :=
  if c.grpc = 0 then ⟨0, none⟩ else ⟨c.grpc, some c.reason⟩

/-- `(*Status).Err()`: nil for OK. -/
def Status.err (s : Status) : E :=
  if s.grpc = 0 then none else some (.status s.grpc s.reason)

/-- `FromStatus` (non-nil status): the local registry is authoritative for a registered reason. -/
def fromStatus (registry : List (String × Nat)) (unknownReason : String) (s : Status) : Code :=
  match s.reason with
  | some r =>
    match registry.lookup r with
    | some g => ⟨r, g⟩
    | none => ⟨r, s.grpc⟩
  | none => ⟨unknownReason, s.grpc⟩

/-- `grpcstatus.FromError(err)` for non-nil `err`: the first node with `GRPCStatus()`. -/
def grpcFromError (e : Err) : Option Status :=
  (first statusNode e).map fun p => ⟨p.1, p.2⟩

/-! ## exit code (`pkg/conduit/exitcode`) -/

structure ExitCfg where
  table : List (Nat × Nat)     -- arms of `fromGRPCCode`
  dflt : Nat                   -- its default
  ok : Nat
  runtime : Nat
  environment : Nat
  canceled : String            -- sentinel names
  envSentinels : List String

def fromGRPCCode (cfg : ExitCfg) (g : Nat) : Nat := (cfg.table.lookup g).getD cfg.dflt

def isEnvironmentSentinel (cfg : ExitCfg) (e : Err) : Bool :=
  cfg.envSentinels.any fun s => isErr (.sentinel s) e

/-- `exitcode.ExitCode`. -/
def exitCode (cfg : ExitCfg) : E → Nat
  | none => cfg.ok
  | some e =>
    if isErr (.sentinel cfg.canceled) e then cfg.ok
    else match getErr e with
      | some c => fromGRPCCode cfg c.grpc
      | none =>
        match grpcFromError e with
        | some st => fromGRPCCode cfg st.grpc
        | none => if isEnvironmentSentinel cfg e then cfg.environment else cfg.runtime

/-! ## API boundary (`pkg/http/api/status`) -/

/-- ordered `case cerrors.Is(err, X): code = C` arms + default. -/
structure IsSwitch where
  arms : List (Target × Nat)
  dflt : Nat

def IsSwitch.eval (sw : IsSwitch) (e : Err) : Nat :=
  match sw.arms.find? (fun a => isErr a.1 e) with
  | some a => a.2
  | none => sw.dflt

structure ApiCfg where
  unknownReason : String
  /-- `codeFromError` -/
  common : IsSwitch
  /-- own arms of the boundary function before `default: codeFromError(err)` -/
  own : List (Target × Nat)

/-- `PipelineError` / `ConnectorError` / `ProcessorError` / `PluginError` (non-nil input):
`conduitErrorStatus` first, otherwise `fallbackStatus(category, err)`. Result: the returned
`error` (nil when the status code is OK). -/
def apiStatus (cfg : ApiCfg) (e : Err) : E :=
  match getErr e with
  | some c => (toStatus c).err
  | none =>
    let cat := (IsSwitch.eval ⟨cfg.own, cfg.common.eval e⟩ e)
    match withUnknownReason cfg.unknownReason (some e) cat with
    | .coded c _ => (toStatus c).err
    | _ => none   -- unreachable: withUnknownReason returns a coded node

/-! ## expression language: how the code base builds errors -/

/-- A constructor expression (what a generated test case / a call path in the code does). -/
inductive Expr where
  | nil                                         -- a nil error
  | sentinel (s : String)                       -- package-level sentinel value
  | new                                         -- cerrors.New("…")
  | other                                       -- a non-error value (only meaningful as Errorf argument)
  | errorf (fmt : List Nat) (args : List Expr)  -- cerrors.Errorf(fmt, args…)
  | stdwrap (k : String) (x : Expr)             -- fmt.Errorf("…%w", x), &net.OpError{Err:x}, &os.SyscallError{Err:x}, &ValidationError{Err:x}
  | join (args : List Expr)                     -- cerrors.Join(args…)
  | fatal (x : Expr)                            -- cerrors.FatalError(x)
  | cnew (c : Code)                             -- conduiterr.New(c, …)
  | cwrap (c : Code) (x : Expr)                 -- conduiterr.Wrap(c, …, x)
  | withCode (x : Expr) (c : Code)              -- conduiterr.WithCode(x, c)
  | withUnknown (x : Expr) (g : Nat)            -- conduiterr.WithUnknownReason(x, g)
  | grpc (g : Nat)                              -- grpcstatus.Error(g, …)
  | viaStatus (x : Expr)                        -- conduiterr.ToStatus(Get(x)).Err()   (nil if no ConduitError)
  | fromStatus (x : Expr)                       -- conduiterr.FromStatus(status.Convert(x)) for a status error x
deriving Repr, Inhabited

structure Env where
  registry : List (String × Nat)
  unknownReason : String

mutual
/-- evaluation with the real constructor semantics. Non-error values and nil both become `none`
except inside `Errorf` arguments where the distinction does not matter either (`errorAt`). -/
def eval (env : Env) : Expr → E
  | .nil => none
  | .sentinel s => some (.leaf s)
  | .new => some Errs.new
  | .other => none
  | .errorf fmt args => some (errorf fmt (evalArgs env args))
  | .stdwrap k x =>
    match eval env x with
    | none => none              -- the harness never builds a std wrapper around nil
    | some e => some (.wrap k e)
  | .join args => join (evalList env args)
  | .fatal x => fatalError (eval env x)
  | .cnew c => some (Errs.cnew c)
  | .cwrap c x => some (Errs.cwrap c (eval env x))
  | .withCode x c => some (Errs.withCode (eval env x) c)
  | .withUnknown x g => some (withUnknownReason env.unknownReason (eval env x) g)
  | .grpc g => if g = 0 then none else some (.status g none)   -- status.Error(OK) is nil
  | .viaStatus x =>
    match get (eval env x) with
    | none => none
    | some c => (toStatus c).err
  | .fromStatus x =>
    match eval env x with
    | none => some (Errs.cnew ⟨env.unknownReason, 13⟩)   -- not generated (FromStatus(nil) → CodeUnknown)
    | some e =>
      match grpcFromError e with
      | some st => some (.coded (Errs.fromStatus env.registry env.unknownReason st) Errs.new)
      | none => some (.coded ⟨env.unknownReason, 2⟩ Errs.new)   -- status.Convert: codes.Unknown
def evalList (env : Env) : List Expr → List E
  | [] => []
  | x :: xs => eval env x :: evalList env xs
def evalArgs (env : Env) : List Expr → List Val
  | [] => []
  | x :: xs => Val.ofE (eval env x) :: evalArgs env xs
end

end Conduit.Errs
