import ConduitModel.Model.PathClean

/-
M7 — `ExtractBinary` of `/repo/pkg/registry/extract.go`, statement by statement, over the list of
tar entries the reader yields, together with a small file-system model (the only effects
`ExtractBinary` has: `os.MkdirAll(filepath.Dir(destPath))`, `os.OpenFile(destPath, O_CREATE|O_EXCL)`,
`io.Copy`).

An entry is what `tar.Reader.Next` returns: `hdr.Name`, `hdr.Typeflag` (reduced to the classes the
`switch` distinguishes) and the number of content bytes declared (`size`) and actually readable
before the stream breaks (`avail`; `avail = size` for an intact archive). `corruptTail` says that
after the last entry `tr.Next()` fails instead of returning `io.EOF`.

Core-only.
-/
namespace Conduit.Registry

inductive EType | reg | dir | symlink | link | other
deriving Repr, DecidableEq, Inhabited

structure Entry where
  name  : Path
  typ   : EType
  size  : Nat
  avail : Nat
deriving Repr, DecidableEq, Inhabited

/-- message classes of the `CodeArchiveInvalid` refusals of `ExtractBinary`, in source order. -/
inductive ExErr
  | corrupt      -- "downloaded archive is corrupt"                (tr.Next error)
  | escape       -- "attempts to escape the extraction directory"
  | link         -- "is a symlink/hardlink, which is not permitted"
  | mkdir        -- "could not create extraction directory"
  | create       -- "could not create extracted file"
  | copy         -- "could not extract archive entry"
  | toobig       -- "archive expands past the maximum allowed decompressed size"
  | multi        -- "more than one candidate binary at its root"
  | nocandidate  -- "contains no root-level regular file to install"
deriving Repr, DecidableEq, Inhabited

/-! ## File system: a set of directories and a map file → size, keyed by component lists -/

structure FS where
  dirs  : List (List Seg)
  files : List (List Seg × Nat)
deriving Repr, DecidableEq, Inhabited

/-- kernel path resolution of a path without `.`/`..` components: the non-empty components. -/
def pathSegs (p : Path) : List Seg := (splitSlash p).filter (· ≠ [])

def FS.isDir (fs : FS) (p : List Seg) : Bool := fs.dirs.contains p
def FS.isFile (fs : FS) (p : List Seg) : Bool := fs.files.any (·.1 == p)

/-- all non-empty prefixes of a component list, shortest first. -/
def prefixes : List Seg → List (List Seg)
  | [] => []
  | s :: ss => [s] :: (prefixes ss).map (s :: ·)

/-- `os.MkdirAll(p, 0o700)`: every missing ancestor is created in turn; an ancestor that is a regular
file (`ENOTDIR`) or a component longer than `NAME_MAX` (`ENAMETOOLONG`) fails the call, leaving the
directories created so far. The root `[]` always exists. -/
def FS.mkdirAllAux (nameMax : Nat) : FS → List (List Seg) → FS × Bool
  | fs, [] => (fs, true)
  | fs, q :: qs =>
    if fs.isDir q then FS.mkdirAllAux nameMax fs qs
    else if fs.isFile q then (fs, false)
    else if nameMax < (q.getLast?.getD []).length then (fs, false)
    else FS.mkdirAllAux nameMax { fs with dirs := fs.dirs ++ [q] } qs

def FS.mkdirAll (nameMax : Nat) (fs : FS) (p : Path) : FS × Bool :=
  FS.mkdirAllAux nameMax fs (prefixes (pathSegs p))

/-- `os.OpenFile(p, O_WRONLY|O_CREATE|O_EXCL, 0o755)`: fails when `p` exists (file or directory,
the root included), when the parent is not a directory or the last component is too long.
Returns the key under which the new file is entered. -/
def FS.createExcl (nameMax : Nat) (fs : FS) (p : Path) : Option (List Seg) :=
  let q := pathSegs p
  if q = [] ∨ fs.isDir q ∨ fs.isFile q then none
  else if q.dropLast ≠ [] ∧ !fs.isDir q.dropLast then none
  else if nameMax < (q.getLast?.getD []).length then none
  else some q

/-- the file created by `createExcl` after `io.Copy` put `n` bytes into it and it was closed. -/
def FS.withFile (fs : FS) (q : List Seg) (n : Nat) : FS := { fs with files := fs.files ++ [(q, n)] }

/-! ## ExtractBinary -/

/-- loop state: `candidate` (Go: `""` = none yet), `extractedTotal`, and the file system. -/
structure ExState where
  fs        : FS
  candidate : Path
  total     : Nat
deriving Repr, DecidableEq, Inhabited

/-- the refusal test on `cleanName` (extract.go): `filepath.IsAbs(cleanName) || cleanName == ".." ||
strings.HasPrefix(cleanName, "../")`. -/
def escapes (cleanName : Path) : Bool :=
  isAbs cleanName || cleanName == dotdotSeg || hasPrefix cleanName (dotdotSeg ++ [slash])

/-- the `case tar.TypeReg:` arm for an entry whose cleaned name passed the refusal test. -/
def extractReg (cap nameMax : Nat) (dest : Path) (st : ExState) (e : Entry) (cleanName : Path) :
    ExState × Option ExErr :=
  let isRoot := !containsSlash cleanName
  let destPath := join2 dest cleanName
  let r := st.fs.mkdirAll nameMax (dir destPath)
  if r.2 = false then ({ st with fs := r.1 }, some .mkdir)
  else match r.1.createExcl nameMax destPath with
    | none => ({ st with fs := r.1 }, some .create)
    | some q =>
      -- io.Copy(out, io.LimitReader(tr, maxExtractedBytes-extractedTotal+1))
      let limit := cap - st.total + 1
      let want := min e.size limit
      if e.avail < want then ({ st with fs := r.1.withFile q e.avail }, some .copy)
      else
        let total := st.total + want
        let st2 : ExState := { st with fs := r.1.withFile q want, total := total }
        if cap < total then (st2, some .toobig)
        else if isRoot = false then (st2, none)
        else if st.candidate ≠ [] then (st2, some .multi)
        else ({ st2 with candidate := cleanName }, none)

/-- one iteration of the `for` loop for entry `e`; `none` error = `continue`. -/
def extractEntry (cap nameMax : Nat) (dest : Path) (st : ExState) (e : Entry) : ExState × Option ExErr :=
  let cleanName := clean e.name
  if escapes cleanName then (st, some .escape)
  else match e.typ with
  | .dir => (st, none)
  | .symlink => (st, some .link)
  | .link => (st, some .link)
  | .other => (st, none)
  | .reg => extractReg cap nameMax dest st e cleanName

/-- the `for` loop over the entries the reader yields. -/
def extractLoop (cap nameMax : Nat) (dest : Path) : ExState → List Entry → ExState × Option ExErr
  | st, [] => (st, none)
  | st, e :: es =>
    match extractEntry cap nameMax dest st e with
    | (st', some err) => (st', some err)
    | (st', none) => extractLoop cap nameMax dest st' es

/-- the directory `ExtractBinary` is given exists (with its ancestors) and is empty:
`extractAndGuard` creates `<staging>/extracted` freshly. -/
def FS.initial (dest : Path) : FS := { dirs := prefixes (pathSegs dest), files := [] }

instance : DecidableEq (Except ExErr Path) := fun a b =>
  match a, b with
  | .ok x, .ok y => if h : x = y then isTrue (by rw [h]) else isFalse (by intro e; cases e; exact h rfl)
  | .error x, .error y => if h : x = y then isTrue (by rw [h]) else isFalse (by intro e; cases e; exact h rfl)
  | .ok _, .error _ => isFalse (by intro e; cases e)
  | .error _, .ok _ => isFalse (by intro e; cases e)

structure ExResult where
  fs     : FS
  result : Except ExErr Path
deriving Repr

/-- `ExtractBinary(archive, dest)` on the entry list of the archive. -/
def extractBinary (cap nameMax : Nat) (dest : Path) (entries : List Entry) (corruptTail : Bool) : ExResult :=
  match extractLoop cap nameMax dest { fs := FS.initial dest, candidate := [], total := 0 } entries with
  | (st, some err) => { fs := st.fs, result := .error err }
  | (st, none) =>
    if corruptTail then { fs := st.fs, result := .error .corrupt }
    else if st.candidate = [] then { fs := st.fs, result := .error .nocandidate }
    else { fs := st.fs, result := .ok (join2 dest st.candidate) }

/-- `maxExtractedBytes = 1 << 30` and Linux `NAME_MAX`. -/
def maxExtractedBytes : Nat := 1073741824
def nameMaxLinux : Nat := 255

end Conduit.Registry
