/-!
# flock on a lock file that is addressed by PATH (C19: index-state / manifest / target locks)

`pkg/registry/lock.go` serialises the read-modify-write sections of `index-state.json`, `manifest.json`
and of one connector's install behind `flock.New(path).TryLockContext` … `Unlock`. The kernel's flock
is per open file description, i.e. per INODE; the code addresses the lock by PATH. The two agree only
while the path keeps naming the same inode: if the lock file is unlinked (or replaced) while it is held
or while a waiter has it open, the next `open(O_CREATE)` makes a new inode and two processes hold "the"
lock at once. This file models exactly that: processes open the path (creating the file if it does not
exist), flock the inode they opened, unlock-and-close; anybody may unlink the path.

* `C19_flock_mutual_exclusion` (Props/C19Flock.lean): for every event list WITHOUT an unlink, at most one
  process is inside the critical section;
* `C19_flock_unlink_counterexample`: with one unlink while the lock is held, three processes suffice to
  put two of them inside;
* `Facts`: the code never unlinks / renames a lock file and never reads a lock's path
  (`Generated.RegistryIndex.lockFileUnlinks = []`, regenerated from pkg/registry on every run).

Core-only.
-/
namespace Conduit.FlockFile

inductive Ev
  | openP (p : Nat)     -- flock.New(path) + open(path, O_CREATE|O_RDWR) of TryLockContext's first attempt
  | lock (p : Nat)      -- flock(fd, LOCK_EX|LOCK_NB) succeeds: p enters the critical section
  | unlock (p : Nat)    -- Unlock(): flock(fd, LOCK_UN) + close(fd): p leaves
  | unlink              -- somebody removes the lock file (os.Remove(lock.Path()))
deriving DecidableEq, Repr

structure St where
  /-- inode the lock path currently names -/
  path : Option Nat := none
  next : Nat := 0
  /-- (process, inode of its open descriptor) -/
  fds : List (Nat × Nat) := []
  /-- (process, inode it holds the exclusive flock on) = the processes inside the critical section -/
  holders : List (Nat × Nat) := []
deriving Repr

def step (s : St) : Ev → Option St
  | .openP p =>
    if (s.fds.find? (·.1 == p)).isSome then none else
    match s.path with
    | some i => some { s with fds := (p, i) :: s.fds }
    | none => some { s with path := some s.next, next := s.next + 1, fds := (p, s.next) :: s.fds }
  | .lock p =>
    match s.fds.find? (·.1 == p) with
    | none => none
    | some f =>
      if s.holders.any (·.2 == f.2) || s.holders.any (·.1 == p) then none
      else some { s with holders := (p, f.2) :: s.holders }
  | .unlock p =>
    if s.holders.any (·.1 == p) then
      some { s with holders := s.holders.filter (·.1 != p), fds := s.fds.filter (·.1 != p) }
    else none
  | .unlink => some { s with path := none }

def run : St → List Ev → Option St
  | s, [] => some s
  | s, e :: es => match step s e with
    | some s' => run s' es
    | none => none

/-- number of processes inside the critical section -/
def St.inside (s : St) : Nat := s.holders.length

end Conduit.FlockFile
