/-
`Persister.flushNow` for a batch of several connectors (pkg/connector/persister.go): the loop over
the batch's `storeFunc`s inside one transaction, the commit guard, and the callbacks.

    for id, data := range batch {                 -- map order: any order
        if storeErr := data.storeFunc(ctx); storeErr != nil { err = storeErr; log }
    }
    if err == nil { err = tx.Commit() }
    for _, data := range batch { go cb(err) }     -- every callback gets the same err

M3 (`Model/SrcAck.lean`) is the per-connector projection of the event system: its `flushRes`
outcome is the outcome of the WHOLE batch. This model decides what that outcome is for a batch of any
size, any iteration order and any per-key result, for the loop shape of the code (`keep`: `err` is only
ever assigned a non-nil error, so a failure is never forgotten) and for the shape `overwrite`
(`err = storeFunc(ctx)` in every iteration: a later success resets it). Core-only.
-/
namespace Conduit.FlushBatch

/-- how the loop treats `err` -/
inductive Shape
  | keep        -- `if storeErr := f(); storeErr != nil { err = storeErr }`
  | overwrite   -- `if err = f(); err != nil { … }`
deriving Repr, DecidableEq, Inhabited

/-- one connector of the batch, in iteration order: its id and whether its store write succeeds -/
abbrev Entry := Nat × Bool

/-- the value of `err` (true = non-nil) after the loop, and the keys written into the transaction -/
def loop (sh : Shape) : Bool → List Nat → List Entry → Bool × List Nat
  | err, w, [] => (err, w)
  | err, w, (id, ok) :: rest =>
    match sh with
    | .keep => loop sh (err || !ok) (if ok then w ++ [id] else w) rest
    | .overwrite => loop sh (!ok) (if ok then w ++ [id] else w) rest

structure Result where
  /-- the transaction was committed -/
  committed : Bool
  /-- keys the committed transaction contains (empty if not committed) -/
  contents : List Nat
  /-- the callbacks (all of them) were called with nil -/
  cbNil : Bool
deriving Repr, DecidableEq, Inhabited

/-- `flushNow` after a successful `NewTransaction` -/
def flushNow (sh : Shape) (batch : List Entry) (commitOk : Bool) : Result :=
  let r := loop sh false [] batch
  let committed := !r.1 && commitOk
  { committed := committed, contents := if committed then r.2 else [], cbNil := committed }

end Conduit.FlushBatch
