/-
M4 fragment — `forceStopper` of /repo/pkg/lifecycle/stream/force_stop.go (used by SourceNode,
DestinationNode, DestinationAckerNode, DLQHandlerNode): `start()` creates the connector context and
records its cancel func, cancelling at once when a stop was latched; `stop()` cancels through the
recorded cancel func or, when `start()` has not run yet, latches the request.
Core-only.
-/
namespace Conduit.ForceStop

/-- `ctxs`: the connector contexts handed out so far (true = cancelled), `f.cancel` is the cancel
func of the LAST one; `stopped` is the latch. -/
structure Latch where
  ctxs    : List Bool := []
  stopped : Bool := false
deriving DecidableEq, Repr, Inhabited

inductive Ev | start | stop
deriving DecidableEq, Repr, Inhabited

def cancelLast : List Bool → List Bool
  | [] => []
  | [_] => [true]
  | b :: bs => b :: cancelLast bs

def step (l : Latch) : Ev → Latch
  | .start => { l with ctxs := l.ctxs ++ [l.stopped] }                 -- `if f.stopped { cancel() }`
  | .stop => if l.ctxs = [] then { l with stopped := true }            -- `f.cancel == nil` ⇒ latch
             else { l with ctxs := cancelLast l.ctxs }                 -- `f.cancel()`

def run (l : Latch) (evs : List Ev) : Latch := evs.foldl step l

end Conduit.ForceStop
