import ConduitModel.Model.DlqWindow

/-
M2 — the arch-v2 ("funnel") engine: one pass of `Worker.doTask` over a task tree.

Mirrors /repo/pkg/lifecycle-poc/funnel:
  batch.go        Batch and its mutators (Ack/Nack/Retry/Filter/SetRecords/SplitRecord/sub/clone/originalBatch)
  processor.go    ProcessorTask.Do / markBatchRecords / isSameType
  destination.go  DestinationTask.Do / validateAcks / markBatchRecords
  run_ledger.go   splitRun, runAckNacker.vote, validateRunsWholeBeforeFanOut
  worker.go       doTaskAttempt (tainted loop, retry accounting), subBatchByFlag, doNextTask,
                  multiAckNacker, Worker.Ack / Worker.Nack, validateAckPositions
  dlq.go          DLQ.Ack / DLQ.Nack / sendToDLQ (window = Model/DlqWindow v2)

Conventions: every slice index is partial — an out-of-range index is the outcome `.panic`,
exactly where Go would panic. Sub-batches have value semantics (see DESIGN.md §6 M2, aliasing
decision); the `*splitRun` objects shared by pointer live in an explicit heap threaded through
the pass and deep-copied at `clone`. Plugins (processors, destinations, the DLQ destination)
are scripts: lists of replies consumed call by call. Core-only.
-/
namespace Conduit.Funnel
open Conduit.Dlq

inductive Flag | ack | nack | retry | filter
deriving DecidableEq, Repr, Inhabited

/-- `opencdc.Position`: `none` = nil slice, `some 0` = empty non-nil, `some (k+1)` = non-empty bytes #k. -/
abbrev PosV := Option Nat

/-- `string(p)` / `p.String()` as a map key: nil and empty collide (both ""), as in Go. -/
def keyOf : PosV → Nat
  | none => 0
  | some k => k

/-- `len(p) == 0` -/
def posEmpty (p : PosV) : Bool := keyOf p == 0

/-- a record: payload identity `tag`, and its own `Position` field (processors may rewrite it). -/
structure Rec where
  tag : Nat
  pos : PosV
deriving DecidableEq, Repr, Inhabited

/-- an error value, reduced to what classification observes: fatal mark, conduiterr code,
and the scripted root-cause id if it is still reachable through the wrap chain. -/
structure Err where
  fatal : Bool := false
  code : Option String := none
  script : Option Nat := none
deriving DecidableEq, Repr, Inhabited

/-- `RecordStatus`. `err = none` is a nil error. -/
structure Status where
  flag : Flag := .ack
  err : Option Err := none
deriving DecidableEq, Repr, Inhabited

/-- `splitRun` (run_ledger.go). -/
structure SplitRun where
  origPos : PosV
  origRec : Rec
  total : Nat
  terminal : Nat := 0
  nacked : Bool := false
  nackErr : Option Err := none
  nackTask : Nat := 0
  released : Bool := false
deriving Repr, Inhabited

structure Batch where
  recs : List Rec := []
  st : List Status := []
  pos : List PosV := []
  /-- `runs []*splitRun`: `none` = nil slice; entries are heap ids -/
  runs : Option (List (Option Nat)) := none
  filterCount : Nat := 0
  tainted : Bool := false
  /-- `splitRecords map[string]Record` keyed by `keyOf` -/
  split : List (Nat × Rec) := []
deriving Repr, Inhabited

/-- why a pass stopped early -/
inductive Stop
  | panic (msg : String)
  | err (e : Err)
deriving Repr, Inhabited

abbrev R := Except Stop

def panic {α} (msg : String) : R α := .error (.panic msg)

def idx {α} (l : List α) (i : Nat) (what : String) : R α :=
  match l[i]? with
  | some x => pure x
  | none => panic s!"index out of range: {what}"

def setAt {α} (l : List α) (i : Nat) (x : α) (what : String) : R (List α) :=
  if i < l.length then pure (l.set i x) else panic s!"index out of range: {what}"

def lookup (m : List (Nat × Rec)) (k : Nat) : Option Rec :=
  (m.find? (·.1 == k)).map (·.2)

/-- `NewBatch` -/
def Batch.new (recs : List Rec) : Batch :=
  { recs := recs, st := recs.map (fun _ => {}), pos := recs.map (·.pos),
    runs := some (recs.map fun _ => none) }

/-- `activeRecordIndices`: `none` when nothing is filtered. -/
def Batch.activeIdx (b : Batch) : Option (List Nat) :=
  if b.filterCount = 0 then none
  else some ((List.range b.st.length).filter fun i => (b.st[i]?.map (·.flag)) != some Flag.filter)

def Batch.hasActive (b : Batch) : Bool := b.filterCount < b.recs.length

/-- `ActiveRecords` -/
def Batch.active (b : Batch) : List Rec :=
  if b.filterCount = 0 then b.recs
  else if b.filterCount = b.recs.length then []
  else (b.recs.zip b.st).filterMap fun (r, s) => if s.flag = .filter then none else some r

/-- physical index of active index `i` -/
def Batch.phys (b : Batch) (i : Nat) : R Nat :=
  match b.activeIdx with
  | none => pure i
  | some act => idx act i "activeIndices"

def setFlagAt (st : List Status) (i : Nat) (f : Flag) : R (List Status) := do
  let s ← idx st i "recordStatuses"
  pure (st.set i { s with flag := f })

/-- `setFlagNoErr(f, i)` (single index form) -/
def Batch.setFlag1 (b : Batch) (f : Flag) (i : Nat) : R Batch := do
  let p ← b.phys i
  let st ← setFlagAt b.st p f
  pure { b with st := st }

/-- `setFlagNoErr(f, i, j)` (range form) -/
def Batch.setFlagRange (b : Batch) (f : Flag) (i j : Nat) : R Batch := do
  if i ≥ j then panic "invalid range"
  let mut st := b.st
  for k in List.range' i (j - i) do
    let p ← b.phys k
    st ← setFlagAt st p f
  pure { b with st := st }

/-- `findSplitRecord` -/
def findSplitFrom (pos : List PosV) : Nat → Nat
  | 0 => 0
  | i+1 => if pos[i+1]? == some none then findSplitFrom pos i else i+1

def findSplitTo (pos : List PosV) (t : Nat) : Nat → Nat
  | 0 => t
  | fuel+1 => if t < pos.length ∧ pos[t]? == some none then findSplitTo pos (t+1) fuel else t

/-- `Nack(i, errs...)` = `setFlagWithErr(nack, i, errs)`; `tainted = true`. -/
def Batch.nack (b : Batch) (i : Nat) (errs : List (Option Err)) : R Batch := do
  let act := b.activeIdx
  let mut st := b.st
  let mut k := 0
  for e in errs do
    let mut p := i + k
    if let some a := act then p ← idx a p "activeIndices"
    let _ ← idx st p "recordStatuses"
    st := st.set p { flag := .nack, err := e }
    if b.split.length > 0 then
      let ps ← idx b.pos p "positions"
      if ps == none ∨ (lookup b.split (keyOf ps)).isSome then
        let from_ := findSplitFrom b.pos p
        let to := findSplitTo b.pos (p+1) b.pos.length - 1
        for j in List.range' from_ (to + 1 - from_) do
          let sj ← idx st j "recordStatuses"
          -- a filtered piece stays filtered (filterCount and the active indices stay exact)
          if sj.flag != .filter then
            st := st.set j { flag := .nack, err := e }
    k := k + 1
  pure { b with st := st, tainted := true }

def Batch.retry (b : Batch) (i j : Nat) : R Batch := do
  let b ← b.setFlagRange .retry i j
  pure { b with tainted := true }

def Batch.filter1 (b : Batch) (i : Nat) : R Batch := do
  let b ← b.setFlag1 .filter i
  pure { b with filterCount := b.filterCount + 1 }

def Batch.filterRange (b : Batch) (i j : Nat) : R Batch := do
  let b ← b.setFlagRange .filter i j
  pure { b with filterCount := b.filterCount + (j - i) }

/-- `copy(dst[at:], src)` on a list: overwrite as many as fit. -/
def copyInto {α} (dst : List α) (at_ : Nat) (src : List α) : List α :=
  dst.take at_ ++ (src.take (dst.length - at_)) ++ dst.drop (at_ + min src.length (dst.length - at_))

/-- `findTo` bisection. `check` may panic (index out of range). -/
def findToLoop (check : Nat → R Bool) : Nat → Nat → Nat → R Nat
  | 0, maxT, _ => pure maxT
  | fuel+1, maxT, minF =>
    if maxT + 1 < minF then do
      let mid := (maxT + minF) / 2
      if (← check mid) then findToLoop check fuel mid minF else findToLoop check fuel maxT mid
    else pure maxT

/-- `SetRecords(i, recs)` -/
def Batch.setRecords (b : Batch) (i : Nat) (recs : List Rec) : R Batch :=
  match b.activeIdx with
  | none =>
    if i > b.recs.length then panic "slice bounds out of range: records[i:]"
    else pure { b with recs := copyInto b.recs i recs }
  | some act =>
    let rec go : Nat → Nat → List Rec → List Rec → R (List Rec)
      | 0, _, _, out => pure out
      | fuel+1, from_, recs, out =>
        if recs.isEmpty then pure out else do
          let activeFrom ← idx act from_ "activeIndices[from]"
          let check := fun (t : Nat) => do
            let a ← idx act t "activeIndices[idx]"
            pure (decide (a - activeFrom = t - from_ ∧ a ≥ activeFrom))
          let to ← findToLoop check (recs.length + 1) from_ (from_ + recs.length)
          let activeTo ← idx act to "activeIndices[to]"
          let n := to - from_ + 1
          let seg := recs.take n
          -- copy(b.records[activeFrom:activeTo+1], recs[:n])
          let out' := out.take activeFrom ++ seg.take (activeTo + 1 - activeFrom)
                        ++ out.drop (activeFrom + min seg.length (activeTo + 1 - activeFrom))
          go fuel (to + 1) (recs.drop n) out'
    do
      let out ← go (recs.length + 1) i recs b.recs
      pure { b with recs := out }

abbrev Heap := Array SplitRun

/-- `SplitRecord(i, recs)` (called with `len(recs) ≥ 2`). -/
def Batch.splitRecord (h : Heap) (b : Batch) (i : Nat) (recs : List Rec) : R (Heap × Batch) := do
  let i ← b.phys i
  let origPos ← idx b.pos i "positions[i]"
  let mut run : Option Nat := none
  if let some rs := b.runs then run ← idx rs i "runs[i]"
  let mut h := h
  let mut b := b
  let rid ← match run with
    | some r => pure r
    | none => do
      if origPos == none then panic "(bug) SplitRecord: record has a nil position but no known split run"
      let cur ← idx b.recs i "records[i]"
      let origRec := (lookup b.split (keyOf origPos)).getD cur
      if (lookup b.split (keyOf origPos)).isNone then
        b := { b with split := b.split ++ [(keyOf origPos, cur)] }
      let rid := h.size
      h := h.push { origPos := origPos, origRec := origRec, total := 1 }
      let rs := b.runs.getD (b.recs.map fun _ => none)
      let rs ← setAt rs i (some rid) "runs[i]"
      b := { b with runs := some rs }
      pure rid
  let r := h[rid]!
  h := h.set! rid { r with total := r.total + recs.length - 1 }
  let n := recs.length - 1
  if i + 1 > b.recs.length ∨ i + 1 > b.st.length ∨ i + 1 > b.pos.length then panic "slice bounds out of range: SplitRecord"
  let rs := b.runs.getD []
  if i + 1 > rs.length then panic "slice bounds out of range: runs[:i+1]"
  pure (h, { b with
    recs := b.recs.take i ++ recs ++ b.recs.drop (i+1),
    st := b.st.take (i+1) ++ List.replicate n {} ++ b.st.drop (i+1),
    pos := b.pos.take (i+1) ++ List.replicate n none ++ b.pos.drop (i+1),
    runs := some (rs.take (i+1) ++ List.replicate n (some rid) ++ rs.drop (i+1)) })

def countFilter (st : List Status) : Nat := (st.filter (·.flag = .filter)).length

/-- `sub(from, to)` -/
def Batch.sub (b : Batch) (from_ to : Nat) : R Batch := do
  if from_ > to ∨ to > b.recs.length ∨ to > b.st.length ∨ to > b.pos.length then panic "slice bounds out of range: sub"
  let sl {α} (l : List α) := (l.take to).drop from_
  let fc := if b.filterCount > 0 then countFilter (sl b.st) else 0
  let split := if b.split.length ≠ 0 then
      -- `pos.String()` of a nil position is "<nil>", a key SplitRecord never writes (it refuses nil
      -- positions), so a nil position finds nothing — unlike an EMPTY position, whose key "" can be present
      (sl b.pos).foldl (fun acc p => if p == none then acc else match lookup b.split (keyOf p) with
        | some r => if (lookup acc (keyOf p)).isSome then acc else acc ++ [(keyOf p, r)]
        | none => acc) []
    else []
  let runs ← match b.runs with
    | none => pure none
    | some rs => if to > rs.length then panic "slice bounds out of range: runs" else pure (some (sl rs))
  pure { recs := sl b.recs, st := sl b.st, pos := sl b.pos, runs := runs, filterCount := fc, tainted := false, split := split }

/-- `clone()` with `cloneRuns` (deep copy of the referenced runs, sharing preserved). -/
def Batch.clone (h : Heap) (b : Batch) : Heap × Batch :=
  match b.runs with
  | none => (h, b)
  | some rs =>
    let (h', seen, out) := rs.foldl (fun (acc : Heap × List (Nat × Nat) × List (Option Nat)) r =>
      let (h, seen, out) := acc
      match r with
      | none => (h, seen, out ++ [none])
      | some id =>
        match seen.find? (·.1 == id) with
        | some (_, nid) => (h, seen, out ++ [some nid])
        | none => (h.push h[id]!, seen ++ [(id, h.size)], out ++ [some h.size])) (h, [], [])
    let _ := seen
    (h', { b with runs := some out })

/-- `originalBatch()` -/
def Batch.original (b : Batch) : Batch :=
  if b.split.length = 0 then b else
  let rows := (b.pos.zip (b.recs.zip b.st)).filter fun (p, _) => p != none
  let recs := rows.map fun (p, r, _) => (lookup b.split (keyOf p)).getD r
  let st := rows.map fun (_, _, s) => s
  let pos := rows.map fun (p, _, _) => p
  { recs := recs, st := st, pos := pos, runs := some (recs.map fun _ => none),
    filterCount := if b.filterCount > 0 then countFilter st else 0, tainted := false, split := [] }

/-! ## plugin scripts -/

/-- one `sdk.ProcessedRecord` -/
inductive PR
  | single (r : Rec)
  | filter
  | error (e : Option Err)
  | multi (rs : List Rec)
  | nil
deriving Repr, Inhabited

def PR.kind : PR → Nat
  | .single _ => 0 | .filter => 1 | .error _ => 2 | .multi _ => 3 | .nil => 4

/-- one `Destination.Ack()` response -/
inductive AckResp
  | err (e : Err)
  | acks (l : List (PosV × Option Err))
deriving Repr, Inhabited

/-- scripted reply of one plugin call -/
inductive Reply
  | proc (out : List PR)
  | dest (writeErr : Option Err) (acks : List AckResp)
deriving Repr, Inhabited

inductive Ev
  | pcall (task : Nat) (recs : List Rec)
  | write (task : Nat) (recs : List Rec)
  | dlqw (task : Nat) (recs : List (Rec × Option Err × Nat))  -- record, nack error, failing task
  | sack (ps : List PosV)
deriving Repr, Inhabited

/-- `multiAckNacker` state -/
structure MA where
  branches : Nat
  positions : List PosV
  ackVotes : List Nat
  terminal : List Bool
  acked : List Bool
  record : List Rec
  nackErr : List (Option Err)
  nackTask : List Nat
  released : Nat := 0
deriving Repr, Inhabited

inductive TaskKind | source | proc | dest
deriving DecidableEq, Repr, Inhabited

inductive TaskNode
  | mk (id : Nat) (kind : TaskKind) (next : List TaskNode)
deriving Repr, Inhabited

def TaskNode.id : TaskNode → Nat | .mk i _ _ => i
def TaskNode.kind : TaskNode → TaskKind | .mk _ k _ => k
def TaskNode.next : TaskNode → List TaskNode | .mk _ _ n => n

/-- the ack/nack handler chain: Worker ← runAckNacker ← multiAckNacker ← runAckNacker … -/
inductive Acker
  | worker
  | run (parent : Acker)
  | multi (id : Nat) (parent : Acker)
deriving Repr, Inhabited

structure PS where
  heap : Heap := #[]
  log : Array Ev := #[]
  win : Win
  thr : Nat
  size : Nat
  dlqTask : Nat := 0
  scripts : List (Nat × List Reply) := []
  mas : Array MA := #[]
  /-- branch orders, one per fan-out invocation, consumed in sequence (indices into `next`);
  missing / malformed ⇒ source order -/
  orders : List (List Nat) := []
deriving Inhabited

abbrev M := ExceptT Stop (StateM PS)

def liftR {α} (r : R α) : M α := match r with | .ok a => pure a | .error e => throw e

def emit (e : Ev) : M Unit := modify fun s => { s with log := s.log.push e }

/-- pop the next scripted reply of a task; an exhausted script is a plugin error. -/
def popReply (task : Nat) : M (Option Reply) := do
  let s ← get
  match s.scripts.find? (·.1 == task) with
  | some (_, r :: rest) =>
    set { s with scripts := s.scripts.map fun (t, l) => if t == task then (t, rest) else (t, l) }
    pure (some r)
  | _ => pure none

def wrap (e : Err) : Err := e            -- `cerrors.Errorf("…: %w", e)` keeps everything
def fatalE (e : Err) : Err := { e with fatal := true }
def coded (c : String) : Err := { code := some c }
def plainErr : Err := {}
def scriptExhausted : Err := { script := some 999 }

/-- `errors.Join(a, b)` as classification sees it (`As`/`Is` walk the joined errors in order). -/
def joinErr (a b : Err) : Err :=
  { fatal := a.fatal || b.fatal, code := a.code <|> b.code, script := a.script <|> b.script }

/-! ## tasks -/

def sameType (a b : PR) : Bool := a.kind == b.kind

/-- `ProcessorTask.markBatchRecords` -/
def procMark (b : Batch) (from_ : Nat) (records : List PR) : M Batch := do
  match records with
  | [] => pure b
  | .single _ :: _ =>
    let recs := records.filterMap fun | .single r => some r | _ => none
    liftR (b.setRecords from_ recs)
  | .filter :: _ => liftR (b.filterRange from_ (from_ + records.length))
  | .error _ :: _ =>
    -- a nil error is replaced by a fixed reason ("processor returned an error record without an error")
    let errs := records.filterMap fun | .error e => some (some (e.getD plainErr)) | _ => none
    liftR (b.nack from_ errs)
  | .multi _ :: _ =>
    let mut b := b
    for i in (List.range records.length).reverse do
      match records[i]? with
      | some (.multi m) =>
        match m.length with
        | 0 => b ← liftR (b.filter1 (from_ + i))
        | 1 => b ← liftR (b.setRecords (from_ + i) m)
        | _ =>
          let s ← get
          let (h, b') ← liftR (b.splitRecord s.heap (from_ + i) m)
          set { s with heap := h }
          b := b'
      | _ => pure ()
    pure b
  | .nil :: _ => liftR (b.retry from_ (from_ + records.length))

/-- `ProcessorTask.Do` -/
def procDo (task : Nat) (b : Batch) : M Batch := do
  let recsIn := b.active
  emit (.pcall task recsIn)
  let out ← match (← popReply task) with
    | some (.proc out) => pure out
    | _ => pure []
  if out.length = 0 then throw (.err plainErr)
  if out.length > recsIn.length then throw (.err plainErr)
  -- a record about to be split needs a source position or an existing run (`Batch.splittable`)
  for i in List.range out.length do
    match out[i]? with
    | some (.multi m) =>
      if m.length > 1 then
        let p ← liftR (b.phys i)
        let ps ← liftR (idx b.pos p "positions[i]")
        let run : Option Nat := match b.runs with
          | none => none
          | some rs => (rs[p]?).join
        if ps == none ∧ run == none then throw (.err (coded "pipeline.empty_source_position"))
    | _ => pure ()
  let out := if recsIn.length > out.length then out ++ List.replicate (recsIn.length - out.length) PR.nil else out
  let mut b := b
  let mut to := out.length
  for i in (List.range out.length).reverse do
    let boundary := i == 0 || !(sameType (out[i-1]?.getD .nil) (out[i]?.getD .nil))
    if boundary then
      b ← procMark b i ((out.take to).drop i)
      to := i
  pure b

/-- `DestinationTask.validateAcks` -/
def validateAcks (acks : List (PosV × Option Err)) (positions : List PosV) : Bool :=
  acks.length ≤ positions.length ∧
    (acks.zip positions).all fun ((ap, _), p) => keyOf ap == keyOf p

/-- `DestinationTask.markBatchRecords` -/
def destMark (b : Batch) (from_ : Nat) (acks : List (PosV × Option Err)) : R Batch := do
  let mut b := b
  for i in (List.range acks.length).reverse do
    match acks[i]? with
    | some (_, some e) => b ← b.nack (from_ + i) [some e]
    | _ => pure ()
  pure b

/-- the ack loop of `DestinationTask.Do` -/
def destAckLoop (positions : List PosV) : Nat → Batch → Nat → List AckResp → R (Batch × Nat)
  | 0, b, ackCount, _ => pure (b, ackCount)
  | fuel+1, b, ackCount, resps =>
    match resps with
    | [] => throw (.err scriptExhausted)
    | .err e :: _ => throw (.err (wrap e))
    | .acks acks :: rest =>
      if !validateAcks acks (positions.drop ackCount) then throw (.err plainErr) else do
        let b ← destMark b ackCount acks
        let ackCount := ackCount + acks.length
        if ackCount ≥ positions.length then pure (b, ackCount) else destAckLoop positions fuel b ackCount rest

/-- `DestinationTask.Do` for a regular destination (`dlq = none`) or the DLQ destination. -/
def destDo (task : Nat) (b : Batch) (dlqInfo : Option (List (Rec × Option Err × Nat))) : M Batch := do
  let records := b.active
  let positions := records.map (·.pos)
  match dlqInfo with
  | none => emit (.write task records)
  | some info => emit (.dlqw task info)
  let (werr, resps) ← match (← popReply task) with
    | some (.dest w a) => pure (w, a)
    | _ => pure (some scriptExhausted, [])
  if let some e := werr then throw (.err (wrap e))
  let (b, ackCount) ← liftR (destAckLoop positions positions.length b 0 resps)
  -- the destination must account for every written record before Do returns
  if ackCount < positions.length then throw (.err plainErr)
  pure b

/-! ## DLQ and the worker as the root acker -/

def validateAckPositions (ps : List PosV) : Bool := ps.all fun p => !posEmpty p

/-- `DLQ.sendToDLQ` -/
def sendToDLQ (b : Batch) (taskID : Nat) : M (Nat × Option Err) := do
  let s ← get
  let info := (b.recs.zip b.st).map fun (r, st) => (r, st.err, taskID)
  -- `status.Error.Error()` on a nil error is a nil-pointer panic
  if (b.st.take b.recs.length).any (·.err.isNone) then throw (.panic "nil pointer dereference: status.Error.Error()")
  let dlqRecs := b.recs.map fun r => ({ tag := r.tag, pos := r.pos } : Rec)
  let dlqBatch := Batch.new dlqRecs
  let res ← (tryCatch (do let b' ← destDo s.dlqTask dlqBatch (some info); pure (Except.ok b'))
                (fun e => match e with
                  | .err er => pure (Except.error er)
                  | .panic m => throw (.panic m)))
  match res with
  | .error e => pure (0, some (wrap e))
  | .ok db =>
    let ackCount := (db.st.takeWhile (·.flag = .ack)).length
    if ackCount < dlqRecs.length then
      let e := ((db.st[ackCount]?).bind (·.err)).getD plainErr
      pure (ackCount, some (wrap e))
    else pure (ackCount, none)

/-- `DLQ.Nack` -/
def dlqNack (batch : Batch) (taskID : Nat) : M (Nat × Option Err) := do
  if batch.recs.length = 0 then return (0, none)
  let s ← get
  let (w, nacked) := s.win.nackN batch.recs.length
  set { s with win := w }
  if nacked > 0 then
    let b ← if nacked < batch.recs.length then liftR (batch.sub 0 nacked) else pure batch
    let (succ, err) ← sendToDLQ b taskID
    if let some e := err then return (succ, some (fatalE e))
  if nacked < batch.recs.length then
    let stE ← liftR (idx batch.st nacked "recordStatuses[nacked]")
    if s.thr > 0 then
      return (nacked, some (fatalE (wrap (stE.err.getD plainErr))))
    return (nacked, stE.err)
  return (nacked, none)

/-- `DLQ.Ack` -/
def dlqAck (batch : Batch) : M Unit := do
  if batch.recs.length = 0 then return
  modify fun s => { s with win := s.win.ackN batch.recs.length }

/-- `Worker.Ack` -/
def workerAck (batch : Batch) : M Unit := do
  let ob := batch.original
  if !validateAckPositions ob.pos then throw (.err (coded "pipeline.empty_source_position"))
  emit (.sack ob.pos)
  dlqAck batch

/-- `Worker.Nack` -/
def workerNack (batch : Batch) (taskID : Nat) : M Unit := do
  let ob := batch.original
  let (n, err) ← dlqNack ob taskID
  if n > 0 then
    if n > ob.pos.length then throw (.panic "slice bounds out of range: positions[:n]")
    if !validateAckPositions (ob.pos.take n) then
      match err with
      -- `cerrors.Join(posErr, cerrors.Errorf("while handling: %w", err))`, marked fatal
      | some e => throw (.err (fatalE (joinErr (coded "pipeline.empty_source_position") (wrap e))))
      | none => throw (.err (fatalE (coded "pipeline.empty_source_position")))
    emit (.sack (ob.pos.take n))
    if n > batch.recs.length then throw (.panic "slice bounds out of range: records[:n]")
  if let some e := err then throw (.err (wrap e))

/-! ## ackers (mutually recursive with fuel) -/

def firstRunError (sts : List Status) : Option Err := (sts.find? (·.err.isSome)).bind (·.err)

def maAckBatch (m : MA) (from_ to : Nat) : Batch :=
  { recs := (m.record.take to).drop from_, st := List.replicate (to - from_) {},
    pos := (m.positions.take to).drop from_ }

def maNackBatch (m : MA) (i : Nat) : Batch :=
  { recs := [m.record[i]?.getD default], st := [{ flag := .nack, err := (m.nackErr[i]?).join }],
    pos := [(m.positions[i]?).join], tainted := true }

def runAckBatch (r : SplitRun) : Batch :=
  { recs := [r.origRec], st := [{ flag := .ack }], pos := [r.origPos] }

def runNackBatch (r : SplitRun) : Batch :=
  { recs := [r.origRec], st := [{ flag := .nack, err := r.nackErr }], pos := [r.origPos], tainted := true }

def maIndexOf (m : MA) (p : PosV) : Option Nat :=
  (List.range m.positions.length).find? fun i => (m.positions[i]?.map keyOf) == some (keyOf p)

mutual
/-- `ackNacker.Ack` / `.Nack` dispatch -/
def ackerCall : Nat → Acker → Batch → Bool → Nat → M Unit
  | 0, _, _, _, _ => throw (.panic "out of fuel")
  | fuel+1, .worker, b, isAck, task => if isAck then workerAck b else workerNack b task
  | fuel+1, .run parent, b, isAck, task => voteLoop fuel parent b isAck task 0
  | fuel+1, .multi id parent, b, isAck, task => do
    let ob := b.original
    let s ← get
    let mut m := s.mas[id]!
    for i in List.range ob.pos.length do
      let p := (ob.pos[i]?).join
      match maIndexOf m p with
      | none =>
        -- "(bug) position is not part of the original fan-out batch": the votes recorded so far stay
        -- (Go mutates the tally in place), nothing is released by this call
        modify fun s => { s with mas := s.mas.set! id m }
        throw (.err plainErr)
      | some ix =>
        if m.terminal[ix]?.getD false then continue
        let r ← liftR (idx ob.recs i "ob.records[i]")
        if isAck then
          let v := m.ackVotes[ix]?.getD 0 + 1
          m := { m with record := m.record.set ix r, ackVotes := m.ackVotes.set ix v }
          if v == m.branches then
            m := { m with terminal := m.terminal.set ix true, acked := m.acked.set ix true }
        else
          let stE ← liftR (idx ob.st i "ob.recordStatuses[i]")
          m := { m with terminal := m.terminal.set ix true, acked := m.acked.set ix false,
                        record := m.record.set ix r, nackErr := m.nackErr.set ix stE.err,
                        nackTask := m.nackTask.set ix task }
    modify fun s => { s with mas := s.mas.set! id m }
    releaseLoop fuel id parent

/-- `multiAckNacker.releaseLocked` -/
def releaseLoop : Nat → Nat → Acker → M Unit
  | 0, _, _ => throw (.panic "out of fuel")
  | fuel+1, id, parent => do
    let m := (← get).mas[id]!
    if m.released < m.positions.length then
      if !(m.terminal[m.released]?.getD false) then return
      if m.acked[m.released]?.getD false then
        let from_ := m.released
        let run := ((List.range m.positions.length).drop from_).takeWhile fun t =>
          (m.terminal[t]?.getD false) && (m.acked[t]?.getD false)
        let to := from_ + run.length
        ackerCall fuel parent (maAckBatch m from_ to) true 0
        modify fun s => { s with mas := s.mas.set! id { (s.mas[id]!) with released := to } }
        releaseLoop fuel id parent
      else
        let ix := m.released
        ackerCall fuel parent (maNackBatch m ix) false (m.nackTask[ix]?.getD 0)
        modify fun s => { s with mas := s.mas.set! id { (s.mas[id]!) with released := ix + 1 } }
        releaseLoop fuel id parent

/-- `runAckNacker.vote` from index `i` -/
def voteLoop : Nat → Acker → Batch → Bool → Nat → Nat → M Unit
  | 0, _, _, _, _, _ => throw (.panic "out of fuel")
  | fuel+1, parent, batch, isAck, task, i => do
    if i < batch.recs.length then
      let runAt (k : Nat) : R (Option Nat) := match batch.runs with
        | none => pure none
        | some rs => idx rs k "runs[k]"
      let run ← liftR (runAt i)
      -- extent of the group sharing `run`
      let mut j := i + 1
      for k in List.range' (i+1) (batch.recs.length - (i+1)) do
        if j == k then
          let nxt ← liftR (runAt k)
          if nxt == run then j := k + 1
      match run with
      | none =>
        let sb ← liftR (batch.sub i j)
        ackerCall fuel parent sb isAck task
        voteLoop fuel parent batch isAck task j
      | some rid =>
        let r := (← get).heap[rid]!
        if r.released then throw (.err plainErr)
        let mut r := { r with terminal := r.terminal + (j - i) }
        if !isAck ∧ !r.nacked then
          r := { r with nacked := true, nackErr := firstRunError ((batch.st.take j).drop i), nackTask := task }
        if r.terminal > r.total then
          modify fun s => { s with heap := s.heap.set! rid r }
          throw (.err plainErr)
        if r.terminal == r.total then
          r := { r with released := true }
          modify fun s => { s with heap := s.heap.set! rid r }
          if r.nacked then ackerCall fuel parent (runNackBatch r) false r.nackTask
          else ackerCall fuel parent (runAckBatch r) true 0
        else
          modify fun s => { s with heap := s.heap.set! rid r }
        voteLoop fuel parent batch isAck task j
end

/-! ## the worker -/

def maxRetryAttempts : Nat := 10000
def maxRetryStall : Nat := 3

structure RetryAttempt where
  count : Nat
  size : Nat
  stall : Nat := 0
deriving Repr

/-- `subBatchByFlag`: end index of the group starting at `first`. -/
def groupEnd (st : List Status) (first : Nat) : Nat :=
  match st[first]? with
  | none => first
  | some s0 =>
    let same (f : Flag) : Bool := match s0.flag with
      | .filter | .ack => f == .ack || f == .filter
      | x => f == x
    first + ((st.drop first).takeWhile fun s => same s.flag).length

/-- `validateRunsWholeBeforeFanOut` -/
def runsWhole (h : Heap) (b : Batch) : Bool :=
  match b.runs with
  | none => true
  | some rs =>
    let ids := rs.filterMap id
    ids.all fun r => (ids.filter (· == r)).length ≥ (h[r]?.map (·.total)).getD 0

/-- `newMultiAckNacker` validation: empty / duplicate positions -/
def maNew (branches : Nat) (positions : List PosV) : Except Err MA :=
  let rec chk (seen : List Nat) : List PosV → Option Err
    | [] => none
    | p :: ps => if posEmpty p then some (coded "pipeline.empty_source_position")
                 else if seen.contains (keyOf p) then some (coded "pipeline.duplicate_source_position")
                 else chk (keyOf p :: seen) ps
  match chk [] positions with
  | some e => .error e
  | none =>
    let n := positions.length
    .ok { branches := branches, positions := positions, ackVotes := List.replicate n 0,
          terminal := List.replicate n false, acked := List.replicate n false,
          record := List.replicate n default, nackErr := List.replicate n none,
          nackTask := List.replicate n 0 }

def taskDo (node : TaskNode) (b : Batch) : M Batch :=
  match node.kind with
  | .proc => procDo node.id b
  | .dest => destDo node.id b none
  | .source => pure b

mutual
/-- `doTaskAttempt` after the source read (the first task's batch is given). -/
def doTaskAttempt : Nat → TaskNode → Batch → Acker → Option RetryAttempt → Bool → M Unit
  | 0, _, _, _, _, _ => throw (.panic "out of fuel")
  | fuel+1, node, b, acker, retry, skipDo => do
    let b ← if skipDo then pure b else
      tryCatch (taskDo node b) (fun e => match e with
        | .err er => throw (.err (wrap er))
        | p => throw p)
    if !b.tainted then
      if node.next.isEmpty || !b.hasActive then ackerCall fuel acker b true 0
      else doNextTask fuel node b acker
    else taintedLoop fuel node b acker retry 0

def taintedLoop : Nat → TaskNode → Batch → Acker → Option RetryAttempt → Nat → M Unit
  | 0, _, _, _, _, _ => throw (.panic "out of fuel")
  | fuel+1, node, b, acker, retry, i => do
    if i ≥ b.st.length then return
    let last := groupEnd b.st i
    let sb ← liftR (b.sub i last)
    let span := sb.pos.length
    let s0 ← liftR (idx sb.st 0 "subBatch.recordStatuses[0]")
    match s0.flag with
    | .ack | .filter =>
      if node.next.isEmpty || !sb.hasActive then ackerCall fuel acker sb true 0
      else doNextTask fuel node sb acker
    | .nack => ackerCall fuel acker sb false node.id
    | .retry =>
      let sb ← liftR (sb.setFlagRange .ack 0 sb.recs.length)
      let size := sb.recs.length
      let mut next : RetryAttempt := { count := 1, size := size }
      if let some r := retry then
        let stall := if size ≥ r.size then r.stall + 1 else 0
        if stall ≥ maxRetryStall then throw (.err (fatalE (coded "pipeline.retry_not_converging")))
        next := { count := r.count + 1, size := size, stall := stall }
      if next.count > maxRetryAttempts then throw (.err (fatalE (coded "pipeline.retry_not_converging")))
      doTaskAttempt fuel node { sb with tainted := false } acker (some next) false
    taintedLoop fuel node b acker retry (i + span)

/-- `doNextTask` -/
def doNextTask : Nat → TaskNode → Batch → Acker → M Unit
  | 0, _, _, _ => throw (.panic "out of fuel")
  | fuel+1, node, b, acker =>
    match node.next with
    | [] => pure ()
    | [n] => doTaskAttempt fuel n b acker none false
    | nexts => do
      let s ← get
      if !runsWhole s.heap b then throw (.err (coded "pipeline.split_run_straddles_fanout"))
      let orig := b.original
      match maNew nexts.length orig.pos with
      | .error e => throw (.err e)
      | .ok ma =>
        let id := s.mas.size
        let (order, rest) := match s.orders with
          | o :: r => (o, r)
          | [] => (List.range nexts.length, [])
        let order := if order.length == nexts.length ∧ (List.range nexts.length).all (order.contains ·)
                     then order else List.range nexts.length
        set { s with mas := s.mas.push ma, orders := rest }
        branches fuel nexts order b (.multi id acker) none none

/-- the fan-out branches, run one after the other in `order`; all run even if one fails
(`pool.WithErrors` neither cancels nor stops on a panic); errors are joined in completion
order, a panic is re-raised by `Wait` after every branch finished. -/
def branches : Nat → List TaskNode → List Nat → Batch → Acker → Option Err → Option String → M Unit
  | 0, _, _, _, _, _, _ => throw (.panic "out of fuel")
  | _+1, _, [], _, _, errs, pan => match pan, errs with
    | some m, _ => throw (.panic m)
    | none, some e => throw (.err e)
    | none, none => pure ()
  | fuel+1, nexts, k :: rest, b, macker, errs, pan => do
    match nexts[k]? with
    | none => branches fuel nexts rest b macker errs pan
    | some n =>
      let s ← get
      let (h, bb) := b.clone s.heap
      set { s with heap := h }
      let res ← tryCatch (do doTaskAttempt fuel n bb (.run macker) none false; pure (none : Option Stop))
        (fun e => pure (some e))
      match res with
      | none => branches fuel nexts rest b macker errs pan
      | some (.panic m) => branches fuel nexts rest b macker errs (pan <|> some m)
      | some (.err e) =>
        let errs' := match errs with | some a => some (joinErr a e) | none => some e
        branches fuel nexts rest b macker errs' pan
end

/-- one pass of `Worker.doTask(FirstTask, …, newRunAckNacker(w))` for a batch just read. -/
def runPass (fuel : Nat) (tree : TaskNode) (recs : List Rec) : M Unit :=
  doTaskAttempt fuel tree (Batch.new recs) (.run .worker) none true

end Conduit.Funnel
