import ConduitModel.Model.Gates
import ConduitModel.Generated.RegistryIndex

/-
M7 — the index rollback high-water mark: `TrustedVerifier.VerifyIndex`
(`/repo/pkg/registry/trustverifier.go`) as a gate program over the *regenerated* call order
(`Generated.RegistryIndex.verifyIndexOrder`), using the *regenerated* `index.CheckRollback`, and
`index.Verify`'s acceptance rule (root signature, or freshness signature over content identical to
the last root-verified content) as far as the persisted state is concerned.

The whole function runs under `acquireIndexStateLock` (first call, guarded; `Unlock` deferred), so
concurrent installs execute it one after the other in some order: a run of the system is a list of
requests folded over the persisted state. Core-only.
-/
namespace Conduit.IndexState
open Conduit.Gates

/-- what signs the fetched index. -/
inductive SigKind
  | root        -- valid role:"root" signature
  | freshness   -- valid role:"freshness" signature only
  | bad         -- recognised key, signature does not verify
  | unknownKey  -- no keyId matches a compiled-in anchor
deriving Repr, DecidableEq, Inhabited

/-- persisted `index.State`: `Version` and which content the last root-verified index had
(`LastVerifiedContentHash`, abstracted to a content identifier; `none` = ""). -/
structure State where
  version : Int
  content : Option Nat
deriving Repr, DecidableEq, Inhabited

structure Req where
  sig     : SigKind
  version : Int      -- payload.index.version
  content : Nat      -- identifies connectors[]+processors[]
  fresh   : Bool     -- payload.index.timestamp within maxStaleness
  lockOK  : Bool := true
  loadOK  : Bool := true
  saveOK  : Bool := true
deriving Repr, DecidableEq, Inhabited

/-- `index.Verify` accepts: a root signature, or a freshness signature over content byte-identical
to the last root-verified content on record. -/
def sigAccepted (st : State) (r : Req) : Bool :=
  match r.sig with
  | .root => true
  | .freshness => st.content == some r.content
  | .bad => false
  | .unknownKey => false

def gateSucc (st : State) (r : Req) : String → Bool
  | "acquireIndexStateLock" => r.lockOK
  | "LoadState" => r.loadOK
  | "Verify" => sigAccepted st r
  | "CheckRollback" => (Generated.RegistryIndex.CheckRollback r.version st.version).isNone
  | "CheckStaleness" => r.fresh
  | "SaveState" => r.saveOK
  | _ => true

def failCode (st : State) (r : Req) : String → String
  | "acquireIndexStateLock" => "CodeInstallLocked"
  | "LoadState" => "CodeInternal"
  | "Verify" => if r.sig == .unknownKey then "CodeTrustAnchorExpired" else "CodeIndexIntegrity"
  | "CheckRollback" => (Generated.RegistryIndex.CheckRollback r.version st.version).getD "?"
  | "CheckStaleness" => "CodeIndexStale"
  | "SaveState" => "CodeInternal"
  | other => "unexpected:" ++ other

def verifyIndexOrder : List GateCall := ofTuples Generated.RegistryIndex.verifyIndexOrder

def envOf (order : List GateCall) (st : State) (r : Req) : Env where
  succ i := match order[i]? with | some g => gateSucc st r g.name | none => true
  -- the only conditional call: `if verified.RootVerified { HashContentSubtree }`
  taken i := match order[i]? with | some g => g.name == "HashContentSubtree" && r.sig == .root | none => false
  stop _ := false

/-- one `VerifyIndex` call against persisted state `st`: the new persisted state and the result
(`none` = accepted, else the error code identifier). `SaveState` is atomic (`C19_atomic_replace`):
when it does not run or fails, the file keeps `st`. -/
def stepOrder (order : List GateCall) (st : State) (r : Req) : State × Option String :=
  let e := exec (envOf order st r) 0 order
  let saved := ranNamed order e.1 "SaveState"
  let st' : State := if saved then
      { version := r.version, content := if r.sig == .root then some r.content else st.content }
    else st
  (st', match e.2 with
    | some i => (match order[i]? with | some g => some (failCode st r g.name) | none => some "?")
    | none => none)

def step (st : State) (r : Req) : State × Option String := stepOrder verifyIndexOrder st r

/-- any number of `VerifyIndex` calls in the order in which they took the lock. -/
def runSeq (order : List GateCall) : State → List Req → State × List (Option String)
  | st, [] => (st, [])
  | st, r :: rs =>
    let a := stepOrder order st r
    let b := runSeq order a.1 rs
    (b.1, a.2 :: b.2)

end Conduit.IndexState
