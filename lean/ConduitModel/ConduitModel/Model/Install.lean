import ConduitModel.Model.Gates
import ConduitModel.Generated.Policy
import ConduitModel.Generated.RegistryInstall

/-
M7 — the registry install pipeline (`/repo/pkg/registry/install.go`): `Install` →
`installArtifact` → `downloadVerifyAndInstall` → `finalizeArtifactInstall`, as a sequential gate
program over the *regenerated* call order (`Generated.RegistryInstall.installArtifactOrder`), plus
the hand model of the verification gate (`runVerificationGate` / `unsignedInstallGate`, which call
the *regenerated* `policy.Decide`).

A `Scenario` fixes the outcome of everything outside the pipeline's own control flow (what the
index verifier says, whether the download succeeds, whether digests match, what the artifact
verifier says, the policy context, what the archive looks like, which file-system step fails).
`runInstall` then says what `Install` does. Core-only.
-/
namespace Conduit.Install
open Conduit.Gates Conduit.Generated.Policy

inductive Fetch | ok | notFound | tooLarge
deriving Repr, DecidableEq, Inhabited

/-- what the configured `ArtifactVerifier` answers. -/
inductive Verifier | signed | unsignedOk | refuse
deriving Repr, DecidableEq, Inhabited

inductive DigestCase | matches | mismatch | malformed
deriving Repr, DecidableEq, Inhabited

structure Scenario where
  idxOK         : Bool      -- IndexVerifier.VerifyIndex accepts
  known         : Bool      -- Resolve finds name/version
  platform      : Bool      -- SelectArtifact finds a host artifact
  already       : Bool      -- manifest already has name@version
  cacheHit      : Bool      -- the local cache holds the artifact's bytes under their own digest
  download      : Fetch
  digest        : DigestCase
  allowUnsigned : Bool
  ctx           : Context
  sigFetch      : Fetch
  provFetch     : Fetch
  verifier      : Verifier
  unsignedLogOK : Bool      -- the unsigned-install audit log can be appended
  archiveOK     : Bool      -- ExtractBinary accepts the archive (see Model/Extract)
  renameOK      : Bool
  manifestOK    : Bool
  auditOK       : Bool
deriving Repr, DecidableEq, Inhabited

/-- the cache is keyed by the *declared* digest and re-hashes what it returns: it hits only when
the cached bytes have the declared digest. -/
def Scenario.effCache (s : Scenario) : Bool := s.cacheHit && s.digest == .matches

/-! ## The verification gate -/

/-- `unsignedInstallGate`: `policy.Decide` refusal code, else the defensive `!dec.Allowed()` refusal,
else the mandatory audit-log append; success is `VerifyResult{Signed: false}`. -/
def unsignedInstallGate (s : Scenario) : Except String Bool :=
  let d := Decide s.ctx
  match d.2 with
  | some code => .error code
  | none =>
    if !d.1 then .error "CodeUnsignedInstallNonInteractive"
    else if !s.unsignedLogOK then .error "CodeInternal"
    else .ok false

/-- `fetchArtifactRef`: signature bundle, then provenance bundle (both bounded). -/
def fetchArtifactRef (s : Scenario) : Except String Unit :=
  match s.sigFetch with
  | .notFound => .error "CodeDownloadFailed"
  | .tooLarge => .error "CodeBundleTooLarge"
  | .ok =>
    match s.provFetch with
    | .notFound => .error "CodeDownloadFailed"
    | .tooLarge => .error "CodeBundleTooLarge"
    | .ok => .ok ()

/-- `runVerificationGate`: the result is `VerifyResult.Signed`. -/
def runVerificationGate (s : Scenario) : Except String Bool :=
  if s.allowUnsigned then unsignedInstallGate s
  else match fetchArtifactRef s with
    | .error c => .error c
    | .ok _ =>
      match s.verifier with
      | .refuse => .error "CodeIdentityMismatch"
      | .unsignedOk => .error "CodeVerificationUnavailable"
      | .signed => .ok true

/-- was `ArtifactVerifier.VerifyArtifact` called by the gate. -/
def gateCallsVerifier (s : Scenario) : Bool :=
  !s.allowUnsigned && (fetchArtifactRef s).toBool

/-- did the gate append the unsigned-install audit entry. -/
def gateLogsUnsigned (s : Scenario) : Bool :=
  s.allowUnsigned && (Decide s.ctx).2.isNone && (Decide s.ctx).1 && s.unsignedLogOK

/-! ## The pipeline as a gate program -/

/-- does the call named `n` succeed in scenario `s` (calls the pipeline does not gate on succeed). -/
def gateSucc (s : Scenario) (n : String) : Bool :=
  match n with
  | "VerifyIndex" => s.idxOK
  | "Resolve" => s.known
  | "SelectArtifact" => s.platform
  | "Download" => s.effCache || s.download == .ok
  | "CheckCorruption" => s.digest == .matches
  | "runVerificationGate" => (runVerificationGate s).toBool
  | "ExtractBinary" => s.archiveOK
  | "Rename" => s.renameOK
  | "writeManifestEntry" => s.manifestOK
  | "AppendAuditEvent" => s.auditOK
  | _ => true

/-- the error code `Install` returns when the guarded call named `n` fails. -/
def failCode (s : Scenario) (n : String) : String :=
  match n with
  | "VerifyIndex" => "CodeIndexIntegrity"
  | "Resolve" => "CodeConnectorNotFound"
  | "SelectArtifact" => "CodeNoPlatformArtifact"
  | "Download" => "CodeDownloadFailed"
  | "CheckCorruption" => "CodeCorruptDownload"
  | "runVerificationGate" => match runVerificationGate s with | .error c => c | .ok _ => "?"
  | "ExtractBinary" => "CodeArchiveInvalid"
  | "Rename" => "CodeArchiveInvalid"
  | "writeManifestEntry" => "CodeInternal"
  | "AppendAuditEvent" => "CodeInternal"
  | other => "unexpected:" ++ other

/-- `Install` = its own top (`installTopOrder`) with the call of `installArtifact` replaced by
`installArtifact`'s inlined order. -/
def spliceOrder (top core : List GateCall) : List GateCall :=
  top.flatMap fun g => if g.name == "installArtifact" then core else [g]

def installOrder : List GateCall :=
  spliceOrder (ofTuples Generated.RegistryInstall.installTopOrder)
    (ofTuples Generated.RegistryInstall.installArtifactOrder)

def indexOfName (order : List GateCall) (n : String) : Option Nat :=
  (List.range order.length).find? fun i => (order[i]?.map (·.name)) == some n

/-- conditions the scenarios fix: the cache is consulted (a digest is always declared), the cached
bytes are staged on a hit, the cache is populated after a real download, connectors have no
install-time validation hook, the stale-cache sweep finds nothing. -/
def condTaken (s : Scenario) (g : GateCall) : Bool :=
  match g.name with
  | "CacheLookup" => true
  | "WriteFile" => s.effCache
  | "CachePopulate" => !s.effCache
  | _ => false

def envOf (order : List GateCall) (s : Scenario) : Env where
  succ i := match order[i]? with | some g => gateSucc s g.name | none => true
  taken i := match order[i]? with | some g => condTaken s g | none => false
  -- "already installed": `installArtifact` returns right after `lookupManifestEntry`
  stop i := s.already && (match indexOfName order "lookupManifestEntry" with | some k => i == k + 1 | none => false)

structure Outcome where
  result          : String        -- "ok" | "already" | error code identifier
  installed       : Bool          -- the artifact was renamed into the install directory
  manifest        : Bool          -- the manifest entry was written
  audited         : Bool
  signed          : Option Bool   -- ManifestEntry.Signed when the entry was written
  verifierCalled  : Bool
  unsignedLogged  : Bool
  ran             : List Nat
deriving Repr, DecidableEq, Inhabited

def runOrder (order : List GateCall) (s : Scenario) : Outcome :=
  let r := exec (envOf order s) 0 order
  let reachedGate := match indexOfName order "runVerificationGate" with
    | some k => r.1.contains k || r.2 == some k
    | none => false
  let man := ranNamed order r.1 "writeManifestEntry"
  { result := match r.2 with
      | some i => (match order[i]? with | some g => failCode s g.name | none => "?")
      | none => if s.already then "already" else "ok"
    installed := ranNamed order r.1 "Rename"
    manifest := man
    audited := ranNamed order r.1 "AppendAuditEvent"
    signed := if man then (match runVerificationGate s with | .ok b => some b | .error _ => none) else none
    verifierCalled := reachedGate && gateCallsVerifier s
    unsignedLogged := reachedGate && gateLogsUnsigned s
    ran := r.1 }

/-- what `registry.Install` does in scenario `s`. -/
def runInstall (s : Scenario) : Outcome := runOrder installOrder s

/-- state of the install directory if the process is killed at the chaos point whose `fireChaos`
call text is `pt`: `none` if the point is not reached, else (artifact present, manifest entry present). -/
def snapshotAt (order : List GateCall) (s : Scenario) (pt : String) : Option (Bool × Bool) :=
  let r := exec (envOf order s) 0 order
  match (List.range order.length).find? fun i => (order[i]?.map (·.name)) == some pt with
  | none => none
  | some p =>
    -- `stageArtifact` returns before its download chaos point on a cache hit
    if pt == "fireChaos(chaosPointDownloadComplete)" && s.effCache then none
    else if r.1.contains p then
      let before := r.1.filter (· < p)
      some (ranNamed order before "Rename", ranNamed order before "writeManifestEntry")
    else none

/-! ## Offline bundles: `verifyBundleIndex` (`bundle.go`) -/

/-- result of the first `VerifyIndex` on the bundled snapshot. -/
inductive IdxResult | accepted (verified : Bool) | stale | refused
deriving Repr, DecidableEq, Inhabited

structure BundleIndexScenario where
  first           : IdxResult
  allowStale      : Bool                 -- --allow-stale-bundle
  ctx             : StaleBundleContext
  relaxedOK       : Bool                 -- the retry with staleness disabled succeeds (rollback, signature still checked)
  relaxedVerified : Bool
  auditOK         : Bool
deriving Repr, DecidableEq, Inhabited

/-- `verifyBundleIndex`: only a *stale* refusal can be overridden, and only through
`policy.DecideStaleBundle`, a full re-verification and an audit entry. -/
def verifyBundleIndex (s : BundleIndexScenario) : Except String Unit :=
  match s.first with
  | .accepted v => if !v then .error "CodeVerificationUnavailable" else .ok ()
  | .refused => .error "index-verification-error"
  | .stale =>
    if !s.allowStale then .error "CodeBundleStale"
    else if !(DecideStaleBundle s.ctx).1 then .error "CodeBundleStale"
    else if !s.relaxedOK then .error "index-verification-error"
    else if !s.relaxedVerified then .error "CodeVerificationUnavailable"
    else if !s.auditOK then .error "CodeInternal"
    else .ok ()

end Conduit.Install
