import ConduitModel.Model.JsonStr

/-
M7 codec — JSON values, the compact printer (the byte layout goccy/go-json's `Marshal` and
`Encoder.Encode` produce: no white space, `,` and `:` separators) and a parser for JSON text
(white space tolerant; integer numbers only — the stored documents hold no fractions).
Object members are kept as a list: order and duplicates are visible to the decoders.
Core-only.
-/
namespace Conduit.Codec

inductive Json where
  | null
  | bool (b : Bool)
  | num (n : Int)
  | str (s : Str)
  | arr (l : List Json)
  | obj (kvs : List (Str × Json))
  deriving Repr, Inhabited

/-! ### integers -/

def digitChar (n : Nat) : Char := Char.ofNat (48 + n % 10)

def digitVal (c : Char) : Nat := c.toNat - 48

def isDigit (c : Char) : Bool := 48 ≤ c.toNat && c.toNat ≤ 57

/-- decimal digits, most significant first (`f` is fuel; `n < f` suffices). -/
def printNatF : Nat → Nat → List Char
  | 0, _ => []
  | f + 1, n => if n < 10 then [digitChar n] else printNatF f (n / 10) ++ [digitChar (n % 10)]

def printNat (n : Nat) : List Char := printNatF (n + 1) n

def printInt (n : Int) : List Char :=
  if n < 0 then '-' :: printNat n.natAbs else printNat n.toNat

def digitsVal (ds : List Char) : Nat := ds.foldl (fun a c => a * 10 + digitVal c) 0

/-- longest prefix of digits, and the rest. -/
def spanDigits : List Char → List Char × List Char
  | [] => ([], [])
  | c :: r => if isDigit c then let (ds, r') := spanDigits r; (c :: ds, r') else ([], c :: r)

/-- an unsigned integer literal: digits, no leading zero unless it is `0`, not followed by a
fraction or an exponent. -/
def parseNatLit (s : List Char) : Option (Nat × List Char) :=
  match spanDigits s with
  | ([], _) => none
  | (d :: ds, r) =>
    if d = '0' ∧ ds ≠ [] then none
    else match r with
      | c :: _ => if c = '.' ∨ c = 'e' ∨ c = 'E' then none else some (digitsVal (d :: ds), r)
      | [] => some (digitsVal (d :: ds), r)

/-! ### printer -/

mutual
def Json.print : Json → List Char
  | .null => ['n', 'u', 'l', 'l']
  | .bool true => ['t', 'r', 'u', 'e']
  | .bool false => ['f', 'a', 'l', 's', 'e']
  | .num n => printInt n
  | .str s => quote s
  | .arr [] => ['[', ']']
  | .arr (x :: xs) => '[' :: (x.print ++ Json.printRest xs)
  | .obj [] => ['{', '}']
  | .obj ((k, v) :: kvs) => '{' :: (quote k ++ ':' :: (v.print ++ Json.printMembers kvs))
/-- the elements after the first one, and the closing bracket -/
def Json.printRest : List Json → List Char
  | [] => [']']
  | x :: xs => ',' :: (x.print ++ Json.printRest xs)
def Json.printMembers : List (Str × Json) → List Char
  | [] => ['}']
  | (k, v) :: kvs => ',' :: (quote k ++ ':' :: (v.print ++ Json.printMembers kvs))
end

/- work measure of the parser (a bound on the fuel it needs). -/
mutual
def Json.size : Json → Nat
  | .arr l => 1 + Json.sizeL l
  | .obj kvs => 1 + Json.sizeM kvs
  | _ => 1
def Json.sizeL : List Json → Nat
  | [] => 0
  | x :: xs => 1 + x.size + Json.sizeL xs
def Json.sizeM : List (Str × Json) → Nat
  | [] => 0
  | (_, v) :: t => 1 + v.size + Json.sizeM t
end

/-! ### parser -/

def isWs (c : Char) : Bool := c = ' ' || c = '\n' || c = '\t' || c = '\r'

def skipWs : List Char → List Char
  | [] => []
  | c :: r => if isWs c then skipWs r else c :: r

mutual
/-- one value; `fuel` bounds the nesting work (the text length always suffices). -/
def parseVal : Nat → List Char → Option (Json × List Char)
  | 0, _ => none
  | fuel + 1, s =>
    match skipWs s with
    | [] => none
    | c :: r =>
      if c = 'n' then
        match r with
        | 'u' :: 'l' :: 'l' :: r' => some (.null, r')
        | _ => none
      else if c = 't' then
        match r with
        | 'r' :: 'u' :: 'e' :: r' => some (.bool true, r')
        | _ => none
      else if c = 'f' then
        match r with
        | 'a' :: 'l' :: 's' :: 'e' :: r' => some (.bool false, r')
        | _ => none
      else if c = '"' then
        match unescape r with
        | some (t, r') => some (.str t, r')
        | none => none
      else if c = '[' then
        match skipWs r with
        | [] => none
        | c' :: r' =>
          if c' = ']' then some (.arr [], r')
          else match parseElems fuel r with
            | some (l, r'') => some (.arr l, r'')
            | none => none
      else if c = '{' then
        match skipWs r with
        | [] => none
        | c' :: r' =>
          if c' = '}' then some (.obj [], r')
          else match parseMembers fuel r with
            | some (l, r'') => some (.obj l, r'')
            | none => none
      else if c = '-' then
        match parseNatLit r with
        | some (n, r') => some (.num (-(n : Int)), r')
        | none => none
      else
        match parseNatLit (c :: r) with
        | some (n, r') => some (.num (n : Int), r')
        | none => none
/-- a value, then `]` or `,` and more elements -/
def parseElems : Nat → List Char → Option (List Json × List Char)
  | 0, _ => none
  | fuel + 1, s =>
    match parseVal fuel s with
    | none => none
    | some (v, r) =>
      match skipWs r with
      | c :: r' =>
        if c = ']' then some ([v], r')
        else if c = ',' then
          match parseElems fuel r' with
          | some (vs, r'') => some (v :: vs, r'')
          | none => none
        else none
      | [] => none
/-- `"key" : value`, then `}` or `,` and more members -/
def parseMembers : Nat → List Char → Option (List (Str × Json) × List Char)
  | 0, _ => none
  | fuel + 1, s =>
    match skipWs s with
    | c :: r =>
      if c = '"' then
        match unescape r with
        | none => none
        | some (k, r1) =>
          match skipWs r1 with
          | c1 :: r2 =>
            if c1 = ':' then
              match parseVal fuel r2 with
              | none => none
              | some (v, r3) =>
                match skipWs r3 with
                | c3 :: r4 =>
                  if c3 = '}' then some ([(k, v)], r4)
                  else if c3 = ',' then
                    match parseMembers fuel r4 with
                    | some (kvs, r5) => some ((k, v) :: kvs, r5)
                    | none => none
                  else none
                | [] => none
            else none
          | [] => none
      else none
    | [] => none
end

/-- a whole document: one value, then only white space (`Encoder.Encode` appends a newline). -/
def parse (s : List Char) : Option Json :=
  match parseVal (s.length + 1) s with
  | some (j, r) => if skipWs r = [] then some j else none
  | none => none

/-- member lookup (first member of that name; absent ↦ `null`, which every decoder below reads
as "leave the zero value", exactly as a missing member in Go). -/
def Json.field (k : Str) : List (Str × Json) → Json
  | [] => .null
  | (k', v) :: t => if k' = k then v else Json.field k t

end Conduit.Codec
