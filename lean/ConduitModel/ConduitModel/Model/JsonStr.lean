/-
M7 codec — JSON string literals as github.com/goccy/go-json v0.10 writes and reads them.

A Lean `Char` is exactly a Unicode scalar value, so `List Char` is exactly "any Unicode text";
Lean's `String` is the UTF-8 encoding of such a list (`String.ofList` / `String.toList`).

Encoder (`json.Marshal`, `Encoder.Encode`; HTML escaping is on by default), observed and
compared byte for byte by the `jsonstr` correspondence component:
  `"` → `\"`   `\` → `\\`   LF → `\n`   CR → `\r`   TAB → `\t`
  every other character below 0x20 → `\u00XX` (lower-case hex; `\b`/`\f` are NOT used, unlike
  encoding/json),  `<` `>` `&` → `<` `>` `&`,  U+2028/U+2029 → ` ` ` `,
  everything else (DEL, BMP, astral) is copied as it is.
Decoder: the usual escapes `\" \\ \/ \b \f \n \r \t`, `\uXXXX` (either hex case) with surrogate
pairs; an unpaired surrogate escape becomes U+FFFD; raw control characters inside a literal are
accepted (goccy is lenient there).
Core-only.
-/
namespace Conduit.Codec

abbrev Str := List Char

def hexDigit (n : Nat) : Char := "0123456789abcdef".toList.getD (n % 16) '0'

def hexVal (c : Char) : Option Nat :=
  let n := c.toNat
  if 48 ≤ n ∧ n ≤ 57 then some (n - 48)
  else if 97 ≤ n ∧ n ≤ 102 then some (n - 87)
  else if 65 ≤ n ∧ n ≤ 70 then some (n - 55)
  else none

def hex4 (a b c d : Char) : Option Nat :=
  match hexVal a, hexVal b, hexVal c, hexVal d with
  | some a, some b, some c, some d => some (a * 4096 + b * 256 + c * 16 + d)
  | _, _, _, _ => none

/-- `\uXXXX` for a code unit below 0x10000. -/
def u4 (n : Nat) : List Char :=
  ['\\', 'u', hexDigit (n / 4096), hexDigit (n / 256), hexDigit (n / 16), hexDigit n]

/-- which characters the encoder writes as `\uXXXX`. -/
def needsU (c : Char) : Bool :=
  c.toNat < 0x20 || c = '<' || c = '>' || c = '&' || c.toNat = 0x2028 || c.toNat = 0x2029

def escapeChar (c : Char) : List Char :=
  if c = '"' then ['\\', '"']
  else if c = '\\' then ['\\', '\\']
  else if c = '\n' then ['\\', 'n']
  else if c = '\r' then ['\\', 'r']
  else if c = '\t' then ['\\', 't']
  else if needsU c then u4 c.toNat
  else [c]

/-- body of the literal (without the quotes). -/
def escape : Str → List Char
  | [] => []
  | c :: t => escapeChar c ++ escape t

/-- the literal with its quotes: what `json.Marshal(s)` returns for a valid-UTF-8 Go string. -/
def quote (s : Str) : List Char := '"' :: (escape s ++ ['"'])

def simpleEsc (e : Char) : Option Char :=
  if e = '"' then some '"'
  else if e = '\\' then some '\\'
  else if e = '/' then some '/'
  else if e = 'b' then some (Char.ofNat 8)
  else if e = 'f' then some (Char.ofNat 12)
  else if e = 'n' then some '\n'
  else if e = 'r' then some '\r'
  else if e = 't' then some '\t'
  else none

def isHighSur (n : Nat) : Bool := 0xD800 ≤ n && n < 0xDC00
def isLowSur (n : Nat) : Bool := 0xDC00 ≤ n && n < 0xE000
def combineSur (hi lo : Nat) : Char := Char.ofNat (0x10000 + (hi - 0xD800) * 0x400 + (lo - 0xDC00))
def replacementChar : Char := Char.ofNat 0xFFFD

def push (c : Char) : Option (Str × List Char) → Option (Str × List Char)
  | some (s, r) => some (c :: s, r)
  | none => none

/-- a pending (unpaired so far) high surrogate escape turns into U+FFFD. -/
def flushSur (p : Option Nat) (x : Option (Str × List Char)) : Option (Str × List Char) :=
  match p with
  | none => x
  | some _ => push replacementChar x

/-- reads the body of a literal up to and including the closing quote; returns the text and the
rest of the input. `p` is a high-surrogate escape just read and not yet paired. -/
def unescFrom (p : Option Nat) : List Char → Option (Str × List Char)
  | [] => none
  | c :: r =>
    if c = '"' then flushSur p (some ([], r))
    else if c ≠ '\\' then flushSur p (push c (unescFrom none r))
    else match r with
      | [] => none
      | e :: r1 =>
        if e ≠ 'u' then
          match simpleEsc e with
          | some ch => flushSur p (push ch (unescFrom none r1))
          | none => none
        else match r1 with
          | a :: b :: c2 :: d :: r2 =>
            match hex4 a b c2 d with
            | none => none
            | some n =>
              if isLowSur n then
                match p with
                | some hi => push (combineSur hi n) (unescFrom none r2)
                | none => push replacementChar (unescFrom none r2)
              else if isHighSur n then flushSur p (unescFrom (some n) r2)
              else flushSur p (push (Char.ofNat n) (unescFrom none r2))
          | _ => none

/-- reads a literal body (after the opening quote). -/
def unescape (s : List Char) : Option (Str × List Char) := unescFrom none s

/-- a whole literal, nothing after it. -/
def unquote (s : List Char) : Option Str :=
  match s with
  | '"' :: r => match unescape r with
    | some (t, []) => some t
    | _ => none
  | _ => none

/-- UTF-8 level: the literal goccy writes for a Go string holding valid UTF-8 `s`. -/
def quoteString (s : String) : String := String.ofList (quote s.toList)

def unquoteString (s : String) : Option String := (unquote s.toList).map String.ofList

end Conduit.Codec
