/-
M5 — lifecycle control plane of ONE pipeline, both engines, as an event system.

Mirrors (function by function, at the atomicity of DESIGN §6: one step = one critical
section / one map or status operation / one plugin call):

  * v1: /repo/pkg/lifecycle/service.go      Start, runPipeline (publish → UpdateStatus(Running) →
        cleanup registration; rollback by compare-and-delete), the cleanup goroutine
        (nodesWg.Wait → switch on tomb.Err → UpdateStatus → terminalErrors.Set →
        deleteRunningPipelineIfCurrent → notify), recoverPipeline, StartWithBackoff, Stop,
        stopGraceful, stopForceful, StopAll, WaitPipeline, StopAndWait.
  * v2: /repo/pkg/lifecycle-poc/service.go  same names; differences modelled:
        sink/worker Open is synchronous inside runPipeline (before publication), the cleanup
        goroutine is registered BEFORE publication and waits for `startupDone`, the arms
        `isGracefulShutdown` / `intentionalStop` of the cleanup switch, the graceful-shutdown
        check after the back-off, `stopRunnablePipeline` (intentionalStop set, and RESET to false
        when no worker was armed by this call), blind `runningPipelines.Delete`.

A *run* is one `runnablePipeline` value (one tomb).  `runs : Nat → Run` is total; ids `≥ next`
are unused.  The recovery attempt counter (`recoveryAttempts`, shared by pointer across the
restarts of one pipeline) is `cnt chain`; `Start` copies the pointer from the map entry.

Core-only (linked into the driver).
-/
namespace Conduit.Lifecycle

inductive Engine | v1 | v2
deriving DecidableEq, Repr, Inhabited

/-- `pipeline.Status` (a freshly created pipeline is `UserStopped`). -/
inductive Status | userStopped | systemStopped | running | degraded | recovering
deriving DecidableEq, Repr, Inhabited

/-- What a tomb can die of / a cleanup can report.  `isFatal` is `cerrors.IsFatalError`. -/
inductive Cause
  | nodeFatal       -- a node/worker returned an error wrapped in cerrors.FatalError
  | nodeTransient   -- a node/worker returned any other error
  | forceStop       -- cerrors.FatalError(pipeline.ErrForceStop) (Stop force=true)
  | cannotRecover   -- cerrors.FatalError(ErrPipelineCannotRecover) (MaxRetries exceeded)
  | startFailed     -- the nested Start of a recovery returned an error
  | storeErr        -- pipelines.UpdateStatus returned an error
deriving DecidableEq, Repr, Inhabited

def Cause.isFatal : Cause → Bool
  | .nodeFatal | .forceStop | .cannotRecover => true
  | _ => false

inductive Starter | user | recov (parent : Nat)
deriving DecidableEq, Repr, Inhabited

/-- program counter of the `Start` call that creates the run. -/
inductive Phase
  | building     -- status check passed; buildRunnablePipeline in progress
  | built        -- v1: node goroutines launched; v2: sink+workers opened, all goroutines registered
  | published    -- runningPipelines.Set done, UpdateStatus(Running) not yet
  | started      -- UpdateStatus(Running) returned nil
  | failed       -- build (or v2 open) failed: nothing is running
  | failedLive   -- UpdateStatus(Running) failed: Start returned an error, goroutines keep running
deriving DecidableEq, Repr, Inhabited

/-- the status write the cleanup goroutine has decided on. -/
inductive Action | stopUser | stopSystem | degrade (c : Cause) | recover
deriving DecidableEq, Repr, Inhabited

def Action.status : Action → Status
  | .stopUser => .userStopped
  | .stopSystem => .systemStopped
  | .degrade _ => .degraded
  | .recover => .recovering

/-- the `err` local of the cleanup goroutine after the switch (nil for the stopped arms). -/
def Action.err : Action → Option Cause
  | .degrade c => some c
  | _ => none

/-- program counter of the run's cleanup goroutine. -/
inductive CPc
  | unreg                       -- v1: not registered yet (registered after UpdateStatus(Running))
  | waiting                     -- nodesWg.Wait (v2: then sink.Close, <-startupDone)
  | decided (a : Action)        -- switch taken, the UpdateStatus of that arm is next
  | backoff (wakeAt : Nat) (tid : Nat) -- StartWithBackoff: sleeping until `wakeAt`
  | nested (child : Nat)        -- StartWithBackoff: inside s.Start (run `child`)
  | tail1 (e : Option Cause)    -- status written; terminalErrors.Set next
  | tail2 (e : Option Cause)    -- terminalErrors set; map delete + notify next
  | done                        -- returned after the tail
  | doneNoTail                  -- returned without the tail (recovery returned nil / UpdateStatus failed)
deriving DecidableEq, Repr, Inhabited

structure Run where
  starter      : Starter := .user
  phase        : Phase := .building
  nodesAlive   : Bool := false        -- node / worker goroutines not all returned
  holds        : Bool := false        -- connector `Instance.connector` guards held (plugins open)
  tomb         : Option Cause := none -- first Kill reason (none = ErrStillAlive)
  tombPending  : Option Cause := none -- v1: error returned by a node goroutine that tomb.v2 has not
                                      --   recorded yet (t.run bookkeeping runs after nodesWg.Done())
  forced       : Bool := false        -- v2 (fix): rp.forceStopped
  cerr         : Option Cause := none -- ghost: the `err` the cleanup switch classified
  recAt        : Nat := 0             -- ghost: time StatusRecovering was written
  intentional  : Bool := false        -- v2 rp.intentionalStop
  stopReq      : Bool := false        -- graceful stop armed (v1 n.stop.successful / v2 w.stop)
  sysReason    : Bool := false        -- v1: the stop reason is ErrGracefulShutdown
  gracefulNode : Bool := false        -- v1: runPipeline's local isGracefulShutdown
  chain        : Nat := 0             -- which recoveryAttempts counter this run points to
  cpc          : CPc := .unreg
deriving DecidableEq, Repr, Inhabited

structure Cfg where
  maxRetries : Option Nat   -- none = InfiniteRetriesErrRecovery
  minDelay   : Nat
  maxDelay   : Nat
  window     : Nat          -- MaxRetriesWindow
deriving DecidableEq, Repr, Inhabited

/-- Source facts that differ between the unchanged tree and the proposed fixes; regenerated from
the Go source on every run (`Generated.Lifecycle.fixes`, factgen/lifecycle.go). -/
structure Fixes where
  v1KillBeforeDone : Bool := false  -- v1 node goroutine calls rp.t.Kill(err) before nodesWg.Done()
  v2RecheckStop    : Bool := false  -- v2 StartWithBackoff consults forceStopped/intentionalStop after the back-off
  v2KeepIntent     : Bool := false  -- v2 stopRunnablePipeline keeps intentionalStop when every worker was already stopping
  v2CompareDelete  : Bool := false  -- v2 cleanup removes the map entry by compare-and-delete
deriving DecidableEq, Repr, Inhabited

def Fixes.allOn : Fixes := { v1KillBeforeDone := true, v2RecheckStop := true, v2KeepIntent := true, v2CompareDelete := true }

/-- a pending `time.AfterFunc(duration+MaxRetriesWindow, recoveryAttempts.Add(-1))`.
`restarted` is a ghost: the recovery that armed it did restart the pipeline. -/
structure Timer where
  id        : Nat
  chain     : Nat
  fireAt    : Nat
  restarted : Bool := false
deriving DecidableEq, Repr, Inhabited

inductive WaitTarget
  | run (m : Nat)               -- p.t.Wait() of the run found in the map
  | value (v : Option Cause)    -- terminalErrors fallback / nil
deriving DecidableEq, Repr, Inhabited

structure State where
  eng         : Engine
  cfg         : Cfg
  fx          : Fixes := {}
  status      : Status := .userStopped
  entry       : Option Nat := none              -- runningPipelines[id]
  terminalErr : Option (Option Cause) := none   -- terminalErrors[id]
  shutdown    : Bool := false                   -- v2 Service.isGracefulShutdown
  runs        : Nat → Run := fun _ => {}
  next        : Nat := 0
  cnt         : Nat → Nat := fun _ => 0         -- recoveryAttempts per chain
  timers      : List Timer := []
  nextTid     : Nat := 0
  now         : Nat := 0
  userBusy    : Option Nat := none              -- user Start call in flight
  waits       : Nat → Option WaitTarget := fun _ => none
  -- ghosts (never read by a guard)
  stopIntent  : Bool := false   -- a stop request was accepted since the last user Start
  restarts    : Nat := 0        -- recovery restarts performed (nested Start entered)
  badRestarts : Nat := 0        -- … of which while `stopIntent`
  lastWriter  : Option Nat := none -- run whose Start wrote StatusRunning last

def init (eng : Engine) (cfg : Cfg) (fx : Fixes := {}) : State := { eng := eng, cfg := cfg, fx := fx }

def State.setRun (s : State) (n : Nat) (r : Run) : State :=
  { s with runs := fun i => if i = n then r else s.runs i }

def anyHolds (s : State) : Bool := (List.range s.next).any fun i => (s.runs i).holds

/-- tomb dead: every goroutine of the run has returned. -/
def tombDead (r : Run) : Bool :=
  !r.nodesAlive && r.tombPending = none && (r.cpc = .done || r.cpc = .doneNoTail || (r.cpc = .unreg && r.phase = .failedLive))

inductive Event
  | startUser                               -- Start: Get + status check (rejects when Running)
  | buildOk (n : Nat)                       -- buildRunnablePipeline (+ v2 sink/worker Open) ok
  | buildFail (n : Nat) (late : Bool)       -- … failed (`late`: after terminalErrors.Delete; v2 open)
  | publish (n : Nat)                       -- runningPipelines.Set
  | writeRunning (n : Nat) (ok : Bool)      -- UpdateStatus(Running)
  | startReturn                             -- the user's Start call returns
  | openOk (n : Nat)                        -- v1: nodes opened their connectors
  | nodeExit (n : Nat) (c : Cause)          -- nodes/workers end with an error (tomb first-kill wins)
  | tombRecord (n : Nat)                    -- v1: tomb.v2 bookkeeping records the node's returned error
  | nodeExitClean (n : Nat)                 -- nodes/workers end without error (drain after stop)
  | sourceEof (n : Nat)                     -- v2: the source is exhausted (io.EOF), Do returns nil
  | stop (force : Bool)                     -- Service.Stop
  | stopAll (force : Bool)                  -- Service.StopAll
  | cleanupWake (n : Nat) (sink : Option Cause) -- nodesWg.Wait returns; classification
  | writeStatus (n : Nat) (ok : Bool)       -- UpdateStatus of a terminal arm
  | recoverBegin (n : Nat) (d : Nat) (ok : Bool) -- UpdateStatus(Recovering); attempt++; back-off d
  | backoffElapsed (n : Nat)                -- wake up; map guard; (v2 shutdown check); nested Start check
  | setTerminalErr (n : Nat)
  | deleteEntry (n : Nat)                   -- compare-and-delete (v1) / blind delete (v2) + notify
  | tick (d : Nat)
  | attemptDecay (i : Nat)                  -- the i-th pending AfterFunc fires
  | waitBegin (w : Nat)                     -- WaitPipeline: lookup
  | waitReturn (w : Nat) (r : Option Cause) -- WaitPipeline returns r
deriving DecidableEq, Repr, Inhabited

/-- how a finished nested/user Start is reported to whoever called it. -/
def notifyStarter (s : State) (n : Nat) (ok : Bool) : State :=
  match (s.runs n).starter with
  | .user => s
  | .recov p =>
    s.setRun p { s.runs p with cpc := if ok then .doneNoTail else .decided (.degrade .startFailed) }

def stepStartUser (s : State) : Option State :=
  if s.userBusy ≠ none then none
  else if s.status = .running then some s
  else
    let n := s.next
    some { (s.setRun n { starter := .user, phase := .building, chain := n }) with
           next := n + 1, userBusy := some n, stopIntent := false }

def stepBuildOk (s : State) (n : Nat) : Option State :=
  if (s.runs n).phase ≠ .building ∨ n ≥ s.next ∨ anyHolds s then none
  else
    let ch := match s.entry with
      | some m => (s.runs m).chain
      | none => (s.runs n).chain
    let r := s.runs n
    let r' : Run := match s.eng with
      | .v1 => { r with phase := .built, nodesAlive := true, chain := ch }
      | .v2 => { r with phase := .built, nodesAlive := true, holds := true, chain := ch, cpc := .waiting }
    some { (s.setRun n r') with terminalErr := none }

def stepBuildFail (s : State) (n : Nat) (late : Bool) : Option State :=
  if (s.runs n).phase ≠ .building ∨ n ≥ s.next ∨ (late ∧ s.eng = .v1) then none
  else
    let s1 := s.setRun n { s.runs n with phase := .failed }
    let s2 := notifyStarter s1 n false
    some (if late then { s2 with terminalErr := none } else s2)

def stepPublish (s : State) (n : Nat) : Option State :=
  if (s.runs n).phase ≠ .built then none
  else some { (s.setRun n { s.runs n with phase := .published }) with entry := some n }

def stepWriteRunning (s : State) (n : Nat) (ok : Bool) : Option State :=
  if (s.runs n).phase ≠ .published then none
  else
    let r := s.runs n
    let s0 := { s with status := .running, lastWriter := some n }
    if ok then
      let r' : Run := match s.eng with
        | .v1 => { r with phase := .started, cpc := .waiting }
        | .v2 => { r with phase := .started }
      some (notifyStarter (s0.setRun n r') n true)
    else
      let s1 := s0.setRun n { r with phase := .failedLive }
      let s2 := match s.eng with
        | .v1 => { s1 with entry := if s1.entry = some n then none else s1.entry }
        | .v2 => s1
      some (notifyStarter s2 n false)

def stepStartReturn (s : State) : Option State :=
  match s.userBusy with
  | none => none
  | some n =>
    let p := (s.runs n).phase
    if p = .started ∨ p = .failed ∨ p = .failedLive then some { s with userBusy := none } else none

def stepOpenOk (s : State) (n : Nat) : Option State :=
  let r := s.runs n
  if s.eng ≠ .v1 ∨ !r.nodesAlive ∨ r.holds ∨ anyHolds s then none
  else some (s.setRun n { r with holds := true })

def stepNodeExit (s : State) (n : Nat) (c : Cause) : Option State :=
  let r := s.runs n
  if !r.nodesAlive ∨ (c ≠ .nodeFatal ∧ c ≠ .nodeTransient) then none
  else if s.eng = .v1 ∧ !s.fx.v1KillBeforeDone then
    -- the error is only *returned*: nodesWg.Done() (deferred) fires before tomb.v2 records it
    some (s.setRun n { r with nodesAlive := false, holds := false,
                              tombPending := if r.tomb = none then r.tombPending <|> some c else r.tombPending })
  else some (s.setRun n { r with nodesAlive := false, holds := false, tomb := r.tomb <|> some c })

def stepTombRecord (s : State) (n : Nat) : Option State :=
  let r := s.runs n
  if r.tombPending = none then none
  else some (s.setRun n { r with tomb := r.tomb <|> r.tombPending, tombPending := none })

def stepNodeExitClean (s : State) (n : Nat) : Option State :=
  let r := s.runs n
  if !r.nodesAlive ∨ !r.stopReq then none
  else some (s.setRun n { r with nodesAlive := false, holds := false,
                                 gracefulNode := r.gracefulNode || (r.sysReason && s.eng = .v1) })

def stepSourceEof (s : State) (n : Nat) : Option State :=
  let r := s.runs n
  if s.eng ≠ .v2 ∨ !r.nodesAlive then none
  else some (s.setRun n { r with nodesAlive := false, holds := false })

/-- result classes of `Stop`. -/
inductive StopRes | ok | notRunning | err | blocks
deriving DecidableEq, Repr, Inhabited

/-- graceful stop of run `m` (stopGraceful / stopRunnablePipeline force=false): result class. -/
def gracefulRes (s : State) (m : Nat) : StopRes :=
  let r := s.runs m
  match s.eng with
  | .v1 =>
    if !r.nodesAlive then .err            -- "source node is not running"
    else if !r.holds then .blocks          -- state.Watch(Running|Stopped) blocks until Open returns
    else if r.stopReq then .err            -- "stop already triggered"
    else .ok
  | .v2 => .ok

/-- … and its effect. `sys`: the reason is ErrGracefulShutdown (v1 StopAll). -/
def gracefulState (s : State) (m : Nat) (sys : Bool) : State :=
  let r := s.runs m
  match s.eng with
  | .v1 =>
    if gracefulRes s m = .ok then s.setRun m { r with stopReq := true, sysReason := sys } else s
  | .v2 =>
    if r.stopReq then
      -- every worker was already stopping (preArmed): armedSources = [] ⇒ intentionalStop.Store(false)
      s.setRun m { r with intentional := if s.fx.v2KeepIntent then r.intentional else false }
    else
      s.setRun m { r with stopReq := true, intentional := true }

def gracefulOn (s : State) (m : Nat) (sys : Bool) : State × StopRes := (gracefulState s m sys, gracefulRes s m)

/-- stopForceful / the force arm of stopRunnablePipeline: Kill(FatalError(ErrForceStop)); always nil. -/
def forceState (s : State) (m : Nat) : State :=
  let r := s.runs m
  s.setRun m { r with tomb := r.tomb <|> some .forceStop, forced := true }

def forceOn (s : State) (m : Nat) : State × StopRes := (forceState s m, .ok)

/-- `Service.Stop`: result class. -/
def stopRes (s : State) (force : Bool) : StopRes :=
  match s.entry with
  | none => .notRunning
  | some m =>
    if s.status ≠ .running ∧ s.status ≠ .recovering then .notRunning
    else if force then .ok else gracefulRes s m

/-- `Service.Stop`: the state after the call. -/
def stopState (s : State) (force : Bool) : State :=
  match s.entry with
  | none => s
  | some m =>
    if s.status ≠ .running ∧ s.status ≠ .recovering then s
    else
      let s' := if force then forceState s m else gracefulState s m false
      { s' with stopIntent := s.stopIntent || stopRes s force = .ok }

def stopCall (s : State) (force : Bool) : State × StopRes := (stopState s force, stopRes s force)

def stepStop (s : State) (force : Bool) : Option State :=
  if s.userBusy ≠ none then none
  else match stopRes s force with
    | .blocks => none
    | _ => some (stopState s force)

/-- `Service.StopAll` restricted to this pipeline (v1 has no force flag: `force` must be false). -/
def stepStopAll (s : State) (force : Bool) : Option State :=
  if s.userBusy ≠ none ∨ (force ∧ s.eng = .v1) then none
  else
    let s0 := match s.eng with
      | .v1 => s
      | .v2 => { s with shutdown := true }
    match s0.entry with
    | none => some s0
    | some m =>
      if s0.status ≠ .running ∧ s0.status ≠ .recovering then some s0
      else if force then
        some { (forceState s0 m) with stopIntent := true }
      else match gracefulRes s0 m with
        | .blocks => none
        | res => some { (gracefulState s0 m true) with
                        stopIntent := s.stopIntent || res = .ok || s.eng = .v2 }

/-- the `switch` of the cleanup goroutine. `err` = tomb reason, or (v2) the sink close error
when the tomb is still alive. -/
def classify (s : State) (r : Run) (err : Option Cause) : Action :=
  match s.eng, err with
  | .v1, none => if r.gracefulNode then .stopSystem else .stopUser
  | .v1, some c => if c.isFatal then .degrade c else .recover
  | .v2, none => if s.shutdown then .stopSystem else .stopUser
  | .v2, some c =>
    if c.isFatal then .degrade c
    else if s.shutdown then .stopSystem
    else if r.intentional then .stopUser
    else .recover

def stepCleanupWake (s : State) (n : Nat) (sink : Option Cause) : Option State :=
  let r := s.runs n
  if r.cpc ≠ .waiting ∨ r.nodesAlive then none
  else if s.eng = .v2 ∧ r.phase ≠ .started ∧ r.phase ≠ .failedLive then none   -- <-startupDone
  else if sink ≠ none ∧ (s.eng = .v1 ∨ (sink ≠ some .nodeFatal ∧ sink ≠ some .nodeTransient)) then none
  else
    let err := r.tomb <|> sink
    some (s.setRun n { r with cpc := .decided (classify s r err), cerr := err })

def stepWriteStatus (s : State) (n : Nat) (ok : Bool) : Option State :=
  let r := s.runs n
  match r.cpc with
  | .decided a =>
    if a = .recover then none
    else
      let s0 := { s with status := a.status }
      if ok then some (s0.setRun n { r with cpc := .tail1 a.err })
      else some (s0.setRun n { r with cpc := .doneNoTail, tomb := r.tomb <|> some .storeErr })
  | _ => none

def exceeded (cfg : Cfg) (attempt : Nat) : Bool :=
  match cfg.maxRetries with
  | none => false
  | some m => decide (m < attempt)

def stepRecoverBegin (s : State) (n : Nat) (d : Nat) (ok : Bool) : Option State :=
  let r := s.runs n
  if r.cpc ≠ .decided .recover ∨ d < s.cfg.minDelay ∨ s.cfg.maxDelay < d then none
  else
    let s0 := { s with status := .recovering }
    if !ok then some (s0.setRun n { r with cpc := .decided (.degrade .storeErr) })
    else
      let attempt := s.cnt r.chain + 1
      let s1 := { s0 with cnt := fun c => if c = r.chain then attempt else s.cnt c }
      if exceeded s.cfg attempt then
        some (s1.setRun n { r with cpc := .decided (.degrade .cannotRecover) })
      else
        let t : Timer := { id := s.nextTid, chain := r.chain, fireAt := s.now + d + s.cfg.window }
        some { (s1.setRun n { r with cpc := .backoff (s.now + d) s.nextTid, recAt := s.now }) with
               timers := s.timers ++ [t], nextTid := s.nextTid + 1 }

def markRestarted (ts : List Timer) (tid : Nat) : List Timer :=
  ts.map fun t => if t.id = tid then { t with restarted := true } else t

def stepBackoffElapsed (s : State) (n : Nat) : Option State :=
  let r := s.runs n
  match r.cpc with
  | .backoff wakeAt tid =>
    if s.now < wakeAt then none
    else if s.entry ≠ some n then some (s.setRun n { r with cpc := .doneNoTail })
    else if s.eng = .v2 ∧ s.fx.v2RecheckStop ∧ r.forced then
      some (s.setRun n { r with cpc := .decided (.degrade .forceStop) })
    else if s.eng = .v2 ∧ s.shutdown then some (s.setRun n { r with cpc := .decided .stopSystem })
    else if s.eng = .v2 ∧ s.fx.v2RecheckStop ∧ r.intentional then
      some (s.setRun n { r with cpc := .decided .stopUser })
    else if s.status = .running then some (s.setRun n { r with cpc := .decided (.degrade .startFailed) })
    else
      let c := s.next
      let s1 := (s.setRun n { r with cpc := .nested c }).setRun c
                  { starter := .recov n, phase := .building, chain := c }
      some { s1 with next := c + 1, restarts := s.restarts + 1,
                     badRestarts := s.badRestarts + (if s.stopIntent then 1 else 0),
                     timers := markRestarted s.timers tid }
  | _ => none

def stepSetTerminalErr (s : State) (n : Nat) : Option State :=
  let r := s.runs n
  match r.cpc with
  | .tail1 e => some { (s.setRun n { r with cpc := .tail2 e }) with terminalErr := some e }
  | _ => none

def stepDeleteEntry (s : State) (n : Nat) : Option State :=
  let r := s.runs n
  match r.cpc with
  | .tail2 e =>
    let entry' := match s.eng with
      | .v1 => if s.entry = some n then none else s.entry
      | .v2 => if s.fx.v2CompareDelete then (if s.entry = some n then none else s.entry) else none
    some { (s.setRun n { r with cpc := .done, tomb := r.tomb <|> e }) with entry := entry' }
  | _ => none

def stepAttemptDecay (s : State) (i : Nat) : Option State :=
  match s.timers[i]? with
  | none => none
  | some t =>
    if s.now < t.fireAt then none
    else some { s with timers := s.timers.eraseIdx i,
                       cnt := fun c => if c = t.chain then s.cnt c - 1 else s.cnt c }

def stepWaitBegin (s : State) (w : Nat) : Option State :=
  if s.waits w ≠ none then none
  else
    let tgt := match s.entry with
      | some m => WaitTarget.run m
      | none => WaitTarget.value (s.terminalErr.getD none)
    some { s with waits := fun i => if i = w then some tgt else s.waits i }

def stepWaitReturn (s : State) (w : Nat) (res : Option Cause) : Option State :=
  match s.waits w with
  | none => none
  | some (.run m) =>
    if tombDead (s.runs m) ∧ res = (s.runs m).tomb
    then some { s with waits := fun i => if i = w then none else s.waits i } else none
  | some (.value v) =>
    if res = v then some { s with waits := fun i => if i = w then none else s.waits i } else none

def step (s : State) : Event → Option State
  | .startUser => stepStartUser s
  | .buildOk n => stepBuildOk s n
  | .buildFail n late => stepBuildFail s n late
  | .publish n => stepPublish s n
  | .writeRunning n ok => stepWriteRunning s n ok
  | .startReturn => stepStartReturn s
  | .openOk n => stepOpenOk s n
  | .nodeExit n c => stepNodeExit s n c
  | .tombRecord n => stepTombRecord s n
  | .nodeExitClean n => stepNodeExitClean s n
  | .sourceEof n => stepSourceEof s n
  | .stop f => stepStop s f
  | .stopAll f => stepStopAll s f
  | .cleanupWake n sink => stepCleanupWake s n sink
  | .writeStatus n ok => stepWriteStatus s n ok
  | .recoverBegin n d ok => stepRecoverBegin s n d ok
  | .backoffElapsed n => stepBackoffElapsed s n
  | .setTerminalErr n => stepSetTerminalErr s n
  | .deleteEntry n => stepDeleteEntry s n
  | .tick d => if d = 0 then none else some { s with now := s.now + d }
  | .attemptDecay i => stepAttemptDecay s i
  | .waitBegin w => stepWaitBegin s w
  | .waitReturn w r => stepWaitReturn s w r

/-- run an event list; `none` as soon as an event is not enabled. -/
def runFrom (s : State) : List Event → Option State
  | [] => some s
  | e :: es => (step s e).bind fun s' => runFrom s' es

def Reach (eng : Engine) (cfg : Cfg) (fx : Fixes) (s : State) : Prop := ∃ evs, runFrom (init eng cfg fx) evs = some s

end Conduit.Lifecycle
