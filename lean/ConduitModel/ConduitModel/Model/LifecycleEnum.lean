import ConduitModel.Model.Lifecycle
/-
Executable helpers over M5: canonical rendering of a state (for de-duplication in the driver's
subset construction and in the bounded search), the list of candidate events of a state, and the
hypothesis filters under which the `_partial` theorems are stated.
Core-only.
-/
namespace Conduit.Lifecycle

def Cause.str : Cause → String
  | .nodeFatal => "F" | .nodeTransient => "T" | .forceStop => "K" | .cannotRecover => "X"
  | .startFailed => "S" | .storeErr => "D"

def ocStr : Option Cause → String
  | none => "-" | some c => c.str

def Status.str : Status → String
  | .userStopped => "user" | .systemStopped => "sys" | .running => "run"
  | .degraded => "deg" | .recovering => "rec"

def Phase.str : Phase → String
  | .building => "bg" | .built => "bt" | .published => "pb" | .started => "st"
  | .failed => "fl" | .failedLive => "fL"

def Action.str : Action → String
  | .stopUser => "u" | .stopSystem => "s" | .degrade c => "d" ++ c.str | .recover => "r"

def CPc.str : CPc → String
  | .unreg => "un" | .waiting => "wt" | .decided a => "dc" ++ a.str
  | .backoff w t => s!"bo{w}/{t}" | .nested c => s!"ne{c}" | .tail1 e => "t1" ++ ocStr e
  | .tail2 e => "t2" ++ ocStr e | .done => "dn" | .doneNoTail => "dN"

def bstr (b : Bool) : String := if b then "1" else "0"

def Run.str (r : Run) : String :=
  (match r.starter with | .user => "U" | .recov p => s!"R{p}") ++ "," ++ r.phase.str ++ "," ++
  bstr r.nodesAlive ++ bstr r.holds ++ bstr r.intentional ++ bstr r.stopReq ++ bstr r.sysReason ++
  bstr r.gracefulNode ++ bstr r.forced ++ "," ++ ocStr r.tomb ++ ocStr r.tombPending ++ s!",c{r.chain}," ++ r.cpc.str

def onat : Option Nat → String
  | none => "-" | some n => toString n

def WaitTarget.str : WaitTarget → String
  | .run m => s!"r{m}" | .value v => "v" ++ ocStr v

/-- canonical key of a state (everything a guard can read, plus the ghosts). -/
def State.key (s : State) (nw : Nat := 4) : String :=
  s.status.str ++ "|" ++ onat s.entry ++ "|" ++
  (match s.terminalErr with | none => "_" | some e => ocStr e) ++ "|" ++ bstr s.shutdown ++ "|" ++
  onat s.userBusy ++ s!"|t{s.now}|" ++ bstr s.stopIntent ++ s!"|{s.restarts}/{s.badRestarts}|" ++ onat s.lastWriter ++ "|" ++
  ";".intercalate ((List.range s.next).map fun i => (s.runs i).str ++ s!"#{s.cnt i}") ++ "|" ++
  ";".intercalate (s.timers.map fun t => s!"{t.id}:{t.chain}@{t.fireAt}{bstr t.restarted}") ++ "|" ++
  ";".intercalate ((List.range nw).map fun w => match s.waits w with | none => "-" | some t => t.str)

/-- which failures / races a run of the model may contain (each `false` is a hypothesis of a
`_partial` theorem; all `true` = the full event system). -/
structure Hyps where
  storeFail     : Bool := true  -- UpdateStatus may fail
  startOverlap  : Bool := true  -- a user Start may overlap the nested Start of a recovery
  stopDeadRun   : Bool := true  -- Stop/StopAll may act on a run whose nodes have already exited
                                --   (incl. the whole recovery back-off: finding F9)
  doubleStop    : Bool := true  -- a graceful stop may be repeated on a run that is already stopping
  failAfterStop : Bool := true  -- v1: a transient failure may hit a run after a graceful stop request
  stopDuringStart : Bool := true -- Stop/StopAll may be called while a Start (user or nested) is between its
                                --   status check and its publication in the map
deriving DecidableEq, Repr, Inhabited

def Hyps.all : Hyps := {}
def Hyps.none : Hyps := { storeFail := false, startOverlap := false, stopDeadRun := false,
                          doubleStop := false, failAfterStop := false, stopDuringStart := false }

/-- some Start (user or nested) is between its status check and its return. -/
def nestedInFlight (s : State) : Bool :=
  (List.range s.next).any fun i => match (s.runs i).cpc with | .nested _ => true | _ => false

/-- some Start has passed its status check and has not yet published its run. -/
def startInFlight (s : State) : Bool :=
  (List.range s.next).any fun i => (s.runs i).phase = .building || (s.runs i).phase = .built

/-- `allowed h s e`: event `e` in state `s` is inside the hypotheses `h`. -/
def allowed (h : Hyps) (s : State) : Event → Bool
  | .writeRunning _ ok => ok || h.storeFail
  | .writeStatus _ ok => ok || h.storeFail
  | .recoverBegin _ _ ok => ok || h.storeFail
  | .startUser => h.startOverlap || !nestedInFlight s
  | .backoffElapsed _ => h.startOverlap || s.userBusy = none
  | .stop force =>
    match s.entry with
    | none => h.stopDuringStart || !startInFlight s
    | some m =>
      let r := s.runs m
      (h.stopDeadRun || r.nodesAlive || (s.status ≠ .running ∧ s.status ≠ .recovering)) &&
      (h.doubleStop || force || !r.stopReq) && (h.stopDuringStart || !startInFlight s)
  | .stopAll force =>
    match s.entry with
    | none => h.stopDuringStart || !startInFlight s
    | some m =>
      let r := s.runs m
      (h.stopDeadRun || r.nodesAlive || (s.status ≠ .running ∧ s.status ≠ .recovering)) &&
      (h.doubleStop || force || !r.stopReq) && (h.stopDuringStart || !startInFlight s)
  | .nodeExit n c =>
    h.failAfterStop || s.eng = .v2 || c.isFatal || !(s.runs n).stopReq || (s.runs n).tomb ≠ none
  | _ => true

def stepH (h : Hyps) (s : State) (e : Event) : Option State :=
  if allowed h s e then step s e else none

def runFromH (h : Hyps) (s : State) : List Event → Option State
  | [] => some s
  | e :: es => (stepH h s e).bind fun s' => runFromH h s' es

/-- candidate events of a state (finite over-approximation of the enabled ones; `ds` = back-off
delays and tick sizes tried, `nw` = wait ids). -/
def candidates (s : State) (ds : List Nat) (nw : Nat) : List Event :=
  let per (n : Nat) : List Event :=
    [.buildOk n, .buildFail n false, .buildFail n true, .publish n, .writeRunning n true,
     .writeRunning n false, .openOk n, .nodeExit n .nodeFatal, .nodeExit n .nodeTransient,
     .nodeExitClean n, .sourceEof n, .tombRecord n, .cleanupWake n none, .cleanupWake n (some .nodeTransient),
     .cleanupWake n (some .nodeFatal), .writeStatus n true, .writeStatus n false,
     .backoffElapsed n, .setTerminalErr n, .deleteEntry n] ++
    ds.flatMap fun d => [.recoverBegin n d true, .recoverBegin n d false]
  [.startUser, .startReturn, .stop false, .stop true, .stopAll false, .stopAll true] ++
  (List.range s.next).flatMap per ++
  ds.map (fun d => Event.tick d) ++
  (List.range s.timers.length).map (fun i => Event.attemptDecay i) ++
  (List.range nw).flatMap fun w =>
    [.waitBegin w] ++ [none, some .nodeFatal, some .nodeTransient, some .forceStop, some .cannotRecover,
      some .startFailed, some .storeErr].map fun r => Event.waitReturn w r

end Conduit.Lifecycle
