/-
M5, un-folded for the OPEN PHASE of one Start: the per-connector guards (`connector.Instance.connector
!= nil`, set by `Source.Open` / `Destination.Open`, cleared by `Teardown`) of a pipeline with a shared
sink and `n` source workers, acquired in order, with the rollback of
/repo/pkg/lifecycle-poc/service.go `runPipeline`:

    sink.Open;  for i, w := range workers { if w.Open fails { for j := len(opened)-1; j >= 0; j-- { opened[j].Close };
                                                              sink.Close; return err };  opened = append(opened, w) }

and of `funnel.Worker.Open` (source task, then the worker's DLQ; its own rollback.R on failure).
The shape of both rollbacks is regenerated from the source (`Generated.OpenPhase`, `Facts/C11.lean`):
`lo` is the first index of the collection the runPipeline loop closes (0 on the tree: it closes every
element of `opened`), `workerRollsBackSource` says whether a worker whose DLQ failed to open tears its
already opened source down (true on the tree since the fix "tear down the source when a worker's later
task or DLQ fails to open").

M5 proper (`Model/Lifecycle.lean`) keeps one folded guard per run: `buildOk` = every guard acquired,
`buildFail` = none held afterwards. `C11_failed_start_releases_all` justifies the second.
Core-only.
-/
namespace Conduit.LifecycleOpen

/-- guards: the shared sink and the source workers `0 … n-1` (true = held by the run). -/
structure Guards where
  sink : Bool
  src  : Nat → Bool

def Guards.free : Guards := { sink := false, src := fun _ => false }

/-- `Connector()` / `Open` refuse while any guard of the pipeline is set ("connector is running"). -/
def Guards.anyHeld (g : Guards) (n : Nat) : Bool := g.sink || (List.range n).any g.src

def setSrc (f : Nat → Bool) (i : Nat) (b : Bool) : Nat → Bool := fun j => if j = i then b else f j

/-- workers `0 … k-1` opened in order (`opened = append(opened, w)`). -/
def openUpTo (f : Nat → Bool) : Nat → (Nat → Bool)
  | 0 => f
  | k + 1 => setSrc (openUpTo f k) k true

/-- the rollback loop: closes index `hi-1`, `hi-2`, …, down to `lo` (inclusive). -/
def closeDownTo (f : Nat → Bool) (lo : Nat) : Nat → (Nat → Bool)
  | 0 => f
  | hi + 1 => if lo ≤ hi then closeDownTo (setSrc f hi false) lo hi else f

/-- where the open phase fails. -/
inductive Fault
  | none
  | sink                          -- the shared sink's Open fails (nothing else was opened)
  | source (k : Nat)              -- worker k: its source's Open fails
  | dlq (k : Nat)                 -- worker k: the source opened, its DLQ's Open fails
deriving DecidableEq, Repr, Inhabited

structure Shape where
  /-- first index the runPipeline rollback loop closes (regenerated; 0 = the whole `opened` slice). -/
  lo : Nat
  /-- funnel.Worker.Open tears the already opened source down when a later open of the worker fails. -/
  workerRollsBackSource : Bool
deriving DecidableEq, Repr, Inhabited

def Shape.asIs : Shape := { lo := 0, workerRollsBackSource := true }

/-- one Start's open phase on `n` workers: the guards afterwards and whether the Start succeeded. -/
def startAttempt (sh : Shape) (n : Nat) (g : Guards) (fault : Fault) : Guards × Bool :=
  if g.anyHeld n then (g, false)             -- refused by a guard that is still set
  else match fault with
    | .none => ({ sink := true, src := openUpTo g.src n }, true)
    | .sink => (g, false)
    | .source k =>
      if k < n then ({ sink := false, src := closeDownTo (openUpTo g.src k) sh.lo k }, false)
      else ({ sink := true, src := openUpTo g.src n }, true)
    | .dlq k =>
      if k < n then
        let opened := openUpTo g.src k
        let withK := if sh.workerRollsBackSource then opened else setSrc opened k true
        ({ sink := false, src := closeDownTo withK sh.lo k }, false)
      else ({ sink := true, src := openUpTo g.src n }, true)

end Conduit.LifecycleOpen
