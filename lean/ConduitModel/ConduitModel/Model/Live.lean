import ConduitModel.Model.Prov

/-
C16 — `ApplyPlanLive` as a sequential program over (M6 state, abstract lifecycle).

Mirrors /repo/pkg/provisioning/plan.go `ApplyPlanLive`, `applyInPlace`, `rollbackInPlace`,
`Change.liveSwappable`, `Diff.LiveEligible` (and lock.go: the per-pipeline lock serialises
applies, so one apply is a sequential program — assumption).

The lifecycle service is abstract: `StopAndWait`, `Start` and each `ReconfigureProcessor` call
have scripted outcomes (`LiveEnv`); a successful `StopAndWait` leaves the pipeline
`StatusUserStopped` with positions durable (C06's post-condition, assumed here), a successful
`Start` leaves it `StatusRunning`. The plan hash is abstracted as the plan itself (the action
list for the desired config): SHA-256 collision-freeness is an assumption.
-/
namespace Conduit.Ctl

/-- scripted lifecycle outcomes. `reconf`: per `ReconfigureProcessor` call 0 = ok,
1 = `ErrProcessorNotLiveReconfigurable`, anything else = error. -/
structure LiveEnv where
  stopOk  : Bool
  startOk : Bool
  reconf  : List Nat
  /-- an external `Start` (outside provisioning: the per-pipeline lock does not cover it) lands
  between `ApplyPlanLive`'s first read of the running status and its re-read. -/
  becomesRunning : Bool := false
deriving Repr, DecidableEq, Inhabited

/-- observable events of one apply, in order. -/
inductive Ev where
  | stop | start | reconf (id : Id) | commit
deriving Repr, DecidableEq, Inhabited

/-- `Change.liveSwappable`: a processor update that keeps `Workers`, or a pipeline update
touching only name / description. -/
def Act.liveSwappable : Act → Bool
  | .updatePr o n => o.workers = n.workers
  | .updatePl o n => o.dlq = n.dlq && o.conns.map (·.id) = n.conns.map (·.id) && o.procs.map (·.id) = n.procs.map (·.id)
  | _ => false

/-- `provisioning.Change` as far as it is hashed: Resource (0 pipeline, 1 connector, 2 processor),
ID, Action (0 create, 1 update, 2 delete), Effect (`restart` or in-place), ConfigPaths,
LiveSwappable (`Code` is a function of Resource and Action). -/
structure Change where
  res     : Nat
  id      : Id
  act     : Nat
  restart : Bool
  paths   : List String
  live    : Bool
deriving Repr, DecidableEq, Inhabited

/-- `settingsDiffPaths` on the abstract connector settings codes (`0 = {}`, `k = {path: …}`). -/
def cnSettingsPaths (a b : Nat) : List String := if a = b then [] else ["settings.path"]

/-- `settingsDiffPaths` on the processor settings codes (`0 = {}`, `k = {field: …, value: v<k>}`). -/
def prSettingsPaths (a b : Nat) : List String :=
  if a = b then [] else if a = 0 ∨ b = 0 then ["settings.field", "settings.value"] else ["settings.value"]

def pathIf (c : Bool) (p : String) : List String := if c then [p] else []

/-- `action.Describe()` with `diffPipelineFields` / `diffConnectorFields` / `diffProcessorFields`
(`live` is filled in by `planChanges`). -/
def Act.describe : Act → Change
  | .createPl c _ => { res := 0, id := c.id, act := 0, restart := false, paths := [], live := false }
  | .deletePl c _ => { res := 0, id := c.id, act := 2, restart := true, paths := [], live := false }
  | .updatePl o n =>
    let cs := o.conns.map (·.id) ≠ n.conns.map (·.id)
    let ps := o.procs.map (·.id) ≠ n.procs.map (·.id)
    { res := 0, id := o.id, act := 1, restart := cs || ps,
      paths := pathIf (o.name ≠ n.name) "name" ++ pathIf (o.desc ≠ n.desc) "description" ++
               pathIf cs "connectors" ++ pathIf ps "processors" ++ pathIf (o.dlq ≠ n.dlq) "dlq",
      live := false }
  | .createCn c _ => { res := 1, id := c.id, act := 0, restart := true, paths := [], live := false }
  | .deleteCn c _ => { res := 1, id := c.id, act := 2, restart := true, paths := [], live := false }
  | .updateCn o n =>
    { res := 1, id := o.id, act := 1, restart := false,
      paths := pathIf (o.name ≠ n.name) "name" ++ pathIf (o.plugin ≠ n.plugin) "plugin" ++
               pathIf (o.procs.map (·.id) ≠ n.procs.map (·.id)) "processors" ++ cnSettingsPaths o.settings n.settings,
      live := false }
  | .createPr c _ _ => { res := 2, id := c.id, act := 0, restart := true, paths := [], live := false }
  | .deletePr c _ _ => { res := 2, id := c.id, act := 2, restart := true, paths := [], live := false }
  | .updatePr o n =>
    { res := 2, id := o.id, act := 1, restart := false,
      paths := pathIf (o.plugin ≠ n.plugin) "plugin" ++ pathIf (o.workers ≠ n.workers) "workers" ++
               pathIf (o.cond ≠ n.cond) "condition" ++ prSettingsPaths o.settings n.settings,
      live := false }

/-- `Change.liveSwappable`, from Resource / Action / ConfigPaths as the code computes it. -/
def Change.liveSwappable (c : Change) : Bool :=
  if c.res = 2 then c.act = 1 && !c.paths.contains "workers"
  else if c.res = 0 then c.act = 1 && c.paths.all (fun p => p = "name" || p = "description")
  else false

/-- the `Changes` of `Plan(desired)`: describe every action, a brand-new pipeline's changes are
all in-place, then classify live-swappability. -/
def planChanges (v : Variant) (old : Option PipeCfg) (c : PipeCfg) : List Change :=
  ((build v 1 old c).map Act.describe).map fun ch =>
    let ch := if old.isNone then { ch with restart := false } else ch
    { ch with live := ch.liveSwappable }

/-- What `Diff.computeHash` digests: (PipelineID, Changes, Desired). The hash is abstracted as
this view itself (SHA-256 collision-freeness is an assumption). -/
abbrev PlanView := List Change × PipeCfg

def planView (v : Variant) (old : Option PipeCfg) (c : PipeCfg) : PlanView := (planChanges v old c, c)

/-- `Diff.LiveEligible`. -/
def liveEligible (plan : List Act) : Bool := !plan.isEmpty && plan.all Act.liveSwappable

/-- the lifecycle service writes the pipeline status (not a numbered store operation of the apply). -/
def setStatusRaw (id : Id) (st : Nat) (s : St) : St :=
  match s.mem.pls id with
  | none => s
  | some p =>
    let p' := { p with status := st }
    { s with mem := { s.mem with pls := s.mem.pls.set id p' }, kv := { s.kv with pls := s.kv.pls.set id p' } }

/-- `transactionalImport` + the commit event. -/
def tImport (v : Variant) (c : PipeCfg) (s : St) (log : List Ev) : Except Err Unit × St × List Ev :=
  match transactionalImport v c s with
  | (.ok (), s') => (.ok (), s', log ++ [.commit])
  | (.error e, s') => (.error e, s', log)

/-- the swap loop of `applyInPlace`: for every processor-update change call
`ReconfigureProcessor`. Returns `(swappedAll, failed, swapped ids, remaining script, log)`. -/
def swapLoop : List Act → List Nat → List Id → List Ev → Option Bool × List Id × List Nat × List Ev
  | [], script, swapped, log => (some true, swapped, script, log)
  | .updatePr _ n :: rest, script, swapped, log =>
    let log := log ++ [.reconf n.id]
    match script with
    | 0 :: script' => swapLoop rest script' (swapped ++ [n.id]) log
    | 1 :: script' => (some false, swapped, script', log)       -- not live-reconfigurable: fall back
    | [] => swapLoop rest [] (swapped ++ [n.id]) log             -- script exhausted = ok
    | _ :: script' => (none, swapped, script', log)              -- error: roll back
  | _ :: rest, script, swapped, log => swapLoop rest script swapped log

/-- the running status as `isRunning` reads it (a missing pipeline is not running). -/
def runningNow (s : St) (id : Id) : Bool := ((s.mem.pls id).map (fun p => isRunningStatus p.status)).getD false

/-- The window between the two status reads of `ApplyPlanLive`: the first read is taken from
`s`; when it says "not running" the status is read again (TOCTOU close), and an external
`Start` may have landed in between — the state the re-read, the authorisation gate and
everything after them see. -/
def flipState (c : PipeCfg) (env : LiveEnv) (s : St) : St :=
  if !runningNow s c.id && env.becomesRunning then setStatusRaw c.id 1 s else s

/-- `ApplyPlanLive(desired, hash, allowRestartOnRunning)`; `presented` is the plan whose hash
the caller presents (as the view the hash digests: changes with their config paths, and the
desired config). Result, state, event log. Order of the steps as in the source: plan, hash
check, empty check, first status read, re-read when not running, authorisation gate, apply. -/
def applyPlanLive (v : Variant) (c : PipeCfg) (presented : PlanView) (allow : Bool) (env : LiveEnv) (s : St) :
    Except Err Unit × St × List Ev :=
  match exportPl v s.mem c.id with
  | .error e => (.error e, s, [])
  | .ok old =>
    let fresh := build v 1 old c
    if presented ≠ planView v old c then (.error .stale, s, [])
    else if fresh.isEmpty then (.ok (), s, [])
    else
      -- first read (from `s`), re-read when it said "not running" (from the flipped state)
      let s := flipState c env s
      let running := runningNow s c.id
      if running && !allow then (.error .unauth, s, [])
      else if !running then tImport v c s []
      else
        -- running and authorised
        let restart (s : St) (log : List Ev) : Except Err Unit × St × List Ev :=
          let log := log ++ [.stop]
          if !env.stopOk then (.error .life, s, log)
          else
            match tImport v c (setStatusRaw c.id 3 s) log with
            | (.error e, s', log) => (.error e, s', log)
            | (.ok (), s', log) =>
              let log := log ++ [.start]
              if !env.startOk then (.error .life, s', log) else (.ok (), setStatusRaw c.id 1 s', log)
        if liveEligible fresh then
          -- applyInPlace
          match tImport v c s [] with
          | (.error e, s', log) => (.error e, s', log)
          | (.ok (), s', log) =>
            match swapLoop fresh env.reconf [] log with
            | (some true, _, _, log) => (.ok (), s', log)
            | (some false, _, _, log) => restart s' log
            | (none, swapped, _, log) =>
              -- rollbackInPlace: re-import the old config, re-swap what was swapped (errors only logged)
              match old with
              | none => (.error .life, s', log)
              | some o =>
                match tImport v o { s' with ctr := s'.ctr } log with
                | (.ok (), s'', log) => (.error .life, s'', log ++ swapped.map .reconf)
                | (.error _, s'', log) => (.error .life, s'', log)
        else restart s []

end Conduit.Ctl
