/-
C16 — the per-pipeline lock table (`pkg/provisioning/lock.go`, `pipelineLocks`) as an event system.

    func (p *pipelineLocks) Lock(id string) func() {
        p.mu.Lock()
        l, ok := p.locks[id]                       -- lookup
        if !ok { l = &sync.Mutex{}                 -- create
                 p.locks[id] = l }                 -- insert
        p.mu.Unlock()
        l.Lock()                                   -- acquire
        return l.Unlock                            -- (release, deferred by ApplyPlan / ApplyPlanLive)
    }

Callers (one per `ApplyPlan` / `ApplyPlanLive` invocation, any number, each with its pipeline id)
take steps in any interleaving. The statements between `p.mu.Lock()` and `p.mu.Unlock()` form one
atomic step (every access to `p.locks` is inside such a section — regenerated fact — so sections
are atomic with respect to each other); the *section structure* is a parameter (`Shape`: the list
of sections, each a list of the three primitive statements), regenerated from the source, so the
same model describes the code and the variant that splits lookup and insert.

After `acquire` the caller runs the body of the apply, in two steps: `check` (re-plan and compare
the presented hash with the current state — modelled as taking a snapshot of the pipeline's state)
and `apply` (the mutation, a function of the state), then `unlock`.
Core-only.
-/
namespace Conduit.LockTable

abbrev Id := Nat

/-- the three statements of the get-or-create part of `Lock`. -/
inductive Prim where
  | lookup   -- l, ok := p.locks[id]
  | create   -- if !ok { l = &sync.Mutex{} }
  | insert   -- if !ok { p.locks[id] = l }
deriving DecidableEq, Repr, Inhabited

/-- the critical sections of `Lock` before `l.Lock()`, in order; each is executed atomically. -/
abbrev Shape := List (List Prim)

/-- the code: lookup, create and insert inside ONE `p.mu` section. -/
def codeShape : Shape := [[.lookup, .create, .insert]]

/-- the split variant: read-locked lookup, creation outside, write-locked insert, no re-check. -/
def splitShape : Shape := [[.lookup], [.create], [.insert]]

inductive Pc where
  | seg (i : Nat) | acquire | check | apply | unlock | done
deriving DecidableEq, Repr, Inhabited

/-- a caller's locals. `snap`: the pipeline state its plan / hash check was evaluated on. -/
structure Caller (σ : Type) where
  pc   : Pc := .seg 0
  l    : Option Nat := none
  ok   : Bool := false
  snap : Option σ := none

/-- the shared state: the map `p.locks`, who holds which per-id mutex, the allocator, the
pipelines' states, and the callers. -/
structure LT (σ : Type) where
  table : Id → Option Nat
  held  : Nat → Option Nat
  next  : Nat
  st    : Id → σ
  cs    : Nat → Caller σ

/-- a system: section structure, each caller's pipeline id, each caller's apply. -/
structure Sys (σ : Type) where
  shape : Shape
  idOf  : Nat → Id
  f     : Nat → σ → σ

def LT.init {σ} (st0 : Id → σ) : LT σ :=
  { table := fun _ => none, held := fun _ => none, next := 0, st := st0, cs := fun _ => {} }

/-- what a section works on. -/
structure Loc where
  table : Id → Option Nat
  next  : Nat
  l     : Option Nat
  ok    : Bool

def execPrim (id : Id) (x : Loc) : Prim → Loc
  | .lookup => { x with l := x.table id, ok := (x.table id).isSome }
  | .create => if x.ok then x else { x with l := some x.next, next := x.next + 1 }
  | .insert => if x.ok then x else
      match x.l with
      | none => x
      | some m => { x with table := fun j => if j = id then some m else x.table j }

def execSeg (id : Id) (x : Loc) (ps : List Prim) : Loc := ps.foldl (execPrim id) x

def setCaller {σ} (s : LT σ) (c : Nat) (k : Caller σ) : LT σ :=
  { s with cs := fun j => if j = c then k else s.cs j }

/-- one step of caller `c`; `none` = blocked (the mutex is held) or finished. -/
def step {σ} (sys : Sys σ) (s : LT σ) (c : Nat) : Option (LT σ) :=
  let k := s.cs c
  let id := sys.idOf c
  match k.pc with
  | .seg i =>
    match sys.shape[i]? with
    | none => some (setCaller s c { k with pc := .acquire })
    | some ps =>
      let x := execSeg id { table := s.table, next := s.next, l := k.l, ok := k.ok } ps
      let pc' := if i + 1 < sys.shape.length then Pc.seg (i + 1) else Pc.acquire
      some (setCaller { s with table := x.table, next := x.next } c { k with pc := pc', l := x.l, ok := x.ok })
  | .acquire =>
    match k.l with
    | none => none
    | some m =>
      match s.held m with
      | some _ => none
      | none => some (setCaller { s with held := fun j => if j = m then some c else s.held j } c { k with pc := .check })
  | .check => some (setCaller s c { k with pc := .apply, snap := some (s.st id) })
  | .apply =>
    some (setCaller { s with st := fun j => if j = id then sys.f c (s.st id) else s.st j } c { k with pc := .unlock })
  | .unlock =>
    match k.l with
    | none => none
    | some m => some (setCaller { s with held := fun j => if j = m then none else s.held j } c { k with pc := .done })
  | .done => none

/-- a schedule = which caller moves next; a blocked / finished caller's turn is a no-op. -/
def run {σ} (sys : Sys σ) : LT σ → List Nat → LT σ
  | s, [] => s
  | s, c :: rest => run sys ((step sys s c).getD s) rest

/-- the caller is inside the per-id section (holds the mutex it obtained). -/
def holds {σ} (s : LT σ) (c : Nat) : Prop :=
  (s.cs c).pc = .check ∨ (s.cs c).pc = .apply ∨ (s.cs c).pc = .unlock

def holdsB {σ} (s : LT σ) (c : Nat) : Bool :=
  match (s.cs c).pc with
  | .check | .apply | .unlock => true
  | _ => false

/-! ### the regenerated section structure as a `Shape` -/

def primOfString : String → Option Prim
  | "lookup" => some .lookup
  | "create" => some .create
  | "insert" => some .insert
  | _ => none

/-- `Generated.Gate.lockSegments` → `Shape`: a `p.mu` section is one atomic step (a read-locked
one may only look up); a get-or-create statement outside any section is a step of its own; the
tail must be `l.Lock()` / `return l.Unlock` outside. Anything else: `none`. -/
def shapeOfSegments : List (String × List String) → Option Shape
  | [] => none
  | [("-", ["acquire", "return-release"])] => some []
  | (kind, stmts) :: rest =>
    match stmts.mapM primOfString, shapeOfSegments rest with
    | some ps, some r =>
      if kind = "-" then some (ps.map (fun p => [p]) ++ r)
      else if kind = "Lock" then some (ps :: r)
      else if kind = "RLock" && ps.all (· == .lookup) then some (ps :: r)
      else none
    | _, _ => none

end Conduit.LockTable
