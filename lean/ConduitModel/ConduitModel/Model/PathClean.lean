/-
M7 — `path/filepath` on Unix as used by `pkg/registry/extract.go`: `Clean`, `Join`, `IsAbs`, `Dir`.

A path is a Go `string`, i.e. a list of bytes (`Nat` here; the theorems hold for every list of
naturals, a superset of byte strings). `Clean` is modelled on path *elements* (the pieces between
separators), which is how the Go loop works: its read index `r` only ever stands at the start of an
element or on a separator, `out` is a stack of elements and `dotdot` marks the end of the leading
`../..` prefix (non-rooted) or the root slash (rooted).

  Go (`path/filepath/path.go`, `Clean`)                         model
  ------------------------------------------------------------  -------------------------------
  `os.IsPathSeparator(path[r])`        → `r++`                   element `""`  → skipped
  `.` followed by sep/end              → `r++`                   element `"."` → skipped
  `..` followed by sep/end, `out.w > dotdot` → backtrack         top of stack is a normal element → pop
                            `!rooted`  → append `..`, move mark  stack empty / top is `..`, not rooted → push `..`
                            rooted     → nothing                 rooted, stack empty → nothing
  default: copy element                                          push element
  `out.w == 0` → `"."`                                           empty stack, not rooted → `"."`

Validated against the real `filepath.Clean/Join/IsAbs/Dir` by the `pathclean` correspondence.
Core-only.
-/
namespace Conduit.Registry

abbrev Path := List Nat
abbrev Seg := List Nat

def slash : Nat := 47
def dotc : Nat := 46

def dotSeg : Seg := [dotc]
def dotdotSeg : Seg := [dotc, dotc]

/-- put byte `c` in front of the first element. -/
def consHead (c : Nat) : List Seg → List Seg
  | [] => [[c]]
  | s :: ss => (c :: s) :: ss

/-- `strings.Split(p, "/")`: the elements between separators (always at least one). -/
def splitSlash : Path → List Seg
  | [] => [[]]
  | c :: cs => if c = slash then [] :: splitSlash cs else consHead c (splitSlash cs)

/-- `strings.Join(segs, "/")`. -/
def joinSlash : List Seg → Path
  | [] => []
  | [s] => s
  | s :: t :: ts => s ++ slash :: joinSlash (t :: ts)

/-- `filepath.IsAbs` (Unix): `strings.HasPrefix(path, "/")`. -/
def isAbs (p : Path) : Bool := p.head? == some slash

/-- One turn of the `Clean` loop on element `e`; `stk` is the output stack, top first. -/
def cleanStep (rooted : Bool) (stk : List Seg) (e : Seg) : List Seg :=
  if e = [] ∨ e = dotSeg then stk
  else if e = dotdotSeg then
    match stk with
    | [] => if rooted then [] else [dotdotSeg]
    | top :: rest => if top = dotdotSeg then dotdotSeg :: stk else rest
  else e :: stk

/-- the element stack (bottom first) `Clean` ends with. -/
def cleanSegs (p : Path) : List Seg :=
  ((splitSlash p).foldl (cleanStep (isAbs p)) []).reverse

/-- `filepath.Clean` (Unix). -/
def clean (p : Path) : Path :=
  let segs := cleanSegs p
  if isAbs p then slash :: joinSlash segs
  else if segs = [] then dotSeg else joinSlash segs

/-- `filepath.Join(a, b)` for non-empty `a`: `Clean(a + "/" + b)`; for empty `a`, `Clean(b)` unless
`b` is empty too (then `""`). -/
def join2 (a b : Path) : Path :=
  if a ≠ [] then clean (a ++ slash :: b)
  else if b ≠ [] then clean b else []

/-- index of the last separator + 1 (`0` if none): the `i+1` of `filepath.Dir`. -/
def dirCut (p : Path) : Path :=
  -- keep everything up to and including the last separator
  let r := p.reverse.dropWhile (· ≠ slash)
  r.reverse

/-- `filepath.Dir` (Unix): `Clean(path[:lastSep+1])`. -/
def dir (p : Path) : Path := clean (dirCut p)

/-- `strings.HasPrefix`. -/
def hasPrefix (p pre : Path) : Bool := pre.isPrefixOf p

/-- `strings.Contains(p, "/")`. -/
def containsSlash (p : Path) : Bool := p.contains slash

end Conduit.Registry
