import ConduitModel.Model.PathClean

/-
M7 — Go's `filepath.Clean` (Unix) *as the byte-level loop it is* (`path/filepath/path.go`): read
index `r` (here: the unread suffix `rest`), write buffer `out` with `w = len` (here: the reversed
buffer `rout`, so "`w--`" drops the head), `dotdot` (index in `out` where `..` must stop), `rooted`.
`Proofs/PathCleanBytes.lean` proves it equal to the element-level model `clean` of
`Model/PathClean.lean`, which is what the confinement theorems are about. Core-only.
-/
namespace Conduit.Registry

/-- `r == n || os.IsPathSeparator(path[r])` for the unread suffix. -/
def elemEnd : Path → Bool
  | [] => true
  | c :: _ => c == slash

/-- the backtracking of the `..` case when `out.w > dotdot`:
`out.w--; for out.w > dotdot && !os.IsPathSeparator(out.index(out.w)) { out.w-- }`. -/
def backtrack : List Nat → Nat → List Nat
  | [], _ => []
  | h :: t, dd => if dd < t.length ∧ h ≠ slash then backtrack t dd else t

/-- the `for r < n` loop; `fuel` bounds the iterations (each consumes at least one byte). -/
def cleanLoop (rooted : Bool) : Nat → Path → List Nat → Nat → List Nat
  | 0, _, rout, _ => rout
  | _ + 1, [], rout, _ => rout
  | fuel + 1, c :: rest, rout, dd =>
    if c = slash then
      -- empty path element
      cleanLoop rooted fuel rest rout dd
    else if c = dotc ∧ elemEnd rest = true then
      -- . element
      cleanLoop rooted fuel rest rout dd
    else if c = dotc ∧ rest.head? = some dotc ∧ elemEnd (rest.drop 1) = true then
      -- .. element: remove to last separator
      if dd < rout.length then
        cleanLoop rooted fuel (rest.drop 1) (backtrack rout dd) dd
      else if rooted = false then
        let rout1 := if 0 < rout.length then slash :: rout else rout
        let rout2 := dotc :: dotc :: rout1
        cleanLoop rooted fuel (rest.drop 1) rout2 rout2.length
      else
        cleanLoop rooted fuel (rest.drop 1) rout dd
    else
      -- real path element: add slash if needed, copy element
      let rout1 := if (rooted = true ∧ rout.length ≠ 1) ∨ (rooted = false ∧ rout.length ≠ 0) then slash :: rout else rout
      let elem := (c :: rest).takeWhile (· ≠ slash)
      cleanLoop rooted fuel ((c :: rest).dropWhile (· ≠ slash)) (elem.reverse ++ rout1) dd

/-- `filepath.Clean` byte by byte. -/
def cleanBytes (p : Path) : Path :=
  match p with
  | [] => dotSeg
  | c :: rest =>
    let rooted := c == slash
    let rout := if rooted then cleanLoop true (p.length + 1) rest [slash] 1
                else cleanLoop false (p.length + 1) p [] 0
    if rout = [] then dotSeg else rout.reverse

end Conduit.Registry
