/-
M4 (part) — `stream.ProcessorNode` with live reconfiguration, as an event system.

Mirrors /repo/pkg/lifecycle/stream/processor.go:
  * `ProcessorNode.Run`            loop: `applyPendingSwap`; `select {ctx.Done | wake | in}`; `Process`;
                                   `handleProcessedRecord` / `handleSingleRecord` (Send / Nack); deferred `Teardown`
  * `ProcessorNode.Reconfigure`    stage under `swapMu` (busy guard), non-blocking wake, wait `done | ctx.Done`,
                                   withdraw on cancel iff `pending.done == done`
  * `ProcessorNode.applyPendingSwap` claim under `swapMu`; `Open` new; assign `n.Processor`; `teardownForReconfigure(old)`;
                                   `done <- nil`  |  open failed: `teardownForReconfigure(new)`; `done <- err`
  * `teardownForReconfigure` / `RunnableProcessor.TeardownForReconfigure` (keeps `Instance.running`)
and `RunnableProcessor.Teardown` (clears `Instance.running`) in /repo/pkg/processor/runnable_processor.go.

Atomicity (DESIGN §6): one step = one critical section, one channel operation, or one call into a
processor / ack handler. Processor identities ("generations") are natural numbers: the node is built with
processor `0`; the Reconfigure request with id `r ≥ 1` brings processor `r` (a fresh runnable per request, as
`lifecycle.Service.ReconfigureProcessor` builds it).

The code is modelled AS IT IS: e.g. a request staged after the Run loop has exited is never claimed (its
caller returns only through its own context), a cancelled request that the loop already claimed still
completes its swap.

Core-only (no Mathlib): linked into the driver.
-/
namespace Conduit.Model.ProcNode

/-- value returned by `Reconfigure` to its caller. -/
inductive Res
  | ok          -- swap applied (`done <- nil`)
  | openErr     -- new processor failed to open, old one kept (`done <- err`)
  | rejected    -- "a processor reconfigure is already in progress"
  | cancelled   -- `ctx.Err()`
deriving DecidableEq, Repr, Inhabited, Hashable

/-- where the goroutine that called `Reconfigure` for request `r` is. -/
inductive CSt
  | idle                    -- not called yet
  | staged                  -- `n.pending = &pendingSwap{…}` done, wake not yet sent
  | waiting                 -- in the final `select { <-done | <-ctx.Done() }`
  | returned (res : Res)
deriving DecidableEq, Repr, Inhabited, Hashable

/-- shape of the `[]sdk.ProcessedRecord` returned by `Process`, as routed by `Run` /
`handleProcessedRecord` / `handleSingleRecord`. -/
inductive Kind
  | single       -- `sdk.SingleRecord`, position unchanged
  | posChanged   -- `sdk.SingleRecord` with a different position (refused)
  | filter       -- `sdk.FilterRecord`
  | error        -- `sdk.ErrorRecord`
  | multi        -- `sdk.MultiRecord` (fan-out, fatal in this engine)
  | unknown      -- any other type (fatal)
  | wrongCount   -- `len(recsOut) != 1` (fatal)
deriving DecidableEq, Repr, Inhabited, Hashable

/-- how a forwarded message left the node. -/
inductive Fwd
  | single        -- processed, record replaced by the processor's output
  | filtered      -- processed, marked filtered by this node
  | passthrough   -- arrived already filtered (`msg.filtered`), not processed by this node
deriving DecidableEq, Repr, Inhabited, Hashable

/-- why the node nacks the record it holds; decides how the loop continues. -/
inductive NackWhy
  | errorRecord   -- continue if the nack handlers succeed, fatal otherwise
  | posChanged    -- node stops with the (non-fatal) error either way
  | fatalKind     -- multi / unknown / wrong count: node stops (fatal)
  | sendFailed    -- `Send` returned ctx.Err(): node stops with the nack's result
deriving DecidableEq, Repr, Inhabited, Hashable

inductive Fate
  | forwarded
  | nacked
deriving DecidableEq, Repr, Inhabited, Hashable

/-- the one outcome the node gives a record. -/
structure Outcome where
  idx  : Nat
  fwd  : Fwd      -- processing class (for a nacked record: the class it had when it was nacked)
  fate : Fate
deriving DecidableEq, Repr, Inhabited, Hashable

/-- a `Process` call: record `idx` was handed to processor `gen` in configuration epoch `ep`
(`ep` = number of successful swaps before the call). -/
structure Stamp where
  idx : Nat
  gen : Nat
  ep  : Nat
deriving DecidableEq, Repr, Inhabited, Hashable

/-- return value class of `Run`. -/
inductive ExitC
  | clean   -- nil
  | ctx     -- ctx.Err()
  | err     -- any other error (fatal or not)
deriving DecidableEq, Repr, Inhabited, Hashable

/-- program counter of the Run goroutine. -/
inductive Pc
  | init                                   -- before `n.Processor.Open`
  | atApply                                -- top of the `for`: about to run `applyPendingSwap`
  | opening (r : Nat)                      -- claimed request `r`, inside / before `p.newProcessor.Open`
  | tearOld (old r : Nat)                  -- swapped, about to `teardownForReconfigure(old)`
  | tearNew (r : Nat)                      -- open failed, about to `teardownForReconfigure(new)`
  | delivering (r : Nat) (res : Res)       -- about to `p.done <- …`
  | atSelect                               -- blocked in the `select`
  | processing (i : Nat)                   -- inside `n.Processor.Process` for record `i`
  | sending (i : Nat) (f : Fwd)            -- inside `base.Send` for record `i`
  | nacking (i : Nat) (f : Fwd) (why : NackWhy)  -- about to call `msg.Nack`
  | finalTd                                -- deferred `n.Processor.Teardown`
  | exited
deriving DecidableEq, Repr, Inhabited, Hashable

/-- the record the node currently holds, if any. -/
def Pc.inflight : Pc → Option Nat
  | .processing i => some i
  | .sending i _ => some i
  | .nacking i _ _ => some i
  | _ => none

/-- the request whose swap the loop is currently applying, if any. -/
def Pc.req : Pc → Option Nat
  | .opening r => some r
  | .tearOld _ r => some r
  | .tearNew r => some r
  | .delivering r _ => some r
  | _ => none

structure State where
  pc       : Pc
  /-- `n.Processor` (identity of the processor the loop uses). -/
  cur      : Nat
  /-- `n.pending` (request id; the request's processor has the same number). -/
  pending  : Option Nat
  /-- a token sits in `wakeCh` (cap 1). -/
  wake     : Bool
  /-- per request: state of the calling goroutine. -/
  cst      : Nat → CSt
  /-- per request: content of its `done` channel (cap 1). -/
  done     : Nat → Option Res
  /-- number of records received from `in` so far (records are numbered in arrival order). -/
  nextIn   : Nat
  /-- `Process` calls, newest first. -/
  log      : List Stamp
  /-- every value `n.Processor` has had, oldest first (`cur` is the last). -/
  hist     : List Nat
  /-- record outcomes, newest first. -/
  outc     : List Outcome
  /-- processors on which `Open` was called, newest first. -/
  opened   : List Nat
  /-- teardown calls `(processor, plain)`, newest first; `plain = true` is `Teardown`
  (clears `Instance.running`), `false` is `TeardownForReconfigure`. -/
  torn     : List (Nat × Bool)
  /-- `Instance.running` (set by `MakeRunnableProcessor` before the node runs). -/
  instRunning : Bool
  /-- requests the loop took out of `n.pending`, newest first. -/
  claimed  : List Nat
  /-- requests withdrawn by their cancelled caller (ghost), newest first. -/
  withdrawn : List Nat
  exitc    : Option ExitC

def upd {α : Type} (f : Nat → α) (r : Nat) (v : α) : Nat → α := fun x => if x = r then v else f x

@[simp] theorem upd_same {α : Type} (f : Nat → α) (r : Nat) (v : α) : upd f r v r = v := by simp [upd]
theorem upd_other {α : Type} (f : Nat → α) {r x : Nat} (v : α) (h : x ≠ r) : upd f r v x = f x := by simp [upd, h]

def init : State :=
  { pc := .init, cur := 0, pending := none, wake := false, cst := fun _ => .idle, done := fun _ => none,
    nextIn := 0, log := [], hist := [0], outc := [], opened := [], torn := [], instRunning := true,
    claimed := [], withdrawn := [], exitc := none }

inductive Event
  -- goroutine calling `Reconfigure` for request `r`
  | stage (r : Nat)       -- swapMu section: busy guard, `n.pending = …`
  | wakeSend (r : Nat)    -- `select { case wake <- struct{}{}: default: }`
  | doneRecv (r : Nat)    -- `case err := <-done`
  | cancel (r : Nat)      -- `case <-ctx.Done()`: swapMu section withdrawing iff still ours
  -- Run goroutine
  | runOpen (ok : Bool)           -- `n.Processor.Open(ctx)` at the start of Run
  | claim                         -- `applyPendingSwap`: swapMu section `p := n.pending; n.pending = nil`
  | openNew (g : Nat) (ok : Bool) -- `p.newProcessor.Open(ctx)` (+ `n.Processor = p.newProcessor` when ok)
  | teardownRc (g : Nat)          -- `teardownForReconfigure(ctx, g)`
  | deliver                       -- `p.done <- …`
  | wakeRecv                      -- `case <-wake: continue`
  | procCall (g i : Nat)          -- `case m := <-in` (not filtered) … `n.Processor.Process(…)` entered on processor g
  | recvPre (i : Nat)             -- `case m := <-in` with `msg.filtered`
  | inClosed                      -- `case m, ok := <-in; !ok`
  | ctxDone                       -- `case <-ctx.Done()`
  | procRet (k : Kind)            -- `Process` returned; routed
  | sendOk                        -- `out <- msg`
  | sendCtxDone                   -- `Send` returned ctx.Err()
  | nack (ok : Bool)              -- `msg.Nack(…)`; ok = handlers returned nil
  | finalTeardown (g : Nat)       -- deferred `n.Processor.Teardown(ctx)`
deriving DecidableEq, Repr, Inhabited, Hashable

/-- continuation of the loop after `msg.Nack` returned.
`sendFailed`: both `Run` (already-filtered message) and `handleSingleRecord` / `handleProcessedRecord`
(processed message) do `return msg.Nack(err, n.ID())`. In `Run` a nil result ends the node with nil; in the
helpers a nil result is "continue the run loop", so the loop goes on (to `applyPendingSwap` and a `select`
whose `ctx.Done()` is ready). -/
def afterNack (f : Fwd) (why : NackWhy) (ok : Bool) : Pc × Option ExitC :=
  match why, ok, f with
  | .errorRecord, true, _ => (.atApply, none)
  | .sendFailed, true, .passthrough => (.finalTd, some .clean)
  | .sendFailed, true, _ => (.atApply, none)
  | _, _, _ => (.finalTd, some .err)

/-- routing of a `Process` result (`Run`, `handleProcessedRecord`, `handleSingleRecord`). -/
def route (i : Nat) : Kind → Pc
  | .single => .sending i .single
  | .filter => .sending i .filtered
  | .error => .nacking i .single .errorRecord
  | .posChanged => .nacking i .single .posChanged
  | .multi => .nacking i .single .fatalKind
  | .unknown => .nacking i .single .fatalKind
  | .wrongCount => .nacking i .single .fatalKind

def step (s : State) : Event → Option State
  | .stage r =>
    if s.cst r = .idle ∧ r ≠ 0 then
      match s.pending with
      | some _ => some { s with cst := upd s.cst r (.returned .rejected) }
      | none => some { s with pending := some r, cst := upd s.cst r .staged }
    else none
  | .wakeSend r =>
    if s.cst r = .staged then some { s with wake := true, cst := upd s.cst r .waiting } else none
  | .doneRecv r =>
    if s.cst r = .waiting then
      match s.done r with
      | some res => some { s with done := upd s.done r none, cst := upd s.cst r (.returned res) }
      | none => none
    else none
  | .cancel r =>
    if s.cst r = .waiting then
      if s.pending = some r then
        some { s with pending := none, withdrawn := r :: s.withdrawn, cst := upd s.cst r (.returned .cancelled) }
      else some { s with cst := upd s.cst r (.returned .cancelled) }
    else none
  | .runOpen ok =>
    if s.pc = .init then
      if ok then some { s with opened := s.cur :: s.opened, pc := .atApply }
      else some { s with opened := s.cur :: s.opened, pc := .finalTd, exitc := some .err }
    else none
  | .claim =>
    if s.pc = .atApply then
      match s.pending with
      | none => some { s with pc := .atSelect }
      | some r => some { s with pending := none, claimed := r :: s.claimed, pc := .opening r }
    else none
  | .openNew g ok =>
    if s.pc = .opening g then
      if ok then some { s with opened := g :: s.opened, cur := g, hist := s.hist ++ [g], pc := .tearOld s.cur g }
      else some { s with opened := g :: s.opened, pc := .tearNew g }
    else none
  | .teardownRc g =>
    match s.pc with
    | .tearOld old r => if g = old then some { s with torn := (g, false) :: s.torn, pc := .delivering r .ok } else none
    | .tearNew r => if g = r then some { s with torn := (g, false) :: s.torn, pc := .delivering r .openErr } else none
    | _ => none
  | .deliver =>
    match s.pc with
    | .delivering r res =>
      if s.done r = none then some { s with done := upd s.done r (some res), pc := .atSelect } else none
    | _ => none
  | .wakeRecv =>
    if s.pc = .atSelect ∧ s.wake = true then some { s with wake := false, pc := .atApply } else none
  | .procCall g i =>
    if s.pc = .atSelect ∧ g = s.cur ∧ i = s.nextIn then
      some { s with nextIn := i + 1, log := ⟨i, g, s.hist.length - 1⟩ :: s.log, pc := .processing i }
    else none
  | .recvPre i =>
    if s.pc = .atSelect ∧ i = s.nextIn then some { s with nextIn := i + 1, pc := .sending i .passthrough } else none
  | .inClosed =>
    if s.pc = .atSelect then some { s with pc := .finalTd, exitc := some .clean } else none
  | .ctxDone =>
    if s.pc = .atSelect then some { s with pc := .finalTd, exitc := some .ctx } else none
  | .procRet k =>
    match s.pc with
    | .processing i => some { s with pc := route i k }
    | _ => none
  | .sendOk =>
    match s.pc with
    | .sending i f => some { s with outc := ⟨i, f, .forwarded⟩ :: s.outc, pc := .atApply }
    | _ => none
  | .sendCtxDone =>
    match s.pc with
    | .sending i f => some { s with pc := .nacking i f .sendFailed }
    | _ => none
  | .nack ok =>
    match s.pc with
    | .nacking i f why =>
      some { s with outc := ⟨i, f, .nacked⟩ :: s.outc, pc := (afterNack f why ok).1,
                    exitc := match (afterNack f why ok).2 with | some c => some c | none => s.exitc }
    | _ => none
  | .finalTeardown g =>
    if s.pc = .finalTd ∧ g = s.cur then
      some { s with torn := (g, true) :: s.torn, instRunning := false, pc := .exited }
    else none

/-- run an event list; `none` as soon as an event is not enabled. -/
def run : State → List Event → Option State
  | s, [] => some s
  | s, e :: es => match step s e with
    | some s' => run s' es
    | none => none

/-- states reachable from `init` by any event list (any interleaving of callers and loop). -/
def Reachable (s : State) : Prop := ∃ es, run init es = some s

end Conduit.Model.ProcNode
