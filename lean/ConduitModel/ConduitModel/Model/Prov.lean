import ConduitModel.Model.Ctl

/-
M6, provisioning part: Export, the actions builder, the import actions with Do/Rollback, the
import frame (execute; on failure roll back the executed prefix *including the failed action*,
most recent first, ignoring rollback errors), `transactionalImport` and `Plan` / `ApplyPlan`.

Mirrors:
  * /repo/pkg/provisioning/export.go          `Export`, `…ToConfig`
  * /repo/pkg/provisioning/import.go          `importPipeline`, `executeActions`, `rollbackActions`,
                                              `actionsBuilder.{Build,buildForOldConfig,buildForNewConfig,prepare…Actions}`
  * /repo/pkg/provisioning/import_actions.go  the nine actions
  * /repo/pkg/provisioning/plan.go            `Plan`, `ApplyPlan`, `transactionalImport`, `isRunningStatus`

`cmp.Equal` on configs is structural equality of the abstract codes (nested lists compared by
id where the code installs an id comparer). Core-only.
-/
namespace Conduit.Ctl

structure ProcCfg where
  id       : Id
  plugin   : Nat
  settings : Nat
  workers  : Int
  cond     : Nat
deriving Repr, DecidableEq, Inhabited

structure ConnCfg where
  id       : Id
  typ      : Nat
  plugin   : Nat
  name     : Nat
  settings : Nat
  procs    : List ProcCfg
deriving Repr, DecidableEq, Inhabited

/-- `config.Pipeline` (Status is ignored by the diff and always exported as "stopped"). -/
structure PipeCfg where
  id    : Id
  name  : Nat
  desc  : Nat
  dlq   : Dlq
  conns : List ConnCfg
  procs : List ProcCfg
deriving Repr, DecidableEq, Inhabited

/-! ## Export -/

/-- `processorToConfig` (`Condition` only in the repaired variant). -/
def procToCfg (v : Variant) (id : Id) (r : Pr) : ProcCfg :=
  { id, plugin := r.plugin, settings := r.settings, workers := r.workers,
    cond := if v.condExported then r.cond else 0 }

/-- `exportProcessors`: a missing processor is an error ("state corrupted"). -/
def exportProcs (v : Variant) (m : Mem) : List Id → Except Err (List ProcCfg)
  | [] => .ok []
  | id :: rest =>
    match m.prs id with
    | none => .error .nf
    | some r => match exportProcs v m rest with
      | .error e => .error e
      | .ok l => .ok (procToCfg v id r :: l)

def exportConns (v : Variant) (m : Mem) : List Id → Except Err (List ConnCfg)
  | [] => .ok []
  | id :: rest =>
    match m.cns id with
    | none => .error .nf
    | some c =>
      match exportProcs v m c.procs with
      | .error e => .error e
      | .ok ps =>
        match exportConns v m rest with
        | .error e => .error e
        | .ok l => .ok ({ id, typ := c.typ, plugin := c.plugin, name := c.name, settings := c.settings, procs := ps } :: l)

/-- `Export`: `none` = `pipeline.ErrInstanceNotFound`. -/
def exportPl (v : Variant) (m : Mem) (pid : Id) : Except Err (Option PipeCfg) :=
  match m.pls pid with
  | none => .ok none
  | some p =>
    match exportConns v m p.conns with
    | .error e => .error e
    | .ok cs =>
      match exportProcs v m p.procs with
      | .error e => .error e
      | .ok ps => .ok (some { id := pid, name := p.name, desc := p.desc, dlq := p.dlq, conns := cs, procs := ps })

/-! ## actions -/

inductive Act where
  | createPl (c : PipeCfg) (prov : Nat)
  | deletePl (c : PipeCfg) (prov : Nat)
  | updatePl (old new : PipeCfg)
  | createCn (c : ConnCfg) (pid : Id)
  | deleteCn (c : ConnCfg) (pid : Id)
  | updateCn (old new : ConnCfg)
  | createPr (c : ProcCfg) (ptype : Nat) (parent : Id)
  | deletePr (c : ProcCfg) (ptype : Nat) (parent : Id)
  | updatePr (old new : ProcCfg)
deriving Repr, DecidableEq, Inhabited

def findConn (l : List ConnCfg) (id : Id) : Option ConnCfg := l.find? (·.id = id)
def findProc (l : List ProcCfg) (id : Id) : Option ProcCfg := l.find? (·.id = id)

/-- `preparePipelineActions`: compare ignoring Status, nested configs by id only. -/
def preparePl (prov : Nat) (old new : Option PipeCfg) : List Act :=
  match old, new with
  | none, some n => [.createPl n prov]
  | some o, none => [.deletePl o prov]
  | some o, some n =>
    if o.id = n.id ∧ o.name = n.name ∧ o.desc = n.desc ∧ o.dlq = n.dlq ∧
       o.conns.map (·.id) = n.conns.map (·.id) ∧ o.procs.map (·.id) = n.procs.map (·.id) then []
    else [.updatePl o n]
  | none, none => []

/-- `prepareConnectorActions`: equal (processors by id) → nothing; only mutable fields differ
(everything but `Type`; `ID` is equal by construction) → update; else delete + create. -/
def prepareCn (old new : Option ConnCfg) (pid : Id) : List Act :=
  match old, new with
  | none, some n => [.createCn n pid]
  | some o, none => [.deleteCn o pid]
  | some o, some n =>
    if o.id = n.id ∧ o.typ = n.typ ∧ o.plugin = n.plugin ∧ o.name = n.name ∧ o.settings = n.settings ∧
       o.procs.map (·.id) = n.procs.map (·.id) then []
    else if o.id = n.id ∧ o.typ = n.typ then [.updateCn o n]
    else [.deleteCn o pid, .createCn n pid]
  | none, none => []

/-- `prepareProcessorActions`: `cmp.Equal` on the whole processor config. In the repaired
variant a `Condition` change re-creates the processor. -/
def preparePr (v : Variant) (old new : Option ProcCfg) (ptype : Nat) (parent : Id) : List Act :=
  match old, new with
  | none, some n => [.createPr n ptype parent]
  | some o, none => [.deletePr o ptype parent]
  | some o, some n =>
    if o = n then []
    else if v.condRecreates ∧ o.cond ≠ n.cond then [.deletePr o ptype parent, .createPr n ptype parent]
    else [.updatePr o n]
  | none, none => []

/-- `buildForOldConfig` before the final reversal. -/
def buildOldFwd (v : Variant) (old : PipeCfg) (new : Option PipeCfg) : List Act :=
  let newConns := (new.map (·.conns)).getD []
  let newProcs := (new.map (·.procs)).getD []
  (old.conns.flatMap fun co =>
    let cn := findConn newConns co.id
    (if cn.isNone then prepareCn (some co) none old.id else []) ++
    (co.procs.flatMap fun po =>
      if (findProc ((cn.map (·.procs)).getD []) po.id).isNone then preparePr v (some po) none 1 co.id else [])) ++
  (old.procs.flatMap fun po =>
    if (findProc newProcs po.id).isNone then preparePr v (some po) none 2 old.id else [])

/-- `buildForNewConfig`. -/
def buildNew (v : Variant) (prov : Nat) (old : Option PipeCfg) (new : PipeCfg) : List Act :=
  let oldConns := (old.map (·.conns)).getD []
  let oldProcs := (old.map (·.procs)).getD []
  preparePl prov old (some new) ++
  (new.conns.flatMap fun cn =>
    let co := findConn oldConns cn.id
    prepareCn co (some cn) new.id ++
    (cn.procs.flatMap fun pn => preparePr v (findProc ((co.map (·.procs)).getD []) pn.id) (some pn) 1 cn.id)) ++
  (new.procs.flatMap fun pn => preparePr v (findProc oldProcs pn.id) (some pn) 2 new.id)

/-- `Build(old, new)` for a present new config (the import path). -/
def build (v : Variant) (prov : Nat) (old : Option PipeCfg) (new : PipeCfg) : List Act :=
  (match old with
   | some o => (buildOldFwd v o (some new)).reverse
   | none => []) ++ buildNew v prov old new

/-! ## Do / Rollback -/

/-- run service calls in order, stop at the first error. -/
def seqM : List (M Unit) → M Unit
  | [] => fun s => (.ok (), s)
  | a :: rest => fun s =>
    match a s with
    | (.ok (), s') => seqM rest s'
    | (.error e, s') => (.error e, s')

/-- ignore `ErrInstanceNotFound` ("the action failed to create it in the first place"). -/
def ignoreNf (a : M Unit) : M Unit := fun s =>
  match a s with
  | (.error .nf, s') => (.ok (), s')
  | r => r

def createPlDo (v : Variant) (c : PipeCfg) (prov : Nat) : M Unit :=
  seqM ([ (svcPlCreate c.id c.name c.desc prov).run, (svcPlUpdateDLQ v c.id c.dlq).run ] ++
        c.conns.map (fun x => (svcPlAddConn v c.id x.id).run) ++
        c.procs.map (fun x => (svcPlAddProc v c.id x.id).run))

def createPlUndo (c : PipeCfg) : M Unit := ignoreNf (svcPlDelete c.id).run

def createCnDo (v : Variant) (c : ConnCfg) (pid : Id) : M Unit :=
  seqM ((svcCnCreate c.id c.typ c.plugin pid c.name c.settings 1 0).run ::
        c.procs.map (fun x => (svcCnAddProc v c.id x.id).run))

def createCnUndo (c : ConnCfg) : M Unit := ignoreNf (svcCnDelete c.id).run

def createPrDo (c : ProcCfg) (ptype : Nat) (parent : Id) : M Unit :=
  (svcPrCreate c.id c.plugin ptype parent c.settings c.workers 1 c.cond).run

def createPrUndo (c : ProcCfg) : M Unit := ignoreNf (svcPrDelete c.id).run

/-- `updatePipelineAction.update`: Update, UpdateDLQ, then — if the id lists differ — remove every
current id (iterating over a *copy*) and add the config's ids; same for processors. -/
def updatePlRun (v : Variant) (c : PipeCfg) : M Unit :=
  seqM [ (svcPlUpdate v c.id c.name c.desc).run, (svcPlUpdateDLQ v c.id c.dlq).run,
    (fun s =>
      match s.mem.pls c.id with
      | none => (.error .nf, s)
      | some p =>
        if p.conns = c.conns.map (·.id) then (.ok (), s)
        else seqM (p.conns.map (fun x => (svcPlRemConn v c.id x).run) ++
                   c.conns.map (fun x => (svcPlAddConn v c.id x.id).run)) s),
    (fun s =>
      match s.mem.pls c.id with
      | none => (.error .nf, s)
      | some p =>
        if p.procs = c.procs.map (·.id) then (.ok (), s)
        else seqM (p.procs.map (fun x => (svcPlRemProc v c.id x).run) ++
                   c.procs.map (fun x => (svcPlAddProc v c.id x.id).run)) s) ]

/-- The remove loop of `updateConnectorAction.update` as found: `for _, procID := range
c.ProcessorIDs` evaluates the slice header once (length `n`, shared backing array) while
`RemoveProcessor` shifts the array in place. `backing` is the array content, `i` the index. -/
def aliasedRemoveLoop (v : Variant) (cid : Id) : Nat → Nat → List Id → M Unit
  | 0, _, _ => fun s => (.ok (), s)
  | fuel + 1, i, backing => fun s =>
    match backing[i]? with
    | none => (.ok (), s)
    | some rid =>
      match (svcCnRemProc v cid rid).run s with
      | (.error e, s') => (.error e, s')
      | (.ok (), s') =>
        let cur := ((s'.mem.cns cid).map (·.procs)).getD []
        aliasedRemoveLoop v cid fuel (i + 1) (cur ++ backing.drop cur.length) s'

/-- `updateConnectorAction.update`. -/
def updateCnRun (v : Variant) (c : ConnCfg) : M Unit :=
  seqM [ (svcCnUpdate v c.id c.plugin c.name c.settings).run,
    (fun s =>
      match s.mem.cns c.id with
      | none => (.error .nf, s)
      | some cn =>
        if cn.procs = c.procs.map (·.id) then (.ok (), s)
        else seqM [ (if v.updConnCopies then seqM (cn.procs.map (fun x => (svcCnRemProc v c.id x).run))
                     else aliasedRemoveLoop v c.id cn.procs.length 0 cn.procs),
                    seqM (c.procs.map (fun x => (svcCnAddProc v c.id x.id).run)) ] s) ]

/-- `updateProcessorAction.update` → `UpdateWhileRunning`. -/
def updatePrRun (v : Variant) (c : ProcCfg) : M Unit :=
  (svcPrUpdate v c.id c.plugin c.settings c.workers (if v.condUpdated then some c.cond else none)).run

def Act.run (v : Variant) : Act → M Unit
  | .createPl c prov => createPlDo v c prov
  | .deletePl c _ => createPlUndo c
  | .updatePl _ n => updatePlRun v n
  | .createCn c pid => createCnDo v c pid
  | .deleteCn c _ => createCnUndo c
  | .updateCn _ n => updateCnRun v n
  | .createPr c pt par => createPrDo c pt par
  | .deletePr c _ _ => createPrUndo c
  | .updatePr _ n => updatePrRun v n

def Act.undo (v : Variant) : Act → M Unit
  | .createPl c _ => createPlUndo c
  | .deletePl c prov => createPlDo v c prov
  | .updatePl o _ => updatePlRun v o
  | .createCn c _ => createCnUndo c
  | .deleteCn c pid => createCnDo v c pid
  | .updateCn o _ => updateCnRun v o
  | .createPr c _ _ => createPrUndo c
  | .deletePr c pt par => createPrDo c pt par
  | .updatePr o _ => updatePrRun v o

/-- `executeActions`: returns the executed prefix *including* the failed action (most recent
first) and the error. -/
def execActs (v : Variant) : List Act → List Act → St → Option Err × List Act × St
  | [], done, s => (none, done, s)
  | a :: rest, done, s =>
    match a.run v s with
    | (.ok (), s') => execActs v rest (a :: done) s'
    | (.error e, s') => (some e, a :: done, s')

/-- `rollbackActions`: every rollback runs; errors are only logged. -/
def undoActs (v : Variant) : List Act → St → St
  | [], s => s
  | a :: rest, s => undoActs v rest (a.undo v s).2

/-- `importPipeline`. -/
def importPipeline (v : Variant) (c : PipeCfg) (prov : Nat) : M Unit := fun s =>
  match exportPl v s.mem c.id with
  | .error e => (.error e, s)
  | .ok old =>
    match execActs v (build v prov old c) [] s with
    | (none, _, s') => (.ok (), s')
    | (some e, done, s') => (.error e, undoActs v done s')

/-- `transactionalImport`: one store transaction around the import; `Discard` is deferred. -/
def transactionalImport (v : Variant) (c : PipeCfg) : M Unit := fun s =>
  if s.failsNow then (.error .st, { s with ctr := s.ctr + 1 }) else
  let s := { s with ctr := s.ctr + 1, tx := some s.kv }
  match importPipeline v c 1 s with
  | (.error e, s') => (.error e, { s' with tx := none })
  | (.ok (), s') =>
    if s'.failsNow then (.error .st, { s' with ctr := s'.ctr + 1, tx := none })
    else (.ok (), { s' with ctr := s'.ctr + 1, kv := s'.tx.getD s'.kv, tx := none })

/-- `isRunningStatus`: running, degraded, recovering. -/
def isRunningStatus (st : Nat) : Bool := st = 1 || st = 4 || st = 5

/-- number of changes `Plan(desired)` reports (`Diff.Empty` ⇔ 0); an error = Export failed. -/
def planSize (v : Variant) (m : Mem) (c : PipeCfg) : Except Err Nat :=
  match exportPl v m c.id with
  | .error e => .error e
  | .ok old => .ok (build v 1 old c).length

/-- `ApplyPlan(desired, hash)` presented with the hash of a plan computed just before (so the
hash check passes): empty plan → nothing; running pipeline → refused; else the transactional import. -/
def applyPlan (v : Variant) (c : PipeCfg) : M Unit := fun s =>
  match planSize v s.mem c with
  | .error e => (.error e, s)
  | .ok 0 => (.ok (), s)
  | .ok _ =>
    if ((s.mem.pls c.id).map (fun p => isRunningStatus p.status)).getD false then (.error .run, s)
    else transactionalImport v c s

end Conduit.Ctl
