import ConduitModel.Model.TreeBuild

/-!
# Processor reservations across build attempts (C11: "released so the pipeline can be started again")

`processor.Service.MakeRunnableProcessor` RESERVES a processor instance (`running.CompareAndSwap(false,
true)`); the reservation is released by `RunnableProcessor.Teardown` (`running.Store(false)`), which
the run's end reaches through `funnel.ProcessorTask.Close` (arch-v2: `Worker.Close` / `Sink.Close`
walk every task) or the deferred call in `stream.ProcessorNode.Run` (v1). This file models the
reservation state over a SEQUENCE of build attempts of one pipeline with configuration edits and
run ends in between, for both engines, mirroring the code AS IT IS:

* v2 `lifecycle-poc.buildRunnablePipeline`: sources' processors → "no source" guard → destinations'
  processors → "no destination" guard → pipeline processors → tree / `NewSink` / `NewWorker` checks;
* v1 `lifecycle.buildNodes`: sources' processors → "no source" guard → pipeline processors →
  destinations' processors → "no destination" guard;
* every error exit is a plain `return nil, err`: the reservations made earlier in the SAME attempt
  are kept (nobody holds the `RunnableProcessor`s any more, so nobody can ever tear them down).

`held` is the set of reserved instances (the `running` flags of the processor service), `live` the
reservations of the successfully built runs that have not ended yet.
-/
namespace Conduit.Rebuild
open Conduit.Funnel

inductive Eng | v1 | v2
  deriving DecidableEq, Repr, Inhabited

/-- `buildProcessorTasks` (v2) / `buildProcessorNodes` (v1): `Get`, then `MakeRunnableProcessor`, per
id; on the first failure `return nil, err`. Result: the error (if any) and the reservations now held. -/
def reserve (held : List Nat) : List ProcRef → Option BuildErr × List Nat
  | [] => (none, held)
  | (id, found) :: ps =>
    if !found then (some .processor, held)
    else if held.contains id then (some .running, held)
    else reserve (id :: held) ps

/-- `buildSourceTasks` / `buildDestinationTasks` (v2), `buildSourceNodes` / `buildDestinationNodes` (v1):
the loop over `pl.ConnectorIDs` taking the connectors of type `k`; `instance.Connector(…)` refuses a
connector that is open in a live run (`openC`) before its processors are looked at -/
def reserveConns (k : ConnKind) (openC held : List Nat) : List ConnCfg → Option BuildErr × List Nat
  | [] => (none, held)
  | c :: cs =>
    if c.kind = .missing then (some .connector, held)
    else if c.kind ≠ k then reserveConns k openC held cs
    else if openC.contains c.id then (some .connRunning, held)
    else
      match reserve held c.procs with
      | (some e, h) => (some e, h)
      | (none, h) => reserveConns k openC h cs

def hasKind (k : ConnKind) (cs : List ConnCfg) : Bool := cs.any (·.kind = k)

inductive Outcome | ok | err (e : BuildErr)
  deriving DecidableEq, Repr, Inhabited

/-- one call of v2 `buildRunnablePipeline` with the reservations `held` in place and the connectors `openC` open -/
def attemptV2 (openC held : List Nat) (cfg : PipeCfg) : Outcome × List Nat :=
  match reserveConns .source openC held cfg.conns with
  | (some e, h) => (.err e, h)
  | (none, h1) =>
    if !hasKind .source cfg.conns then (.err .nosrc, h1)
    else
      match reserveConns .dest openC h1 cfg.conns with
      | (some e, h) => (.err e, h)
      | (none, h2) =>
        if !hasKind .dest cfg.conns then (.err .nodst, h2)
        else
          match reserve h2 cfg.procs with
          | (some e, h) => (.err e, h)
          | (none, h3) =>
            -- buildSharedTail, NewSink, per source: NewWorker — no reservation involved
            match buildWorkers cfg with
            | .ok _ => (.ok, h3)
            | .error e => (.err e, h3)

/-- one call of v1 `buildRunnablePipeline` (= `buildNodes`) -/
def attemptV1 (openC held : List Nat) (cfg : PipeCfg) : Outcome × List Nat :=
  match reserveConns .source openC held cfg.conns with
  | (some e, h) => (.err e, h)
  | (none, h1) =>
    if !hasKind .source cfg.conns then (.err .nosrc, h1)
    else
      match reserve h1 cfg.procs with
      | (some e, h) => (.err e, h)
      | (none, h2) =>
        match reserveConns .dest openC h2 cfg.conns with
        | (some e, h) => (.err e, h)
        | (none, h3) =>
          if !hasKind .dest cfg.conns then (.err .nodst, h3) else (.ok, h3)

def attempt : Eng → List Nat → List Nat → PipeCfg → Outcome × List Nat
  | .v1 => attemptV1
  | .v2 => attemptV2

/-! ## the open phase of arch-v2 `runPipeline` (as the code is)

`rp.sink.Open(ctx)` opens the shared tasks in `Tasks()` order (pipeline processors, then every
destination branch: its processors, then the destination) and on a failure closes the tasks it had
OPENED (rollback) — not the failing task, not the later ones — and `runPipeline` returns. Then, per
worker, `w.Open(ctx)` opens the source, then the source's processors (then the DLQ) with the same
rollback; on a failure `runPipeline` closes the workers opened EARLIER (`opened[j].Close`: every task
of theirs) and the sink (`rp.sink.Close`: every shared task) and returns. Closing a processor task
releases its reservation. Nothing closes: the task whose `Open` failed, the tasks after it in the same
worker / sink, and — the sink failing — any worker's tasks, — worker i failing — the tasks of the
workers after i. A source whose instance is already open (`pl.ConnectorIDs` lists it twice) fails to
open ("another instance of the connector is already running"). -/

/-- a task to open: `(true, id)` a processor, `(false, id)` a connector -/
abbrev OpenTask := Bool × Nat

def taskFails (failP failC openedC : List Nat) : OpenTask → Bool
  | (true, id) => failP.contains id
  | (false, id) => failC.contains id || openedC.contains id

/-- open the tasks in order until one fails: (processors opened, connectors open afterwards, failed?) -/
def openSeq (failP failC : List Nat) : List Nat → List OpenTask → List Nat × List Nat × Bool
  | oc, [] => ([], oc, false)
  | oc, t :: ts =>
    if taskFails failP failC oc t then ([], oc, true)
    else
      match openSeq failP failC (if t.1 then oc else t.2 :: oc) ts with
      | (ps, oc', f) => ((if t.1 then [t.2] else []) ++ ps, oc', f)

/-- the shared tasks in `Sink.Open` order -/
def sinkTasks (cfg : PipeCfg) : List OpenTask :=
  (cfg.procs.map fun p => (true, p.1)) ++
  ((cfg.conns.filter (·.kind = .dest)).map fun c => (c.procs.map fun p => ((true, p.1) : OpenTask)) ++ [(false, c.id)]).flatten

/-- a worker's own tasks in `Worker.Open` order -/
def workerTasks (c : ConnCfg) : List OpenTask := (false, c.id) :: c.procs.map fun p => (true, p.1)

def procsOf (ts : List OpenTask) : List Nat := (ts.filter (·.1)).map (·.2)

/-- the loop over `rp.workers`: `closed` = processors of the workers opened so far (what the rollback
closes together with the sink's) -/
def workersOpen (failP failC sinkProcs : List Nat) : List Nat → List Nat → List ConnCfg → Option (List Nat)
  | _, _, [] => none
  | oc, closed, c :: cs =>
    match openSeq failP failC oc (workerTasks c) with
    | (ps, _, true) => some (ps ++ closed ++ sinkProcs)
    | (ps, oc', false) => workersOpen failP failC sinkProcs oc' (closed ++ ps) cs

/-- the open phase: `none` = everything opened; `some released` = it failed and the rollback released
the reservations of these processors -/
def openPhaseV2 (cfg : PipeCfg) (failP failC : List Nat) : Option (List Nat) :=
  match openSeq failP failC [] (sinkTasks cfg) with
  | (ps, _, true) => some ps
  | (_, oc, false) =>
    workersOpen failP failC (procsOf (sinkTasks cfg)) oc [] (cfg.conns.filter (·.kind = .source))

/-- the reservations an attempt added on top of `held` (new ones are pushed in front) -/
def added (held h : List Nat) : List Nat := h.take (h.length - held.length)

/-! ## the attempt sequence -/

structure St where
  cfg : PipeCfg
  /-- reserved processor instances -/
  held : List Nat := []
  /-- reservations of the runs built successfully and not ended yet -/
  live : List (List Nat) := []
  /-- processors / connector plugins whose `Open` fails from now on -/
  failP : List Nat := []
  failC : List Nat := []
  /-- a run started by `Start` is live (the pipeline's status is Running) -/
  started : Bool := false
  /-- connector instances that are open (those of the started run) -/
  openC : List Nat := []
  deriving Repr, Inhabited

inductive Step
  /-- a `Start`'s `buildRunnablePipeline` -/
  | build
  /-- every live run ends: all its tasks / nodes are closed (each `ProcessorTask.Close` /
  `ProcessorNode.Run` exit calls `RunnableProcessor.Teardown`) -/
  | teardown
  /-- configuration edits: create the processor instance `id` / drop `id` from every `ProcessorIDs`
  list / drop connector `id` from `pl.ConnectorIDs` / create a connector without processors and add it -/
  | mk (id : Nat) | rmp (id : Nat) | rmc (id : Nat) | addc (k : ConnKind) (id : Nat)
  /-- the real `Start`: status check, build, open phase. arch-v2: a failed open phase returns the error
  after its rollback; a started run stays live until `teardown`. v1: every node is run, opens its own
  connector / processor inside `Run` and tears it down on every exit (`ProcessorNode.Run` defers the
  teardown before `Open`); the harness force-stops the run at once and waits for it, so the step covers
  the whole run -/
  | start
  /-- `Open` of processor `id` / of the plugin of connector `id` fails from now on; nothing fails -/
  | failp (id : Nat) | failc (id : Nat) | failclear
  deriving DecidableEq, Repr, Inhabited

inductive StartOutcome
  | ok | ran | buildErr (e : BuildErr) | openFailed | plRunning
  deriving DecidableEq, Repr, Inhabited

inductive Obs
  | built (o : Outcome) (held : List Nat)
  | torn (held : List Nat)
  | started (o : StartOutcome) (held : List Nat)
  | none
  deriving DecidableEq, Repr, Inhabited

def mkProc (id : Nat) (ps : List ProcRef) : List ProcRef := ps.map fun p => if p.1 = id then (id, true) else p
def rmProc (id : Nat) (ps : List ProcRef) : List ProcRef := ps.filter fun p => p.1 ≠ id

def editCfg (cfg : PipeCfg) : Step → PipeCfg
  | .mk id => { conns := cfg.conns.map fun c => { c with procs := mkProc id c.procs }, procs := mkProc id cfg.procs }
  | .rmp id => { conns := cfg.conns.map fun c => { c with procs := rmProc id c.procs }, procs := rmProc id cfg.procs }
  | .rmc id => { cfg with conns := cfg.conns.filter fun c => c.id ≠ id }
  | .addc k id => { cfg with conns := cfg.conns ++ [{ kind := k, id := id, procs := [] }] }
  | _ => cfg

/-- the run ends: the processors of every live run are released -/
def release (held : List Nat) (live : List (List Nat)) : List Nat := held.filter fun x => !live.flatten.contains x

def step (eng : Eng) (s : St) : Step → St × Obs
  | .build =>
    let (o, h) := attempt eng s.openC s.held s.cfg
    let live := if o = .ok then s.live ++ [added s.held h] else s.live
    ({ s with held := h, live := live }, .built o h)
  | .teardown =>
    let h := release s.held s.live
    ({ s with held := h, live := [], started := false, openC := [] }, .torn h)
  | .start =>
    match eng with
    | .v2 =>
      if s.started then (s, .started .plRunning s.held)
      else
        let (o, h) := attempt .v2 s.openC s.held s.cfg
        match o with
        | .err e => ({ s with held := h }, .started (.buildErr e) h)
        | .ok =>
          match openPhaseV2 s.cfg s.failP s.failC with
          | none =>
            ({ s with held := h, live := s.live ++ [added s.held h], started := true,
                      openC := (s.cfg.conns.filter (·.kind ≠ .missing)).map (·.id) }, .started .ok h)
          | some released =>
            let h' := h.filter fun x => !released.contains x
            ({ s with held := h' }, .started .openFailed h')
    | .v1 =>
      let (o, h) := attempt .v1 s.openC s.held s.cfg
      match o with
      | .err e => ({ s with held := h }, .started (.buildErr e) h)
      | .ok => (s, .started .ran s.held)
  | .failp id => ({ s with failP := id :: s.failP }, .none)
  | .failc id => ({ s with failC := id :: s.failC }, .none)
  | .failclear => ({ s with failP := [], failC := [] }, .none)
  | e => ({ s with cfg := editCfg s.cfg e }, .none)

def run (eng : Eng) : St → List Step → List (St × Step × St × Obs)
  | _, [] => []
  | s, e :: es =>
    let (s', o) := step eng s e
    (s, e, s', o) :: run eng s' es

end Conduit.Rebuild
