import ConduitModel.Model.TreeBuild

/-!
# Processor reservations across build attempts (C11: "released so the pipeline can be started again")

`processor.Service.MakeRunnableProcessor` RESERVES a processor instance (`running.CompareAndSwap(false,
true)`); the reservation is released by `RunnableProcessor.Teardown` (`running.Store(false)`), which
the run's end reaches through `funnel.ProcessorTask.Close` (arch-v2: `Worker.Close` / `Sink.Close`
walk every task) or the deferred call in `stream.ProcessorNode.Run` (v1). This file models the
reservation state over a SEQUENCE of build attempts of one pipeline with configuration edits and
run ends in between, for both engines, mirroring the code AS IT IS:

* v2 `lifecycle-poc.buildRunnablePipeline`: sources' processors → "no source" guard → destinations'
  processors → "no destination" guard → pipeline processors → tree / `NewSink` / `NewWorker` checks;
* v1 `lifecycle.buildNodes`: sources' processors → "no source" guard → pipeline processors →
  destinations' processors → "no destination" guard;
* every error exit is a plain `return nil, err`: the reservations made earlier in the SAME attempt
  are kept (nobody holds the `RunnableProcessor`s any more, so nobody can ever tear them down).

`held` is the set of reserved instances (the `running` flags of the processor service), `live` the
reservations of the successfully built runs that have not ended yet.
-/
namespace Conduit.Rebuild
open Conduit.Funnel

inductive Eng | v1 | v2
  deriving DecidableEq, Repr, Inhabited

/-- `buildProcessorTasks` (v2) / `buildProcessorNodes` (v1): `Get`, then `MakeRunnableProcessor`, per
id; on the first failure `return nil, err`. Result: the error (if any) and the reservations now held. -/
def reserve (held : List Nat) : List ProcRef → Option BuildErr × List Nat
  | [] => (none, held)
  | (id, found) :: ps =>
    if !found then (some .processor, held)
    else if held.contains id then (some .running, held)
    else reserve (id :: held) ps

/-- `buildSourceTasks` / `buildDestinationTasks` (v2), `buildSourceNodes` / `buildDestinationNodes` (v1):
the loop over `pl.ConnectorIDs` taking the connectors of type `k` -/
def reserveConns (k : ConnKind) (held : List Nat) : List ConnCfg → Option BuildErr × List Nat
  | [] => (none, held)
  | c :: cs =>
    if c.kind = .missing then (some .connector, held)
    else if c.kind ≠ k then reserveConns k held cs
    else
      match reserve held c.procs with
      | (some e, h) => (some e, h)
      | (none, h) => reserveConns k h cs

def hasKind (k : ConnKind) (cs : List ConnCfg) : Bool := cs.any (·.kind = k)

inductive Outcome | ok | err (e : BuildErr)
  deriving DecidableEq, Repr, Inhabited

/-- one call of v2 `buildRunnablePipeline` with the reservations `held` in place -/
def attemptV2 (held : List Nat) (cfg : PipeCfg) : Outcome × List Nat :=
  match reserveConns .source held cfg.conns with
  | (some e, h) => (.err e, h)
  | (none, h1) =>
    if !hasKind .source cfg.conns then (.err .nosrc, h1)
    else
      match reserveConns .dest h1 cfg.conns with
      | (some e, h) => (.err e, h)
      | (none, h2) =>
        if !hasKind .dest cfg.conns then (.err .nodst, h2)
        else
          match reserve h2 cfg.procs with
          | (some e, h) => (.err e, h)
          | (none, h3) =>
            -- buildSharedTail, NewSink, per source: NewWorker — no reservation involved
            match buildWorkers cfg with
            | .ok _ => (.ok, h3)
            | .error e => (.err e, h3)

/-- one call of v1 `buildRunnablePipeline` (= `buildNodes`) -/
def attemptV1 (held : List Nat) (cfg : PipeCfg) : Outcome × List Nat :=
  match reserveConns .source held cfg.conns with
  | (some e, h) => (.err e, h)
  | (none, h1) =>
    if !hasKind .source cfg.conns then (.err .nosrc, h1)
    else
      match reserve h1 cfg.procs with
      | (some e, h) => (.err e, h)
      | (none, h2) =>
        match reserveConns .dest h2 cfg.conns with
        | (some e, h) => (.err e, h)
        | (none, h3) =>
          if !hasKind .dest cfg.conns then (.err .nodst, h3) else (.ok, h3)

def attempt : Eng → List Nat → PipeCfg → Outcome × List Nat
  | .v1 => attemptV1
  | .v2 => attemptV2

/-- the reservations an attempt added on top of `held` (new ones are pushed in front) -/
def added (held h : List Nat) : List Nat := h.take (h.length - held.length)

/-! ## the attempt sequence -/

structure St where
  cfg : PipeCfg
  /-- reserved processor instances -/
  held : List Nat := []
  /-- reservations of the runs built successfully and not ended yet -/
  live : List (List Nat) := []
  deriving Repr, Inhabited

inductive Step
  /-- a `Start`'s `buildRunnablePipeline` -/
  | build
  /-- every live run ends: all its tasks / nodes are closed (each `ProcessorTask.Close` /
  `ProcessorNode.Run` exit calls `RunnableProcessor.Teardown`) -/
  | teardown
  /-- configuration edits: create the processor instance `id` / drop `id` from every `ProcessorIDs`
  list / drop connector `id` from `pl.ConnectorIDs` / create a connector without processors and add it -/
  | mk (id : Nat) | rmp (id : Nat) | rmc (id : Nat) | addc (k : ConnKind) (id : Nat)
  deriving DecidableEq, Repr, Inhabited

inductive Obs
  | built (o : Outcome) (held : List Nat)
  | torn (held : List Nat)
  | none
  deriving DecidableEq, Repr, Inhabited

def mkProc (id : Nat) (ps : List ProcRef) : List ProcRef := ps.map fun p => if p.1 = id then (id, true) else p
def rmProc (id : Nat) (ps : List ProcRef) : List ProcRef := ps.filter fun p => p.1 ≠ id

def editCfg (cfg : PipeCfg) : Step → PipeCfg
  | .mk id => { conns := cfg.conns.map fun c => { c with procs := mkProc id c.procs }, procs := mkProc id cfg.procs }
  | .rmp id => { conns := cfg.conns.map fun c => { c with procs := rmProc id c.procs }, procs := rmProc id cfg.procs }
  | .rmc id => { cfg with conns := cfg.conns.filter fun c => c.id ≠ id }
  | .addc k id => { cfg with conns := cfg.conns ++ [{ kind := k, id := id, procs := [] }] }
  | _ => cfg

/-- the run ends: the processors of every live run are released -/
def release (held : List Nat) (live : List (List Nat)) : List Nat := held.filter fun x => !live.flatten.contains x

def step (eng : Eng) (s : St) : Step → St × Obs
  | .build =>
    let (o, h) := attempt eng s.held s.cfg
    let live := if o = .ok then s.live ++ [added s.held h] else s.live
    ({ s with held := h, live := live }, .built o h)
  | .teardown =>
    let h := release s.held s.live
    ({ s with held := h, live := [] }, .torn h)
  | e => ({ s with cfg := editCfg s.cfg e }, .none)

def run (eng : Eng) : St → List Step → List (St × Step × St × Obs)
  | _, [] => []
  | s, e :: es =>
    let (s', o) := step eng s e
    (s, e, s', o) :: run eng s' es

end Conduit.Rebuild
