import ConduitModel.Model.StoreDoc

/-
M7 codec — what a restarted server does with the statuses it reads back.

Go: `pipeline.Service.Init` (pkg/pipeline/service.go) loads every stored instance and turns
`StatusRunning` into `StatusSystemStopped` ("mark which pipeline was running");
`lifecycle.Service.Init` (pkg/lifecycle/service.go, pkg/lifecycle-poc/service.go) then starts
every pipeline whose status is `StatusSystemStopped`.
Core-only.
-/
namespace Conduit.Codec

def statusRunning : Int64 := 1
def statusSystemStopped : Int64 := 2
def statusUserStopped : Int64 := 3
def statusDegraded : Int64 := 4
def statusRecovering : Int64 := 5

/-- the loop body of `pipeline.Service.Init` for one loaded instance. -/
def initStatus (p : PipeInstance) : PipeInstance :=
  if p.status = statusRunning then { p with status := statusSystemStopped } else p

/-- `pipeline.Service.Init`: the instances of the service after loading. -/
def pipelineInit (loaded : List PipeInstance) : List PipeInstance := loaded.map initStatus

/-- `lifecycle.Service.Init`: the IDs `Start` is called for. -/
def lifecycleStarts (instances : List PipeInstance) : List Str :=
  (instances.filter fun p => p.status = statusSystemStopped).map (·.id)

/-- one stored document as the new store's `GetAll` sees it (`none`: undecodable). -/
def loadedPipe (d : List Char) : Option PipeInstance :=
  match loadPipe d with
  | some (.ok p) => some p
  | _ => none

/-- a restart: the stored documents are read by a new store, `pipeline.Service.Init` runs, then
`lifecycle.Service.Init`; result: the instances in memory and the pipelines that are started.
`none` if some document cannot be read (`Init` fails). -/
def restart (docs : List (List Char)) : Option (List PipeInstance × List Str) :=
  match docs.mapM loadedPipe with
  | some ps => some (pipelineInit ps, lifecycleStarts (pipelineInit ps))
  | none => none

end Conduit.Codec
