/-
M-SS — the shared-sink protocol of the arch-v2 engine: N source workers (one `funnel.Worker` per
source, each on its own goroutine) converging on the SAME shared `TaskNode` subtree(s)
(/repo/pkg/lifecycle-poc/funnel/worker.go `Worker.doTask`, the `sharedBoundary` branch;
`TaskNode.MarkSharedBoundary`; sink.go `NewSink`; lifecycle-poc/service.go `buildSharedTail`:
ONE shared root when there are pipeline-level processors, otherwise one independently locked root
per destination branch).

What the code does, per worker `w` (all workers and all branches interleave at statement level):

  fanStart w     `doNextTask` at the tail of w's own prefix hands a (sub-)batch to the shared
                 root(s): with one root a plain `doTask` call, with R > 1 roots the fan-out of
                 `doNextTask` — ALL R roots are entered, each on its own pool goroutine (so one
                 worker can be inside several roots at once; a goroutine holds one lock only).
                 `seq w` numbers w's hand-offs: batches in read order, the sub-batches of a
                 tainted batch in index order.
  acquire w r    `taskNode.sharedMu.Lock()` (+ `defer taskNode.sharedMu.Unlock()`)
  checkPoison    `if taskNode.poisoned.Load() { return CodeSharedDestinationPoisoned }`
  procCall / write / ackRead      the sub-pass `doTaskAttempt(…)`: shared processor calls,
                 `Destination.Write` of k records on destination d of the root (the destination will
                 answer with k acks on its ONE ack stream), `Destination.Ack()` reads consuming the
                 next n acks of that stream — whoever they were meant for
  subEnd ok      the sub-pass returns; nil only if every `DestinationTask.Do` returned nil, i.e.
                 consumed as many acks as it wrote (an early return leaves acks UNREAD in the stream)
  setPoison      `if err != nil && taskNode.sharedBoundary { taskNode.poisoned.Store(true) }`
  release        the deferred `Unlock()` when doTask returns
  join w         `p.Wait()` / the return of the single `doTask`: every root was left; an error of
                 any branch ends `Worker.Do` with that error

Ghost state: `pend r d` tags every outstanding ack of a stream with the sub-pass (worker, seq)
whose write produced it, `foreign` records that an ack read consumed an ack of another sub-pass,
`rlog r` is the event log of root r.
Not modelled: the acks to the worker's own source (they are issued inside the sub-pass through
the worker's own acker chain: pass-level theorems C04_v2_pass_*), context cancellation.
Core-only.
-/
namespace Conduit.SharedSink

/-- a sub-pass: (worker, hand-off number of that worker) -/
abbrev Tag := Nat × Nat

def upd {α : Type} (f : Nat → α) (i : Nat) (v : α) : Nat → α := fun j => if j = i then v else f j

def upd2 {α : Type} (f : Nat → Nat → α) (i j : Nat) (v : α) : Nat → Nat → α :=
  fun a b => if a = i ∧ b = j then v else f a b

/-- how a branch left a shared root -/
inductive BRes | ok | err | refused
deriving DecidableEq, Repr, Inhabited

/-- program counter of worker w's branch into shared root r (`Worker.doTask` on the root) -/
inductive BPc
  | idle                  -- no entry pending
  | want                  -- doTask called: `sharedMu.Lock()` pending
  | held                  -- lock held (deferred Unlock registered), before `poisoned.Load()`
  | running               -- inside `doTaskAttempt`: the sub-pass
  | failedSub             -- the sub-pass returned an error, before `poisoned.Store(true)`
  | exiting (res : BRes)  -- doTask is returning, deferred `Unlock()` pending
  | done (res : BRes)     -- doTask has returned
deriving DecidableEq, Repr, Inhabited

/-- between `sharedMu.Lock()` and the deferred `Unlock()` -/
def BPc.holds : BPc → Bool
  | .held | .running | .failedSub | .exiting _ => true
  | _ => false

def BPc.isDone : BPc → Bool
  | .done _ => true
  | _ => false

def BPc.isOk : BPc → Bool
  | .done .ok => true
  | _ => false

/-- the entry (or refusal) of the current hand-off is already in the root's log -/
def BPc.entered : BPc → Bool
  | .running | .failedSub | .exiting _ | .done _ => true
  | _ => false

inductive WPc
  | between    -- in its own prefix / reading: not inside `doNextTask` towards the sink
  | fanned     -- inside `doNextTask` towards the shared root(s)
  | failed     -- `Worker.Do` returned an error
  | finished   -- `Worker.Do` returned nil
deriving DecidableEq, Repr, Inhabited

/-- event log of one root -/
inductive REv
  | enter (t : Tag)                    -- poison check passed: the sub-pass starts
  | refuse (t : Tag)                   -- refused: CodeSharedDestinationPoisoned
  | proc (t : Tag)
  | write (t : Tag) (d k : Nat)
  | ack (t : Tag) (d n : Nat)
  | exit (t : Tag) (ok : Bool)         -- the sub-pass returned
deriving DecidableEq, Repr, Inhabited

def REv.tag : REv → Tag
  | .enter t | .refuse t | .proc t | .write t _ _ | .ack t _ _ | .exit t _ => t

/-- processor call / write / ack read: an event INSIDE a sub-pass -/
def REv.isBody : REv → Bool
  | .proc _ | .write _ _ _ | .ack _ _ _ => true
  | _ => false

/-- the hand-off number of an entry (enter / refuse) of worker w -/
def REv.entryOf (w : Nat) : REv → Option Nat
  | .enter t | .refuse t => if t.1 = w then some t.2 else none
  | _ => none

structure St where
  lock : Nat → Option Nat := fun _ => none        -- root → worker holding `sharedMu`
  poison : Nat → Bool := fun _ => false           -- root → `poisoned`
  wpc : Nat → WPc := fun _ => .between
  seq : Nat → Nat := fun _ => 0                   -- hand-offs started by the worker
  bpc : Nat → Nat → BPc := fun _ _ => .idle       -- worker → root → branch pc
  pend : Nat → Nat → List Tag := fun _ _ => []    -- root → destination → outstanding acks (FIFO)
  live : Nat → List Nat := fun _ => []            -- root → destinations written in the current sub-pass
  errEnded : Nat → Bool := fun _ => false         -- ghost: a sub-pass on the root returned an error
  foreign : Bool := false                         -- ghost: an ack of another sub-pass was consumed
  rlog : Nat → List REv := fun _ => []            -- ghost

def init : St := {}

inductive Ev
  | fanStart (w : Nat)
  | acquire (w r : Nat)
  | checkPoison (w r : Nat)
  | procCall (w r : Nat)
  | write (w r d k : Nat) (ok : Bool) (pz : Bool)  -- ok = false: Write returned an error (no acks);
                                                   -- pz: value of `poisoned` seen at that moment
  | ackRead (w r d n : Nat)                        -- one `Ack()` response consumed: n acks (0: error / empty)
  | subEnd (w r : Nat) (ok : Bool)
  | setPoison (w r : Nat)
  | release (w r : Nat)
  | join (w : Nat)
  | ownStep (w : Nat)                              -- own prefix: processor call, DLQ write, source ack
  | fail (w : Nat)                                 -- error outside the sink (own prefix, read)
  | finish (w : Nat)
deriving DecidableEq, Repr, Inhabited

/-- `R` = number of shared roots (`len(sink.roots)`) -/
def step (R : Nat) (s : St) : Ev → Option St
  | .fanStart w =>
    if s.wpc w = .between then
      some { s with wpc := upd s.wpc w .fanned, seq := upd s.seq w (s.seq w + 1),
                    bpc := fun a b => if a = w ∧ b < R then .want else s.bpc a b }
    else none
  | .acquire w r =>
    if s.bpc w r = .want ∧ s.lock r = none then
      some { s with lock := upd s.lock r (some w), bpc := upd2 s.bpc w r .held }
    else none
  | .checkPoison w r =>
    if s.bpc w r = .held then
      (if s.poison r then
        some { s with bpc := upd2 s.bpc w r (.exiting .refused),
                      rlog := upd s.rlog r (s.rlog r ++ [.refuse (w, s.seq w)]) }
      else
        some { s with bpc := upd2 s.bpc w r .running, live := upd s.live r [],
                      rlog := upd s.rlog r (s.rlog r ++ [.enter (w, s.seq w)]) })
    else none
  | .procCall w r =>
    if s.bpc w r = .running then
      some { s with rlog := upd s.rlog r (s.rlog r ++ [.proc (w, s.seq w)]) }
    else none
  | .write w r d k ok pz =>
    if s.bpc w r = .running ∧ pz = s.poison r then
      some { s with pend := if ok then upd2 s.pend r d (s.pend r d ++ List.replicate k (w, s.seq w)) else s.pend,
                    live := upd s.live r (d :: s.live r),
                    rlog := upd s.rlog r (s.rlog r ++ [.write (w, s.seq w) d k]) }
    else none
  | .ackRead w r d n =>
    if s.bpc w r = .running ∧ n ≤ (s.pend r d).length then
      some { s with pend := upd2 s.pend r d ((s.pend r d).drop n),
                    foreign := s.foreign || ((s.pend r d).take n).any (fun t => t != (w, s.seq w)),
                    rlog := upd s.rlog r (s.rlog r ++ [.ack (w, s.seq w) d n]) }
    else none
  | .subEnd w r ok =>
    if s.bpc w r = .running ∧ (ok = true → (s.live r).all (fun d => (s.pend r d).isEmpty) = true) then
      some { s with bpc := upd2 s.bpc w r (if ok then .exiting .ok else .failedSub),
                    errEnded := if ok then s.errEnded else upd s.errEnded r true,
                    rlog := upd s.rlog r (s.rlog r ++ [.exit (w, s.seq w) ok]) }
    else none
  | .setPoison w r =>
    if s.bpc w r = .failedSub then
      some { s with poison := upd s.poison r true, bpc := upd2 s.bpc w r (.exiting .err) }
    else none
  | .release w r =>
    match s.bpc w r with
    | .exiting res => some { s with lock := upd s.lock r none, bpc := upd2 s.bpc w r (.done res) }
    | _ => none
  | .join w =>
    if s.wpc w = .fanned ∧ (List.range R).all (fun r => (s.bpc w r).isDone) = true then
      some { s with wpc := upd s.wpc w (if (List.range R).all (fun r => (s.bpc w r).isOk) then .between else .failed),
                    bpc := fun a b => if a = w then .idle else s.bpc a b }
    else none
  | .ownStep w =>
    if s.wpc w = .between ∨ s.wpc w = .fanned then some s else none
  | .fail w =>
    if s.wpc w = .between then some { s with wpc := upd s.wpc w .failed } else none
  | .finish w =>
    if s.wpc w = .between then some { s with wpc := upd s.wpc w .finished } else none

def run (R : Nat) (s : St) : List Ev → Option St
  | [] => some s
  | e :: es => (step R s e).bind fun s' => run R s' es

def Reach (R : Nat) (s : St) : Prop := ∃ evs, run R init evs = some s

/-- the log of a root is a concatenation of complete sub-passes (`enter t`, body events of `t`,
`exit t`) and refusals, plus possibly one open sub-pass at the end (second component: its tag) -/
inductive Serial : List REv → Option Tag → Prop
  | nil : Serial [] none
  | enter {l t} : Serial l none → Serial (l ++ [.enter t]) (some t)
  | refuse {l t} : Serial l none → Serial (l ++ [.refuse t]) none
  | body {l t e} : Serial l (some t) → e.isBody = true → e.tag = t → Serial (l ++ [e]) (some t)
  | exit {l t ok} : Serial l (some t) → Serial (l ++ [.exit t ok]) none

/-- a complete visit of a root: a refusal, or a sub-pass `enter t · (events of t)* · exit t` -/
inductive Block : List REv → Prop
  | refuse (t : Tag) : Block [.refuse t]
  | pass (t : Tag) (body : List REv) (ok : Bool) :
      (∀ x ∈ body, x.isBody = true ∧ x.tag = t) → Block (.enter t :: body ++ [.exit t ok])

/-- the sub-pass that is open on root r -/
def openOn (s : St) (r : Nat) : Option Tag :=
  match s.lock r with
  | some w => if s.bpc w r = .running then some (w, s.seq w) else none
  | none => none

/-- rank of the lock holder's way to its `Unlock()` -/
def BPc.rank : BPc → Nat
  | .held => 4 | .running => 3 | .failedSub => 2 | .exiting _ => 1 | _ => 0

end Conduit.SharedSink
