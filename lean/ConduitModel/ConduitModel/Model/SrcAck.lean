/-
M3 — the source-ack / persister event system.

Mirrors (function by function, one model step = one critical section / one plugin or store call):
  * /repo/pkg/connector/source.go     `Source.Ack`, `onPersistFlushed`, `deliverDeferredAcks`,
                                      `deliverOneAck`, `backoffDeferredAck`, `escalateDeferredAckFailure`,
                                      `Source.Teardown`, `Source.Open` (lifecycle persist, `open(Position)`)
  * /repo/pkg/connector/persister.go  `Persist`, `triggerFlush`, `flushNow`, `WaitPendingWrites`,
                                      `ConnectorStopped`
  * /repo/pkg/connector/store.go      `PrepareSet` (snapshot of `Instance.State` taken at Persist time)

One source connector on one persister (the flush result is shared by every connector of a batch,
so the single-connector system is the per-connector projection).

Sequence numbers.  `Source.nextAckSeq` restarts at 0 in every process incarnation. The model
numbers Ack calls globally (`seq = base + nextAckSeq`, `base` = number of Ack calls of earlier
incarnations): every comparison the code makes is between sequence numbers of one incarnation
(pending acks die with the process), so the two numberings take the same decisions.
`durable` is reset to 0 on restart exactly as the code's `durableAckSeq`.

Positions are opaque to the code; the model uses `Nat` (read index at the source plugin) so that
the read-order hypotheses of C02(v)/C03 can be stated. No model step inspects a position.

Core-only (no Mathlib): linked into the driver.
-/
namespace Conduit.SrcAck

abbrev Pos := Nat

/-- static configuration -/
structure Cfg where
  /-- `maxDeferredAckRetries()` (DefaultDeferredAckMaxRetries = 12 unless overridden) -/
  maxRetries : Nat
  /-- `Persister.bundleCountThreshold` -/
  bundleThr : Nat
  /-- does `flushNow` run the callbacks when `NewTransaction` fails?  At the pinned commit it
  returns before spawning them (`false`, finding F11). Tied to the source by `Facts/C06.lean`. -/
  txFailCallbacks : Bool
  /-- does `deliverDeferredAcks` stop sending once an ack had to be dropped?  At the pinned commit it
  carries on with the next queued ack (`false`, finding F12: the plugin then sees a gap in the ack
  sequence). Tied to the source by `Facts/C02.lean`. -/
  stopAfterDrop : Bool
deriving Repr, DecidableEq, Inhabited

/-- one `Source.Ack` call: `pendingAck{seq, positions}` -/
structure AckRec where
  seq : Nat
  ps  : List Pos
deriving Repr, DecidableEq, Inhabited, Hashable

/-- what `PrepareSet` serialises of the source: `SourceState.Position` (`pos`), plus the ghost
sequence number of the Ack call that produced it (0 = no ack yet). -/
structure Stored where
  seq : Nat
  pos : Option Pos
deriving Repr, DecidableEq, Inhabited, Hashable

def Stored.posN (x : Stored) : Nat := x.pos.getD 0

inductive FlushRes | ok | setFail | commitFail | txFail
deriving Repr, DecidableEq, Inhabited

/-- status of a flush generation (`flushState` + what `flushNow` did) -/
inductive GStat
  | writing    -- flushNow running: writeDone open
  | ok         -- committed; callbacks get nil
  | failed     -- storeFunc / Commit failed: callbacks get the error
  | txFailed   -- NewTransaction failed and no callback was spawned: callbacksDone never closes
deriving Repr, DecidableEq, Inhabited, Hashable

inductive CbStat
  | notRun
  | blocked    -- callback got an error and sits in `s.errs <- err`
  | done
deriving Repr, DecidableEq, Inhabited, Hashable

/-- one flush generation (single connector ⇒ one storeFunc + one callback) -/
structure Gen where
  snap : Stored
  /-- `some seq`: Ack's callback `onPersistFlushed(seq, ·)`; `none`: Open's lifecycle callback -/
  cb   : Option Nat
  stat : GStat
  cbSt : CbStat
deriving Repr, DecidableEq, Inhabited, Hashable

/-- `<-st.writeDone` -/
def Gen.writeDone (g : Gen) : Bool := g.stat != .writing
/-- `<-st.callbacksDone` -/
def Gen.callbacksDone (g : Gen) : Bool := (g.stat == .ok || g.stat == .failed) && g.cbSt == .done

/-- program counter of `Source.Teardown` -/
inductive Td
  | idle
  | begun                       -- tearingDown.Store(true) done
  | flushed                     -- persister.Flush returned
  | waiting (g : Option Nat)    -- WaitPendingWrites snapshotted generation g
  | waited
  | closedQ                     -- deferredAckClosed = true, delivery signalled
  | drained                     -- waitDeliveryDrain returned
  | stopped                     -- stopStream called
  | joined                      -- <-deliveryDone
  | done (ok : Bool)            -- plugin.Teardown returned (ok = nil error), ConnectorStopped called
deriving Repr, DecidableEq, Inhabited, Hashable

def Td.isDone : Td → Bool
  | .done _ => true
  | _ => false

/-- number of statements of `Source.Teardown` still to run -/
def Td.rank : Td → Nat
  | .idle => 10 | .begun => 9 | .flushed => 8 | .waiting _ => 7 | .waited => 6 | .closedQ => 5
  | .drained => 4 | .stopped => 3 | .joined => 2 | .done _ => 0

structure St where
  alive : Bool
  /-- no Ack / lifecycle persist yet in this incarnation (Open may still persist) -/
  fresh : Bool
  -- Source
  nextSeq : Nat
  durable : Nat
  pending : List AckRec
  deferred : List AckRec
  attempt : Nat
  escalating : Bool
  dgDone : Bool
  /-- `undelivered` of deliverDeferredAcks (only ever set when `Cfg.stopAfterDrop`) -/
  dgFailed : Bool
  closed : Bool
  tearing : Bool
  streamStopped : Bool
  pluginUp : Bool
  td : Td
  /-- `StopAndWait`'s final `connectors.WaitPersisted()` returned -/
  swDone : Bool
  inst : Stored
  -- Persister
  batch : Option (Stored × Option Nat)
  bundle : Nat
  mustTrigger : Bool
  gens : List Gen
  -- store (durable)
  store : Stored
  -- ghost history
  /-- Ack calls / deliveries / drops of this incarnation -/
  ackedI : List AckRec
  deliveredI : List AckRec
  /-- dropped by `onPersistFlushed` because the queue was already closed -/
  dropped : List AckRec
  /-- dropped by the delivery goroutine (undelivered) -/
  droppedG : List AckRec
  /-- every position ever passed to `Source.Ack` (all incarnations) -/
  handled : List Pos
  /-- every ack message the plugin ever received (all incarnations) -/
  delivered : List AckRec
  commits : List Stored
  opened : List (Option Pos)
  teardowns : Nat
deriving Repr, DecidableEq, Inhabited

inductive Ev
  | openPersist
  | ack (ps : List Pos)
  | trigger
  | flushRes (r : FlushRes)
  | callback (g : Nat)
  | errReadP (g : Nat)
  | deliver (ok : Bool)
  | backoffAbort
  | discard
  | errReadS
  | dgExit
  | tdBegin
  | tdFlush
  | tdSnap
  | tdWaited (timeout : Bool)
  | closeQueue
  | tdDrained (timeout : Bool)
  | stopStream
  | join
  | pluginTeardown (ok : Bool)
  | waitPersisted
  | crash
  | restart
deriving Repr, DecidableEq, Inhabited

/-- state right after `Service.Create` + `Source.Open` on an empty store -/
def init : St :=
  { alive := true, fresh := true, nextSeq := 0, durable := 0, pending := [], deferred := [],
    attempt := 0, escalating := false, dgDone := false, dgFailed := false, closed := false, tearing := false,
    streamStopped := false, pluginUp := true, td := .idle, swDone := false, inst := ⟨0, none⟩,
    batch := none, bundle := 0, mustTrigger := false, gens := [],
    store := ⟨0, none⟩, ackedI := [], deliveredI := [], dropped := [], droppedG := [], handled := [], delivered := [],
    commits := [],
    opened := [none], teardowns := 0 }

/-- no flush is between `triggerFlush` and `close(writeDone)` -/
def noWriting (s : St) : Bool := s.gens.all (fun g => g.stat != .writing)

/-- `Persister.Persist`: batch[conn.ID] = {callback, PrepareSet(conn)}; bundleCount++;
threshold reached ⇒ triggerFlush (which may have to wait for the running flush: `mustTrigger`). -/
def persist (c : Cfg) (s : St) (cb : Option Nat) : St :=
  { s with batch := some (s.inst, cb), bundle := s.bundle + 1,
           mustTrigger := s.bundle + 1 == c.bundleThr, fresh := false }

/-- `triggerFlush` with a non-empty batch: new generation, batch and bundle count reset. -/
def doTrigger (s : St) (b : Stored × Option Nat) : St :=
  { s with gens := s.gens ++ [{ snap := b.1, cb := b.2, stat := .writing, cbSt := .notRun }],
           batch := none, bundle := 0, mustTrigger := false }

/-- `onPersistFlushed` drain loop: `for ; i < len(pending) && pending[i].seq <= durable; i++`. -/
def drain (durable : Nat) : List AckRec → List AckRec × List AckRec
  | [] => ([], [])
  | a :: rest =>
    if a.seq ≤ durable then
      let r := drain durable rest
      (a :: r.1, r.2)
    else ([], a :: rest)

/-- `onPersistFlushed(seq, nil)` -/
def onFlushedOk (s : St) (seq : Nat) : St :=
  let d := if seq > s.durable then seq else s.durable
  let r := drain d s.pending
  if s.closed then { s with durable := d, pending := r.2, dropped := s.dropped ++ r.1 }
  else { s with durable := d, pending := r.2, deferred := s.deferred ++ r.1 }

def setGen (s : St) (i : Nat) (g : Gen) : St := { s with gens := s.gens.set i g }

/-- drop the head of the delivery queue (undelivered) -/
def dropHead (c : Cfg) (s : St) (a : AckRec) (rest : List AckRec) : St :=
  { s with deferred := rest, droppedG := s.droppedG ++ [a], attempt := 0, dgFailed := c.stopAfterDrop }

def step (c : Cfg) (s : St) : Ev → Option St
  -- Source.Open: `lifecycleEventTriggered ⇒ persister.Persist(instance, errs-callback)`
  | .openPersist =>
    if s.alive ∧ s.fresh ∧ s.pluginUp ∧ s.td = .idle ∧ ¬ s.mustTrigger then
      some (persist c s none) else none
  -- Source.Ack(p): State = p[len(p)-1]; nextAckSeq++; pendingAcks append; Persist(callback seq)
  | .ack ps =>
    if s.alive ∧ s.pluginUp ∧ ¬ s.mustTrigger then
      match ps.getLast? with
      | none => some { s with alive := false }     -- p[len(p)-1] on an empty slice panics: process dies
      | some last =>
        let seq := s.nextSeq + 1
        let a : AckRec := ⟨seq, ps⟩
        let s1 := { s with nextSeq := seq, inst := ⟨seq, some last⟩,
                           pending := s.pending ++ [a], ackedI := s.ackedI ++ [a],
                           handled := s.handled ++ ps }
        some (persist c s1 (some seq))
    else none
  -- triggerFlush (timer / bundle threshold / Flush / ConnectorStopped) with a batch; serialised on writeDone
  | .trigger =>
    match s.batch with
    | some b => if s.alive ∧ noWriting s then some (doTrigger s b) else none
    | none => none
  -- flushNow of the running generation
  | .flushRes r =>
    match s.gens.getLast? with
    | some g =>
      if s.alive ∧ g.stat = .writing then
        let i := s.gens.length - 1
        match r with
        | .ok => some { setGen s i { g with stat := .ok } with store := g.snap, commits := s.commits ++ [g.snap] }
        | .setFail => some (setGen s i { g with stat := .failed })
        | .commitFail => some (setGen s i { g with stat := .failed })
        | .txFail => some (setGen s i { g with stat := if c.txFailCallbacks then .failed else .txFailed })
      else none
    | none => none
  -- `go func(cb){ cb(err) }` of generation g
  | .callback i =>
    match s.gens[i]? with
    | some g =>
      if s.alive ∧ g.cbSt = .notRun then
        match g.stat with
        | .ok =>
          let s1 := setGen s i { g with cbSt := .done }
          match g.cb with
          | some seq => some (onFlushedOk s1 seq)
          | none => some s1
        | .failed => some (setGen s i { g with cbSt := .blocked })   -- `s.errs <- err`
        | _ => none
      else none
    | none => none
  -- somebody received the persist error from `errs`
  | .errReadP i =>
    match s.gens[i]? with
    | some g =>
      -- (only the callback of a failed generation ever blocks on `errs`)
      if s.alive ∧ g.cbSt = .blocked ∧ g.stat = .failed then some (setGen s i { g with cbSt := .done }) else none
    | none => none
  -- deliverOneAck: one `stream.Send`
  | .deliver ok =>
    match s.deferred with
    | a :: rest =>
      if s.alive ∧ ¬ s.dgDone ∧ ¬ s.escalating ∧ s.pluginUp ∧ ¬ s.dgFailed then
        if ok then
          if s.streamStopped then none
          else some { s with deferred := rest, delivered := s.delivered ++ [a],
                             deliveredI := s.deliveredI ++ [a], attempt := 0 }
        else if s.streamStopped then some (dropHead c s a rest)                 -- streamTornDown()
        else if s.attempt + 1 ≥ c.maxRetries then
          some { dropHead c s a rest with escalating := ! s.tearing }           -- exhausted
        else some { s with attempt := s.attempt + 1 }                         -- retry after backoff
      else none
    | [] => none
  -- backoffDeferredAck aborted by streamCtx.Done()
  | .backoffAbort =>
    match s.deferred with
    | a :: rest =>
      if s.alive ∧ ¬ s.dgDone ∧ s.streamStopped ∧ 0 < s.attempt then some (dropHead c s a rest) else none
    | [] => none
  -- `if undelivered { continue }`: later acks are discarded without a Send
  | .discard =>
    match s.deferred with
    | a :: rest =>
      if s.alive ∧ ¬ s.dgDone ∧ ¬ s.escalating ∧ s.dgFailed then some (dropHead c s a rest) else none
    | [] => none
  -- escalateDeferredAckFailure: the node received the error
  | .errReadS => if s.alive ∧ s.escalating then some { s with escalating := false } else none
  -- deliverDeferredAcks returns (closed, queue empty): close(deliveryDone)
  | .dgExit =>
    if s.alive ∧ ¬ s.dgDone ∧ s.closed ∧ s.deferred = [] ∧ ¬ s.escalating then some { s with dgDone := true } else none
  -- Source.Teardown, statement by statement
  | .tdBegin =>
    if s.alive ∧ s.td = .idle ∧ s.pluginUp then some { s with tearing := true, td := .begun } else none
  | .tdFlush =>
    if s.alive ∧ s.td = .begun ∧ ¬ s.mustTrigger then
      match s.batch with
      | none => some { s with td := .flushed }
      | some b => if noWriting s then some { doTrigger s b with td := .flushed } else none
    else none
  | .tdSnap =>
    if s.alive ∧ s.td = .flushed then
      some { s with td := .waiting (if s.gens.length = 0 then none else some (s.gens.length - 1)) }
    else none
  | .tdWaited timeout =>
    match s.td with
    | .waiting og =>
      if s.alive then
        if timeout then some { s with td := .waited }
        else match og with
          | none => some { s with td := .waited }
          | some i =>
            match s.gens[i]? with
            | some g => if g.writeDone ∧ g.callbacksDone then some { s with td := .waited } else none
            | none => none
      else none
    | _ => none
  | .closeQueue =>
    if s.alive ∧ s.td = .waited then some { s with closed := true, td := .closedQ } else none
  | .tdDrained timeout =>
    if s.alive ∧ s.td = .closedQ ∧ (timeout ∨ s.dgDone) then some { s with td := .drained } else none
  | .stopStream =>
    if s.alive ∧ s.td = .drained then some { s with streamStopped := true, escalating := false, td := .stopped } else none
  | .join =>
    if s.alive ∧ s.td = .stopped ∧ s.dgDone then some { s with td := .joined } else none
  -- plugin.Teardown; plugin = nil; ConnectorStopped (one last triggerFlush)
  | .pluginTeardown ok =>
    if s.alive ∧ s.td = .joined ∧ ¬ s.mustTrigger then
      let s1 := { s with pluginUp := false, teardowns := s.teardowns + 1, td := .done ok }
      match s.batch with
      | none => some s1
      | some b => if noWriting s then some (doTrigger s1 b) else none
    else none
  -- lifecycle.Service.StopAndWait after WaitPipeline: `connectors.WaitPersisted()` =
  -- Persister.WaitPendingWrites on the latest generation, no timeout
  | .waitPersisted =>
    if s.alive ∧ s.td.isDone ∧ ¬ s.swDone then
      match s.gens.getLast? with
      | none => some { s with swDone := true }
      | some g => if g.writeDone ∧ g.callbacksDone then some { s with swDone := true } else none
    else none
  | .crash => if s.alive then some { s with alive := false } else none
  -- new process: Service.Init reads the store, Source.Open(Position = stored position)
  | .restart =>
    if ¬ s.alive then
      some { init with nextSeq := s.nextSeq, inst := s.store, store := s.store,
                       handled := s.handled, delivered := s.delivered,
                       commits := s.commits, opened := s.opened ++ [s.store.pos],
                       teardowns := 0 }
    else none

def run (c : Cfg) : St → List Ev → Option St
  | s, [] => some s
  | s, e :: es => match step c s e with
    | some s' => run c s' es
    | none => none

/-- Engine-side hypothesis for C02(v)/C03 (what C01/C04 establish about the engine): the positions
handed to `Source.Ack` continue, without gap, the read order of this incarnation — the records read
after the position the plugin was opened with (`inst.pos` right after Open, then the last acked). -/
def ackOk (s : St) (ps : List Pos) : Bool :=
  ps != [] && ps == List.range' (s.inst.posN + 1) ps.length

def evOk (s : St) : Ev → Bool
  | .ack ps => ackOk s ps
  | _ => true

/-- run in which every Ack satisfies the read-order hypothesis -/
def runO (c : Cfg) : St → List Ev → Option St
  | s, [] => some s
  | s, e :: es => if evOk s e then
      match step c s e with
      | some s' => runO c s' es
      | none => none
    else none

def ReachO (c : Cfg) (s : St) : Prop := ∃ evs, runO c init evs = some s

/-- C06 hypotheses ("graceful stop of a healthy pipeline … while plugins and store respond"):
the store answers every flush successfully, a failed `Send` is transient (retried within the
retry budget, never after the stream was stopped), no bounded wait of Teardown expires, the plugin's
Teardown succeeds, the process does not die, and the engine calls `Source.Ack` (with at least one
position) only before it calls `Source.Teardown` (funnel.Worker / SourceNode stop sequencing). -/
def evHealthy (c : Cfg) (s : St) : Ev → Bool
  | .flushRes r => r == .ok
  | .deliver ok => ok || (!s.streamStopped && decide (s.attempt + 1 < c.maxRetries))
  | .backoffAbort => false
  | .discard => false
  | .tdWaited t => !t
  | .tdDrained t => !t
  | .ack ps => s.td == .idle && ps != []
  | .pluginTeardown ok => ok
  | .crash => false
  | _ => true

/-- run in which every event satisfies the C06 hypotheses -/
def runH (c : Cfg) : St → List Ev → Option St
  | s, [] => some s
  | s, e :: es => if evHealthy c s e then
      match step c s e with
      | some s' => runH c s' es
      | none => none
    else none

def ReachH (c : Cfg) (s : St) : Prop := ∃ evs, runH c init evs = some s

/-- every state the event system can be in, for every event list -/
def Reach (c : Cfg) (s : St) : Prop := ∃ evs, run c init evs = some s

/-! ## Read side: the plugin's record stream, `Source.Stop`, and the v1 `SourceNode` stop protocol

Mirrors /repo/pkg/connector/source.go `Source.Stop` (the Stop RPC and what it returns) and
/repo/pkg/lifecycle/stream/source.go `SourceNode.Run` / `stopGraceful` (the stop position travels
as a control message; the node ends once the position of the record it processed last equals it).
A layer over M3: M3's events pass through unchanged; `restart` starts a new run (read side reset),
`tdBegin` (the node's deferred `Source.Teardown`) needs the node to have left its loop. -/

/-- read side of one run (one plugin incarnation) -/
structure RSide where
  /-- position of the last record the plugin handed out in THIS run (plugin side; none = nothing yet) -/
  out : Option Pos := none
  /-- records handed out by the plugin and not yet processed by the node (`Source.Read` / trigger) -/
  q : List Pos := []
  /-- `lastPosition` of `SourceNode.Run`: the record processed last in this run -/
  nlast : Option Pos := none
  /-- `n.stop.positionFetched` / `n.stop.position`: what `Source.Stop` returned -/
  fetched : Option (Option Pos) := none
  /-- the stop control message has been processed by the node loop (`stopPosition` set) -/
  ctl : Bool := false
  /-- `SourceNode.Run` left its loop with the stop reason -/
  ended : Bool := false
deriving Repr, DecidableEq, Inhabited, Hashable

structure RSt where
  m : St
  r : RSide
deriving Repr, DecidableEq, Inhabited

inductive REv
  | m (e : Ev)          -- an event of M3
  | emit (p : Pos)      -- the plugin hands out the record at position p
  | nodeRead            -- the node processes the next record (Read, Send downstream)
  | stopRpc             -- SourceNode.stopGraceful: `Source.Stop` (plugin Stop RPC)
  | ctl                 -- the node loop processes the stop control message
deriving Repr, DecidableEq, Inhabited

/-- the position the plugin of this run was opened with (0 = from the beginning) -/
def openPos (s : St) : Nat := (s.opened.getLast?.getD none).getD 0

/-- What `Source.Stop` returns, given the plugin's reply (`resp.LastPosition` = the last position it
handed out in this run, empty if none). `fallback = false` is the code at the pinned commit: exactly
the reply (fact `sourceStopReturnsPluginReply`, Facts/C06). `fallback = true` is the shape "an empty
reply is replaced by the stored position the connector resumed from". -/
def stopResult (fallback : Bool) (s : St) (reply : Option Pos) : Option Pos :=
  if fallback then (match reply with | none => s.inst.pos | some p => some p) else reply

def rstep (c : Cfg) (fallback : Bool) (s : RSt) : REv → Option RSt
  | .m e =>
    match e with
    | .restart => (step c s.m .restart).map fun m' => { m := m', r := {} }
    | .tdBegin => if s.r.ended then (step c s.m .tdBegin).map fun m' => { s with m := m' } else none
    | e => (step c s.m e).map fun m' => { s with m := m' }
  -- plugin contract: records come in read order after the position it was opened with; none after Stop
  | .emit p =>
    if s.m.alive ∧ s.m.pluginUp ∧ s.r.fetched = none ∧ openPos s.m < p ∧ s.r.out.getD 0 < p then
      some { s with r := { s.r with out := some p, q := s.r.q ++ [p] } }
    else none
  -- `lastPosition = msg.Record.Position; Send; if bytes.Equal(stopPosition, lastPosition) return`
  | .nodeRead =>
    match s.r.q with
    | p :: rest =>
      if s.m.alive ∧ ¬ s.r.ended then
        some { s with r := { s.r with q := rest, nlast := some p,
                                       ended := s.r.ctl && s.r.fetched == some (some p) } }
      else none
    | [] => none
  | .stopRpc =>
    if s.m.alive ∧ s.m.pluginUp ∧ ¬ s.r.ended ∧ s.r.fetched = none then
      some { s with r := { s.r with fetched := some (stopResult fallback s.m s.r.out) } }
    else none
  -- `stopPosition = msg.Record.Position; if bytes.Equal(stopPosition, lastPosition) return`
  | .ctl =>
    match s.r.fetched with
    | some pos =>
      if s.m.alive ∧ ¬ s.r.ctl ∧ ¬ s.r.ended then
        some { s with r := { s.r with ctl := true, ended := pos == s.r.nlast } }
      else none
    | none => none

def rinit : RSt := { m := init, r := {} }

def rrun (c : Cfg) (fallback : Bool) : RSt → List REv → Option RSt
  | s, [] => some s
  | s, e :: es => match rstep c fallback s e with
    | some s' => rrun c fallback s' es
    | none => none

def RReach (c : Cfg) (fallback : Bool) (s : RSt) : Prop := ∃ evs, rrun c fallback rinit evs = some s

end Conduit.SrcAck
