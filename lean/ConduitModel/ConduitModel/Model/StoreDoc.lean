import ConduitModel.Model.Base64
import ConduitModel.Model.Json
import ConduitModel.Model.Time

/-
M7 codec — the three stored entity documents.

Go: `pkg/connector/store.go` (`PrepareSet`/`encode`/`decode`/`migratePre041`),
`pkg/pipeline/store.go` (`encode`/`decode` of `encodableInstance`), `pkg/processor/store.go`.
All three use github.com/goccy/go-json. Structures mirror the Go structs field for field, in
declaration order; `Option` marks every place where Go distinguishes `nil` from empty
(`[]byte`, `[]string`, `map[string]…`). Go `int` fields are `Int64`.

Go maps are unordered; the model keeps a map as the association list sorted the way goccy writes
it: by the *encoded key including its quotes* (`"!"` < `""` < `"a!"` < `"a"`: observed, and
compared byte for byte by the `storedoc` component). `SMap.ofList` builds that form from any
member list (later duplicates win, as in Go).
Core-only.
-/
namespace Conduit.Codec

/-! ### maps -/

abbrev SMap (α : Type) := List (Str × α)

/-- goccy's member order: the quoted, escaped key bytes (code-point order = UTF-8 byte order). -/
def keyLt (a b : Str) : Bool := decide (quote a < quote b)

def SMap.ins {α : Type} (k : Str) (v : α) : SMap α → SMap α
  | [] => [(k, v)]
  | (k', v') :: t =>
    if keyLt k' k then (k', v') :: SMap.ins k v t
    else if k' = k then (k, v) :: t
    else (k, v) :: (k', v') :: t

def SMap.ofList {α : Type} (l : List (Str × α)) : SMap α :=
  l.foldl (fun m kv => SMap.ins kv.1 kv.2 m) []

/-- representation invariant: strictly increasing in goccy's key order (hence no duplicate key). -/
def SMap.Sorted {α : Type} (m : SMap α) : Prop := m.Pairwise (fun a b => keyLt a.1 b.1 = true)

/-! ### decode errors (classes) -/

inductive DecErr where
  | type            -- a member has the wrong JSON type for its Go field
  | base64          -- illegal base64 data in a position
  | time            -- a timestamp is not RFC 3339
  | invalidConnectorType  -- `ErrInvalidConnectorType`
  deriving Repr, DecidableEq, Inhabited

/-! ### field codecs -/

def key (s : String) : Str := s.toList

def encInt (n : Int64) : Json := .num n.toInt
def encStrList : Option (List Str) → Json
  | none => .null
  | some l => .arr (l.map .str)
def encStrMap : Option (SMap Str) → Json
  | none => .null
  | some m => .obj (m.map fun kv => (kv.1, .str kv.2))
def encBytes : Option Bytes → Json
  | none => .null
  | some b => .str (b64Encode b)
def encBytesMap : Option (SMap (Option Bytes)) → Json
  | none => .null
  | some m => .obj (m.map fun kv => (kv.1, encBytes kv.2))
def encTime (t : Time) : Json := .str (formatTime t)

def decStr : Json → Except DecErr Str
  | .null => .ok []
  | .str s => .ok s
  | _ => .error .type
/-- goccy wraps modulo 2^64 on overflow, which is what `Int64.ofInt` does. -/
def decInt : Json → Except DecErr Int64
  | .null => .ok 0
  | .num n => .ok (Int64.ofInt n)
  | _ => .error .type
def decStrs : List Json → Except DecErr (List Str)
  | [] => .ok []
  | x :: xs => do let s ← decStr x; let r ← decStrs xs; pure (s :: r)
def decStrList : Json → Except DecErr (Option (List Str))
  | .null => .ok none
  | .arr l => do let r ← decStrs l; pure (some r)
  | _ => .error .type
def decStrMembers : List (Str × Json) → Except DecErr (List (Str × Str))
  | [] => .ok []
  | (k, v) :: t => do let s ← decStr v; let r ← decStrMembers t; pure ((k, s) :: r)
def decStrMap : Json → Except DecErr (Option (SMap Str))
  | .null => .ok none
  | .obj kvs => do let r ← decStrMembers kvs; pure (some (SMap.ofList r))
  | _ => .error .type
def decBytes : Json → Except DecErr (Option Bytes)
  | .null => .ok none
  | .str s => match b64Decode s with
    | some b => .ok (some b)
    | none => .error .base64
  | _ => .error .type
def decBytesMembers : List (Str × Json) → Except DecErr (List (Str × Option Bytes))
  | [] => .ok []
  | (k, v) :: t => do let b ← decBytes v; let r ← decBytesMembers t; pure ((k, b) :: r)
def decBytesMap : Json → Except DecErr (Option (SMap (Option Bytes)))
  | .null => .ok none
  | .obj kvs => do let r ← decBytesMembers kvs; pure (some (SMap.ofList r))
  | _ => .error .type
def decTime : Json → Except DecErr Time
  | .null => .ok Time.zero
  | .str s => match parseTime s with
    | some t => .ok t
    | none => .error .time
  | _ => .error .type
/-- a struct-typed member: `null`/absent leaves the zero struct (all members absent). -/
def decObj : Json → Except DecErr (List (Str × Json))
  | .null => .ok []
  | .obj kvs => .ok kvs
  | _ => .error .type

/-! ### decoding into `any` and marshalling again (connector `State`) -/

mutual
/-- `json.Unmarshal` into an `any` followed by `json.Marshal`: objects become `map[string]any`
(later duplicates win) and are written in goccy's key order. Strings, `null`, booleans and arrays
come back as they were. (Numbers would pass through `float64`; connector states hold none.) -/
def Json.reany : Json → Json
  | .obj kvs => .obj (Json.reanyMembers [] kvs)
  | .arr l => .arr (Json.reanyList l)
  | .null => .null
  | .bool b => .bool b
  | .num n => .num n
  | .str s => .str s
def Json.reanyList : List Json → List Json
  | [] => []
  | x :: xs => x.reany :: Json.reanyList xs
def Json.reanyMembers (acc : SMap Json) : List (Str × Json) → SMap Json
  | [] => acc
  | (k, v) :: t => Json.reanyMembers (SMap.ins k v.reany acc) t
end

/-! ### connector (`pkg/connector`) -/

structure ConnConfig where
  name : Str
  settings : Option (SMap Str)
  deriving Repr, DecidableEq, Inhabited

/-- `Instance.State any`: nil, `SourceState{Position}` or `DestinationState{Positions}`. -/
inductive ConnState where
  | none
  | source (position : Option Bytes)
  | destination (positions : Option (SMap (Option Bytes)))
  deriving Repr, DecidableEq, Inhabited

/-- `connector.Instance` (exported fields, declaration order); `σ` is the type of `State`. -/
structure ConnInstanceOf (σ : Type) where
  id : Str
  type : Int64
  config : ConnConfig
  pipelineID : Str
  plugin : Str
  processorIDs : Option (List Str)
  state : σ
  provisionedBy : Int64
  createdAt : Time
  updatedAt : Time
  lastActiveConfig : ConnConfig
  deriving Repr, DecidableEq, Inhabited

abbrev ConnInstance := ConnInstanceOf ConnState

def typeSource : Int64 := 1
def typeDestination : Int64 := 2

def encConnConfig (c : ConnConfig) : Json :=
  .obj [(key "Name", .str c.name), (key "Settings", encStrMap c.settings)]

def encConnState : ConnState → Json
  | .none => .null
  | .source p => .obj [(key "Position", encBytes p)]
  | .destination ps => .obj [(key "Positions", encBytesMap ps)]

/-- `PrepareSet` (the `icopy` whitelist copies every exported field) + `json.Marshal`. -/
def encConnWith {σ : Type} (st : σ → Json) (x : ConnInstanceOf σ) : Json :=
  .obj [(key "ID", .str x.id), (key "Type", encInt x.type), (key "Config", encConnConfig x.config),
        (key "PipelineID", .str x.pipelineID), (key "Plugin", .str x.plugin),
        (key "ProcessorIDs", encStrList x.processorIDs), (key "State", st x.state),
        (key "ProvisionedBy", encInt x.provisionedBy), (key "CreatedAt", encTime x.createdAt),
        (key "UpdatedAt", encTime x.updatedAt), (key "LastActiveConfig", encConnConfig x.lastActiveConfig)]

def encConn (x : ConnInstance) : Json := encConnWith encConnState x

def decConnConfig (j : Json) : Except DecErr ConnConfig := do
  let o ← decObj j
  let name ← decStr (Json.field (key "Name") o)
  let settings ← decStrMap (Json.field (key "Settings") o)
  pure ⟨name, settings⟩

/-- `Store.decode`, second half: `State` was decoded into an `any`; if it is not nil it is
marshalled again and unmarshalled into the state struct chosen by `Type`. -/
def decConnState (type : Int64) (raw : Json) : Except DecErr ConnState :=
  match raw with
  | .null => .ok .none
  | _ =>
    if type = typeSource then do
      let o ← decObj raw.reany
      let p ← decBytes (Json.field (key "Position") o)
      pure (.source p)
    else if type = typeDestination then do
      let o ← decObj raw.reany
      let ps ← decBytesMap (Json.field (key "Positions") o)
      pure (.destination ps)
    else .error .invalidConnectorType

/-- `Store.decode`. -/
def decConn (j : Json) : Except DecErr ConnInstance := do
  let o ← match j with
    | .obj kvs => pure kvs
    | _ => throw DecErr.type
  let id ← decStr (Json.field (key "ID") o)
  let type ← decInt (Json.field (key "Type") o)
  let config ← decConnConfig (Json.field (key "Config") o)
  let pipelineID ← decStr (Json.field (key "PipelineID") o)
  let plugin ← decStr (Json.field (key "Plugin") o)
  let processorIDs ← decStrList (Json.field (key "ProcessorIDs") o)
  let provisionedBy ← decInt (Json.field (key "ProvisionedBy") o)
  let createdAt ← decTime (Json.field (key "CreatedAt") o)
  let updatedAt ← decTime (Json.field (key "UpdatedAt") o)
  let lastActiveConfig ← decConnConfig (Json.field (key "LastActiveConfig") o)
  let state ← decConnState type (Json.field (key "State") o)
  pure ⟨id, type, config, pipelineID, plugin, processorIDs, state, provisionedBy, createdAt, updatedAt, lastActiveConfig⟩

/-- the invariant of the running system: a source holds a `SourceState`, a destination a
`DestinationState` (or nothing yet). -/
def ConnState.fits (st : ConnState) (type : Int64) : Prop :=
  match st with
  | .none => True
  | .source _ => type = typeSource
  | .destination _ => type = typeDestination

def ConnInstance.stateMatches (x : ConnInstance) : Prop := x.state.fits x.type

/-! ### connector, pre-0.4.1 format (`migratePre041`) -/

/-- the local struct `connectorPre041`; `XState` is a `json.RawMessage` (absent ↦ `null`). -/
structure OldConn where
  type : Str
  xid : Str
  name : Str
  settings : Option (SMap Str)
  plugin : Str
  pipelineID : Str
  processorIDs : Option (List Str)
  xstate : Json
  xprovisionedBy : Int64
  xcreatedAt : Time
  xupdatedAt : Time
  deriving Repr, Inhabited

def decOldConn (j : Json) : Except DecErr OldConn := do
  let o ← match j with
    | .obj kvs => pure kvs
    | _ => throw DecErr.type
  let type ← decStr (Json.field (key "Type") o)
  let d ← decObj (Json.field (key "Data") o)
  let xid ← decStr (Json.field (key "XID") d)
  let c ← decObj (Json.field (key "XConfig") d)
  let name ← decStr (Json.field (key "Name") c)
  let settings ← decStrMap (Json.field (key "Settings") c)
  let plugin ← decStr (Json.field (key "Plugin") c)
  let pipelineID ← decStr (Json.field (key "PipelineID") c)
  let processorIDs ← decStrList (Json.field (key "ProcessorIDs") c)
  let prov ← decInt (Json.field (key "XProvisionedBy") d)
  let cat ← decTime (Json.field (key "XCreatedAt") d)
  let uat ← decTime (Json.field (key "XUpdatedAt") d)
  pure ⟨type, xid, name, settings, plugin, pipelineID, processorIDs, Json.field (key "XState") d, prov, cat, uat⟩

/-- the `instance := &Instance{…}` literal of `migratePre041`; `none` = unknown type, skipped. -/
def migrateInst (o : OldConn) : Option (ConnInstanceOf Json) :=
  let mk (t : Int64) : ConnInstanceOf Json :=
    { id := o.xid, type := t, config := ⟨o.name, o.settings⟩, pipelineID := o.pipelineID, plugin := o.plugin,
      processorIDs := o.processorIDs, state := o.xstate, provisionedBy := o.xprovisionedBy,
      createdAt := o.xcreatedAt, updatedAt := o.xupdatedAt, lastActiveConfig := ⟨[], none⟩ }
  if o.type = key "Source" then some (mk typeSource)
  else if o.type = key "Destination" then some (mk typeDestination)
  else none

/-- old document ↦ (new key id, new document); `none` when the migration skips the entry
(undecodable, unknown type, or empty ID refused by `PrepareSet`). -/
def migrateDoc (old : Json) : Option (Str × Json) :=
  match decOldConn old with
  | .error _ => none
  | .ok o =>
    match migrateInst o with
    | none => none
    | some i => if i.id = [] then none else some (i.id, encConnWith id i)

/-! ### pipeline (`pkg/pipeline`) -/

structure PipeConfig where
  name : Str
  description : Str
  deriving Repr, DecidableEq, Inhabited

structure DLQ where
  plugin : Str
  settings : Option (SMap Str)
  windowSize : Int64
  windowNackThreshold : Int64
  deriving Repr, DecidableEq, Inhabited

/-- `encodableInstance{*Instance, Status}`: the exported fields of `Instance`, then `Status`
(the unexported `status`). -/
structure PipeInstance where
  id : Str
  config : PipeConfig
  error : Str
  createdAt : Time
  updatedAt : Time
  provisionedBy : Int64
  dlq : DLQ
  connectorIDs : Option (List Str)
  processorIDs : Option (List Str)
  status : Int64
  deriving Repr, DecidableEq, Inhabited

def encPipe (x : PipeInstance) : Json :=
  .obj [(key "ID", .str x.id),
        (key "Config", .obj [(key "Name", .str x.config.name), (key "Description", .str x.config.description)]),
        (key "Error", .str x.error), (key "CreatedAt", encTime x.createdAt), (key "UpdatedAt", encTime x.updatedAt),
        (key "ProvisionedBy", encInt x.provisionedBy),
        (key "DLQ", .obj [(key "Plugin", .str x.dlq.plugin), (key "Settings", encStrMap x.dlq.settings),
                          (key "WindowSize", encInt x.dlq.windowSize),
                          (key "WindowNackThreshold", encInt x.dlq.windowNackThreshold)]),
        (key "ConnectorIDs", encStrList x.connectorIDs), (key "ProcessorIDs", encStrList x.processorIDs),
        (key "Status", encInt x.status)]

def decPipe (j : Json) : Except DecErr PipeInstance := do
  let o ← match j with
    | .obj kvs => pure kvs
    | _ => throw DecErr.type
  let id ← decStr (Json.field (key "ID") o)
  let c ← decObj (Json.field (key "Config") o)
  let name ← decStr (Json.field (key "Name") c)
  let description ← decStr (Json.field (key "Description") c)
  let error ← decStr (Json.field (key "Error") o)
  let createdAt ← decTime (Json.field (key "CreatedAt") o)
  let updatedAt ← decTime (Json.field (key "UpdatedAt") o)
  let provisionedBy ← decInt (Json.field (key "ProvisionedBy") o)
  let d ← decObj (Json.field (key "DLQ") o)
  let plugin ← decStr (Json.field (key "Plugin") d)
  let settings ← decStrMap (Json.field (key "Settings") d)
  let windowSize ← decInt (Json.field (key "WindowSize") d)
  let windowNackThreshold ← decInt (Json.field (key "WindowNackThreshold") d)
  let connectorIDs ← decStrList (Json.field (key "ConnectorIDs") o)
  let processorIDs ← decStrList (Json.field (key "ProcessorIDs") o)
  let status ← decInt (Json.field (key "Status") o)
  pure ⟨id, ⟨name, description⟩, error, createdAt, updatedAt, provisionedBy,
        ⟨plugin, settings, windowSize, windowNackThreshold⟩, connectorIDs, processorIDs, status⟩

/-! ### processor (`pkg/processor`) -/

structure ProcParent where
  id : Str
  type : Int64
  deriving Repr, DecidableEq, Inhabited

structure ProcConfig where
  settings : Option (SMap Str)
  workers : Int64
  deriving Repr, DecidableEq, Inhabited

structure ProcInstance where
  id : Str
  createdAt : Time
  updatedAt : Time
  provisionedBy : Int64
  plugin : Str
  condition : Str
  parent : ProcParent
  config : ProcConfig
  deriving Repr, DecidableEq, Inhabited

def encProc (x : ProcInstance) : Json :=
  .obj [(key "ID", .str x.id), (key "CreatedAt", encTime x.createdAt), (key "UpdatedAt", encTime x.updatedAt),
        (key "ProvisionedBy", encInt x.provisionedBy), (key "Plugin", .str x.plugin),
        (key "Condition", .str x.condition),
        (key "Parent", .obj [(key "ID", .str x.parent.id), (key "Type", encInt x.parent.type)]),
        (key "Config", .obj [(key "Settings", encStrMap x.config.settings), (key "Workers", encInt x.config.workers)])]

def decProc (j : Json) : Except DecErr ProcInstance := do
  let o ← match j with
    | .obj kvs => pure kvs
    | _ => throw DecErr.type
  let id ← decStr (Json.field (key "ID") o)
  let createdAt ← decTime (Json.field (key "CreatedAt") o)
  let updatedAt ← decTime (Json.field (key "UpdatedAt") o)
  let provisionedBy ← decInt (Json.field (key "ProvisionedBy") o)
  let plugin ← decStr (Json.field (key "Plugin") o)
  let condition ← decStr (Json.field (key "Condition") o)
  let p ← decObj (Json.field (key "Parent") o)
  let pid ← decStr (Json.field (key "ID") p)
  let ptype ← decInt (Json.field (key "Type") p)
  let c ← decObj (Json.field (key "Config") o)
  let settings ← decStrMap (Json.field (key "Settings") c)
  let workers ← decInt (Json.field (key "Workers") c)
  pure ⟨id, createdAt, updatedAt, provisionedBy, plugin, condition, ⟨pid, ptype⟩, ⟨settings, workers⟩⟩

/-! ### the stored bytes -/

/-- connector store: `json.Marshal` (no trailing newline). -/
def storeConn (x : ConnInstance) : List Char := (encConn x).print
/-- pipeline / processor store: `Encoder.Encode` (appends a newline). -/
def storePipe (x : PipeInstance) : List Char := (encPipe x).print ++ ['\n']
def storeProc (x : ProcInstance) : List Char := (encProc x).print ++ ['\n']

/-- what a restarted server's store reads from stored bytes. -/
def loadConn (s : List Char) : Option (Except DecErr ConnInstance) := (parse s).map decConn
def loadPipe (s : List Char) : Option (Except DecErr PipeInstance) := (parse s).map decPipe
def loadProc (s : List Char) : Option (Except DecErr ProcInstance) := (parse s).map decProc

/-! ### store keys -/
def connKeyPrefix : String := "connector:instance:"
def connPre041KeyPrefix : String := "connector:connector:"
def pipeKeyPrefix : String := "pipeline:instance:"
def procKeyPrefix : String := "processor:instance:"

/-- `addKeyPrefix` -/
def storeKey (pre : String) (id : Str) : Str := pre.toList ++ id
/-- `trimKeyPrefix` (`strings.TrimPrefix`) -/
def trimKey (pre : String) (k : Str) : Str := if pre.toList.isPrefixOf k then k.drop pre.toList.length else k

/-! ### a whole store through `migratePre041` (run by `NewStore` on every start)

The database is a list of records `(key, stored bytes)`. `migratePre041` visits every key with the
old prefix and decodes the record into `var old connectorPre041`, *declared inside the loop body*
(`Facts/C17.lean`, regenerated): a fresh zero value per record, so each old record is migrated on
its own — a per-record map. A migrated record is written under the new key and the old key is
deleted; an undecodable / unknown-type / empty-ID record is left where it is; records of any other
key are not looked at. (Two records that end under the same new key — equal `XID`s — would
overwrite each other in `GetKeys` order, which is unspecified for the in-memory DB; outside the model.) -/

abbrev KV := List (Str × List Char)

def isOldKey (k : Str) : Bool := connPre041KeyPrefix.toList.isPrefixOf k

/-- one record through the migration, independently of every other record. -/
def migrateRec (r : Str × List Char) : Str × List Char :=
  if isOldKey r.1 then
    match (parse r.2).bind migrateDoc with
    | some p => (storeKey connKeyPrefix p.1, p.2.print)
    | none => r
  else r

def migrateStore (db : KV) : KV := db.map migrateRec

/-- `Store.GetAll`: every record under the connector prefix, decoded; any failure fails the call. -/
def getAllConn (db : KV) : Option (List (Str × ConnInstance)) :=
  (db.filter fun r => connKeyPrefix.toList.isPrefixOf r.1).mapM fun r =>
    match loadConn r.2 with
    | some (.ok x) => some (trimKey connKeyPrefix r.1, x)
    | _ => none

end Conduit.Codec
