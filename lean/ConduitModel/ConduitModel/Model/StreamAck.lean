import ConduitModel.Model.StreamEv
import ConduitModel.Model.DlqWindow

/-
M4 / Ack — what happens to the status of a message of a v1 pipeline.

Mirrors, in /repo/pkg/lifecycle/stream:

  * message.go         `Message.Ack` / `Message.Nack`: status open → acked | nacked, first call wins
                       (`ackNackOnce`), the other call on a settled message panics ("BUG: …").
  * fanout.go          `FanoutNode.Run`: per message `remainingAcks := len(out)`; a clone's ack handler
                       decrements it and acks the original at 0; a clone's nack handler nacks the
                       original (idempotent). With one destination (`select1`) the original itself
                       travels on — modelled as the one-clone case, which behaves identically.
  * destination.go     `DestinationNode.Run`: a failed `Write` nacks the message.
  * destination_acker.go `DestinationAckerNode`: queue of written messages, `worker` matches each
                       `Destination.Ack()` reply element against the queue head (position equality),
                       buffers the rest of a reply, acks filtered messages without asking the plugin
                       (`fack`; filtered messages are not kept in the model's queue);
                       an error / unexpected position / EMPTY reply (after fix_F3.diff — the pinned
                       code indexed `acks[0]` and panicked) stops the worker. `teardown` nacks what is
                       left (`nackB`).
  * source_acker.go    `SourceAckerNode`: a FIFO ticket per message (`sem.Enqueue()` in arrival order);
                       the ack / nack handler of ticket k runs only after tickets < k were released
                       (`sem.Acquire(ticket)`), does nothing but fail once `fail` is set, otherwise
                         ack : `Source.Ack` → (`io.EOF` suppressed) → `DLQHandlerNode.Ack`
                         nack: `DLQHandlerNode.Nack` (window verdict, DLQ write + its ack) → `Source.Ack`
                       and sets `fail` when it returns an error.
  * dlq.go             `DLQHandlerNode.Nack`: refuse when not running / broken; `window.Nack()` verdict
                       (the ring buffer already modelled and proved in Model/DlqWindow.lean — reused);
                       a failed `Handler.Write` latches `broken`.
                       `lifecycle.DLQDestination.Write` = destination Write then Ack: `dlqw` / `dlqa`.

State is kept in separate maps per field (frame conditions are then syntactic). `log` is the list
of observable events so far, NEWEST FIRST; the property monitors (Spec/StreamMonitor.lean) are
functions of such a list, and are evaluated on the model's own log (theorems) and on the traces
recorded from the real engine (driver).

Ownership guards: an event that acks or nacks a message requires that message to be open. In the
code this is guaranteed by "only the node holding a message touches it" (the Flow component
decides who holds what; the product system checks both).

Core-only (no Mathlib): linked into the driver.
-/
namespace Conduit.Stream

inductive Status where
  | open | acked | nacked
deriving Repr, DecidableEq, Inhabited

/-- what the ack / nack handler of a source is doing (it holds the semaphore from its first to
its last step). -/
inductive HSt where
  | idle
  | winAck (i : Nat)     -- ack handler: Source.Ack returned nil/EOF, `DLQHandlerNode.Ack` + release pending
  | dlqWait (i : Nat)    -- nack handler: DLQ record handed to the DLQ plugin, waiting for its ack
  | needSack (i : Nat)   -- nack handler: DLQ confirmed, `Source.Ack` pending
deriving Repr, DecidableEq, Inhabited

structure Ack where
  /-- number of destinations (`len(n.out)` of the FanoutNode). -/
  M : Nat
  reads : Nat → Nat
  /-- status of the original message `(s,i)`. -/
  ost : Nat → Nat → Status
  /-- `msg.filtered` of the original. -/
  filt : Nat → Nat → Bool
  /-- the FanoutNode has taken `(s,i)`. -/
  fanned : Nat → Nat → Bool
  /-- `remainingAcks`. -/
  rem : Nat → Nat → Nat
  /-- status of the clone for destination d (`cl s i` has length `M` once fanned). -/
  cl : Nat → Nat → List Status
  /-- `filtered` flag of the clone for destination d. -/
  clFilt : Nat → Nat → Nat → Bool
  /-- SourceAckerNode s: positions (emit indices) in ticket order. -/
  tickets : Nat → List Nat
  /-- tickets released so far (`sem.Release`): the next handler allowed to run is `tickets[released]`. -/
  released : Nat → Nat
  fail : Nat → Bool
  hst : Nat → HSt
  /-- DLQHandlerNode. -/
  win : Dlq.Win
  broken : Bool
  /-- DestinationAckerNode d: queue, buffered acks (`acks` variable of `worker`), worker gone. -/
  aq : Nat → List (Nat × Nat)
  buf : Nat → List DAck
  wdead : Nat → Bool
  /-- a `BUG:` panic of message.go was reached. -/
  panicked : Bool
  /-- observable events, newest first. -/
  log : List Ev

def Ack.init (M size thr : Nat) : Ack :=
  { M := M, reads := fun _ => 0, ost := fun _ _ => .open, filt := fun _ _ => false,
    fanned := fun _ _ => false, rem := fun _ _ => 0, cl := fun _ _ => [],
    clFilt := fun _ _ _ => false, tickets := fun _ => [], released := fun _ => 0,
    fail := fun _ => false, hst := fun _ => .idle, win := Dlq.Win.new size thr, broken := false,
    aq := fun _ => [], buf := fun _ => [], wdead := fun _ => false, panicked := false, log := [] }

/-- status of the clone of `(s,i)` for destination `d` (`open` if there is none). -/
def Ack.clone (a : Ack) (s i d : Nat) : Status := ((a.cl s i)[d]?).getD .open

/-- the ack handler the FanoutNode registers on clone d (`wrapAckHandler`): `remainingAcks--`,
at 0 `msg.Ack()` on the original. Called when clone d is acked. -/
def Ack.cloneAck (a : Ack) (d s i : Nat) : Ack :=
  let rem' := a.rem s i - 1
  let a := { a with cl := upd2 a.cl s i ((a.cl s i).set d .acked), rem := upd2 a.rem s i rem' }
  if rem' = 0 then
    match a.ost s i with
    | .open => { a with ost := upd2 a.ost s i .acked }
    | .acked => a                       -- `Ack` twice: no-op (cannot happen, one decrement reaches 0)
    | .nacked => { a with panicked := true }   -- "BUG: message … ack failed, status is nacked"
  else a

/-- the nack handler on clone d (`wrapNackHandler`): `msg.Nack` on the original (first nack wins). -/
def Ack.cloneNack (a : Ack) (d s i : Nat) : Ack :=
  let a := { a with cl := upd2 a.cl s i ((a.cl s i).set d .nacked) }
  match a.ost s i with
  | .open => { a with ost := upd2 a.ost s i .nacked }
  | .nacked => a
  | .acked => { a with panicked := true }      -- "BUG: message … nack failed, status is acked"

/-- `worker`: handle the queue head `(s,i)` of destination d with reply element `x`.
`bytes.Equal(msg.Record.Position, ack.Position)` failing pushes the message back and stops the
worker. -/
def Ack.dproc (a : Ack) (d s i : Nat) (x : DAck) : Ack :=
  if x.1 = some (s, i) then
    let a := { a with aq := upd a.aq d ((a.aq d).drop 1) }
    if x.2 then a.cloneAck d s i else a.cloneNack d s i
  else { a with wdead := upd a.wdead d true }

/-- first element of a reply, as the worker takes it: `acks[0]`, out of range = panic in Go. -/
def firstAck (acks : List DAck) : Option DAck := acks[0]?

/-- the DLQ would take a nack now: handler running (not broken) and the window tolerates it. -/
def Ack.dlqAccepts (a : Ack) : Bool := !a.broken && a.win.nack1.2

/-- `(s,i)` holds the ticket whose turn it is and its handler has not started. -/
def Ack.turn (a : Ack) (s i : Nat) : Bool :=
  decide (a.hst s = .idle) && decide ((a.tickets s)[a.released s]? = some i)

/-- `DLQHandlerNode.Ack`: nothing when the node is not running, else `window.Ack()`. -/
def Ack.winAfterAck (a : Ack) : Dlq.Win := if a.broken then a.win else a.win.ack1

/-- `DLQHandlerNode.Nack` refusing: nothing when the node is not running, else the `window.Nack()`
that said no (it stores the nack). -/
def Ack.winAfterRefuse (a : Ack) : Dlq.Win := if a.broken then a.win else a.win.nack1.1

def Ack.release (a : Ack) (s : Nat) (failed : Bool) : Ack :=
  { a with released := upd a.released s (a.released s + 1), hst := upd a.hst s .idle,
           fail := if failed then upd a.fail s true else a.fail }

/-- shape of a processor plugin's reply for the one record a `ProcessorNode` hands it. -/
inductive ProcReply where
  | single (samePosition : Bool)   -- one SingleRecord; was the position left unchanged?
  | filter                         -- one FilterRecord
  | error                          -- one ErrorRecord
  | multi (n : Nat)                -- one MultiRecord with n records
  | nil                            -- one nil / unknown element
  | count (n : Nat)                -- n ≠ 1 elements (zero, or several)
deriving Repr, DecidableEq

/-- `ProcessorNode.Run` + `handleProcessedRecord` + `handleSingleRecord` (processor.go): what the
node does with every reply shape. Anything but an unchanged single record or a filter nacks the
message (and all but ErrorRecord / changed position also stop the node with a fatal error). -/
def procKind : ProcReply → PKind
  | .single true => .pass
  | .single false => .fail     -- "processor changed position": nack, node returns the error
  | .filter => .filter
  | .error => .fail            -- nack (→ DLQ), node goes on
  | .multi _ => .fail          -- CodeFanOutRequiresArchV2: nack + fatal
  | .nil => .fail              -- "unknown record type": nack + fatal
  | .count _ => .fail          -- "processor was given 1 record(s), but returned n": nack + fatal

/-- a processor in front of the fan-out answered for the original `(s,i)`. -/
def Ack.procO (a : Ack) (s i : Nat) (k : PKind) : Ack :=
  match k with
  | .pass => { a with log := .proc none s i k :: a.log }
  | .filter => { a with filt := upd2 a.filt s i true, log := .proc none s i k :: a.log }
  | .fail => { a with ost := upd2 a.ost s i .nacked, log := .proc none s i k :: a.log }

/-- a processor on destination d's chain answered for d's clone of `(s,i)`. -/
def Ack.procB (a : Ack) (d s i : Nat) (k : PKind) : Ack :=
  match k with
  | .pass => { a with log := .proc (some d) s i k :: a.log }
  | .filter => { a with clFilt := fun x y z => if x = s ∧ y = i ∧ z = d then true else a.clFilt x y z,
                        log := .proc (some d) s i k :: a.log }
  | .fail => { (a.cloneNack d s i) with log := .proc (some d) s i k :: a.log }

def Ack.step (a : Ack) : Ev → Option Ack
  | .read s => some { a with reads := upd a.reads s (a.reads s + 1), log := .read s :: a.log }
  | .enq s i =>
    -- direct channel SourceNode → SourceAckerNode: arrival order = read order
    if i = (a.tickets s).length ∧ i < a.reads s ∧ a.ost s i = .open then
      some { a with tickets := upd a.tickets s (a.tickets s ++ [i]) }
    else none
  | .proc none s i k =>
    if a.ost s i = .open ∧ a.fanned s i = false ∧ i < a.reads s then some (a.procO s i k) else none
  | .proc (some d) s i k =>
    if a.fanned s i = true ∧ d < a.M ∧ a.clone s i d = .open then some (a.procB d s i k) else none
  | .fan s i =>
    if a.ost s i = .open ∧ a.fanned s i = false ∧ i ∈ a.tickets s then
      some { a with fanned := upd2 a.fanned s i true, rem := upd2 a.rem s i a.M,
                    cl := upd2 a.cl s i (List.replicate a.M .open),
                    -- `Clone()` keeps the filtered flag (after fix_F13.diff)
                    clFilt := fun x y z => if x = s ∧ y = i then a.filt s i else a.clFilt x y z }
    else none
  | .write d s i ok =>
    if a.fanned s i = true ∧ d < a.M ∧ a.clone s i d = .open ∧ a.clFilt s i d = false then
      if ok then some { a with aq := upd a.aq d (a.aq d ++ [(s, i)]), log := .write d s i ok :: a.log }
      else some { (a.cloneNack d s i) with log := .write d s i ok :: a.log }
    else none
  | .fpass d s i =>
    -- a filtered message goes through DestinationNode unwritten, on to the acker
    if a.fanned s i = true ∧ d < a.M ∧ a.clone s i d = .open ∧ a.clFilt s i d = true then some a else none
  | .fack d s i =>
    -- … whose worker acks it without asking the plugin (`handleAck(msg, nil)`). Its place in the
    -- acker's queue only delays that ack, so the model does not queue it: `aq` holds the written
    -- messages only.
    if a.fanned s i = true ∧ d < a.M ∧ a.clone s i d = .open ∧ a.clFilt s i d = true ∧ a.wdead d = false then
      some (a.cloneAck d s i)
    else none
  | .dreply d acks =>
    if a.wdead d then
      -- the worker is gone: `teardown`'s goroutine keeps fetching acks and drops them
      some { a with log := .dreply d acks :: a.log }
    else
    -- the worker popped a non-filtered message with no buffered ack left and called `Destination.Ack`
    match (a.aq d)[0]? with
    | some (s, i) =>
      if a.buf d = [] ∧ a.clFilt s i d = false ∧ a.clone s i d = .open then
        let a := { a with log := .dreply d acks :: a.log }
        if acks.length = 0 then
          -- fix_F3: an empty reply is an error, the worker stops
          some { a with wdead := upd a.wdead d true }
        else
          match firstAck acks with
          | none => some { a with panicked := true }     -- `acks[0]` out of range
          | some x => some ({ a with buf := upd a.buf d (acks.drop 1) }.dproc d s i x)
      else none
    | none => none
  | .dreplyErr d =>
    match (a.aq d)[0]? with
    | some (s, i) =>
      if a.wdead d = false ∧ a.buf d = [] ∧ a.clFilt s i d = false then
        some { a with wdead := upd a.wdead d true, log := .dreplyErr d :: a.log }
      else none
    | none => none
  | .dbuf d =>
    match (a.aq d)[0]? with
    | some (s, i) =>
      if a.wdead d = false ∧ a.clone s i d = .open then
        match a.buf d with
        | x :: rest => some ({ a with buf := upd a.buf d rest }.dproc d s i x)
        | [] => none
      else none
    | none => none
  | .nackO s i =>
    if a.ost s i = .open ∧ a.fanned s i = false ∧ i < a.reads s then
      some { a with ost := upd2 a.ost s i .nacked }
    else none
  | .nackB d s i =>
    if a.fanned s i = true ∧ d < a.M ∧ a.clone s i d = .open then
      some { (a.cloneNack d s i) with aq := upd a.aq d ((a.aq d).filter (· ≠ (s, i))) }
    else none
  | .sack s i r =>
    match a.hst s with
    | .idle =>
      -- ack handler of the ticket whose turn it is
      if a.turn s i ∧ a.ost s i = .acked ∧ a.fail s = false then
        let a := { a with log := .sack s i r :: a.log }
        if r = SRes.err then some (a.release s true)
        else some { a with hst := upd a.hst s (.winAck i) }
      else none
    | .needSack j =>
      if j = i then some ({ a with log := .sack s i r :: a.log }.release s (decide (r = SRes.err))) else none
    | _ => none
  | .winAck s =>
    match a.hst s with
    | .winAck _ => some ({ a with win := a.winAfterAck }.release s false)
    | _ => none
  | .dlqw s i ok =>
    -- `state` is read before `n.m.Lock()`: a Nack that already passed the check goes on after
    -- another one latched `broken` meanwhile, so `broken` does not disable this event
    if a.turn s i ∧ a.ost s i = .nacked ∧ a.fail s = false ∧ a.win.nack1.2 = true then
      let a := { a with win := a.win.nack1.1, log := .dlqw s i ok :: a.log }
      if ok then some { a with hst := upd a.hst s (.dlqWait i) }
      else some ({ a with broken := true }.release s true)
    else none
  | .dlqa s i ok =>
    match a.hst s with
    | .dlqWait j =>
      if j = i then
        let a := { a with log := .dlqa s i ok :: a.log }
        if ok then some { a with hst := upd a.hst s (.needSack i) }
        else some ({ a with broken := true }.release s true)
      else none
    | _ => none
  | .hfail s i =>
    if a.turn s i ∧ a.ost s i ≠ .open then
      if a.fail s then some (a.release s true)
      else if a.ost s i = .nacked ∧ !a.dlqAccepts then
        -- DLQ refuses: not running / broken, or the window verdict (which stores the nack)
        some ({ a with win := a.winAfterRefuse }.release s true)
      else none
    else none
  | .dlqStop => some { a with broken := true }
  | .wkill d => some { a with wdead := upd a.wdead d true }
  | .fdeliver _ | .mv _ _ _ _ | .pdone _ _ _ _ => some a

def Ack.run : Ack → List Ev → Option Ack
  | a, [] => some a
  | a, e :: es => match Ack.step a e with
    | some a' => Ack.run a' es
    | none => none

end Conduit.Stream
