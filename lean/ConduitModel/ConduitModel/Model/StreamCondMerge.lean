/-
M7 `condMerge` — the merge of plugin output with pass-through records in
  /repo/pkg/processor/runnable_processor.go  `RunnableProcessor.Process`  (condition != nil branch)

Modelled as the code is AFTER fix_F4.diff (the merge loop walks the input once and every index
is guarded; the pinned code sliced `outRecs[prevIndex-i+1 : index-i]` and panicked with
"slice bounds out of range" when the plugin returned fewer records than it was given,
patterns keep/keep/pass, keep/pass/keep/pass: DESIGN §9 F4).

Every slice access of the Go code is written `xs[i]?` here and a miss is the outcome
`Panic.indexOutOfRange` (what Go does); that no input reaches it is a theorem
(Proofs/StreamCondMerge.lean), not a property of the definition.

Core-only (no Mathlib): linked into the driver.
-/
namespace Conduit.Stream.CondMerge

/-- result of `p.cond.Evaluate(rec)` for one record: `true`, `false`, or an error. -/
inductive Cond where
  | keep | pass | err
deriving Repr, DecidableEq, Inhabited

/-- what Go does on an out-of-range slice access. -/
inductive Panic where
  | indexOutOfRange
deriving Repr, DecidableEq, Inhabited

/-- one element of the returned `[]sdk.ProcessedRecord`.
`single r`  = `sdk.SingleRecord(records[i])` made by the engine for a pass-through record,
`res t`     = an element the plugin returned (opaque token `t`: any kind, any content),
`condErr`   = `sdk.ErrorRecord{"failed evaluating condition: …"}`,
`moreErr`   = `sdk.ErrorRecord{"processor returned more records than input"}`. -/
inductive Out (ρ τ : Type) where
  | single (r : ρ)
  | res (t : τ)
  | condErr
  | moreErr
deriving Repr, DecidableEq, Inhabited

/-- the evaluation loop `for i, rec := range records { keep, err = p.cond.Evaluate(rec); if err != nil { break } … }`,
one function per variable it fills: `keptRecords` … -/
def keptOf {ρ : Type} : List Cond → List ρ → List ρ
  | [], _ => []
  | _ :: _, [] => []                       -- `range records` ends with the records
  | .err :: _, _ :: _ => []
  | .keep :: cs, r :: rs => r :: keptOf cs rs
  | .pass :: cs, _ :: rs => keptOf cs rs

/-- … `passthroughRecordIndexes` (`i` is the index of the head of the lists) … -/
def passOf {ρ : Type} : List Cond → List ρ → Nat → List Nat
  | [], _, _ => []
  | _ :: _, [], _ => []
  | .err :: _, _ :: _, _ => []
  | .keep :: cs, _ :: rs, i => passOf cs rs (i+1)
  | .pass :: cs, _ :: rs, i => i :: passOf cs rs (i+1)

/-- … and `err != nil`. -/
def errOf {ρ : Type} : List Cond → List ρ → Bool
  | [], _ => false
  | _ :: _, [] => false
  | .err :: _, _ :: _ => true
  | _ :: cs, _ :: rs => errOf cs rs

/-- the merge loop of the fixed code:
```
for i := range records {
    if len(pass) > 0 && pass[0] == i { merged = append(merged, SingleRecord(records[i])); pass = pass[1:]; continue }
    if next == len(outRecs) { break }
    merged = append(merged, outRecs[next]); next++
}
```
`fuel` = iterations left, `i` = loop index. -/
def mergeLoop {ρ τ : Type} (recs : List ρ) (outRecs : List (Out ρ τ)) :
    Nat → Nat → Nat → List Nat → List (Out ρ τ) → Except Panic (List (Out ρ τ))
  | 0, _, _, _, merged => .ok merged
  | fuel+1, i, next, pass, merged =>
    if 0 < pass.length ∧ pass[0]? = some i then
      match recs[i]? with
      | none => .error .indexOutOfRange
      | some r => mergeLoop recs outRecs fuel (i+1) next (pass.drop 1) (merged ++ [.single r])
    else if next = outRecs.length then .ok merged
    else
      match outRecs[next]? with
      | none => .error .indexOutOfRange
      | some o => mergeLoop recs outRecs fuel (i+1) (next+1) pass (merged ++ [o])

/-- `RunnableProcessor.Process` with a condition: `conds[i]` is the outcome of evaluating the
condition on `recs[i]`, `plugin` is what `p.proc.Process(ctx, keptRecords)` returns (any list). -/
def condMerge {ρ τ : Type} (conds : List Cond) (recs : List ρ) (plugin : List ρ → List τ) :
    Except Panic (List (Out ρ τ)) :=
  let kept := keptOf conds recs
  let pass := passOf conds recs 0
  let cerr := errOf conds recs
  -- if len(keptRecords) > 0 { outRecs = p.proc.Process(ctx, keptRecords); if len(outRecs) > len(keptRecords) { return [ErrorRecord] } }
  let raw : List τ := if 0 < kept.length then plugin kept else []
  if kept.length < raw.length then .ok [.moreErr] else
  let outRecs : List (Out ρ τ) := raw.map .res
  -- if err != nil && len(outRecs) == len(keptRecords) { outRecs = append(outRecs, ErrorRecord{err}) }
  let outRecs := if cerr ∧ outRecs.length = kept.length then outRecs ++ [.condErr] else outRecs
  if pass.length = recs.length then
    -- optimisation: no record kept
    .ok (recs.map .single)
  else if 0 < pass.length then
    mergeLoop recs outRecs recs.length 0 0 pass []
  else .ok outRecs

/-! ### The pinned (unfixed) merge, kept to state exactly what the fix changes

`copy(tmp[a:b], outRecs[c:d])` with Go's bounds rules (`a ≤ b ≤ cap(tmp)`, `c ≤ d ≤ cap(outRecs)`;
capacities taken equal to lengths, which is what a plugin reply decoded from the wire has). -/

/-- `xs[a:b]` of a slice whose capacity equals its length. -/
def slice {α : Type} (xs : List α) (a b : Nat) : Except Panic (List α) :=
  if a ≤ b ∧ b ≤ xs.length then .ok ((xs.take b).drop a) else .error .indexOutOfRange

/-- `copy(dst[a:b], src)`: overwrite `min (b-a) src.length` cells of `dst` starting at `a`. -/
def copyInto {α : Type} (dst : List α) (a b : Nat) (src : List α) : Except Panic (List α) :=
  if a ≤ b ∧ b ≤ dst.length then
    let n := min (b - a) src.length
    .ok (dst.take a ++ src.take n ++ dst.drop (a + n))
  else .error .indexOutOfRange

/-- the pinned loop `for i, index := range passthroughRecordIndexes { copy(tmp[prevIndex+1:index], outRecs[prevIndex-i+1:index-i]); tmp[index] = …; prevIndex = index }`.
`prev1` is `prevIndex+1` (so that it is a natural number). -/
def oldLoop {ρ τ : Type} (recs : List ρ) (outRecs : List (Out ρ τ)) :
    List Nat → Nat → Nat → List (Option (Out ρ τ)) → Except Panic (List (Option (Out ρ τ)))
  | [], _, _, tmp => .ok tmp
  | index :: rest, i, prev1, tmp =>
    -- outRecs[prevIndex-i+1 : index-i]   (Go ints: negative bounds panic)
    if prev1 < i ∨ index < i then .error .indexOutOfRange else
    match slice outRecs (prev1 - i) (index - i) with
    | .error e => .error e
    | .ok src =>
      match copyInto tmp prev1 index (src.map some) with
      | .error e => .error e
      | .ok tmp1 =>
        match recs[index]?, decide (index < tmp1.length) with
        | some r, true => oldLoop recs outRecs rest (i+1) (index+1) (tmp1.set index (some (.single r)))
        | _, _ => .error .indexOutOfRange

def condMergeOld {ρ τ : Type} (conds : List Cond) (recs : List ρ) (plugin : List ρ → List τ) :
    Except Panic (List (Option (Out ρ τ))) :=
  let kept := keptOf conds recs
  let pass := passOf conds recs 0
  let cerr := errOf conds recs
  let raw : List τ := if 0 < kept.length then plugin kept else []
  if kept.length < raw.length then .ok [some .moreErr] else
  let outRecs : List (Out ρ τ) := raw.map .res
  let outRecs := if cerr then outRecs ++ [.condErr] else outRecs
  if pass.length = recs.length then .ok (recs.map fun r => some (.single r))
  else if 0 < pass.length then
    let tmp : List (Option (Out ρ τ)) := List.replicate (outRecs.length + pass.length) none
    match oldLoop recs outRecs pass 0 0 tmp with
    | .error e => .error e
    | .ok tmp1 =>
      -- if pass[len-1] != len(tmp)-1 { copy(tmp[prevIndex+1:], outRecs[prevIndex-len(pass)+1:]) }
      match pass.getLast? with
      | none => .error .indexOutOfRange
      | some last =>
        if last + 1 ≠ tmp1.length then
          if last + 1 < pass.length then .error .indexOutOfRange else
          match slice outRecs (last + 1 - pass.length) outRecs.length with
          | .error e => .error e
          | .ok src => copyInto tmp1 (last + 1) tmp1.length (src.map some)
        else .ok tmp1
  else .ok (outRecs.map some)

end Conduit.Stream.CondMerge
