/-
M4 — default (v1) pipeline engine, /repo/pkg/lifecycle/stream: event vocabulary shared by the two
components of the pipeline model

  * `Stream.Flow`  (Model/StreamFlow.lean)  — where messages are: the FIFO hand-offs between nodes,
    `ParallelNode` jobs, `FaninNode` merge, `FanoutNode` delivery, `DestinationNode` writes;
  * `Stream.Ack`   (Model/StreamAck.lean)   — what happens to a message's status: `Message`
    ack/nack, the fan-out arbiter (`remainingAcks`), `DestinationAckerNode` matching,
    `SourceAckerNode` tickets / `fail` latch, `DLQHandlerNode` window / `broken` latch.

The pipeline is their synchronous product (Model/StreamPipe.lean): an event is enabled iff both
components enable it. One event = one channel operation, one critical section or one call into a
plugin (DESIGN §6 atomicity convention). A message is identified by `(s, i)`: source id and the
emit index of its record at that source; `d` is a destination id.

Core-only (no Mathlib): linked into the driver.
-/
namespace Conduit.Stream

/-- what a `ProcessorNode` does with the plugin's reply for one record
(`handleProcessedRecord` + the length check in `Run`):
`pass`   `SingleRecord` with the position unchanged: forwarded;
`filter` `FilterRecord`: marked `filtered` and forwarded;
`fail`   everything else (ErrorRecord, MultiRecord, changed position, nil / unknown kind, zero or
         several results): the message is nacked. -/
inductive PKind where
  | pass | filter | fail
deriving Repr, DecidableEq, Inhabited

/-- result of `Source.Ack`: nil, an error, or `io.EOF` (stream already closed: suppressed). -/
inductive SRes where
  | ok | err | eof
deriving Repr, DecidableEq, Inhabited

/-- one element of a destination's `Ack()` reply: the position (`none` = a position the engine
never wrote) and whether it is an ack (`true`) or a nack. -/
abbrev DAck := Option (Nat × Nat) × Bool

/-- where a queue is: the chain of source `s` (SourceNode → SourceAckerNode → MetricsNode →
processors → fan-in), the pipeline chain (fan-in → processors → fan-out) or the chain of
destination `d` (fan-out → processors → MetricsNode → DestinationNode). -/
inductive Seg where
  | src (s : Nat)
  | pl
  | dst (d : Nat)
deriving Repr, DecidableEq, Inhabited

inductive Ev where
  /- observable at the plugin boundary -/
  | read (s : Nat)                               -- READ: source s hands its next record to the engine
  | proc (br : Option Nat) (s i : Nat) (k : PKind)
      -- PROC: a processor returned for (s,i); `br = none` in front of the fan-out, `some d` on destination d's chain
  | write (d s i : Nat) (ok : Bool)              -- WRITE: DestinationNode d calls Write; `ok = false`: Write failed
  | dreply (d : Nat) (acks : List DAck)          -- DACK: destination d's Ack() returned `acks`
  | dreplyErr (d : Nat)                          -- destination d's Ack() returned an error
  | dlqw (s i : Nat) (ok : Bool)                 -- DLQW: the DLQ plugin is given (s,i); `ok = false`: the write failed
  | dlqa (s i : Nat) (ok : Bool)                 -- DLQA: the DLQ plugin's reply for it (`false`: nack / malformed / error)
  | sack (s i : Nat) (r : SRes)                  -- SACK: Source.Ack([pos (s,i)]) with its result
  /- internal -/
  | enq (s i : Nat)                              -- SourceAckerNode receives (s,i): `sem.Enqueue()`, handlers registered
  | fan (s i : Nat)                              -- FanoutNode receives (s,i): clones, `remainingAcks := M`
  | fdeliver (d : Nat)                           -- FanoutNode hands the current message's clone to branch d
  | mv (g : Seg) (k : Nat) (s i : Nat)           -- the node reading stage k of chain g passes (s,i) on (unchanged)
  | pdone (g : Seg) (k : Nat) (s i : Nat)        -- a ParallelNode worker finished job (s,i) (jobs stage k)
  | fpass (d s i : Nat)                          -- DestinationNode d forwards a filtered message to its acker without writing
  | dbuf (d : Nat)                               -- DestinationAckerNode d's worker handles its queue head from the buffered acks (or as filtered)
  | nackO (s i : Nat)                            -- the node holding the original message (in front of the fan-out) nacks it
  | nackB (d s i : Nat)                          -- the node holding destination d's clone nacks it (incl. teardown)
  | winAck (s : Nat)                             -- ack handler of source s: `DLQHandlerNode.Ack(msg)` and release
  | hfail (s i : Nat)                            -- ack/nack handler of (s,i) returns an error without reaching the source
  | dlqStop                                      -- DLQHandlerNode.Run returned (force stop): state "stopped", every later Nack is refused
  | wkill (d : Nat)                              -- DestinationAckerNode d's worker stops (a handler returned an error, context cancelled)
  | fack (d s i : Nat)                           -- DestinationAckerNode d's worker acks the filtered clone of (s,i) (`handleAck(msg, nil)`)
deriving Repr, DecidableEq, Inhabited

/-- the events a trace recorded at the fake plugins contains. -/
def Ev.observable : Ev → Bool
  | .read _ | .proc _ _ _ _ | .write _ _ _ _ | .dreply _ _ | .dreplyErr _
  | .dlqw _ _ _ | .dlqa _ _ _ | .sack _ _ _ => true
  | _ => false

/-- `f[k ↦ v]` on functions from `Nat`. -/
def upd {α : Type} (f : Nat → α) (k : Nat) (v : α) : Nat → α := fun x => if x = k then v else f x

@[simp] theorem upd_same {α : Type} (f : Nat → α) (k : Nat) (v : α) : upd f k v k = v := by simp [upd]
@[simp] theorem upd_other {α : Type} (f : Nat → α) (k x : Nat) (v : α) (h : x ≠ k) : upd f k v x = f x := by
  simp [upd, h]
theorem upd_apply {α : Type} (f : Nat → α) (k x : Nat) (v : α) : upd f k v x = if x = k then v else f x := rfl

/-- `f[(s,i) ↦ v]` on two-argument functions. -/
def upd2 {α : Type} (f : Nat → Nat → α) (s i : Nat) (v : α) : Nat → Nat → α :=
  fun x y => if x = s ∧ y = i then v else f x y

@[simp] theorem upd2_same {α : Type} (f : Nat → Nat → α) (s i : Nat) (v : α) : upd2 f s i v s i = v := by
  simp [upd2]
theorem upd2_apply {α : Type} (f : Nat → Nat → α) (s i x y : Nat) (v : α) :
    upd2 f s i v x y = if x = s ∧ y = i then v else f x y := rfl
@[simp] theorem upd2_other {α : Type} (f : Nat → Nat → α) (s i x y : Nat) (v : α) (h : ¬ (x = s ∧ y = i)) :
    upd2 f s i v x y = f x y := by simp [upd2, h]

end Conduit.Stream
