import ConduitModel.Model.StreamEv

/-
M4 / Flow — where the messages of a v1 pipeline are.

Mirrors the hand-offs of /repo/pkg/lifecycle/stream as `lifecycle.Service.buildNodes` wires them:

  SourceNode s ─▶ SourceAckerNode ─▶ MetricsNode ─▶ processors of s ─▶┐
                                                       (per source)    FaninNode ─▶ pipeline processors ─▶ FanoutNode
  FanoutNode ─▶ processors of d ─▶ MetricsNode ─▶ DestinationNode d ─▶ (DestinationAckerNode d: see StreamAck)

A chain is a list of *stages*; stage k holds, oldest first, the messages on their way into the
k-th node of the chain (`base.go`: every hand-off is one Go channel send/receive, the nodes
themselves are sequential loops, so each stage is FIFO; the model keeps FIFO per source only, see
`takeFirst`). Channel capacity is abstracted: a stage is
an unbounded queue where the code has an unbuffered channel plus the one message the receiving
node holds. That only adds behaviours (back-pressure removes interleavings, it never reorders), so
every safety statement proved here holds for the bounded system.

  * `FaninNode.Run` (fanin.go): takes the next message of *some* input: `mv (src s) last`.
  * `ParallelNode` (parallel.go): two stages — its input, and the coordinator's job queue
    (`coordinatorJobs`, filled in dispatch order). `pdone` marks a job finished (any order:
    workers race); the coordinator only ever takes the *head* job and only when it is done
    (`job.Wait()` in dispatch order).
  * `FanoutNode.Run` (fanout.go): `fan` takes the next message only when every branch accepted the
    previous one (`wg.Wait()`), `fdeliver d` is goroutine d's `n.out[d] <- newMsg` (any order).
  * `DestinationNode.Run` (destination.go): `write` (filtered messages: `fpass`, no write).
  * a nack removes the message from wherever it is (the holder drops it).

Core-only (no Mathlib): linked into the driver.
-/
namespace Conduit.Stream

structure Msg where
  s : Nat
  i : Nat
  filt : Bool
deriving Repr, DecidableEq, Inhabited

/-- topology parameter: any number of sources / destinations, chains of any length. -/
structure Topo where
  nDst : Nat
  /-- stages of source chain `s` (stage 0: input of the SourceAckerNode). -/
  srcLen : Nat → Nat
  /-- stages of the pipeline chain; the last one is the input of the FanoutNode. -/
  plLen : Nat
  /-- stages of destination chain `d`; the last one is the input of the DestinationNode. -/
  dstLen : Nat → Nat
  /-- stage `k` of chain `g` is the job queue of a ParallelNode. -/
  jobs : Seg → Nat → Bool

abbrev Stages := List (List Msg)

/-- the messages of a chain, the ones closest to the exit first. -/
def flatR : Stages → List Msg
  | [] => []
  | q :: rest => flatR rest ++ q

/-- the first message of source `s` in a queue, and the queue without it. Stages are FIFO *per
source*: the order between messages of different sources inside the pipeline is not tracked (no
property depends on it, and the real FIFO channels are a special case), so the fan-in's choices
never have to be guessed from a trace. -/
def takeFirst (s : Nat) : List Msg → Option (Msg × List Msg)
  | [] => none
  | m :: q => if m.s = s then some (m, q) else (takeFirst s q).map fun (x, r) => (x, m :: r)

/-- hand the oldest message of source `s` in stage `k` to stage `k+1`. -/
def moveAt : Stages → Nat → Nat → Option (Msg × Stages)
  | q :: q' :: rest, 0, s => (takeFirst s q).map fun (m, r) => (m, r :: (q' ++ [m]) :: rest)
  | q :: rest, k+1, s => (moveAt rest k s).map fun (m, r) => (m, q :: r)
  | _, _, _ => none

/-- take the oldest message of source `s` out of the last stage (it leaves the chain). -/
def popLast : Stages → Nat → Option (Msg × Stages)
  | [], _ => none
  | [q], s => (takeFirst s q).map fun (m, r) => (m, [r])
  | q :: q2 :: rest, s => (popLast (q2 :: rest) s).map fun (m, r) => (m, q :: r)

/-- append to the first stage (the message enters the chain). -/
def pushFirst : Stages → Msg → Option Stages
  | [], _ => none
  | q :: rest, m => some ((q ++ [m]) :: rest)

def Stages.has (st : Stages) (s i : Nat) : Bool := st.any fun q => q.any fun m => m.s == s && m.i == i

/-- drop message `(s,i)` from every stage. -/
def Stages.remove (st : Stages) (s i : Nat) : Stages := st.map fun q => q.filter fun m => !(m.s == s && m.i == i)

/-- set the `filtered` flag of `(s,i)`. -/
def Stages.mark (st : Stages) (s i : Nat) : Stages :=
  st.map fun q => q.map fun m => if m.s == s && m.i == i then { m with filt := true } else m

structure Flow where
  reads : Nat → Nat
  src : Nat → Stages
  pl : Stages
  /-- FanoutNode: the message being delivered and the branches that have not accepted it yet. -/
  cur : Option Msg
  pend : List Nat
  dst : Nat → Stages
  /-- per destination: what `Destination.Write` was called with (successful or not), oldest first. -/
  wlog : Nat → List Msg
  /-- finished ParallelNode jobs. -/
  done : List (Seg × Nat × Nat × Nat)
  /-- `(br, s, i)`: a processor (in front of the fan-out: `none`, on destination d's chain: `some d`)
  returned FilterRecord for `(s,i)` (history). -/
  flt : List (Option Nat × Nat × Nat)

def Flow.init (τ : Topo) : Flow :=
  { reads := fun _ => 0
    src := fun s => List.replicate (τ.srcLen s) []
    pl := List.replicate τ.plLen []
    cur := none, pend := []
    dst := fun d => List.replicate (τ.dstLen d) []
    wlog := fun _ => [], done := [], flt := [] }

def Flow.chain (f : Flow) : Seg → Stages
  | .src s => f.src s
  | .pl => f.pl
  | .dst d => f.dst d

def Flow.setChain (f : Flow) : Seg → Stages → Flow
  | .src s, st => { f with src := upd f.src s st }
  | .pl, st => { f with pl := st }
  | .dst d, st => { f with dst := upd f.dst d st }

def Flow.step (τ : Topo) (f : Flow) : Ev → Option Flow
  | .read s =>
    (pushFirst (f.src s) ⟨s, f.reads s, false⟩).map fun st =>
      { f with src := upd f.src s st, reads := upd f.reads s (f.reads s + 1) }
  | .enq s i => Flow.step.mvSrc f s 0 i
  | .mv (.src s) k s' i =>
    if s' ≠ s then none else
    if τ.jobs (.src s) k ∧ (Seg.src s, k, s, i) ∉ f.done then none else Flow.step.mvSrc f s k i
  | .mv .pl k s i =>
    if τ.jobs .pl k ∧ (Seg.pl, k, s, i) ∉ f.done then none else
    match moveAt f.pl k s with
    | some (m, st) => if m.s = s ∧ m.i = i then some { f with pl := st } else none
    | none => none
  | .mv (.dst d) k s i =>
    if τ.jobs (.dst d) k ∧ (Seg.dst d, k, s, i) ∉ f.done then none else
    match moveAt (f.dst d) k s with
    | some (m, st) => if m.s = s ∧ m.i = i then some { f with dst := upd f.dst d st } else none
    | none => none
  | .fan s i =>
    -- `wg.Wait()`: every branch accepted the previous message
    if f.pend ≠ [] then none else
    if τ.jobs .pl (f.pl.length - 1) ∧ (Seg.pl, f.pl.length - 1, s, i) ∉ f.done then none else
    match popLast f.pl s with
    | some (m, st) =>
      if m.s = s ∧ m.i = i then some { f with pl := st, cur := some m, pend := List.range τ.nDst } else none
    | none => none
  | .fdeliver d =>
    match f.cur with
    | some m =>
      if d ∈ f.pend then
        (pushFirst (f.dst d) m).map fun st => { f with dst := upd f.dst d st, pend := f.pend.erase d }
      else none
    | none => none
  | .write d s i _ =>
    if τ.jobs (.dst d) ((f.dst d).length - 1) ∧ (Seg.dst d, (f.dst d).length - 1, s, i) ∉ f.done then none else
    match popLast (f.dst d) s with
    | some (m, st) =>
      if m.s = s ∧ m.i = i ∧ m.filt = false then
        some { f with dst := upd f.dst d st, wlog := upd f.wlog d (f.wlog d ++ [m]) }
      else none
    | none => none
  | .fpass d s i =>
    if τ.jobs (.dst d) ((f.dst d).length - 1) ∧ (Seg.dst d, (f.dst d).length - 1, s, i) ∉ f.done then none else
    match popLast (f.dst d) s with
    | some (m, st) => if m.s = s ∧ m.i = i ∧ m.filt = true then some { f with dst := upd f.dst d st } else none
    | none => none
  | .proc none s i k =>
    -- the processor holds the message: it is somewhere in front of the fan-out
    if (f.src s).has s i || f.pl.has s i then
      match k with
      | .pass => some f
      | .filter => some { f with src := upd f.src s ((f.src s).mark s i), pl := f.pl.mark s i, flt := (none, s, i) :: f.flt }
      | .fail => some { f with src := upd f.src s ((f.src s).remove s i), pl := f.pl.remove s i }
    else none
  | .proc (some d) s i k =>
    if (f.dst d).has s i then
      match k with
      | .pass => some f
      | .filter => some { f with dst := upd f.dst d ((f.dst d).mark s i), flt := (some d, s, i) :: f.flt }
      | .fail => some { f with dst := upd f.dst d ((f.dst d).remove s i) }
    else none
  | .nackO s i => some { f with src := upd f.src s ((f.src s).remove s i), pl := f.pl.remove s i }
  | .nackB d s i =>
    some { f with dst := upd f.dst d ((f.dst d).remove s i),
                  pend := if f.cur.any (fun m => m.s == s && m.i == i) then f.pend.erase d else f.pend }
  | .pdone g k s i => some { f with done := (g, k, s, i) :: f.done }
  | _ => some f
where
  /-- a hand-off inside source chain `s`, or out of it into the fan-in. -/
  mvSrc (f : Flow) (s k i : Nat) : Option Flow :=
    if k + 1 < (f.src s).length then
      match moveAt (f.src s) k s with
      | some (m, st) => if m.s = s ∧ m.i = i then some { f with src := upd f.src s st } else none
      | none => none
    else if k + 1 = (f.src s).length then
      -- FaninNode takes the message
      match popLast (f.src s) s with
      | some (m, st) =>
        if m.s = s ∧ m.i = i then (pushFirst f.pl m).map fun p => { f with src := upd f.src s st, pl := p } else none
      | none => none
    else none

def Flow.run (τ : Topo) : Flow → List Ev → Option Flow
  | f, [] => some f
  | f, e :: es => match Flow.step τ f e with
    | some f' => Flow.run τ f' es
    | none => none

/-- the emit indices of source `s` among `l`. -/
def idxOf (s : Nat) (l : List Msg) : List Nat := (l.filter fun m => m.s == s).map (·.i)

end Conduit.Stream
