import ConduitModel.Model.StreamFlow
import ConduitModel.Model.StreamAck

/-
M4 — the v1 pipeline as the synchronous product of its two components: an event happens iff the
Flow component (who holds which message) and the Ack component (what the message's status is)
both enable it. Every run of the product is, projected, a run of each component, so every theorem
about all runs of a component holds for all runs of the pipeline.
-/
namespace Conduit.Stream

structure Pipe where
  flow : Flow
  ack : Ack

def Pipe.init (τ : Topo) (size thr : Nat) : Pipe :=
  ⟨Flow.init τ, Ack.init τ.nDst size thr⟩

def Pipe.step (τ : Topo) (p : Pipe) (e : Ev) : Option Pipe :=
  match Flow.step τ p.flow e, Ack.step p.ack e with
  | some f, some a => some ⟨f, a⟩
  | _, _ => none

def Pipe.run (τ : Topo) : Pipe → List Ev → Option Pipe
  | p, [] => some p
  | p, e :: es => match Pipe.step τ p e with
    | some p' => Pipe.run τ p' es
    | none => none

end Conduit.Stream
