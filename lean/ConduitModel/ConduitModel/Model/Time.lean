import ConduitModel.Model.Json

/-
M7 codec — timestamps. `time.Time` is written by its `MarshalJSON` as an RFC 3339 string with
nanoseconds (`2006-01-02T15:04:05.999999999Z07:00`: the fraction has no trailing zeros and is left
out when zero; the zone is `Z` for offset 0, else `±hh:mm`) and read back by `UnmarshalJSON`.
The model keeps a time as what that text shows: the civil date/time in the value's zone and the
zone offset in minutes (every tz-database zone has whole-minute offsets for current dates; Go
itself truncates seconds of an offset when formatting). The instant is a function of these fields,
so equal fields ⇒ equal instant *and* equal zone offset. The monotonic clock reading of a
`time.Now()` value is not part of the stored form (Go strips it) and is not modelled.
Core-only.
-/
namespace Conduit.Codec

structure Time where
  year : Nat
  month : Nat
  day : Nat
  hour : Nat
  min : Nat
  sec : Nat
  nano : Nat
  /-- zone offset, minutes east of UTC -/
  off : Int
  deriving Repr, DecidableEq, Inhabited

/-- Go's zero `time.Time{}`: 0001-01-01T00:00:00Z -/
def Time.zero : Time := ⟨1, 1, 1, 0, 0, 0, 0, 0⟩

def isLeap (y : Nat) : Bool := y % 4 = 0 && (y % 100 ≠ 0 || y % 400 = 0)

def daysIn (y m : Nat) : Nat :=
  if m = 2 then (if isLeap y then 29 else 28)
  else if m = 4 ∨ m = 6 ∨ m = 9 ∨ m = 11 then 30 else 31

/-- what `MarshalJSON` accepts (year in [0,9999], offset below 24h) for a real calendar time. -/
def Time.valid (t : Time) : Bool :=
  t.year ≤ 9999 && 1 ≤ t.month && t.month ≤ 12 && 1 ≤ t.day && t.day ≤ daysIn t.year t.month
    && t.hour < 24 && t.min < 60 && t.sec < 60 && t.nano < 1000000000
    && -1440 < t.off && t.off < 1440

def pad2 (n : Nat) : List Char := [digitChar (n / 10), digitChar n]

def pad4 (n : Nat) : List Char := [digitChar (n / 1000), digitChar (n / 100), digitChar (n / 10), digitChar n]

/-- `w` fraction digits of `n < 10^w`, trailing zeros dropped. -/
def fracDigits : Nat → Nat → List Char
  | 0, _ => []
  | w + 1, n => if n = 0 then [] else digitChar (n / 10 ^ w) :: fracDigits w (n % 10 ^ w)

def fracVal : Nat → List Char → Nat
  | 0, _ => 0
  | _ + 1, [] => 0
  | w + 1, c :: cs => digitVal c * 10 ^ w + fracVal w cs

def formatZone (off : Int) : List Char :=
  if off = 0 then ['Z']
  else
    let a := off.natAbs
    (if off < 0 then '-' else '+') :: (pad2 (a / 60) ++ ':' :: pad2 (a % 60))

/-- `t.AppendFormat(time.RFC3339Nano)` -/
def formatTime (t : Time) : List Char :=
  pad4 t.year ++ '-' :: (pad2 t.month ++ '-' :: (pad2 t.day ++ 'T' :: (pad2 t.hour ++ ':' :: (pad2 t.min ++ ':' ::
    (pad2 t.sec ++ ((if t.nano = 0 then [] else '.' :: fracDigits 9 t.nano) ++ formatZone t.off))))))

def num2 (a b : Char) : Option Nat :=
  if isDigit a && isDigit b then some (digitVal a * 10 + digitVal b) else none

def parseZone (s : List Char) : Option Int :=
  match s with
  | ['Z'] => some 0
  | [sg, h1, h2, ':', m1, m2] =>
    match num2 h1 h2, num2 m1 m2 with
    | some h, some m =>
      if h < 24 ∧ m < 60 then
        if sg = '+' then some ((h * 60 + m : Nat) : Int)
        else if sg = '-' then some (-((h * 60 + m : Nat) : Int))
        else none
      else none
    | _, _ => none
  | _ => none

/-- the fraction (if any) and the zone -/
def parseFracZone (s : List Char) : Option (Nat × Int) :=
  match s with
  | '.' :: r =>
    match spanDigits r with
    | (ds, z) =>
      if ds = [] ∨ 9 < ds.length then none
      else match parseZone z with
        | some off => some (fracVal 9 ds, off)
        | none => none
  | _ => match parseZone s with
    | some off => some (0, off)
    | none => none

/-- `time.Time.UnmarshalJSON` on the text inside the quotes (strict RFC 3339). -/
def parseTime (s : List Char) : Option Time :=
  match s with
  | y1 :: y2 :: y3 :: y4 :: '-' :: mo1 :: mo2 :: '-' :: d1 :: d2 :: tt :: h1 :: h2 :: ':' :: mi1 :: mi2 :: ':' :: s1 :: s2 :: r =>
    if tt ≠ 'T' then none else
    match num2 y1 y2, num2 y3 y4, num2 mo1 mo2, num2 d1 d2, num2 h1 h2, num2 mi1 mi2, num2 s1 s2, parseFracZone r with
    | some ya, some yb, some mo, some d, some h, some mi, some sc, some (ns, off) =>
      let t : Time := ⟨ya * 100 + yb, mo, d, h, mi, sc, ns, off⟩
      if 1 ≤ mo ∧ mo ≤ 12 ∧ 1 ≤ d ∧ d ≤ daysIn t.year mo ∧ h < 24 ∧ mi < 60 ∧ sc < 60 then some t else none
    | _, _, _, _, _, _, _, _ => none
  | _ => none

end Conduit.Codec
