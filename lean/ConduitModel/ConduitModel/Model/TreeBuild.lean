import ConduitModel.Model.Funnel

/-!
# How the arch-v2 service builds the task tree of a worker (pkg/lifecycle-poc/service.go)

Executable model, statement by statement, of

* `funnel.(*TaskNode).AppendToEnd`            (pkg/lifecycle-poc/funnel/worker.go)
* `(*Service).buildSharedTail`                (pkg/lifecycle-poc/service.go)
* the per-source loop body of `(*Service).buildRunnablePipeline` that links a source's tasks and
  attaches the shared roots (`workerTree`)
* the whole of `buildRunnablePipeline` as far as the trees and its error exits are concerned
  (`buildWorkers`: `buildSourceTasks`, `buildDestinationTasks`, `buildProcessorTasks`,
  `buildSharedTail`, `funnel.NewSink`'s duplicate check, `funnel.NewWorker`'s `validateTasks`).

Pointers. The Go code mutates nodes through pointers: it keeps a pointer `tail` to the node it
appended last and calls `tail.AppendToEnd(next)`. `tail` has no `Next` at that moment and is the end
of the chain hanging below the root, so the call is the same as appending at the end of the ROOT's
chain, which is what the functional model does (`appendTasks root …`: `appendToEnd root [next]`). The
shared roots are attached BY POINTER to every source's chain (all workers reach the same node
objects; `t.Next = next` even aliases the caller's slice); a worker only ever walks the tree
reachable from its own `FirstTask`, and that tree is what `workerTree` returns — the sharing is not
visible in it (and is the subject of the `funnelshared` correspondence, not of this file).

Task identities are natural numbers here; in the code they are the connector / processor instance
ids (strings). A task's kind is its Go type (`*SourceTask` / `*ProcessorTask` / `*DestinationTask`).
-/
namespace Conduit.Funnel

/-- a task before it is wrapped into a node: `(Task.ID(), Go type of the task)` -/
abbrev TaskSpec := Nat × TaskKind

/-- `&funnel.TaskNode{Task: task}` -/
def leaf (t : TaskSpec) : TaskNode := .mk t.1 t.2 []

/-- `func (t *TaskNode) AppendToEnd(next ...*TaskNode) error` (worker.go):
`switch len(t.Next)`: `case 0: t.Next = next; return nil` — `case 1: return t.Next[0].AppendToEnd(next...)`
— `default: return error "(bug) multiple next tasks…"`. `none` is the error; the receiver is
unchanged in that case (nothing was assigned on the way down). -/
def appendToEnd : TaskNode → List TaskNode → Option TaskNode
  | .mk id k [], nx => some (.mk id k nx)
  | .mk id k [c], nx =>
    match appendToEnd c nx with
    | some c' => some (.mk id k [c'])
    | none => none
  | .mk _ _ (_ :: _ :: _), _ => none

/-- the loop
```go
tail := root
for _, task := range tasks[1:] {
    next := &funnel.TaskNode{Task: task}
    if err := tail.AppendToEnd(next); err != nil { return nil, … }
    tail = next
}
```
(three copies in service.go: source chain, destination branch, shared processor chain) -/
def appendTasks (root : TaskNode) : List TaskSpec → Option TaskNode
  | [] => some root
  | t :: ts =>
    match appendToEnd root [leaf t] with
    | none => none
    | some r => appendTasks r ts

/-- error exits of the tree-building statements -/
inductive TreeErr
  /-- `"(bug) destination branch has no tasks"` -/
  | emptyBranch
  /-- an `AppendToEnd` call failed (`"(bug) multiple next tasks…"`) -/
  | multiNext
  /-- `srcTaskSet.tasks[0]` on an empty task list (index out of range panic in Go) -/
  | noTasks
  deriving DecidableEq, Repr, Inhabited

/-- first loop of `buildSharedTail`: `for i, destTasksBranch := range destTasks { if len == 0 → error;
branchNode := &TaskNode{Task: branch[0]}; …append branch[1:]…; destBranches[i] = branchNode }` -/
def destBranches : List (List TaskSpec) → Except TreeErr (List TaskNode)
  | [] => .ok []
  | [] :: _ => .error .emptyBranch
  | (f :: rest) :: bs =>
    match appendTasks (leaf f) rest with
    | none => .error .multiNext
    | some b =>
      match destBranches bs with
      | .error e => .error e
      | .ok l => .ok (b :: l)

/-- `func (s *Service) buildSharedTail(procTasks []funnel.Task, destTasks [][]funnel.Task) ([]*funnel.TaskNode, error)`:
destination branches; `if len(procTasks) == 0 { return destBranches }`; processor chain
`procRoot`; ONE `tail.AppendToEnd(destBranches...)`; `return []*TaskNode{procRoot}`. -/
def buildSharedTail (procs : List Nat) (dests : List (List TaskSpec)) : Except TreeErr (List TaskNode) :=
  match destBranches dests with
  | .error e => .error e
  | .ok branches =>
    match procs with
    | [] => .ok branches
    | p :: ps =>
      match appendTasks (leaf (p, .proc)) (ps.map fun q => (q, TaskKind.proc)) with
      | none => .error .multiNext
      | some procRoot =>
        match appendToEnd procRoot branches with
        | none => .error .multiNext
        | some procRoot => .ok [procRoot]

/-- loop body of `for _, srcTaskSet := range srcTaskSets` in `buildRunnablePipeline`:
`taskNode := &TaskNode{Task: srcTaskSet.tasks[0]}`; append `tasks[1:]`;
`tail.AppendToEnd(sharedRoots...)`. The result is `worker.FirstTask`. -/
def sourceTree (src : List TaskSpec) (sharedRoots : List TaskNode) : Except TreeErr TaskNode :=
  match src with
  | [] => .error .noTasks
  | f :: rest =>
    match appendTasks (leaf f) rest with
    | none => .error .multiNext
    | some root =>
      match appendToEnd root sharedRoots with
      | none => .error .multiNext
      | some t => .ok t

/-- the tree of the worker of one source: `src` = that source's task list (`srcTaskSet.tasks`),
`procs` = ids of the pipeline-level processors, `dests` = one task list per destination connector. -/
def workerTreeE (src : List TaskSpec) (procs : List Nat) (dests : List (List TaskSpec)) : Except TreeErr TaskNode :=
  match buildSharedTail procs dests with
  | .error e => .error e
  | .ok roots => sourceTree src roots

def workerTree (src : List TaskSpec) (procs : List Nat) (dests : List (List TaskSpec)) : Option TaskNode :=
  match workerTreeE src procs dests with
  | .ok t => some t
  | .error _ => none

/-! ## the task lists (`buildSourceTasks`, `buildDestinationTasks`, `buildProcessorTasks`) -/

/-- `tasks = append(tasks, srcTask); tasks = append(tasks, procTasks...)` (buildSourceTasks) -/
def srcChain (sourceID : Nat) (procIDs : List Nat) : List TaskSpec :=
  (sourceID, .source) :: procIDs.map fun q => (q, TaskKind.proc)

/-- `destTasks = append(destTasks, procTasks...); destTasks = append(destTasks, destTask)`
(buildDestinationTasks; #2736: the connector's own processors run BEFORE the destination task) -/
def destChain (destID : Nat) (procIDs : List Nat) : List TaskSpec :=
  (procIDs.map fun q => (q, TaskKind.proc)) ++ [(destID, .dest)]

/-! ## the whole of `buildRunnablePipeline` (trees and error exits) -/

/-- what `s.connectors.Get(ctx, connID)` finds for an entry of `pl.ConnectorIDs` -/
inductive ConnKind | source | dest | missing
  deriving DecidableEq, Repr, Inhabited

/-- a processor id of a `ProcessorIDs` list, and whether `s.processors.Get` finds it -/
abbrev ProcRef := Nat × Bool

structure ConnCfg where
  kind : ConnKind
  id : Nat
  /-- `instance.ProcessorIDs` -/
  procs : List ProcRef
  deriving Repr, Inhabited

structure PipeCfg where
  /-- `pl.ConnectorIDs`, in order -/
  conns : List ConnCfg
  /-- `pl.ProcessorIDs` -/
  procs : List ProcRef
  deriving Repr, Inhabited

inductive BuildErr
  /-- `"could not fetch connector"` -/
  | connector
  /-- `connector.ErrConnectorRunning` from `instance.Connector(…)`: the connector instance is open in a
  live run (never produced by `buildWorkers`, which models one build on idle connectors; used by
  `Model/Rebuild.lean`) -/
  | connRunning
  /-- `"could not fetch processor"` -/
  | processor
  /-- `processor.ErrProcessorRunning`: `MakeRunnableProcessor` reserves the instance
  (`running.CompareAndSwap(false, true)`), so an id listed twice is refused the second time -/
  | running
  /-- `"can't build pipeline without any source connectors"` -/
  | nosrc
  /-- `"can't build pipeline without any destination connectors"` -/
  | nodst
  /-- `"failed to build shared sink task graph"` -/
  | tail (e : TreeErr)
  /-- `"failed to build shared sink"`: funnel.NewSink (no roots / a task id twice below the roots) -/
  | sink
  /-- `"failed to append task to task node list"` / `"failed to attach shared sink"` -/
  | append (e : TreeErr)
  /-- `"failed to create worker"`: funnel.NewWorker → validateTasks (a task id twice in the worker's own prefix) -/
  | worker
  deriving DecidableEq, Repr, Inhabited

/-- `buildProcessorTasks`: `for _, procID := range processorIDs { Get; MakeRunnableProcessor; append }`.
`running` = the processor instances reserved so far during this build. -/
def buildProcessorTasks (running : List Nat) : List ProcRef → Except BuildErr (List Nat × List Nat)
  | [] => .ok ([], running)
  | (id, found) :: ps =>
    if !found then .error .processor
    else if running.contains id then .error .running
    else
      match buildProcessorTasks (id :: running) ps with
      | .error e => .error e
      | .ok (ts, r) => .ok (id :: ts, r)

/-- `buildSourceTasks`: `for _, connID := range pl.ConnectorIDs { Get; if Type != TypeSource continue;
srcTask; buildProcessorTasks(instance.ProcessorIDs); sets = append(sets, {instance.ID, tasks}) }` -/
def buildSourceTasks (running : List Nat) : List ConnCfg → Except BuildErr (List (List TaskSpec) × List Nat)
  | [] => .ok ([], running)
  | c :: cs =>
    match c.kind with
    | .missing => .error .connector
    | .dest => buildSourceTasks running cs
    | .source =>
      match buildProcessorTasks running c.procs with
      | .error e => .error e
      | .ok (ps, r) =>
        match buildSourceTasks r cs with
        | .error e => .error e
        | .ok (sets, r') => .ok (srcChain c.id ps :: sets, r')

/-- `buildDestinationTasks`: the same loop for `TypeDestination` -/
def buildDestinationTasks (running : List Nat) : List ConnCfg → Except BuildErr (List (List TaskSpec) × List Nat)
  | [] => .ok ([], running)
  | c :: cs =>
    match c.kind with
    | .missing => .error .connector
    | .source => buildDestinationTasks running cs
    | .dest =>
      match buildProcessorTasks running c.procs with
      | .error e => .error e
      | .ok (ps, r) =>
        match buildDestinationTasks r cs with
        | .error e => .error e
        | .ok (sets, r') => .ok (destChain c.id ps :: sets, r')

/-- is some element listed twice? (the `seen` maps of NewSink / validateTasks) -/
def hasDup : List Nat → Bool
  | [] => false
  | x :: xs => xs.contains x || hasDup xs

mutual
/-- ids in the order of `TaskNode.Tasks()` (depth first) -/
def nodeIds : TaskNode → List Nat
  | .mk id _ next => id :: nodesIds next
def nodesIds : List TaskNode → List Nat
  | [] => []
  | n :: ns => nodeIds n ++ nodesIds ns
end

/-- the per-source loop: `buildDLQ` (no failure modelled), `sourceTree`, `funnel.NewWorker`
(`validateTasks` walks `Tasks()`, which stops at the shared boundary: the source's own tasks) -/
def buildWorkerTrees (roots : List TaskNode) : List (List TaskSpec) → Except BuildErr (List TaskNode)
  | [] => .ok []
  | src :: rest =>
    match sourceTree src roots with
    | .error e => .error (.append e)
    | .ok t =>
      if hasDup (src.map (·.1)) then .error .worker
      else
        match buildWorkerTrees roots rest with
        | .error e => .error e
        | .ok ts => .ok (t :: ts)

/-- `buildRunnablePipeline`: one tree (`worker.FirstTask`) per source, or the first error exit. -/
def buildWorkers (cfg : PipeCfg) : Except BuildErr (List TaskNode) :=
  match buildSourceTasks [] cfg.conns with
  | .error e => .error e
  | .ok (srcSets, r1) =>
    if srcSets.isEmpty then .error .nosrc
    else
      match buildDestinationTasks r1 cfg.conns with
      | .error e => .error e
      | .ok (destTasks, r2) =>
        if destTasks.isEmpty then .error .nodst
        else
          match buildProcessorTasks r2 cfg.procs with
          | .error e => .error e
          | .ok (procTasks, _) =>
            match buildSharedTail procTasks destTasks with
            | .error e => .error (.tail e)
            | .ok sharedRoots =>
              if sharedRoots.isEmpty || hasDup (nodesIds sharedRoots) then .error .sink
              else buildWorkerTrees sharedRoots srcSets

end Conduit.Funnel
