/-
M-WS — the graceful-stop protocol of the arch-v2 worker
(/repo/pkg/lifecycle-poc/funnel/worker.go: `Worker.Do`, the first-task part of `doTaskAttempt`,
`Worker.Stop`, `tearDownSource`, `Worker.Close`; driven by /repo/pkg/lifecycle-poc/service.go:
`stopRunnablePipeline` calls `w.Stop(ctx)` on its own goroutine, `runPipeline`'s worker goroutine
calls `w.Do(ctx)` and then `w.Close(...)`).

Two goroutines over shared state, one atomic step per event:

  reading goroutine (Do, then Close)                    stopping goroutine (Stop)
  ----------------------------------                    -------------------------
  loopTest      `for !w.stop.Load()`                    stopRequest      Stop is called
  readBegin     SourceTask.Do calls Source.Read         stopLockAcquire  acquireProcessingLock (blocks while held)
  readReturn r  Read returns batch | EOF | error        setStopFlag      `w.stop.Store(true)`
  lockAcquire   `acquireProcessingLock` (first task)    teardownSource   `w.tearDownSource(ctx)`
  stopCheck     `if w.stop.Load() { …return nil }`      stopRelease      deferred `release()`
                                                        stopReturn       Stop has returned nil to its caller
  passStep / passWrite / passAck / passEnd
                the pass of the batch through the tasks after the source (abstract: the only
                facts used are the ones `C04_v2_pass_acks_prefix` / `C04_v2_pass_ok_acks_all`
                prove of the engine model — acks extend a prefix of the batch's positions, a pass
                that ends without error has acked all of them)
  lockRelease   deferred `release()` when doTaskAttempt returns
  eofSetStop / teardownSource .reader    the io.EOF branch: `w.stop.Store(true)`, `tearDownSource`
  doReturn      Do returns;  close = Worker.Close's `tearDownSource`

`tearDownSource` is one atomic step (it runs under `teardownMu`) and is guarded by
`sourceTornDown`: `Source.Teardown` is called only when the flag is still false.

Not modelled: a cancelled context (force stop: `acquireProcessingLock` losing to `ctx.Done()`), a
failing `Source.Teardown` (the flag then stays false and a later caller retries) — the property is
about a graceful stop while the plugins respond — and more than one call of `Stop`.
Core-only.
-/
namespace Conduit.WorkerStop

/-- holder of `processingLock` -/
inductive Who | reader | stopper
deriving DecidableEq, Repr, Inhabited

/-- what `Source.Read` returned -/
inductive ReadRes
  | batch (n : Nat)   -- a batch of n records
  | eof               -- io.EOF: the source is exhausted
  | notRunning        -- plugin.ErrPluginNotRunning (the Read raced the teardown)
  | err               -- any other error
deriving DecidableEq, Repr, Inhabited

/-- program counter of the goroutine that runs `Worker.Do` and afterwards `Worker.Close` -/
inductive RPc
  | loopTest                -- at `for !w.stop.Load()`
  | atRead                  -- in the loop body, `Source.Read` not called yet
  | inRead                  -- inside `Source.Read`
  | gotBatch                -- Read returned a batch; `acquireProcessingLock` not done yet
  | locked                  -- lock held; before `if w.stop.Load()`
  | inPass                  -- the batch is being processed by the tasks after the source
  | releasing (ok : Bool)   -- doTaskAttempt is returning (nil / error); deferred `release()` pending
  | eofArm                  -- EOF branch, before `w.stop.Store(true)`
  | eofTd                   -- EOF branch, before `w.tearDownSource`
  | exiting (ok : Bool)     -- Do is about to return (nil / error)
  | done (ok : Bool)        -- Do has returned; Close not called yet
  | closed                  -- Close has run `tearDownSource`
deriving DecidableEq, Repr, Inhabited

/-- program counter of the goroutine that runs `Worker.Stop` -/
inductive SPc
  | idle        -- Stop not called
  | wantLock    -- Stop called, `acquireProcessingLock` pending
  | haveLock    -- lock held, before `w.stop.Store(true)`
  | flagSet     -- flag set, before `w.tearDownSource`
  | tdDone      -- source torn down, deferred `release()` pending
  | released    -- lock released, Stop is returning
  | returned    -- Stop has returned nil (the caller can observe it)
deriving DecidableEq, Repr, Inhabited

/-- caller of `tearDownSource` -/
inductive TdBy | stopper | reader
deriving DecidableEq, Repr, Inhabited

inductive Ev
  | loopTest
  | readBegin
  | readReturn (r : ReadRes)
  | lockAcquire
  | stopCheck
  | passStep                          -- a processor call: no destination effect
  | passWrite                         -- records of the batch are written to a destination / the DLQ
  | passAck (n : Nat) (late : Bool)   -- `Source.Ack` of the next n positions; `late`: the source was
                                      -- already torn down (the ack is lost, ErrPluginNotRunning)
  | passEnd (ok : Bool)               -- the pass returns nil / an error
  | lockRelease
  | eofSetStop
  | teardownSource (by_ : TdBy)
  | doReturn
  | close
  | stopRequest
  | stopLockAcquire
  | setStopFlag
  | stopRelease
  | stopReturn
deriving DecidableEq, Repr, Inhabited

/-- how a batch that was read ended -/
inductive Res | ok | err | discarded
deriving DecidableEq, Repr, Inhabited

/-- ledger entry of a finished batch -/
structure Done where
  size : Nat        -- records in the batch
  acked : Nat       -- positions acknowledged to the source (a prefix)
  wrote : Bool      -- some record reached a destination or the DLQ
  res : Res
  beforeTd : Bool   -- the source had not been torn down yet when the batch was finished
deriving DecidableEq, Repr, Inhabited

/-- written but not (completely) acknowledged -/
def Done.half (d : Done) : Bool := d.wrote && decide (d.acked < d.size)

structure St where
  lock : Option Who := none     -- `processingLock`
  stop : Bool := false          -- `w.stop`
  torn : Bool := false          -- `w.sourceTornDown`
  teardowns : Nat := 0          -- calls of `Source.Teardown`
  rpc : RPc := .loopTest
  spc : SPc := .idle
  batch : Nat := 0              -- size of the batch in flight
  ackedB : Nat := 0             -- its acknowledged positions
  wroteB : Bool := false        -- one of its records reached a destination / the DLQ
  hist : List Done := []        -- finished batches, in order
  lateAck : Bool := false       -- a `Source.Ack` was attempted after the teardown
deriving DecidableEq, Repr, Inhabited

def init : St := {}

/-- `tearDownSource`: `if w.sourceTornDown { return nil }; Source.Teardown; w.sourceTornDown = true` -/
def tearDown (s : St) : St :=
  if s.torn then s else { s with torn := true, teardowns := s.teardowns + 1 }

/-- the batch in flight is finished with result `r` -/
def finish (s : St) (r : Res) : St :=
  { s with hist := s.hist ++ [{ size := s.batch, acked := s.ackedB, wrote := s.wroteB, res := r, beforeTd := !s.torn }],
           batch := 0, ackedB := 0, wroteB := false }

def step (s : St) : Ev → Option St
  -- Worker.Do: `for !w.stop.Load() { … }; return nil`
  | .loopTest =>
    if s.rpc = .loopTest then some { s with rpc := if s.stop then .exiting true else .atRead } else none
  | .readBegin =>
    if s.rpc = .atRead then some { s with rpc := .inRead } else none
  -- doTaskAttempt: `err := t.Do(ctx, b)` for the source task, and the `if err != nil` branches.
  -- A Read that races the teardown may still deliver a batch: no guard on `torn`.
  | .readReturn r =>
    if s.rpc = .inRead then
      match r with
      | .batch n => some { s with rpc := .gotBatch, batch := n, ackedB := 0, wroteB := false }
      | .eof => some { s with rpc := .eofArm }
      -- `ErrPluginNotRunning && w.stop.Load()` ⇒ `return ctx.Err()` (nil: the context is alive)
      | .notRunning => some { s with rpc := if s.stop then .loopTest else .exiting false }
      | .err => some { s with rpc := .exiting false }
    else none
  -- first-task block: `release, err := w.acquireProcessingLock(ctx)`
  | .lockAcquire =>
    if s.rpc = .gotBatch ∧ s.lock = none then some { s with lock := some .reader, rpc := .locked } else none
  -- `if w.stop.Load() { …gracefully stopping without flushing the batch; return nil }`
  | .stopCheck =>
    if s.rpc = .locked then
      (if s.stop then some { finish s .discarded with rpc := .releasing true } else some { s with rpc := .inPass })
    else none
  | .passStep =>
    if s.rpc = .inPass then some s else none
  | .passWrite =>
    if s.rpc = .inPass then some { s with wroteB := true } else none
  -- Worker.Ack / Worker.Nack: `w.Source.Ack(ctx, positions)`; the acked positions extend a prefix of
  -- the batch (C04_v2_pass_acks_prefix). The outcome `late` is the plugin's: torn down or not.
  | .passAck n late =>
    if s.rpc = .inPass ∧ late = s.torn ∧ s.ackedB + n ≤ s.batch then
      (if late then some { s with lateAck := true } else some { s with ackedB := s.ackedB + n })
    else none
  -- the pass returns; without error only when every position was acked (C04_v2_pass_ok_acks_all)
  | .passEnd ok =>
    if s.rpc = .inPass ∧ (ok = true → s.ackedB = s.batch) then
      some { finish s (if ok then .ok else .err) with rpc := .releasing ok }
    else none
  -- deferred `release()`; doTask returns to Do: `if err != nil { return err }`
  | .lockRelease =>
    match s.rpc with
    | .releasing ok => some { s with lock := none, rpc := if ok then .loopTest else .exiting false }
    | _ => none
  -- EOF branch: `w.stop.Store(true)`; `w.tearDownSource(ctx)`; `return nil`
  | .eofSetStop =>
    if s.rpc = .eofArm then some { s with stop := true, rpc := .eofTd } else none
  | .teardownSource .reader =>
    if s.rpc = .eofTd then some { tearDown s with rpc := .loopTest } else none
  | .doReturn =>
    match s.rpc with
    | .exiting ok => some { s with rpc := .done ok }
    | _ => none
  -- Worker.Close: `w.tearDownSource(ctx)` first (service.runPipeline: after Do has returned)
  | .close =>
    match s.rpc with
    | .done _ => some { tearDown s with rpc := .closed }
    | _ => none
  -- Worker.Stop
  | .stopRequest =>
    if s.spc = .idle then some { s with spc := .wantLock } else none
  | .stopLockAcquire =>
    if s.spc = .wantLock ∧ s.lock = none then some { s with lock := some .stopper, spc := .haveLock } else none
  | .setStopFlag =>
    if s.spc = .haveLock then some { s with stop := true, spc := .flagSet } else none
  | .teardownSource .stopper =>
    if s.spc = .flagSet then some { tearDown s with spc := .tdDone } else none
  | .stopRelease =>
    if s.spc = .tdDone then some { s with lock := none, spc := .released } else none
  | .stopReturn =>
    if s.spc = .released then some { s with spc := .returned } else none

def run (s : St) : List Ev → Option St
  | [] => some s
  | e :: es => (step s e).bind fun s' => run s' es

/-- reachable: the state after some accepted event list from the initial state -/
def Reach (s : St) : Prop := ∃ evs, run init evs = some s

/-- C06 post-condition of the worker at (and after) the return of `Stop`: no pass is in flight and
none can start any more, Stop has released the lock, the source was torn down exactly once, no ack
was attempted after the teardown, every batch whose pass completed without error was acknowledged
completely before the teardown, a batch that was discarded was neither written nor acknowledged
(so outside a failed pass nothing is half-handled: written but not acknowledged), and a batch
that is still waiting for the lock is untouched. -/
def Drained (s : St) : Prop :=
  s.rpc ≠ .inPass ∧ s.lock ≠ some .stopper ∧ s.stop = true ∧ s.torn = true ∧ s.teardowns = 1 ∧
  s.lateAck = false ∧
  (∀ d ∈ s.hist, d.res = .ok → d.acked = d.size ∧ d.beforeTd = true) ∧
  (∀ d ∈ s.hist, d.res = .discarded → d.acked = 0 ∧ d.wrote = false) ∧
  (∀ d ∈ s.hist, d.res ≠ .err → d.half = false) ∧
  ((s.rpc = .gotBatch ∨ s.rpc = .locked) → s.ackedB = 0 ∧ s.wroteB = false)

instance (s : St) : Decidable (Drained s) := by unfold Drained; infer_instance

/-- a stop was requested and has not returned yet -/
def StopPending (s : St) : Prop := s.spc ≠ .idle ∧ s.spc ≠ .returned

instance (s : St) : Decidable (StopPending s) := by unfold StopPending; infer_instance

def spcRank : SPc → Nat
  | .idle => 0 | .wantLock => 5 | .haveLock => 4 | .flagSet => 3 | .tdDone => 2 | .released => 1 | .returned => 0

def rpcRank : RPc → Nat
  | .locked => 3 | .inPass => 2 | .releasing _ => 1 | _ => 0

/-- decreasing variant of a pending stop: statements Stop still has to execute, then the
statements the reading goroutine still has to execute before it releases the lock -/
def variant (s : St) : Nat := 4 * spcRank s.spc + rpcRank s.rpc

/-- the events that move a pending stop forward: Stop's own statements and the lock-holding
reader's way to its `release()` (stop check, end of the running pass, release) -/
def Ev.stopProgress : Ev → Bool
  | .stopLockAcquire | .setStopFlag | .teardownSource .stopper | .stopRelease | .stopReturn
  | .stopCheck | .passEnd _ | .lockRelease => true
  | _ => false

end Conduit.WorkerStop
