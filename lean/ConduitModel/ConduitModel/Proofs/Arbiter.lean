import ConduitModel.Spec.Arbiter

/-!
Helper lemmas about the pure arbiter step functions of `Spec/Arbiter.lean` (part 1) and the
simulation lemmas tying the monadic model `Model/Funnel.lean` to them (part 2).
-/
namespace Conduit.Funnel

/-! ## lists -/

theorem drop_range (n r : Nat) : (List.range n).drop r = List.range' r (n - r) := by
  rw [List.range_eq_range', List.drop_range']; simp

theorem takeWhile_range' (p : Nat → Bool) : ∀ (k s : Nat),
    (List.range' s k).takeWhile p = List.range' s ((List.range' s k).takeWhile p).length := by
  intro k
  induction k with
  | zero => intro s; simp
  | succ k ih =>
    intro s
    rw [List.range'_succ, List.takeWhile_cons]
    by_cases h : p s = true
    · simp only [h, if_true, List.length_cons, List.range'_succ]
      rw [← ih (s+1)]
    · simp [h]

theorem takeWhile_range'_len (p : Nat → Bool) (k s : Nat) :
    ((List.range' s k).takeWhile p).length ≤ k := by
  have := (List.takeWhile_sublist (l := List.range' s k) p).length_le
  simpa using this

theorem takeWhile_range'_pos (p : Nat → Bool) (k s : Nat) (hk : 0 < k) (h : p s = true) :
    0 < ((List.range' s k).takeWhile p).length := by
  cases k with
  | zero => omega
  | succ k => rw [List.range'_succ, List.takeWhile_cons]; simp [h]

theorem mem_takeWhile_imp {α} (p : α → Bool) : ∀ (l : List α) (x : α), x ∈ l.takeWhile p → p x = true := by
  intro l
  induction l with
  | nil => intro x h; simp at h
  | cons a l ih =>
    intro x h
    rw [List.takeWhile_cons] at h
    by_cases ha : p a = true
    · simp only [ha, if_true, List.mem_cons] at h
      rcases h with h | h
      · subst h; exact ha
      · exact ih x h
    · simp [ha] at h

/-- facts about the maximal acked run at a terminal∧acked, unreleased slot -/
theorem maAckRun_spec (m : MA) (r : Nat) (hr : r < m.positions.length)
    (ht : m.term r = true) (ha : m.ack r = true) :
    maAckRun m r = List.range' r (maAckRun m r).length ∧ 0 < (maAckRun m r).length ∧
    r + (maAckRun m r).length ≤ m.positions.length ∧
    ∀ t : Nat, r ≤ t → t < r + (maAckRun m r).length → m.term t = true ∧ m.ack t = true := by
  unfold maAckRun
  rw [drop_range]
  refine ⟨takeWhile_range' _ _ _, takeWhile_range'_pos _ _ _ (by omega) (by simp [ht, ha]), ?_, ?_⟩
  · have := takeWhile_range'_len (fun t => m.term t && m.ack t) (m.positions.length - r) r
    omega
  · intro t h1 h2
    have hmem : t ∈ List.takeWhile (fun t => m.term t && m.ack t) (List.range' r (m.positions.length - r)) := by
      rw [takeWhile_range']; simp only [List.mem_range'_1]; omega
    have := mem_takeWhile_imp _ _ _ hmem
    simpa using this

theorem maReleaseLoop_zero (m : MA) : maReleaseLoop 0 m = (m, []) := rfl

theorem maReleaseLoop_done (f : Nat) (m : MA) (h : ¬ m.released < m.positions.length) :
    maReleaseLoop (f+1) m = (m, []) := by
  rw [maReleaseLoop]; simp [h]

theorem maReleaseLoop_wait (f : Nat) (m : MA) (h : m.released < m.positions.length)
    (ht : m.term m.released = false) : maReleaseLoop (f+1) m = (m, []) := by
  rw [maReleaseLoop]; simp [h, ht]

theorem maReleaseLoop_ack (f : Nat) (m : MA) (h : m.released < m.positions.length)
    (ht : m.term m.released = true) (ha : m.ack m.released = true) :
    maReleaseLoop (f+1) m =
      ((maReleaseLoop f { m with released := m.released + (maAckRun m m.released).length }).1,
       .ackRun m.released (m.released + (maAckRun m m.released).length) ::
        (maReleaseLoop f { m with released := m.released + (maAckRun m m.released).length }).2) := by
  rw [maReleaseLoop]; simp [h, ht, ha]

theorem maReleaseLoop_nack (f : Nat) (m : MA) (h : m.released < m.positions.length)
    (ht : m.term m.released = true) (ha : m.ack m.released = false) :
    maReleaseLoop (f+1) m =
      ((maReleaseLoop f { m with released := m.released + 1 }).1,
       .nackOne m.released :: (maReleaseLoop f { m with released := m.released + 1 }).2) := by
  rw [maReleaseLoop]; simp [h, ht, ha]

theorem maReleaseLoop_spec : ∀ (f : Nat) (m : MA),
    (maReleaseLoop f m).1 = { m with released := (maReleaseLoop f m).1.released } ∧
    m.released ≤ (maReleaseLoop f m).1.released ∧
    (m.released ≤ m.positions.length → (maReleaseLoop f m).1.released ≤ m.positions.length) ∧
    releasedOf (maReleaseLoop f m).2 =
      (List.range' m.released ((maReleaseLoop f m).1.released - m.released)).map (fun i => (i, m.ack i)) ∧
    (∀ i : Nat, m.released ≤ i → i < (maReleaseLoop f m).1.released → m.term i = true) := by
  intro f
  induction f with
  | zero =>
    intro m; simp only [maReleaseLoop_zero, releasedOf]
    exact ⟨trivial, Nat.le_refl _, id, by simp, fun i a b => by omega⟩
  | succ f ih =>
    intro m
    by_cases h : m.released < m.positions.length
    · by_cases ht : m.term m.released = true
      · by_cases ha : m.ack m.released = true
        · rw [maReleaseLoop_ack f m h ht ha]
          obtain ⟨hrun, hpos, hle, hall⟩ := maAckRun_spec m m.released h ht ha
          generalize (maAckRun m m.released).length = k at *
          obtain ⟨i1, i2, i3, i4, i5⟩ := ih { m with released := m.released + k }
          generalize (maReleaseLoop f { m with released := m.released + k }) = res at *
          simp only at i1 i2 i3 i4 i5 ⊢
          refine ⟨?_, by omega, fun _ => i3 hle, ?_, ?_⟩
          · rw [i1]
          · simp only [releasedOf, List.flatMap_cons, Released.expand] at i4 ⊢
            rw [i4]
            have : res.1.released - m.released = (m.released + k - m.released) + (res.1.released - (m.released + k)) := by omega
            rw [this, List.range'_append_1.symm, List.map_append]  
            have e : m.released + k - m.released = k := by omega
            rw [e]
            congr 1
            apply List.map_congr_left
            intro a ha'
            simp only [List.mem_range'_1] at ha'
            have := hall a (by omega) (by omega)
            simp [this.2]
          · intro i hi1 hi2
            by_cases hik : i < m.released + k
            · exact (hall i hi1 hik).1
            · exact i5 i (by omega) hi2
        · have ha' : m.ack m.released = false := by simpa using ha
          rw [maReleaseLoop_nack f m h ht ha']
          obtain ⟨i1, i2, i3, i4, i5⟩ := ih { m with released := m.released + 1 }
          generalize (maReleaseLoop f { m with released := m.released + 1 }) = res at *
          simp only at i1 i2 i3 i4 i5 ⊢
          refine ⟨?_, by omega, fun _ => i3 (by omega), ?_, ?_⟩
          · rw [i1]
          · simp only [releasedOf, List.flatMap_cons, Released.expand] at i4 ⊢
            rw [i4]
            have : res.1.released - m.released = 1 + (res.1.released - (m.released + 1)) := by omega
            rw [this, List.range'_append_1.symm, List.map_append]
            simp [ha']
          · intro i hi1 hi2
            by_cases hik : i = m.released
            · subst hik; exact ht
            · exact i5 i (by omega) hi2
      · have ht' : m.term m.released = false := by simpa using ht
        rw [maReleaseLoop_wait f m h ht']; simp only [releasedOf]
        exact ⟨trivial, Nat.le_refl _, id, by simp, fun i a b => by omega⟩
    · rw [maReleaseLoop_done f m h]; simp only [releasedOf]
      exact ⟨trivial, Nat.le_refl _, id, by simp, fun i a b => by omega⟩

/-! ## the vote loop -/

/-- the parallel slices of a tally all have the length of `positions`. -/
structure MA.WF (m : MA) : Prop where
  votes_len : m.ackVotes.length = m.positions.length
  term_len : m.terminal.length = m.positions.length
  ack_len : m.acked.length = m.positions.length

/-- the tally invariant: a slot that went terminal as acked collected exactly `branches` ack votes. -/
structure MA.Inv (m : MA) : Prop extends m.WF where
  full : ∀ i : Nat, m.term i = true → m.ack i = true → m.votes i = m.branches

theorem MA.Fresh.inv {m : MA} (h : m.Fresh) : m.Inv := by
  obtain ⟨_, h2, h3, h4⟩ := h
  refine ⟨⟨by rw [h2]; simp, by rw [h3]; simp, by rw [h4]; simp⟩, ?_⟩
  intro i ht
  rw [MA.term, h3] at ht
  simp [List.getElem?_replicate] at ht
  split at ht <;> simp at ht

theorem maVote1_frame (m : MA) (a : Bool) (t : Nat) (it : VItem) :
    (maVote1 m a t it).released = m.released ∧ (maVote1 m a t it).positions = m.positions ∧
    (maVote1 m a t it).branches = m.branches := by
  grind [maVote1]

theorem maVote1_wf (m : MA) (a : Bool) (t : Nat) (it : VItem) (wf : m.WF) : (maVote1 m a t it).WF := by
  have := wf.votes_len; have := wf.term_len; have := wf.ack_len
  constructor <;> grind [maVote1]

theorem maVote1_frozen (m : MA) (a : Bool) (t : Nat) (it : VItem) (i : Nat) (h : m.term i = true) :
    (maVote1 m a t it).term i = true ∧ (maVote1 m a t it).ack i = m.ack i ∧
    (maVote1 m a t it).votes i = m.votes i := by
  grind [maVote1]

theorem maVote1_full (m : MA) (a : Bool) (t : Nat) (it : VItem) (wf : m.WF)
    (h : ∀ i : Nat, m.term i = true → m.ack i = true → m.votes i = m.branches) :
    ∀ i : Nat, (maVote1 m a t it).term i = true → (maVote1 m a t it).ack i = true →
      (maVote1 m a t it).votes i = (maVote1 m a t it).branches := by
  have := wf.votes_len; have := wf.term_len; have := wf.ack_len
  grind [maVote1]

theorem maVote1_inv (m : MA) (a : Bool) (t : Nat) (it : VItem) (h : m.Inv) : (maVote1 m a t it).Inv :=
  ⟨maVote1_wf m a t it h.toWF, maVote1_full m a t it h.toWF h.full⟩

theorem maVote1_count (m : MA) (a : Bool) (t : Nat) (it : VItem) (i : Nat) :
    (maVote1 m a t it).votes i ≤ m.votes i + (if a = true ∧ it.ix = i then 1 else 0) := by
  grind [maVote1]

theorem maVote1_nack (m : MA) (t : Nat) (it : VItem) (wf : m.WF) (hx : it.ix < m.positions.length)
    (h : m.term it.ix = false) :
    (maVote1 m false t it).term it.ix = true ∧ (maVote1 m false t it).ack it.ix = false := by
  have := wf.votes_len; have := wf.term_len; have := wf.ack_len
  grind [maVote1]

theorem maVote_nil (m : MA) (a : Bool) (t : Nat) : maVote m a t [] = m := rfl
theorem maVote_cons (m : MA) (a : Bool) (t : Nat) (it : VItem) (its : List VItem) :
    maVote m a t (it :: its) = maVote (maVote1 m a t it) a t its := rfl

theorem maVote_frame (a : Bool) (t : Nat) : ∀ (its : List VItem) (m : MA),
    (maVote m a t its).released = m.released ∧ (maVote m a t its).positions = m.positions ∧
    (maVote m a t its).branches = m.branches := by
  intro its
  induction its with
  | nil => intro m; exact ⟨rfl, rfl, rfl⟩
  | cons it its ih =>
    intro m
    rw [maVote_cons]
    obtain ⟨h1, h2, h3⟩ := ih (maVote1 m a t it)
    obtain ⟨g1, g2, g3⟩ := maVote1_frame m a t it
    exact ⟨h1.trans g1, h2.trans g2, h3.trans g3⟩

theorem maVote_inv (a : Bool) (t : Nat) : ∀ (its : List VItem) (m : MA), m.Inv → (maVote m a t its).Inv := by
  intro its
  induction its with
  | nil => intro m h; exact h
  | cons it its ih => intro m h; rw [maVote_cons]; exact ih _ (maVote1_inv m a t it h)

theorem maVote_frozen (a : Bool) (t : Nat) (i : Nat) : ∀ (its : List VItem) (m : MA), m.term i = true →
    (maVote m a t its).term i = true ∧ (maVote m a t its).ack i = m.ack i ∧
    (maVote m a t its).votes i = m.votes i := by
  intro its
  induction its with
  | nil => intro m h; exact ⟨h, rfl, rfl⟩
  | cons it its ih =>
    intro m h
    rw [maVote_cons]
    obtain ⟨g1, g2, g3⟩ := maVote1_frozen m a t it i h
    obtain ⟨h1, h2, h3⟩ := ih _ g1
    exact ⟨h1, h2.trans g2, h3.trans g3⟩

theorem maVote_count (a : Bool) (t : Nat) (i : Nat) : ∀ (its : List VItem) (m : MA),
    (maVote m a t its).votes i ≤ m.votes i + (if a = true then its.countP (·.ix == i) else 0) := by
  intro its
  induction its with
  | nil => intro m; simp [maVote_nil]
  | cons it its ih =>
    intro m
    rw [maVote_cons]
    have h1 := ih (maVote1 m a t it)
    have h2 := maVote1_count m a t it i
    rw [List.countP_cons]
    cases a <;> by_cases hx : it.ix = i <;> simp [hx] at h1 h2 ⊢ <;> omega

/-- a nack vote makes every (in-range) slot it names terminal, and nacked unless it was terminal before. -/
theorem maVote_nack (t : Nat) (x : Nat) : ∀ (its : List VItem) (m : MA), m.WF → x < m.positions.length →
    x ∈ its.map (·.ix) →
    (maVote m false t its).term x = true ∧ (m.term x = false → (maVote m false t its).ack x = false) := by
  intro its
  induction its with
  | nil => intro m _ _ h; simp at h
  | cons it its ih =>
    intro m wf hx hmem
    rw [maVote_cons]
    by_cases ht : m.term x = true
    · have g := maVote1_frozen m false t it x ht
      have := maVote_frozen false t x its _ g.1
      exact ⟨this.1, fun h => by rw [h] at ht; cases ht⟩
    · have ht' : m.term x = false := by simpa using ht
      by_cases he : it.ix = x
      · have g := maVote1_nack m t it wf (by rw [he]; exact hx) (by rw [he]; exact ht')
        rw [he] at g
        have := maVote_frozen false t x its _ g.1
        exact ⟨this.1, fun _ => this.2.1.trans g.2⟩
      · have hmem' : x ∈ its.map (·.ix) := by
          simp only [List.map_cons, List.mem_cons] at hmem
          rcases hmem with h | h
          · exact absurd h.symm he
          · exact h
        have hpos := (maVote1_frame m false t it).2.1
        have g := ih (maVote1 m false t it) (maVote1_wf m false t it wf) (by rw [hpos]; exact hx) hmem'
        refine ⟨g.1, fun _ => g.2 ?_⟩
        have : (maVote1 m false t it).term x = m.term x := by grind [maVote1]
        rw [this]; exact ht'

/-! ## release and whole calls -/

theorem maStep_spec (m : MA) (v : Vote) :
    (maStep m v).1 = { maVote m v.isAck v.task v.items with released := (maStep m v).1.released } ∧
    m.released ≤ (maStep m v).1.released ∧
    (m.released ≤ m.positions.length → (maStep m v).1.released ≤ m.positions.length) ∧
    releasedOf (maStep m v).2 =
      (List.range' m.released ((maStep m v).1.released - m.released)).map
        (fun i => (i, (maVote m v.isAck v.task v.items).ack i)) ∧
    (∀ i : Nat, m.released ≤ i → i < (maStep m v).1.released → (maVote m v.isAck v.task v.items).term i = true) := by
  have h := maReleaseLoop_spec ((maVote m v.isAck v.task v.items).positions.length -
    (maVote m v.isAck v.task v.items).released + 1) (maVote m v.isAck v.task v.items)
  obtain ⟨f1, f2, _⟩ := maVote_frame v.isAck v.task v.items m
  simp only [maStep, maRelease]
  rw [f1, f2] at h
  rw [f1, f2]
  exact h

theorem maStep_fields (m : MA) (v : Vote) (i : Nat) :
    (maStep m v).1.term i = (maVote m v.isAck v.task v.items).term i ∧
    (maStep m v).1.ack i = (maVote m v.isAck v.task v.items).ack i ∧
    (maStep m v).1.votes i = (maVote m v.isAck v.task v.items).votes i ∧
    (maStep m v).1.positions = m.positions ∧ (maStep m v).1.branches = m.branches := by
  have h := (maStep_spec m v).1
  obtain ⟨_, f2, f3⟩ := maVote_frame v.isAck v.task v.items m
  rw [h]
  exact ⟨rfl, rfl, rfl, f2, f3⟩

theorem maStep_inv (m : MA) (v : Vote) (h : m.Inv) : (maStep m v).1.Inv := by
  have g := maVote_inv v.isAck v.task v.items m h
  have e := (maStep_spec m v).1
  rw [e]
  exact ⟨⟨g.votes_len, g.term_len, g.ack_len⟩, g.full⟩

theorem maStep_frozen (m : MA) (v : Vote) (i : Nat) (h : m.term i = true) :
    (maStep m v).1.term i = true ∧ (maStep m v).1.ack i = m.ack i ∧ (maStep m v).1.votes i = m.votes i := by
  obtain ⟨e1, e2, e3, _⟩ := maStep_fields m v i
  rw [e1, e2, e3]
  exact maVote_frozen v.isAck v.task i v.items m h

theorem maRun_nil (m : MA) : maRun m [] = (m, []) := rfl
theorem maRun_cons (m : MA) (v : Vote) (vs : List Vote) :
    maRun m (v :: vs) = ((maRun (maStep m v).1 vs).1, (maStep m v).2 ++ (maRun (maStep m v).1 vs).2) := rfl

theorem maRun_append : ∀ (vs ws : List Vote) (m : MA),
    maRun m (vs ++ ws) = ((maRun (maRun m vs).1 ws).1, (maRun m vs).2 ++ (maRun (maRun m vs).1 ws).2) := by
  intro vs
  induction vs with
  | nil => intro ws m; simp [maRun_nil]
  | cons v vs ih => intro ws m; simp only [List.cons_append, maRun_cons, ih, List.append_assoc]

theorem maRun_inv : ∀ (vs : List Vote) (m : MA), m.Inv → (maRun m vs).1.Inv := by
  intro vs
  induction vs with
  | nil => intro m h; exact h
  | cons v vs ih => intro m h; rw [maRun_cons]; exact ih _ (maStep_inv m v h)

theorem maRun_frame : ∀ (vs : List Vote) (m : MA),
    (maRun m vs).1.positions = m.positions ∧ (maRun m vs).1.branches = m.branches := by
  intro vs
  induction vs with
  | nil => intro m; exact ⟨rfl, rfl⟩
  | cons v vs ih =>
    intro m; rw [maRun_cons]
    obtain ⟨_, _, _, e1, e2⟩ := maStep_fields m v 0
    exact ⟨(ih _).1.trans e1, (ih _).2.trans e2⟩

theorem maRun_frozen (i : Nat) : ∀ (vs : List Vote) (m : MA), m.term i = true →
    (maRun m vs).1.term i = true ∧ (maRun m vs).1.ack i = m.ack i ∧ (maRun m vs).1.votes i = m.votes i := by
  intro vs
  induction vs with
  | nil => intro m h; exact ⟨h, rfl, rfl⟩
  | cons v vs ih =>
    intro m h
    rw [maRun_cons]
    obtain ⟨g1, g2, g3⟩ := maStep_frozen m v i h
    obtain ⟨h1, h2, h3⟩ := ih _ g1
    exact ⟨h1, h2.trans g2, h3.trans g3⟩

/-- the released prefix: the calls of a whole run release exactly `released₀ … released-1`, in order. -/
theorem maRun_prefix : ∀ (vs : List Vote) (m : MA),
    m.released ≤ (maRun m vs).1.released ∧
    (m.released ≤ m.positions.length → (maRun m vs).1.released ≤ m.positions.length) ∧
    (releasedOf (maRun m vs).2).map (·.1) = List.range' m.released ((maRun m vs).1.released - m.released) := by
  intro vs
  induction vs with
  | nil => intro m; simp [maRun_nil, releasedOf]
  | cons v vs ih =>
    intro m
    rw [maRun_cons]
    obtain ⟨_, s2, s3, s4, _⟩ := maStep_spec m v
    obtain ⟨i1, i2, i3⟩ := ih (maStep m v).1
    have hp := (maStep_fields m v 0).2.2.2.1
    rw [hp] at i2
    dsimp only
    refine ⟨by omega, fun h => i2 (s3 h), ?_⟩
    simp only [releasedOf, List.flatMap_append, List.map_append] at s4 i3 ⊢
    rw [s4, i3, List.map_map]
    have : (maRun (maStep m v).1 vs).1.released - m.released =
        ((maStep m v).1.released - m.released) + ((maRun (maStep m v).1 vs).1.released - (maStep m v).1.released) := by omega
    rw [this, List.range'_append_1.symm]
    congr 1
    · simp [Function.comp_def]
    · congr 1; omega

/-- whatever a run released is, in the final state, terminal with the decision it was released with. -/
theorem maRun_released_final (p : Nat × Bool) : ∀ (vs : List Vote) (m : MA),
    p ∈ releasedOf (maRun m vs).2 → (maRun m vs).1.term p.1 = true ∧ (maRun m vs).1.ack p.1 = p.2 := by
  intro vs
  induction vs with
  | nil => intro m h; simp [maRun_nil, releasedOf] at h
  | cons v vs ih =>
    intro m h
    rw [maRun_cons] at h ⊢
    simp only [releasedOf, List.flatMap_append, List.mem_append] at h
    rcases h with h | h
    · obtain ⟨_, _, _, s4, s5⟩ := maStep_spec m v
      simp only [releasedOf] at s4
      rw [s4] at h
      simp only [List.mem_map, List.mem_range'_1] at h
      obtain ⟨i, ⟨hi1, hi2⟩, rfl⟩ := h
      obtain ⟨e1, e2, _⟩ := maStep_fields m v i
      have ht := s5 i hi1 (by omega)
      rw [← e1] at ht
      obtain ⟨g1, g2, _⟩ := maRun_frozen i vs _ ht
      exact ⟨g1, by rw [g2, e2]⟩
    · exact ih _ h

/-! ## counting ack votes -/

/-- number of ack votes for slot `i` in a sequence of calls. -/
def ackCount (vs : List Vote) (i : Nat) : Nat :=
  (votePairs (vs.filter (·.isAck))).countP (·.2 == i)

theorem ackCount_nil (i : Nat) : ackCount [] i = 0 := rfl

theorem ackCount_cons (v : Vote) (vs : List Vote) (i : Nat) :
    ackCount (v :: vs) i = (if v.isAck = true then v.items.countP (·.ix == i) else 0) + ackCount vs i := by
  unfold ackCount
  by_cases h : v.isAck = true
  · simp [h, votePairs, Vote.idxs, List.countP_map, Function.comp_def]
  · simp [h]

theorem maRun_count (i : Nat) : ∀ (vs : List Vote) (m : MA),
    (maRun m vs).1.votes i ≤ m.votes i + ackCount vs i := by
  intro vs
  induction vs with
  | nil => intro m; simp [maRun_nil, ackCount_nil]
  | cons v vs ih =>
    intro m
    rw [maRun_cons, ackCount_cons]
    have h1 := ih (maStep m v).1
    have h2 := maVote_count v.isAck v.task i v.items m
    rw [← (maStep_fields m v i).2.2.1] at h2
    simp only at h1 ⊢
    omega

theorem flatMap_filter_sublist {α β} (p : α → Bool) (f : α → List β) : ∀ l : List α,
    ((l.filter p).flatMap f).Sublist (l.flatMap f) := by
  intro l
  induction l with
  | nil => simp
  | cons a l ih =>
    rw [List.filter_cons]
    by_cases h : p a = true
    · simp only [h, if_true, List.flatMap_cons]
      exact List.Sublist.append (List.Sublist.refl _) ih
    · simp only [h, List.flatMap_cons]
      exact List.Sublist.trans ih (List.sublist_append_right _ _)

/-- pigeonhole: `M` pairwise distinct numbers below `M` are all of them. -/
theorem pigeon (M : Nat) (l : List Nat) (nd : l.Nodup) (hlt : ∀ x ∈ l, x < M) (hlen : M ≤ l.length)
    (b : Nat) (hb : b < M) : b ∈ l := by
  apply Classical.byContradiction
  intro hn
  have nd' : (b :: l).Nodup := List.nodup_cons.mpr ⟨hn, nd⟩
  have hsub : (b :: l) ⊆ List.range M := by
    intro x hx
    rw [List.mem_range]
    rcases List.mem_cons.mp hx with h | h
    · rw [h]; exact hb
    · exact hlt x h
  have := nd'.length_le_of_subset hsub
  simp at this
  omega

/-- under `WellVoted`, `M` (or more) ack votes for slot `i` mean every branch voted ack for `i`. -/
theorem ackCount_unanimous (M : Nat) (vs : List Vote) (wv : WellVoted M vs) (i : Nat)
    (h : M ≤ ackCount vs i) (b : Nat) (hb : b < M) :
    ∃ v ∈ vs, v.branch = b ∧ v.isAck = true ∧ i ∈ v.idxs := by
  let P := (votePairs (vs.filter (·.isAck))).filter (·.2 == i)
  have hsub : P.Sublist (votePairs vs) :=
    List.Sublist.trans List.filter_sublist (flatMap_filter_sublist _ _ vs)
  have ndP : P.Nodup := List.Nodup.sublist hsub wv.1
  have hsnd : ∀ p ∈ P, p.2 = i := by
    intro p hp
    have := (List.mem_filter.mp hp).2
    simpa using this
  have ndL : (P.map (·.1)).Nodup := by
    rw [List.Nodup, List.pairwise_map]
    refine List.Pairwise.imp_of_mem ?_ ndP
    intro p q hp hq hne heq
    apply hne
    have := hsnd p hp; have := hsnd q hq
    cases p; cases q; simp_all
  have hmemP : ∀ p ∈ P, ∃ v ∈ vs, v.branch = p.1 ∧ v.isAck = true ∧ p.2 ∈ v.idxs := by
    intro p hp
    have hp' := (List.mem_filter.mp hp).1
    simp only [votePairs, List.mem_flatMap, List.mem_filter, List.mem_map] at hp'
    obtain ⟨v, ⟨hv, hva⟩, j, hj, rfl⟩ := hp'
    exact ⟨v, hv, rfl, hva, hj⟩
  have hlt : ∀ x ∈ P.map (·.1), x < M := by
    intro x hx
    obtain ⟨p, hp, rfl⟩ := List.mem_map.mp hx
    obtain ⟨v, hv, e, _, _⟩ := hmemP p hp
    rw [← e]; exact wv.2 v hv
  have hlen : M ≤ (P.map (·.1)).length := by
    rw [List.length_map]
    show M ≤ (List.filter _ _).length
    rw [← List.countP_eq_length_filter]
    exact h
  have hbL := pigeon M _ ndL hlt hlen b hb
  obtain ⟨p, hp, rfl⟩ := List.mem_map.mp hbL
  obtain ⟨v, hv, e, ha, hi⟩ := hmemP p hp
  exact ⟨v, hv, e, ha, by rw [← hsnd p hp]; exact hi⟩

/-- two different calls naming the same (branch, slot) pair break `WellVoted`. -/
theorem votePairs_two (vs : List Vote) (nd : (votePairs vs).Nodup) (v w : Vote) (hv : v ∈ vs) (hw : w ∈ vs)
    (hne : v ≠ w) (p : Nat × Nat) (hpv : p ∈ v.idxs.map (fun i => (v.branch, i)))
    (hpw : p ∈ w.idxs.map (fun i => (w.branch, i))) : False := by
  induction vs with
  | nil => simp at hv
  | cons a t ih =>
    simp only [votePairs, List.flatMap_cons] at nd
    obtain ⟨_, nd2, nd3⟩ := List.nodup_append.mp nd
    have inT : ∀ u ∈ t, p ∈ u.idxs.map (fun i => (u.branch, i)) →
        p ∈ t.flatMap (fun v => v.idxs.map fun i => (v.branch, i)) :=
      fun u hu hp => List.mem_flatMap.mpr ⟨u, hu, hp⟩
    rcases List.mem_cons.mp hv with h1 | h1 <;> rcases List.mem_cons.mp hw with h2 | h2
    · exact hne (h1.trans h2.symm)
    · subst h1; exact nd3 p hpv p (inT w h2 hpw) rfl
    · subst h2; exact nd3 p hpw p (inT v h1 hpv) rfl
    · exact ih nd2 h1 h2
/-! ## the split-run ledger -/

/-- `runVote` spelled out. -/
theorem runVote_spec (r : SplitRun) (k : Nat) (a : Bool) (t : Nat) (e : Option Err) :
    (r.released = true → runVote r k a t e = (r, .err)) ∧
    (r.released = false →
      (runVote r k a t e).1.total = r.total ∧
      (runVote r k a t e).1.terminal = r.terminal + k ∧
      (runVote r k a t e).1.nacked = (r.nacked || !a) ∧
      (runVote r k a t e).1.released = decide (r.terminal + k = r.total) ∧
      (runVote r k a t e).2 =
        if r.terminal + k > r.total then .err
        else if r.terminal + k = r.total then (if (r.nacked || !a) = true then .nack else .ack)
        else .hold) := by
  constructor
  · intro h; simp [runVote, h]
  · intro h
    unfold runVote
    cases a <;> cases r.nacked <;>
      by_cases h1 : r.terminal + k > r.total <;> by_cases h2 : r.terminal + k = r.total <;>
      simp [h, h1, h2] <;> omega

theorem runOps_nil (r : SplitRun) : runOps r [] = (r, []) := rfl
theorem runOps_vote (r : SplitRun) (v : RVote) (ops : List RunOp) :
    runOps r (.vote v :: ops) =
      ((runOps (runVote r v.k v.isAck v.task v.err).1 ops).1,
       (runVote r v.k v.isAck v.task v.err).2 :: (runOps (runVote r v.k v.isAck v.task v.err).1 ops).2) := rfl
theorem runOps_grow (r : SplitRun) (d : Nat) (ops : List RunOp) :
    runOps r (.grow d :: ops) = runOps (runGrow r d) ops := rfl

theorem runOps_append : ∀ (a b : List RunOp) (r : SplitRun),
    runOps r (a ++ b) = ((runOps (runOps r a).1 b).1, (runOps r a).2 ++ (runOps (runOps r a).1 b).2) := by
  intro a
  induction a with
  | nil => intro b r; simp [runOps_nil]
  | cons op a ih =>
    intro b r
    cases op with
    | vote v => simp only [List.cons_append, runOps_vote, ih, List.cons_append]
    | grow d => simp only [List.cons_append, runOps_grow, ih]

theorem opsSum_append (a b : List RunOp) : opsSum (a ++ b) = opsSum a + opsSum b := by
  induction a with
  | nil => simp [opsSum]
  | cons op a ih => cases op <;> simp [opsSum, ih]; omega

theorem opsGrow_append (a b : List RunOp) : opsGrow (a ++ b) = opsGrow a + opsGrow b := by
  induction a with
  | nil => simp [opsGrow]
  | cons op a ih => cases op <;> simp [opsGrow, ih]; omega

theorem opsAllAck_append (a b : List RunOp) : opsAllAck (a ++ b) = (opsAllAck a && opsAllAck b) := by
  induction a with
  | nil => simp [opsAllAck]
  | cons op a ih => cases op <;> simp [opsAllAck, ih, Bool.and_assoc]

/-- ledger invariant: `total` is the initial total plus all growth; while unreleased, `terminal`
is the sum of all group sizes voted and `nacked` says whether some vote was a nack. -/
theorem runOps_state : ∀ (ops : List RunOp) (r : SplitRun),
    (runOps r ops).1.total = r.total + opsGrow ops ∧
    (r.released = true → (runOps r ops).1.released = true) ∧
    ((runOps r ops).1.released = false →
      (runOps r ops).1.terminal = r.terminal + opsSum ops ∧
      (runOps r ops).1.nacked = (r.nacked || !opsAllAck ops)) := by
  intro ops
  induction ops with
  | nil => intro r; simp [runOps_nil, opsGrow, opsSum, opsAllAck]
  | cons op ops ih =>
    intro r
    cases op with
    | grow d =>
      rw [runOps_grow]
      obtain ⟨h1, h2, h3⟩ := ih (runGrow r d)
      have e1 : (runGrow r d).total = r.total + d := rfl
      have e2 : (runGrow r d).released = r.released := rfl
      have e3 : (runGrow r d).terminal = r.terminal := rfl
      have e4 : (runGrow r d).nacked = r.nacked := rfl
      rw [e1] at h1; rw [e2] at h2; rw [e3, e4] at h3
      simp only [opsGrow, opsSum, opsAllAck]
      exact ⟨by omega, h2, h3⟩
    | vote v =>
      rw [runOps_vote]
      obtain ⟨h1, h2, h3⟩ := ih (runVote r v.k v.isAck v.task v.err).1
      obtain ⟨s1, s2⟩ := runVote_spec r v.k v.isAck v.task v.err
      simp only [opsGrow, opsSum, opsAllAck]
      cases hr : r.released with
      | true =>
        have := s1 hr
        rw [this] at h1 h2 h3 ⊢
        refine ⟨h1, fun _ => h2 hr, ?_⟩
        intro hc; rw [h2 hr] at hc; cases hc
      | false =>
        obtain ⟨t1, t2, t3, t4, _⟩ := s2 hr
        refine ⟨by omega, (by intro h; cases h), ?_⟩
        intro hc
        obtain ⟨g1, g2⟩ := h3 hc
        refine ⟨by omega, ?_⟩
        rw [g2, t3]; cases r.nacked <;> cases v.isAck <;> simp

def RunOut.isRelease : RunOut → Bool
  | .ack | .nack => true
  | _ => false

/-- at most one forward to the parent, and the `released` latch says whether it happened. -/
theorem runOps_once : ∀ (ops : List RunOp) (r : SplitRun),
    (r.released = true → (runOps r ops).2.countP RunOut.isRelease = 0) ∧
    (r.released = false →
      (runOps r ops).2.countP RunOut.isRelease = if (runOps r ops).1.released then 1 else 0) := by
  intro ops
  induction ops with
  | nil => intro r; simp [runOps_nil]; intro h; simp [h]
  | cons op ops ih =>
    intro r
    cases op with
    | grow d => rw [runOps_grow]; exact ih (runGrow r d)
    | vote v =>
      rw [runOps_vote]
      obtain ⟨h1, h2⟩ := ih (runVote r v.k v.isAck v.task v.err).1
      obtain ⟨s1, s2⟩ := runVote_spec r v.k v.isAck v.task v.err
      constructor
      · intro hr
        rw [s1 hr] at h1 ⊢
        simp only [List.countP_cons, h1 hr]; rfl
      · intro hr
        obtain ⟨t1, t2, t3, t4, t5⟩ := s2 hr
        simp only [List.countP_cons]
        by_cases he : r.terminal + v.k = r.total
        · have hrel : (runVote r v.k v.isAck v.task v.err).1.released = true := by rw [t4]; simp [he]
          have hlatch := (runOps_state ops _).2.1 hrel
          have : ¬ r.terminal + v.k > r.total := by omega
          rw [h1 hrel, hlatch, t5, if_neg this, if_pos he]
          cases (r.nacked || !v.isAck) <;> simp [RunOut.isRelease]
        · have hrel : (runVote r v.k v.isAck v.task v.err).1.released = false := by rw [t4]; simp [he]
          rw [h2 hrel, t5]
          simp only [he, if_false]
          by_cases hg : r.terminal + v.k > r.total <;> simp [hg, RunOut.isRelease]

/-- output of a vote arriving after the operations `pre`. -/
theorem runOps_snoc (r : SplitRun) (pre : List RunOp) (v : RVote) :
    (runOps r (pre ++ [.vote v])).2 =
      (runOps r pre).2 ++ [(runVote (runOps r pre).1 v.k v.isAck v.task v.err).2] := by
  rw [runOps_append, runOps_vote, runOps_nil]


theorem opsSum_votes (vs : List RVote) : opsSum (vs.map .vote) = (vs.map (·.k)).sum := by
  induction vs with
  | nil => rfl
  | cons v vs ih => simp [opsSum, ih]

theorem opsGrow_votes (vs : List RVote) : opsGrow (vs.map .vote) = 0 := by
  induction vs with
  | nil => rfl
  | cons v vs ih => simp [opsGrow, ih]

theorem opsAllAck_votes (vs : List RVote) : opsAllAck (vs.map .vote) = vs.all (·.isAck) := by
  induction vs with
  | nil => rfl
  | cons v vs ih => simp [opsAllAck, ih]

/-- with a fixed total, a released run has had at least `total` members voted. -/
theorem runVotes_released_sum : ∀ (vs : List RVote) (r : SplitRun),
    (runVotes r vs).1.released = true → r.released = true ∨ r.total ≤ r.terminal + (vs.map (·.k)).sum := by
  intro vs
  induction vs with
  | nil => intro r h; exact Or.inl h
  | cons v vs ih =>
    intro r h
    simp only [runVotes, List.map_cons, runOps_vote] at h ih
    cases hr : r.released with
    | true => exact Or.inl rfl
    | false =>
      right
      obtain ⟨t1, t2, _, t4, _⟩ := (runVote_spec r v.k v.isAck v.task v.err).2 hr
      rcases ih _ h with g | g
      · rw [t4] at g; simp at g; simp only [List.map_cons, List.sum_cons]; omega
      · rw [t1, t2] at g; simp only [List.map_cons, List.sum_cons]; omega


theorem runVotes_length : ∀ (vs : List RVote) (r : SplitRun), (runVotes r vs).2.length = vs.length := by
  intro vs
  induction vs with
  | nil => intro r; rfl
  | cons v vs ih =>
    intro r
    simp only [runVotes, List.map_cons, runOps_vote, List.length_cons] at ih ⊢
    rw [ih]

/-- votes for no more members than the run has: never an error, released iff all were voted. -/
theorem runVotes_within : ∀ (vs : List RVote) (r : SplitRun), r.released = false →
    (∀ v ∈ vs, 0 < v.k) → r.terminal + (vs.map (·.k)).sum ≤ r.total →
    RunOut.err ∉ (runVotes r vs).2 ∧
    ((runVotes r vs).1.released = true ↔ vs ≠ [] ∧ r.terminal + (vs.map (·.k)).sum = r.total) := by
  intro vs
  induction vs with
  | nil => intro r hr _ _; simp [runVotes, runOps_nil, hr]
  | cons v vs ih =>
    intro r hr hk hs
    simp only [runVotes, List.map_cons, runOps_vote, List.sum_cons] at ih hs ⊢
    obtain ⟨t1, t2, _, t4, t5⟩ := (runVote_spec r v.k v.isAck v.task v.err).2 hr
    have hkv := hk v (List.mem_cons_self)
    have hk' : ∀ w ∈ vs, 0 < w.k := fun w hw => hk w (List.mem_cons_of_mem _ hw)
    have hne : (runVote r v.k v.isAck v.task v.err).2 ≠ .err := by
      rw [t5, if_neg (by omega)]
      by_cases he : r.terminal + v.k = r.total
      · rw [if_pos he]; cases (r.nacked || !v.isAck) <;> simp
      · rw [if_neg he]; simp
    by_cases he : r.terminal + v.k = r.total
    · -- released now: nothing may follow
      have hnil : vs = [] := by
        cases vs with
        | nil => rfl
        | cons w ws =>
          have := hk' w List.mem_cons_self
          simp only [List.map_cons, List.sum_cons] at hs; omega
      subst hnil
      simp only [List.map_nil, runOps_nil, List.sum_nil]
      refine ⟨by simpa using hne.symm, ?_⟩
      rw [t4]; simp [he]
    · have hrel : (runVote r v.k v.isAck v.task v.err).1.released = false := by rw [t4]; simp [he]
      obtain ⟨i1, i2⟩ := ih _ hrel hk' (by rw [t1, t2]; omega)
      refine ⟨?_, ?_⟩
      · intro hmem
        rcases List.mem_cons.mp hmem with h | h
        · exact hne h.symm
        · exact i1 h
      · rw [i2, t1, t2]
        constructor
        · intro ⟨_, h⟩; exact ⟨by simp, by omega⟩
        · intro ⟨_, h⟩
          refine ⟨?_, by omega⟩
          intro hnil; subst hnil; simp at h; omega


/-- `runAckNacker.vote` on a not yet forwarded run answers by `runVerdict`. -/
theorem runVote_verdict (r : SplitRun) (k : Nat) (a : Bool) (t : Nat) (e : Option Err)
    (hr : r.released = false) :
    (runVote r k a t e).2 = runVerdict r.total (r.terminal + k) (!r.nacked && a) := by
  rw [((runVote_spec r k a t e).2 hr).2.2.2.2]
  unfold runVerdict
  rcases Nat.lt_trichotomy (r.terminal + k) r.total with h | h | h
  · have h1 : ¬ r.terminal + k > r.total := by omega
    have h2 : ¬ r.terminal + k = r.total := by omega
    simp only [h, h1, h2, if_true, if_false]
  · have h1 : ¬ r.terminal + k > r.total := by omega
    have h2 : ¬ r.terminal + k < r.total := by omega
    cases r.nacked <;> cases a <;> simp [h]
  · have h1 : ¬ r.terminal + k = r.total := by omega
    have h2 : ¬ r.terminal + k < r.total := by omega
    simp only [h, h1, h2, if_true, if_false]


/-- `newMultiAckNacker` (model `maNew`) returns a fresh tally for exactly the given branches and positions. -/
theorem maNew_fresh (M : Nat) (ps : List PosV) (m : MA) (h : maNew M ps = .ok m) :
    m.Fresh ∧ m.branches = M ∧ m.positions = ps := by
  unfold maNew at h
  split at h
  · cases h
  · injection h with h; subst h; simp [MA.Fresh]


/-! ## order independence of all-ack votes -/

/-- the part of a tally that decides: vote counts and decisions. -/
structure Tally where
  branches : Nat
  ackVotes : List Nat
  terminal : List Bool
  acked : List Bool
deriving DecidableEq

def MA.core (m : MA) : Tally := ⟨m.branches, m.ackVotes, m.terminal, m.acked⟩

/-- an ack vote for slot `ix` on the deciding part. -/
def tAck (T : Tally) (ix : Nat) : Tally :=
  if T.terminal[ix]?.getD false then T
  else if T.ackVotes[ix]?.getD 0 + 1 == T.branches then
    { T with ackVotes := T.ackVotes.set ix (T.ackVotes[ix]?.getD 0 + 1),
             terminal := T.terminal.set ix true, acked := T.acked.set ix true }
  else { T with ackVotes := T.ackVotes.set ix (T.ackVotes[ix]?.getD 0 + 1) }

theorem core_maVote1 (m : MA) (t : Nat) (it : VItem) : (maVote1 m true t it).core = tAck m.core it.ix := by
  unfold maVote1 tAck MA.core
  dsimp only [MA.term, MA.votes]
  by_cases h1 : m.terminal[it.ix]?.getD false = true
  · simp [h1]
  · by_cases h2 : (m.ackVotes[it.ix]?.getD 0 + 1 == m.branches) = true
    · simp [h1, h2]
    · simp [h1, h2]

theorem tAck_comm (T : Tally) (a b : Nat) : tAck (tAck T a) b = tAck (tAck T b) a := by
  by_cases hab : a = b
  · subst hab; rfl
  · have hba : b ≠ a := fun e => hab e.symm
    unfold tAck
    by_cases ta : T.terminal[a]?.getD false = true <;> by_cases tb : T.terminal[b]?.getD false = true <;>
    by_cases va : (T.ackVotes[a]?.getD 0 + 1 == T.branches) = true <;>
    by_cases vb : (T.ackVotes[b]?.getD 0 + 1 == T.branches) = true <;>
    simp [ta, tb, va, vb, List.getElem?_set_ne hab, List.getElem?_set_ne hba, List.set_comm _ _ hab]

theorem foldl_perm {α β} (f : β → α → β) (hc : ∀ b x y, f (f b x) y = f (f b y) x) {l₁ l₂ : List α}
    (p : l₁.Perm l₂) : ∀ b, l₁.foldl f b = l₂.foldl f b := by
  induction p with
  | nil => intro b; rfl
  | cons x _ ih => intro b; simp only [List.foldl_cons]; exact ih _
  | swap x y l => intro b; simp only [List.foldl_cons]; rw [hc]
  | trans _ _ ih1 ih2 => intro b; rw [ih1, ih2]

theorem core_maVote (t : Nat) : ∀ (items : List VItem) (m : MA),
    (maVote m true t items).core = (items.map (·.ix)).foldl tAck m.core := by
  intro items
  induction items with
  | nil => intro m; rfl
  | cons it its ih => intro m; rw [maVote_cons, ih, core_maVote1]; rfl

theorem core_maStep (m : MA) (v : Vote) : (maStep m v).1.core = (maVote m v.isAck v.task v.items).core := by
  rw [(maStep_spec m v).1]; rfl

theorem core_maRun : ∀ (vs : List Vote) (m : MA), (∀ v ∈ vs, v.isAck = true) →
    (maRun m vs).1.core = (vs.flatMap Vote.idxs).foldl tAck m.core := by
  intro vs
  induction vs with
  | nil => intro m _; rfl
  | cons v vs ih =>
    intro m h
    rw [maRun_cons, List.flatMap_cons, List.foldl_append]
    dsimp only
    rw [ih _ (fun w hw => h w (List.mem_cons_of_mem _ hw)), core_maStep]
    have hv := h v List.mem_cons_self
    rw [hv, core_maVote]; rfl

/-- `released` is exactly the length of the longest terminal prefix. -/
structure MA.Stable (m : MA) : Prop where
  le : m.released ≤ m.positions.length
  below : ∀ i : Nat, i < m.released → m.term i = true
  stop : m.released < m.positions.length → m.term m.released = false

theorem maReleaseLoop_stop : ∀ (f : Nat) (m : MA), m.positions.length - m.released < f →
    (maReleaseLoop f m).1.released < m.positions.length → m.term (maReleaseLoop f m).1.released = false := by
  intro f
  induction f with
  | zero => intro m h; omega
  | succ f ih =>
    intro m hf
    by_cases h : m.released < m.positions.length
    · by_cases ht : m.term m.released = true
      · by_cases ha : m.ack m.released = true
        · rw [maReleaseLoop_ack f m h ht ha]
          obtain ⟨_, hkpos, _, _⟩ := maAckRun_spec m m.released h ht ha
          exact ih { m with released := m.released + (maAckRun m m.released).length } (by dsimp only; omega)
        · have ha' : m.ack m.released = false := by simpa using ha
          rw [maReleaseLoop_nack f m h ht ha']
          exact ih { m with released := m.released + 1 } (by dsimp only; omega)
      · have ht' : m.term m.released = false := by simpa using ht
        rw [maReleaseLoop_wait f m h ht']; intro _; exact ht'
    · rw [maReleaseLoop_done f m h]; intro h'; exact absurd h' h

theorem maStep_stable (m : MA) (v : Vote) (hs : m.Stable) : (maStep m v).1.Stable := by
  obtain ⟨s1, s2, s3, _, s5⟩ := maStep_spec m v
  obtain ⟨f1, f2, _⟩ := maVote_frame v.isAck v.task v.items m
  have hp := (maStep_fields m v 0).2.2.2.1
  refine ⟨by rw [hp]; exact s3 hs.le, ?_, ?_⟩
  · intro i hi
    rw [(maStep_fields m v i).1]
    by_cases h : i < m.released
    · exact (maVote_frozen v.isAck v.task i v.items m (hs.below i h)).1
    · exact s5 i (by omega) hi
  · intro h
    rw [hp] at h
    rw [(maStep_fields m v _).1]
    have key : (maStep m v).1.released < (maVote m v.isAck v.task v.items).positions.length →
        (maVote m v.isAck v.task v.items).term (maStep m v).1.released = false :=
      maReleaseLoop_stop _ (maVote m v.isAck v.task v.items) (by omega)
    exact key (by rw [f2]; exact h)

theorem maRun_stable : ∀ (vs : List Vote) (m : MA), m.Stable → (maRun m vs).1.Stable := by
  intro vs
  induction vs with
  | nil => intro m h; exact h
  | cons v vs ih => intro m h; rw [maRun_cons]; exact ih _ (maStep_stable m v h)

theorem MA.Fresh.stable {m : MA} (h : m.Fresh) : m.Stable := by
  refine ⟨by rw [h.1]; omega, by intro i hi; rw [h.1] at hi; omega, ?_⟩
  intro _
  rw [MA.term, h.2.2.1, h.1]
  simp [List.getElem?_replicate]; split <;> rfl

/-- two stable tallies over the same positions with the same terminal flags have released the same prefix. -/
theorem stable_released_eq (m₁ m₂ : MA) (h₁ : m₁.Stable) (h₂ : m₂.Stable)
    (hp : m₁.positions.length = m₂.positions.length) (ht : m₁.terminal = m₂.terminal) :
    m₁.released = m₂.released := by
  have e : ∀ i, m₁.term i = m₂.term i := fun i => by rw [MA.term, MA.term, ht]
  rcases Nat.lt_trichotomy m₁.released m₂.released with h | h | h
  · have := h₁.stop (by have := h₂.le; omega)
    rw [e, h₂.below _ h] at this; cases this
  · exact h
  · have := h₂.stop (by have := h₁.le; omega)
    rw [← e, h₁.below _ h] at this; cases this


/-! # Part 2: the monadic model agrees with the pure step functions -/

/-- run a computation of the pass monad from state `s`. -/
def exec {α} (x : M α) (s : PS) : Except Stop α × PS := x.run.run s

theorem exec_pure {α} (a : α) (s : PS) : exec (pure a : M α) s = (.ok a, s) := rfl
theorem exec_bind {α β} (x : M α) (f : α → M β) (s : PS) :
    exec (x >>= f) s = match exec x s with
      | (.ok a, s') => exec (f a) s'
      | (.error e, s') => (.error e, s') := by
  simp only [exec, ExceptT.run_bind, StateT.run_bind]
  show (match (x.run.run s) with | (a, s') => _) = _
  rcases h : x.run.run s with ⟨r, s'⟩
  cases r <;> rfl
theorem exec_get (s : PS) : exec (get : M PS) s = (.ok s, s) := rfl
theorem exec_modify (f : PS → PS) (s : PS) : exec (modify f : M Unit) s = (.ok (), f s) := rfl
theorem exec_throw {α} (e : Stop) (s : PS) : exec (throw e : M α) s = (.error e, s) := rfl
theorem exec_liftR_ok {α} (a : α) (s : PS) : exec (liftR (.ok a) : M α) s = (.ok a, s) := rfl
theorem exec_liftR_err {α} (e : Stop) (s : PS) : exec (liftR (.error e) : M α) s = (.error e, s) := rfl

/-! ### `releaseLocked` -/

/-- the parent call `releaseLocked` makes for a release event of tally `m`: batch, ack?, task id. -/
def batchOf (m : MA) : Released → Batch × Bool × Nat
  | .ackRun f t => (maAckBatch m f t, true, 0)
  | .nackOne i => (maNackBatch m i, false, m.nackTask[i]?.getD 0)

/-- `m.released` after the parent call returned. -/
def Released.next : Released → Nat
  | .ackRun _ t => t
  | .nackOne i => i + 1

def setReleased (id k : Nat) (s : PS) : PS :=
  { s with mas := s.mas.set! id { (s.mas[id]!) with released := k } }

/-- perform a list of release events against the parent: call, then advance `released`; stop at
the first failing call. (`fuel` only mirrors the model's recursion budget.) -/
def replay (parent : Acker) (id : Nat) (m : MA) : Nat → List Released → M Unit
  | _, [] => pure ()
  | 0, _ :: _ => throw (.panic "out of fuel")
  | fuel+1, ev :: evs => do
    ackerCall fuel parent (batchOf m ev).1 (batchOf m ev).2.1 (batchOf m ev).2.2
    modify (setReleased id ev.next)
    replay parent id m fuel evs

/-- the parent chain does not touch tally `id` (true of every chain in which `.multi id` does not
occur: the worker touches the window and the log, `.run` the heap, `.multi id'` tally `id'`). -/
def ParentFrame (parent : Acker) (id : Nat) : Prop :=
  ∀ (fuel : Nat) (b : Batch) (a : Bool) (t : Nat) (s s' : PS),
    exec (ackerCall fuel parent b a t) s = (.ok (), s') →
    s'.mas.size = s.mas.size ∧ s'.mas[id]! = s.mas[id]!

theorem batchOf_released (m : MA) (k : Nat) (ev : Released) :
    batchOf { m with released := k } ev = batchOf m ev := by
  cases ev <;> rfl

theorem replay_released (parent : Acker) (id : Nat) (m : MA) (k : Nat) : ∀ (fuel : Nat) (evs : List Released),
    replay parent id { m with released := k } fuel evs = replay parent id m fuel evs := by
  intro fuel
  induction fuel with
  | zero => intro evs; cases evs <;> rfl
  | succ fuel ih =>
    intro evs
    cases evs with
    | nil => rfl
    | cons ev evs => simp only [replay, batchOf_released, ih]

theorem setReleased_get (id k : Nat) (s : PS) (h : id < s.mas.size) :
    (setReleased id k s).mas[id]! = { (s.mas[id]!) with released := k } ∧
    (setReleased id k s).mas.size = s.mas.size := by
  simp [setReleased, Array.set!, h]

theorem releaseLoop_sim (parent : Acker) (id : Nat) (fr : ParentFrame parent id) : ∀ (fuel : Nat) (s : PS),
    id < s.mas.size → (s.mas[id]!).positions.length - (s.mas[id]!).released < fuel →
    exec (releaseLoop fuel id parent) s =
      exec (replay parent id (s.mas[id]!) fuel (maReleaseLoop fuel (s.mas[id]!)).2) s := by
  intro fuel
  induction fuel with
  | zero => intro s _ h; omega
  | succ fuel ih =>
    intro s hid hfuel
    rw [releaseLoop]
    rw [exec_bind, exec_get]
    dsimp only
    generalize hm : s.mas[id]! = m at *
    by_cases h : m.released < m.positions.length
    · by_cases ht : m.term m.released = true
      · by_cases ha : m.ack m.released = true
        · rw [maReleaseLoop_ack fuel m h ht ha]
          obtain ⟨_, hkpos, _, _⟩ := maAckRun_spec m m.released h ht ha
          simp only [MA.term, MA.ack] at ht ha
          simp only [h, ht, ha, if_true, Bool.not_true, Bool.false_eq_true, if_false]
          simp only [replay, batchOf, Released.next]
          have hk : (List.takeWhile (fun t => m.terminal[t]?.getD false && m.acked[t]?.getD false)
              (List.drop m.released (List.range m.positions.length))).length = (maAckRun m m.released).length := rfl
          rw [hk]
          generalize (maAckRun m m.released).length = k at *
          rw [exec_bind, exec_bind]
          rcases hc : exec (ackerCall fuel parent (maAckBatch m m.released (m.released + k)) true 0) s with ⟨r, s1⟩
          cases r with
          | error e => rfl
          | ok u =>
            dsimp only
            obtain ⟨f1, f2⟩ := fr _ _ _ _ _ _ hc
            rw [exec_bind, exec_bind]
            show (match exec (modify (setReleased id (m.released + k))) s1 with
              | (Except.ok a, s') => exec (releaseLoop fuel id parent) s'
              | (Except.error e, s') => (Except.error e, s')) = _
            rw [exec_modify]
            dsimp only
            have hid1 : id < s1.mas.size := by rw [f1]; exact hid
            obtain ⟨g1, g2⟩ := setReleased_get id (m.released + k) s1 hid1
            rw [f2, hm] at g1
            rw [ih _ (by rw [g2]; exact hid1) (by rw [g1]; dsimp only; omega), g1, replay_released]
        · have ha' : m.ack m.released = false := by simpa using ha
          rw [maReleaseLoop_nack fuel m h ht ha']
          simp only [MA.term, MA.ack] at ht ha'
          simp only [h, ht, ha', if_true, Bool.not_true, Bool.false_eq_true, if_false]
          simp only [replay, batchOf, Released.next]
          rw [exec_bind, exec_bind]
          rcases hc : exec (ackerCall fuel parent (maNackBatch m m.released) false (m.nackTask[m.released]?.getD 0)) s with ⟨r, s1⟩
          cases r with
          | error e => rfl
          | ok u =>
            dsimp only
            obtain ⟨f1, f2⟩ := fr _ _ _ _ _ _ hc
            rw [exec_bind, exec_bind]
            show (match exec (modify (setReleased id (m.released + 1))) s1 with
              | (Except.ok a, s') => exec (releaseLoop fuel id parent) s'
              | (Except.error e, s') => (Except.error e, s')) = _
            rw [exec_modify]
            dsimp only
            have hid1 : id < s1.mas.size := by rw [f1]; exact hid
            obtain ⟨g1, g2⟩ := setReleased_get id (m.released + 1) s1 hid1
            rw [f2, hm] at g1
            rw [ih _ (by rw [g2]; exact hid1) (by rw [g1]; dsimp only; omega), g1, replay_released]
      · have ht' : m.term m.released = false := by simpa using ht
        rw [maReleaseLoop_wait fuel m h ht']
        simp only [MA.term] at ht'
        simp only [h, ht', if_true, Bool.not_false]
        rfl
    · rw [maReleaseLoop_done fuel m h]
      simp only [h, if_false]
      rfl


theorem maReleaseLoop_fuel : ∀ (f1 f2 : Nat) (m : MA),
    m.positions.length - m.released < f1 → m.positions.length - m.released < f2 →
    maReleaseLoop f1 m = maReleaseLoop f2 m := by
  intro f1
  induction f1 with
  | zero => intro f2 m h; omega
  | succ f1 ih =>
    intro f2 m h1 h2
    cases f2 with
    | zero => omega
    | succ f2 =>
      by_cases h : m.released < m.positions.length
      · by_cases ht : m.term m.released = true
        · by_cases ha : m.ack m.released = true
          · rw [maReleaseLoop_ack f1 m h ht ha, maReleaseLoop_ack f2 m h ht ha]
            obtain ⟨_, hkpos, _, _⟩ := maAckRun_spec m m.released h ht ha
            rw [ih f2 _ (by dsimp only; omega) (by dsimp only; omega)]
          · have ha' : m.ack m.released = false := by simpa using ha
            rw [maReleaseLoop_nack f1 m h ht ha', maReleaseLoop_nack f2 m h ht ha']
            rw [ih f2 _ (by dsimp only; omega) (by dsimp only; omega)]
        · have ht' : m.term m.released = false := by simpa using ht
          rw [maReleaseLoop_wait f1 m h ht', maReleaseLoop_wait f2 m h ht']
      · rw [maReleaseLoop_done f1 m h, maReleaseLoop_done f2 m h]

theorem maReleaseLoop_eq_maRelease (fuel : Nat) (m : MA) (h : m.positions.length - m.released < fuel) :
    maReleaseLoop fuel m = maRelease m :=
  maReleaseLoop_fuel _ _ m h (by omega)

/-! ### the vote loop of `multiAckNacker.Ack` / `.Nack` -/

/-- the body of `for i, pos := range ob.positions` as the model writes it. -/
def voteBody (id : Nat) (ob : Batch) (isAck : Bool) (task : Nat) (i : Nat) (m : MA) : M (ForInStep MA) :=
  match maIndexOf m (ob.pos[i]?).join with
  | none => do
    modify fun s => { s with mas := s.mas.set! id m }
    throw (.err plainErr)
    pure (ForInStep.yield m)
  | some ix =>
    if m.terminal[ix]?.getD false = true then pure (ForInStep.yield m)
    else do
      let r ← liftR (idx ob.recs i "ob.records[i]")
      if isAck = true then
        let v := m.ackVotes[ix]?.getD 0 + 1
        let m := { m with record := m.record.set ix r, ackVotes := m.ackVotes.set ix v }
        if (v == m.branches) = true then
          pure (ForInStep.yield { m with terminal := m.terminal.set ix true, acked := m.acked.set ix true })
        else pure (ForInStep.yield m)
      else do
        let stE ← liftR (idx ob.st i "ob.recordStatuses[i]")
        let m' : MA := { m with terminal := m.terminal.set ix true, acked := m.acked.set ix false, record := m.record.set ix r, nackErr := m.nackErr.set ix stE.err, nackTask := m.nackTask.set ix task }
        pure (ForInStep.yield m')

theorem ackerCall_multi (fuel id : Nat) (parent : Acker) (b : Batch) (isAck : Bool) (task : Nat) :
    ackerCall (fuel+1) (.multi id parent) b isAck task = (do
      let s ← get
      let m ← forIn (List.range b.original.pos.length) (s.mas[id]!) (voteBody id b.original isAck task)
      modify fun s => { s with mas := s.mas.set! id m }
      releaseLoop fuel id parent) := by
  rw [ackerCall]; rfl


/-- entry `i` of a branch's (collapsed) batch as a vote item: `indexOf` of its position, its record, its status error. -/
def itemAt (m : MA) (ob : Batch) (i : Nat) : Option VItem :=
  (maIndexOf m (ob.pos[i]?).join).map fun ix =>
    { ix := ix, r := ob.recs[i]?.getD default, err := (ob.st[i]?).bind (·.err) }

/-- all entries; `none` when some position is not part of the fan-out batch (the `(bug)` error). -/
def itemsOf (m : MA) (ob : Batch) : Option (List VItem) :=
  (List.range ob.pos.length).mapM (itemAt m ob)

theorem idx_ok {α} (l : List α) (i : Nat) (w : String) (h : i < l.length) : idx l i w = .ok l[i] := by
  simp [idx, h]; rfl

theorem maIndexOf_positions (m m' : MA) (h : m'.positions = m.positions) (p : PosV) :
    maIndexOf m' p = maIndexOf m p := by
  simp [maIndexOf, h]

theorem itemAt_positions (m m' : MA) (h : m'.positions = m.positions) (ob : Batch) (i : Nat) :
    itemAt m' ob i = itemAt m ob i := by
  simp [itemAt, maIndexOf_positions m m' h]

theorem voteBody_step (id : Nat) (ob : Batch) (isAck : Bool) (task i : Nat) (m : MA) (it : VItem) (s : PS)
    (h1 : i < ob.recs.length) (h2 : i < ob.st.length) (h : itemAt m ob i = some it) :
    exec (voteBody id ob isAck task i m) s = (.ok (.yield (maVote1 m isAck task it)), s) := by
  unfold itemAt at h
  unfold voteBody
  cases hix : maIndexOf m (ob.pos[i]?).join with
  | none => rw [hix] at h; simp at h
  | some ix =>
    rw [hix] at h
    simp only [Option.map_some, Option.some.injEq] at h
    subst h
    dsimp only
    unfold maVote1
    dsimp only [MA.term, MA.votes]
    by_cases ht : m.terminal[ix]?.getD false = true
    · simp only [ht, if_true]; rfl
    · simp only [ht, if_false, Bool.false_eq_true]
      rw [exec_bind, idx_ok _ _ _ h1, exec_liftR_ok]
      dsimp only
      have hr : ob.recs[i]?.getD default = ob.recs[i] := by simp [h1]
      rw [hr]
      cases isAck with
      | true =>
        simp only [if_true]
        by_cases hv : (m.ackVotes[ix]?.getD 0 + 1 == m.branches) = true
        · simp only [hv, if_true]; rfl
        · simp only [hv, if_false, Bool.false_eq_true]; rfl
      | false =>
        simp only [Bool.false_eq_true, if_false]
        rw [exec_bind, idx_ok _ _ _ h2, exec_liftR_ok]
        dsimp only
        have he : (ob.st[i]?).bind (·.err) = ob.st[i].err := by simp [h2]
        rw [he]; rfl

theorem voteLoop_forIn (id : Nat) (ob : Batch) (isAck : Bool) (task : Nat) (s : PS) : ∀ (l : List Nat) (m : MA) (items : List VItem),
    (∀ i ∈ l, i < ob.recs.length ∧ i < ob.st.length) → l.mapM (itemAt m ob) = some items →
    exec (forIn l m (voteBody id ob isAck task)) s = (.ok (maVote m isAck task items), s) := by
  intro l
  induction l with
  | nil => intro m items _ h; simp at h; subst h; rfl
  | cons i l ih =>
    intro m items hl h
    rw [List.mapM_cons] at h
    cases hit : itemAt m ob i with
    | none => rw [hit] at h; simp at h
    | some it =>
      rw [hit] at h
      cases hrest : l.mapM (itemAt m ob) with
      | none => rw [hrest] at h; simp at h
      | some its =>
        rw [hrest] at h
        simp at h; subst h
        rw [List.forIn_cons, exec_bind, voteBody_step id ob isAck task i m it s (hl i List.mem_cons_self).1 (hl i List.mem_cons_self).2 hit]
        dsimp only
        rw [maVote_cons]
        apply ih
        · intro j hj; exact hl j (List.mem_cons_of_mem _ hj)
        · have : itemAt (maVote1 m isAck task it) ob = itemAt m ob :=
            funext fun j => itemAt_positions m _ (maVote1_frame m isAck task it).2.1 ob j
          rw [this, hrest]


/-- SIMULATION, fan-out arbiter: one `Ack`/`Nack` call on the monadic model's `multiAckNacker`
(`ackerCall … (.multi id parent)`) is: replace tally `id` by `maVote …` of it, then perform the
parent calls `(maRelease …).2` in order, advancing `released` after each, stopping at the first
failing one. (`items` = the call's batch resolved by `indexOf`; the batch is well-formed, the
parent chain does not contain tally `id`, and the recursion budget suffices.) -/
theorem ackerCall_multi_sim (parent : Acker) (id : Nat) (fr : ParentFrame parent id) (fuel : Nat)
    (b : Batch) (isAck : Bool) (task : Nat) (s : PS) (hid : id < s.mas.size) (items : List VItem)
    (hitems : itemsOf (s.mas[id]!) b.original = some items)
    (hlen : b.original.pos.length ≤ b.original.recs.length ∧ b.original.pos.length ≤ b.original.st.length)
    (hfuel : (s.mas[id]!).positions.length - (s.mas[id]!).released < fuel) :
    exec (ackerCall (fuel+1) (.multi id parent) b isAck task) s =
      exec (replay parent id (maVote (s.mas[id]!) isAck task items) fuel
              (maRelease (maVote (s.mas[id]!) isAck task items)).2)
        { s with mas := s.mas.set! id (maVote (s.mas[id]!) isAck task items) } := by
  rw [ackerCall_multi, exec_bind, exec_get]
  dsimp only
  rw [exec_bind, voteLoop_forIn id b.original isAck task s _ _ items
    (by intro i hi; rw [List.mem_range] at hi; omega) hitems]
  dsimp only
  rw [exec_bind, exec_modify]
  dsimp only
  obtain ⟨f1, f2, _⟩ := maVote_frame isAck task items (s.mas[id]!)
  generalize hm' : maVote (s.mas[id]!) isAck task items = m' at *
  have hget : ({ s with mas := s.mas.set! id m' } : PS).mas[id]! = m' := by
    simp [Array.set!, hid]
  have hsz : id < ({ s with mas := s.mas.set! id m' } : PS).mas.size := by
    simp [Array.set!, hid]
  rw [releaseLoop_sim parent id fr fuel _ hsz (by rw [hget, f1, f2]; exact hfuel), hget,
    maReleaseLoop_eq_maRelease fuel m' (by rw [f1, f2]; exact hfuel)]

theorem maReleaseLoop_last : ∀ (f : Nat) (m : MA),
    (maReleaseLoop f m).1.released = (((maReleaseLoop f m).2.getLast?).map Released.next).getD m.released ∧
    (maReleaseLoop f m).2.length ≤ m.positions.length - m.released := by
  intro f
  induction f with
  | zero => intro m; simp [maReleaseLoop_zero]
  | succ f ih =>
    intro m
    by_cases h : m.released < m.positions.length
    · by_cases ht : m.term m.released = true
      · by_cases ha : m.ack m.released = true
        · rw [maReleaseLoop_ack f m h ht ha]
          obtain ⟨_, hkpos, hkle, _⟩ := maAckRun_spec m m.released h ht ha
          obtain ⟨i1, i2⟩ := ih { m with released := m.released + (maAckRun m m.released).length }
          dsimp only at i1 i2 ⊢
          refine ⟨?_, by simp only [List.length_cons]; omega⟩
          rw [i1, List.getLast?_cons]
          cases (maReleaseLoop f { m with released := m.released + (maAckRun m m.released).length }).2.getLast? <;> rfl
        · have ha' : m.ack m.released = false := by simpa using ha
          rw [maReleaseLoop_nack f m h ht ha']
          obtain ⟨i1, i2⟩ := ih { m with released := m.released + 1 }
          dsimp only at i1 i2 ⊢
          refine ⟨?_, by simp only [List.length_cons]; omega⟩
          rw [i1, List.getLast?_cons]
          cases (maReleaseLoop f { m with released := m.released + 1 }).2.getLast? <;> rfl
      · have ht' : m.term m.released = false := by simpa using ht
        rw [maReleaseLoop_wait f m h ht']; simp
    · rw [maReleaseLoop_done f m h]; simp

/-- if every parent call of the list succeeds, `replay` succeeds and leaves tally `id` with
`released` advanced to after the last event. -/
theorem replay_ok (parent : Acker) (id : Nat) (fr : ParentFrame parent id) (m : MA) (f0 : Nat) :
    ∀ (evs : List Released) (fuel : Nat) (s : PS), id < s.mas.size →
    (∀ ev ∈ evs, ∀ f ≥ f0, ∀ s : PS, ∃ s', exec (ackerCall f parent (batchOf m ev).1 (batchOf m ev).2.1 (batchOf m ev).2.2) s = (.ok (), s')) →
    f0 + evs.length ≤ fuel →
    ∃ s', exec (replay parent id m fuel evs) s = (.ok (), s') ∧ s'.mas.size = s.mas.size ∧
      s'.mas[id]! = { (s.mas[id]!) with released := ((evs.getLast?).map Released.next).getD (s.mas[id]!).released } := by
  intro evs
  induction evs with
  | nil =>
    intro fuel s _ _ _
    refine ⟨s, ?_, rfl, rfl⟩
    cases fuel <;> rfl
  | cons ev evs ih =>
    intro fuel s hid hok hfuel
    cases fuel with
    | zero => simp at hfuel
    | succ fuel =>
      simp only [replay]
      obtain ⟨s1, hs1⟩ := hok ev List.mem_cons_self fuel (by simp only [List.length_cons] at hfuel; omega) s
      obtain ⟨g1, g2⟩ := fr _ _ _ _ _ _ hs1
      rw [exec_bind, hs1]
      dsimp only
      rw [exec_bind, exec_modify]
      dsimp only
      have hid1 : id < s1.mas.size := by rw [g1]; exact hid
      obtain ⟨q1, q2⟩ := setReleased_get id ev.next s1 hid1
      obtain ⟨s', e1, e2, e3⟩ := ih fuel (setReleased id ev.next s1) (by rw [q2]; exact hid1)
        (fun ev' h => hok ev' (List.mem_cons_of_mem _ h)) (by simp only [List.length_cons] at hfuel; omega)
      refine ⟨s', e1, by rw [e2, q2, g1], ?_⟩
      rw [e3, q1, g2, List.getLast?_cons]
      cases evs.getLast? <;> rfl

/-- SIMULATION, success case: if the parent calls that `releaseLocked` makes all succeed, the
model's `Ack`/`Nack` call succeeds and leaves exactly the pure `maStep` tally. -/
theorem ackerCall_multi_ok (parent : Acker) (id : Nat) (fr : ParentFrame parent id) (fuel f0 : Nat)
    (b : Batch) (isAck : Bool) (task : Nat) (s : PS) (hid : id < s.mas.size) (items : List VItem) (br : Nat)
    (hitems : itemsOf (s.mas[id]!) b.original = some items)
    (hlen : b.original.pos.length ≤ b.original.recs.length ∧ b.original.pos.length ≤ b.original.st.length)
    (hfuel : f0 + ((s.mas[id]!).positions.length - (s.mas[id]!).released) < fuel)
    (hok : ∀ ev ∈ (maStep (s.mas[id]!) ⟨br, isAck, task, items⟩).2, ∀ f ≥ f0, ∀ s' : PS, ∃ s'',
      exec (ackerCall f parent
        (batchOf (maVote (s.mas[id]!) isAck task items) ev).1
        (batchOf (maVote (s.mas[id]!) isAck task items) ev).2.1
        (batchOf (maVote (s.mas[id]!) isAck task items) ev).2.2) s' = (.ok (), s'')) :
    ∃ s', exec (ackerCall (fuel+1) (.multi id parent) b isAck task) s = (.ok (), s') ∧
      s'.mas.size = s.mas.size ∧
      s'.mas[id]! = (maStep (s.mas[id]!) ⟨br, isAck, task, items⟩).1 := by
  rw [ackerCall_multi_sim parent id fr fuel b isAck task s hid items hitems hlen (by omega)]
  obtain ⟨f1, f2, _⟩ := maVote_frame isAck task items (s.mas[id]!)
  simp only [maStep] at hok ⊢
  generalize hm' : maVote (s.mas[id]!) isAck task items = m' at *
  have hget : ({ s with mas := s.mas.set! id m' } : PS).mas[id]! = m' := by
    simp [Array.set!, hid]
  have hsz : ({ s with mas := s.mas.set! id m' } : PS).mas.size = s.mas.size := by
    simp [Array.set!]
  obtain ⟨l1, l2⟩ := maReleaseLoop_last (m'.positions.length - m'.released + 1) m'
  have l2' : (maRelease m').2.length ≤ (s.mas[id]!).positions.length - (s.mas[id]!).released := by
    rw [← f1, ← f2]; exact l2
  obtain ⟨s', e1, e2, e3⟩ := replay_ok parent id fr m' f0 (maRelease m').2 fuel _ (by rw [hsz]; exact hid) hok
    (by omega)
  refine ⟨s', e1, by rw [e2, hsz], ?_⟩
  rw [e3, hget]
  have hspec := (maReleaseLoop_spec (m'.positions.length - m'.released + 1) m').1
  simp only [maRelease] at hspec ⊢
  rw [hspec]
  congr 1
  exact l1.symm


/-! ### `runAckNacker.vote` -/

/-- `runs[k]` as `vote` reads it. -/
def runAt (batch : Batch) (k : Nat) : R (Option Nat) :=
  match batch.runs with
  | none => pure none
  | some rs => idx rs k "runs[k]"

/-- the extent scan `for j < len && runs[j] == run` as the model writes it. -/
def extentBody (batch : Batch) (run : Option Nat) (k : Nat) (j : Nat) : M (ForInStep Nat) :=
  if (j == k) = true then do
    let nxt ← liftR (runAt batch k)
    if (nxt == run) = true then pure (ForInStep.yield (k + 1)) else pure (ForInStep.yield j)
  else pure (ForInStep.yield j)

theorem extent_all (batch : Batch) (run : Option Nat) (s : PS) : ∀ (cnt start : Nat),
    (∀ k : Nat, start ≤ k → k < start + cnt → runAt batch k = .ok run) →
    exec (forIn (List.range' start cnt) start (extentBody batch run)) s = (.ok (start + cnt), s) := by
  intro cnt
  induction cnt with
  | zero => intro start _; rfl
  | succ cnt ih =>
    intro start h
    rw [List.range'_succ, List.forIn_cons, exec_bind]
    have h0 := h start (Nat.le_refl _) (by omega)
    have : exec (extentBody batch run start start) s = (.ok (.yield (start + 1)), s) := by
      unfold extentBody
      simp only [beq_self_eq_true, if_true]
      rw [exec_bind, h0, exec_liftR_ok]
      simp [exec_pure]
    rw [this]
    dsimp only
    rw [ih (start + 1) (fun k h1 h2 => h k (by omega) (by omega))]
    congr 2; omega

theorem voteLoop_unfold (fuel : Nat) (parent : Acker) (batch : Batch) (isAck : Bool) (task i : Nat)
    (h : i < batch.recs.length) :
    voteLoop (fuel+1) parent batch isAck task i = (do
      let run ← liftR (runAt batch i)
      let j ← forIn (List.range' (i + 1) (batch.recs.length - (i + 1))) (i + 1) (extentBody batch run)
      match run with
      | none => do
        let sb ← liftR (batch.sub i j)
        ackerCall fuel parent sb isAck task
        voteLoop fuel parent batch isAck task j
      | some rid => do
        let r := (← get).heap[rid]!
        if r.released then throw (.err plainErr)
        let mut r := { r with terminal := r.terminal + (j - i) }
        if !isAck ∧ !r.nacked then
          r := { r with nacked := true, nackErr := firstRunError ((batch.st.take j).drop i), nackTask := task }
        if r.terminal > r.total then
          modify fun s => { s with heap := s.heap.set! rid r }
          throw (.err plainErr)
        if r.terminal == r.total then
          r := { r with released := true }
          modify fun s => { s with heap := s.heap.set! rid r }
          if r.nacked then ackerCall fuel parent (runNackBatch r) false r.nackTask
          else ackerCall fuel parent (runAckBatch r) true 0
        else
          modify fun s => { s with heap := s.heap.set! rid r }
        voteLoop fuel parent batch isAck task j) := by
  rw [voteLoop]
  simp only [h, if_true]
  rfl


theorem voteLoop_end (fuel : Nat) (parent : Acker) (batch : Batch) (isAck : Bool) (task i : Nat)
    (h : ¬ i < batch.recs.length) (s : PS) :
    exec (voteLoop (fuel+1) parent batch isAck task i) s = (.ok (), s) := by
  rw [voteLoop]; simp only [h, if_false]; rfl

def setRun (rid : Nat) (r : SplitRun) (s : PS) : PS := { s with heap := s.heap.set! rid r }

/-- SIMULATION, split-run ledger: `runAckNacker.vote` from index `i` on a batch whose records from
`i` on all belong to run `rid` is one `runVote` for the group of `len - i` members: error and
nothing forwarded / ledger updated and nothing forwarded / ledger updated and the original record
acked / nacked to the parent; then the scan continues at `len` (where it ends). -/
theorem voteLoop_run_sim (fuel : Nat) (parent : Acker) (batch : Batch) (isAck : Bool) (task i rid : Nat)
    (s : PS) (hi : i < batch.recs.length)
    (hruns : ∀ k : Nat, i ≤ k → k < batch.recs.length → runAt batch k = .ok (some rid)) :
    exec (voteLoop (fuel+1) parent batch isAck task i) s =
      (let r := s.heap[rid]!
       let res := runVote r (batch.recs.length - i) isAck task
                    (firstRunError ((batch.st.take batch.recs.length).drop i))
       match res.2 with
       | .err => (.error (.err plainErr), if r.released then s else setRun rid res.1 s)
       | .hold => exec (voteLoop fuel parent batch isAck task batch.recs.length) (setRun rid res.1 s)
       | .ack => exec (do ackerCall fuel parent (runAckBatch res.1) true 0
                          voteLoop fuel parent batch isAck task batch.recs.length) (setRun rid res.1 s)
       | .nack => exec (do ackerCall fuel parent (runNackBatch res.1) false res.1.nackTask
                           voteLoop fuel parent batch isAck task batch.recs.length) (setRun rid res.1 s)) := by
  rw [voteLoop_unfold fuel parent batch isAck task i hi]
  rw [exec_bind, hruns i (Nat.le_refl _) hi, exec_liftR_ok]
  dsimp only
  rw [exec_bind, extent_all batch (some rid) s _ (i + 1) (fun k h1 h2 => hruns k (by omega) (by omega))]
  have hj : i + 1 + (batch.recs.length - (i + 1)) = batch.recs.length := by omega
  rw [hj]
  dsimp only
  generalize batch.recs.length = len at *
  generalize hr : s.heap[rid]! = r
  unfold runVote
  rw [exec_bind, exec_get]
  dsimp only
  rw [hr]
  cases hrel : r.released with
  | true => simp [exec_throw]
  | false =>
    rcases Nat.lt_trichotomy (r.terminal + (len - i)) r.total with h | h | h
    · have h1 : ¬ r.terminal + (len - i) > r.total := by omega
      have h2 : ¬ r.terminal + (len - i) = r.total := by omega
      cases isAck <;> cases hn : r.nacked <;>
        simp [exec_bind, exec_modify, setRun, h1, h2]
    · have h1 : ¬ r.terminal + (len - i) > r.total := by omega
      cases isAck <;> cases hn : r.nacked <;>
        simp [exec_bind, exec_modify, setRun, h]
    · have h2 : ¬ r.terminal + (len - i) = r.total := by omega
      cases isAck <;> cases hn : r.nacked <;>
        simp [exec_bind, exec_throw, exec_modify, setRun, h, h2]


theorem voteLoop_norun_sim (fuel : Nat) (parent : Acker) (batch : Batch) (isAck : Bool) (task i : Nat)
    (s : PS) (hi : i < batch.recs.length)
    (hruns : ∀ k : Nat, i ≤ k → k < batch.recs.length → runAt batch k = .ok none) :
    exec (voteLoop (fuel+1) parent batch isAck task i) s =
      exec (do let sb ← liftR (batch.sub i batch.recs.length)
               ackerCall fuel parent sb isAck task
               voteLoop fuel parent batch isAck task batch.recs.length) s := by
  rw [voteLoop_unfold fuel parent batch isAck task i hi]
  rw [exec_bind, hruns i (Nat.le_refl _) hi, exec_liftR_ok]
  dsimp only
  rw [exec_bind, extent_all batch none s _ (i + 1) (fun k h1 h2 => hruns k (by omega) (by omega))]
  have hj : i + 1 + (batch.recs.length - (i + 1)) = batch.recs.length := by omega
  rw [hj]

/-- `runAckNacker.Ack`/`.Nack` is `vote` from index 0. -/
theorem ackerCall_run (fuel : Nat) (parent : Acker) (b : Batch) (isAck : Bool) (task : Nat) :
    ackerCall (fuel+1) (.run parent) b isAck task = voteLoop fuel parent b isAck task 0 := by
  rw [ackerCall]


/-! ### the frame hypothesis holds for the root acker -/

/-- `x` leaves the tallies `mas` alone whenever it starts with `mas = ms`. -/
def KeepsM {α} (ms : Array MA) (x : M α) : Prop := ∀ s : PS, s.mas = ms → (exec x s).2.mas = ms

theorem exec_tryCatch {α} (x : M α) (h : Stop → M α) (s : PS) :
    exec (tryCatch x h) s = match exec x s with
      | (.ok a, s') => (.ok a, s')
      | (.error e, s') => exec (h e) s' := by
  show exec (ExceptT.tryCatch x h) s = _
  unfold ExceptT.tryCatch
  simp only [exec, ExceptT.run_mk, StateT.run_bind]
  have e : StateT.run (ExceptT.run x) s = StateT.run x s := rfl
  rw [e]
  generalize StateT.run x s = p
  rcases p with ⟨r, s'⟩
  cases r <;> rfl

namespace KeepsM
variable {ms : Array MA}
theorem pure {α} (a : α) : KeepsM ms (Pure.pure a : M α) := fun _ h => h
theorem throw {α} (e : Stop) : KeepsM ms (MonadExcept.throw e : M α) := fun _ h => h
theorem liftR {α} (r : R α) : KeepsM ms (Conduit.Funnel.liftR r : M α) := by
  intro s h; cases r <;> exact h
theorem emit (e : Ev) : KeepsM ms (Conduit.Funnel.emit e) := fun _ h => h
theorem modify (f : PS → PS) (hf : ∀ s, (f s).mas = s.mas) : KeepsM ms (modify f : M Unit) := by
  intro s h; show (f s).mas = ms; rw [hf, h]
theorem set (s' : PS) (h' : s'.mas = ms) : KeepsM ms (MonadStateOf.set s' : M Unit) := fun _ _ => h'
theorem bind {α β} {x : M α} {f : α → M β} (hx : KeepsM ms x) (hf : ∀ a, KeepsM ms (f a)) :
    KeepsM ms (x >>= f) := by
  intro s h
  rw [exec_bind]
  have := hx s h
  rcases hc : exec x s with ⟨r, s'⟩
  rw [hc] at this
  cases r with
  | error e => exact this
  | ok a => exact hf a s' this
theorem get_bind {β} {f : PS → M β} (hf : ∀ s0 : PS, s0.mas = ms → KeepsM ms (f s0)) :
    KeepsM ms (get >>= f) := by
  intro s h
  rw [exec_bind, exec_get]
  exact hf s h s h
theorem tryCatch {α} {x : M α} {hd : Stop → M α} (hx : KeepsM ms x) (hh : ∀ e, KeepsM ms (hd e)) :
    KeepsM ms (tryCatch x hd) := by
  intro s h
  rw [exec_tryCatch]
  have := hx s h
  rcases hc : exec x s with ⟨r, s'⟩
  rw [hc] at this
  cases r with
  | ok a => exact this
  | error e => exact hh e s' this
end KeepsM

theorem popReply_keeps (ms : Array MA) (t : Nat) : KeepsM ms (popReply t) := by
  unfold popReply
  apply KeepsM.get_bind
  intro s0 h0
  split
  · apply KeepsM.bind
    · exact KeepsM.set _ h0
    · intro _; exact KeepsM.pure _
  · exact KeepsM.pure _


/-- one step of the frame proof: peel the outermost monadic construct. -/
macro "keeps_step" : tactic => `(tactic| with_reducible first
  | exact KeepsM.pure _
  | exact KeepsM.throw _
  | exact KeepsM.liftR _
  | exact KeepsM.emit _
  | exact popReply_keeps _ _
  | (apply KeepsM.get_bind; intro _ _)
  | apply KeepsM.tryCatch
  | apply KeepsM.bind
  | intro _
  | split)

theorem destDo_keeps (ms : Array MA) (t : Nat) (b : Batch) (i : Option (List (Rec × Option Err × Nat))) :
    KeepsM ms (destDo t b i) := by
  unfold destDo
  dsimp only
  repeat keeps_step

theorem sendToDLQ_keeps (ms : Array MA) (b : Batch) (t : Nat) : KeepsM ms (sendToDLQ b t) := by
  unfold sendToDLQ
  dsimp only
  repeat (first | with_reducible exact destDo_keeps _ _ _ _ | keeps_step)

theorem dlqNack_keeps (ms : Array MA) (b : Batch) (t : Nat) : KeepsM ms (dlqNack b t) := by
  unfold dlqNack
  dsimp only
  repeat (first | with_reducible exact sendToDLQ_keeps _ _ _ | (with_reducible apply KeepsM.set; assumption) | keeps_step)

theorem workerNack_keeps (ms : Array MA) (b : Batch) (t : Nat) : KeepsM ms (workerNack b t) := by
  unfold workerNack
  dsimp only
  repeat (first | with_reducible exact dlqNack_keeps _ _ _ | keeps_step)

theorem workerAck_keeps (ms : Array MA) (b : Batch) : KeepsM ms (workerAck b) := by
  unfold workerAck dlqAck
  dsimp only
  repeat (first | (with_reducible apply KeepsM.modify; intro _; rfl) | keeps_step)


/-- the hypothesis `ParentFrame` of the simulation lemmas holds for the root acker (the Worker
with its DLQ), for every tally id. -/
theorem parentFrame_worker (id : Nat) : ParentFrame .worker id := by
  intro fuel b a t s s' h
  cases fuel with
  | zero => rw [ackerCall] at h; cases h
  | succ fuel =>
    rw [ackerCall] at h
    have hk : (exec (if a = true then workerAck b else workerNack b t) s).2.mas = s.mas := by
      cases a
      · exact workerNack_keeps s.mas b t s rfl
      · exact workerAck_keeps s.mas b s rfl
    rw [h] at hk
    dsimp only at hk
    rw [hk]; exact ⟨rfl, rfl⟩


/-! ### the frame hypothesis holds for every acker chain that does not contain the tally -/

/-- tally `id` occurs in the acker chain. -/
def Acker.mentions (id : Nat) : Acker → Prop
  | .worker => False
  | .run p => p.mentions id
  | .multi id' p => id' = id ∨ p.mentions id

/-- `x` keeps the number of tallies and tally `id`. -/
def KeepsI {α} (id : Nat) (x : M α) : Prop :=
  ∀ s : PS, (exec x s).2.mas.size = s.mas.size ∧ (exec x s).2.mas[id]! = s.mas[id]!

theorem KeepsM.toI {α} {x : M α} (h : ∀ ms, KeepsM ms x) (id : Nat) : KeepsI id x := by
  intro s; rw [h s.mas s rfl]; exact ⟨rfl, rfl⟩

namespace KeepsI
variable {id : Nat}
theorem pure {α} (a : α) : KeepsI id (Pure.pure a : M α) := fun _ => ⟨rfl, rfl⟩
theorem throw {α} (e : Stop) : KeepsI id (MonadExcept.throw e : M α) := fun _ => ⟨rfl, rfl⟩
theorem liftR {α} (r : R α) : KeepsI id (Conduit.Funnel.liftR r : M α) := by
  intro s; cases r <;> exact ⟨rfl, rfl⟩
theorem modify (f : PS → PS) (hf : ∀ s, (f s).mas.size = s.mas.size ∧ (f s).mas[id]! = s.mas[id]!) :
    KeepsI id (modify f : M Unit) := fun s => hf s
theorem bind {α β} {x : M α} {f : α → M β} (hx : KeepsI id x) (hf : ∀ a, KeepsI id (f a)) :
    KeepsI id (x >>= f) := by
  intro s
  rw [exec_bind]
  have := hx s
  rcases hc : exec x s with ⟨r, s'⟩
  rw [hc] at this
  cases r with
  | error e => exact this
  | ok a => have h2 := hf a s'; exact ⟨h2.1.trans this.1, h2.2.trans this.2⟩
theorem get_bind {β} {f : PS → M β} (hf : ∀ s0 : PS, KeepsI id (f s0)) : KeepsI id (get >>= f) := by
  intro s; rw [exec_bind, exec_get]; exact hf s s
theorem forIn {β} (body : Nat → β → M (ForInStep β)) (hb : ∀ a b, KeepsI id (body a b)) :
    ∀ (l : List Nat) (init : β), KeepsI id (forIn l init body) := by
  intro l
  induction l with
  | nil => intro init; exact KeepsI.pure _
  | cons a l ih =>
    intro init
    rw [List.forIn_cons]
    apply KeepsI.bind (hb a init)
    intro r
    cases r with
    | done b => exact KeepsI.pure _
    | yield b => exact ih b
end KeepsI

theorem set!_other (a : Array MA) (i j : Nat) (x : MA) (h : i ≠ j) :
    (a.set! i x).size = a.size ∧ (a.set! i x)[j]! = a[j]! := by
  simp [Array.set!, Array.getElem!_eq_getD, Array.getD_eq_getD_getElem?, Array.getElem?_setIfInBounds_ne h]


macro "keepsI_step" : tactic => `(tactic| with_reducible first
  | exact KeepsI.pure _
  | exact KeepsI.throw _
  | exact KeepsI.liftR _
  | (apply KeepsI.get_bind; intro _)
  | apply KeepsI.bind
  | (apply KeepsI.modify; intro _; exact ⟨rfl, rfl⟩)
  | intro _
  | dsimp only
  | split)

theorem voteBody_keeps (id id' : Nat) (hne : id' ≠ id) (ob : Batch) (isAck : Bool) (task i : Nat) (m : MA) :
    KeepsI id (voteBody id' ob isAck task i m) := by
  unfold voteBody
  dsimp only
  repeat (first
    | (with_reducible apply KeepsI.modify; intro s; exact set!_other _ _ _ _ hne)
    | keepsI_step)

theorem extentBody_keeps (id : Nat) (batch : Batch) (run : Option Nat) (k j : Nat) :
    KeepsI id (extentBody batch run k j) := by
  unfold extentBody
  repeat keepsI_step

/-- every acker chain that does not contain tally `id` leaves it (and the number of tallies) alone. -/
theorem ackers_keep (id : Nat) : ∀ fuel : Nat,
    (∀ (acker : Acker) (b : Batch) (a : Bool) (t : Nat), ¬ acker.mentions id →
      KeepsI id (ackerCall fuel acker b a t)) ∧
    (∀ (id' : Nat) (parent : Acker), id' ≠ id → ¬ parent.mentions id →
      KeepsI id (releaseLoop fuel id' parent)) ∧
    (∀ (parent : Acker) (batch : Batch) (a : Bool) (t i : Nat), ¬ parent.mentions id →
      KeepsI id (voteLoop fuel parent batch a t i)) := by
  intro fuel
  induction fuel with
  | zero =>
    refine ⟨?_, ?_, ?_⟩
    · intro acker b a t _; rw [ackerCall]; exact KeepsI.throw _
    · intro id' parent _ _; rw [releaseLoop]; exact KeepsI.throw _
    · intro parent batch a t i _; rw [voteLoop]; exact KeepsI.throw _
  | succ fuel ih =>
    obtain ⟨ihA, ihR, ihV⟩ := ih
    refine ⟨?_, ?_, ?_⟩
    · intro acker b a t hn
      cases acker with
      | worker =>
        rw [ackerCall]
        cases a
        · exact KeepsM.toI (fun ms => workerNack_keeps ms b t) id
        · exact KeepsM.toI (fun ms => workerAck_keeps ms b) id
      | run parent => rw [ackerCall_run]; exact ihV parent b a t 0 hn
      | multi id' parent =>
        have hne : id' ≠ id := fun e => hn (Or.inl e)
        have hnp : ¬ parent.mentions id := fun e => hn (Or.inr e)
        rw [ackerCall_multi]
        apply KeepsI.get_bind; intro s0
        apply KeepsI.bind (KeepsI.forIn _ (voteBody_keeps id id' hne _ _ _) _ _)
        intro m
        apply KeepsI.bind
        · apply KeepsI.modify; intro s; exact set!_other _ _ _ _ hne
        · intro _; exact ihR id' parent hne hnp
    · intro id' parent hne hnp
      rw [releaseLoop]
      apply KeepsI.get_bind; intro s0
      dsimp only
      repeat (first
        | with_reducible exact ihA _ _ _ _ hnp
        | with_reducible exact ihR _ _ hne hnp
        | (with_reducible apply KeepsI.modify; intro s; exact set!_other _ _ _ _ hne)
        | keepsI_step)
    · intro parent batch a t i hnp
      by_cases hi : i < batch.recs.length
      · rw [voteLoop_unfold fuel parent batch a t i hi]
        apply KeepsI.bind (KeepsI.liftR _)
        intro run
        apply KeepsI.bind (KeepsI.forIn _ (extentBody_keeps id _ _) _ _)
        intro j
        repeat (first
          | with_reducible exact ihA _ _ _ _ hnp
          | with_reducible exact ihV _ _ _ _ _ hnp
          | keepsI_step)
      · rw [voteLoop]; simp only [hi, if_false]; exact KeepsI.pure _

/-- so the frame hypothesis of the simulation lemmas holds for every parent chain without `id`
(the engine numbers a new fan-out's tally `mas.size`, so chains never repeat an id). -/
theorem parentFrame_of_not_mentions (parent : Acker) (id : Nat) (h : ¬ parent.mentions id) :
    ParentFrame parent id := by
  intro fuel b a t s s' hc
  have := (ackers_keep id fuel).1 parent b a t h s
  rw [hc] at this
  exact this



/-- the simulation lemma with the frame hypothesis discharged: for every parent chain in which
tally `id` does not occur. -/
theorem ackerCall_multi_sim' (parent : Acker) (id : Nat) (hn : ¬ parent.mentions id) (fuel : Nat)
    (b : Batch) (isAck : Bool) (task : Nat) (s : PS) (hid : id < s.mas.size) (items : List VItem)
    (hitems : itemsOf (s.mas[id]!) b.original = some items)
    (hlen : b.original.pos.length ≤ b.original.recs.length ∧ b.original.pos.length ≤ b.original.st.length)
    (hfuel : (s.mas[id]!).positions.length - (s.mas[id]!).released < fuel) :
    exec (ackerCall (fuel+1) (.multi id parent) b isAck task) s =
      exec (replay parent id (maVote (s.mas[id]!) isAck task items) fuel
              (maRelease (maVote (s.mas[id]!) isAck task items)).2)
        { s with mas := s.mas.set! id (maVote (s.mas[id]!) isAck task items) } :=
  ackerCall_multi_sim parent id (parentFrame_of_not_mentions parent id hn) fuel b isAck task s hid items
    hitems hlen hfuel

/-- the chains the engine builds for a first-level fan-out satisfy the hypothesis. -/
example : ¬ (Acker.run .worker).mentions 0 := by simp [Acker.mentions]
example : ¬ (Acker.run (.multi 0 (.run .worker))).mentions 1 := by simp [Acker.mentions]

end Conduit.Funnel
