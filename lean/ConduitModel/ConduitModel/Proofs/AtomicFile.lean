import ConduitModel.Model.AtomicFile

/-!
Soundness of the abstract interpretation of `atomicfile.WriteFile`'s operation list: if the
decidable check `aSafe` passes, no crash state has a torn or foreign target.
-/
namespace Conduit.AtomicFile

/-- concretisation: what an abstract state says about a concrete one (writing `new` over `old`). -/
def Gamma (old : Option Content) (new : Content) (a : AS) (s : FSt) : Prop :=
  (match a.tgt with
    | .old => s.target = old
    | .new => s.target = some new
    | .bad => True) ∧
  (match a.tmp with
    | .absent => s.tmp = none
    | .empty => s.tmp = some []
    | .torn => ∃ k, s.tmp = some (new.take k)
    | .full => s.tmp = some new
    | .junk => True)

/-- the target holds the complete old or the complete new content. -/
def TargetIntact (old : Option Content) (new : Content) (s : FSt) : Prop :=
  s.target = old ∨ s.target = some new

theorem gamma_intact {old : Option Content} {new : Content} {a : AS} {s : FSt}
    (h : Gamma old new a s) (hb : (a.tgt != .bad) = true) : TargetIntact old new s := by
  obtain ⟨ht, -⟩ := h
  cases hta : a.tgt with
  | old => rw [hta] at ht; exact Or.inl ht
  | new => rw [hta] at ht; exact Or.inr ht
  | bad => rw [hta] at hb; simp at hb

theorem gamma_apply {old : Option Content} {new : Content} {a : AS} {s : FSt}
    (h : Gamma old new a s) (op : Op) : Gamma old new (aApply a op) (apply new s op) := by
  obtain ⟨ht, hm⟩ := h
  obtain ⟨tgt, tmp⟩ := a
  obtain ⟨starget, stmp⟩ := s
  cases op <;> cases tmp <;> simp_all [Gamma, aApply, apply] <;>
    (try (cases stmp <;> simp_all))

theorem during_nonwrite {new : Content} {s s' : FSt} {op : Op} (hne : op ≠ .write)
    (hd : during new s op s') : s' = s ∨ s' = apply new s op := by
  cases op <;> first | exact absurd rfl hne | exact hd

theorem aDuring_nonwrite (a : AS) {op : Op} (hne : op ≠ .write) : aDuring a op = [a, aApply a op] := by
  cases op <;> first | exact absurd rfl hne | rfl

theorem gamma_during {old : Option Content} {new : Content} {a : AS} {s s' : FSt}
    (h : Gamma old new a s) (op : Op) (hd : during new s op s') :
    ∃ a' ∈ aDuring a op, Gamma old new a' s' := by
  by_cases hw : op = .write
  · subst hw
    obtain ⟨htg, k, hk⟩ := hd
    refine ⟨{ a with tmp := tornOf a.tmp }, by simp [aDuring], ?_⟩
    obtain ⟨ht, hm⟩ := h
    obtain ⟨tgt, tmp⟩ := a
    refine ⟨by simpa [htg] using ht, ?_⟩
    cases tmp <;> simp_all [tornOf]
    exact ⟨k, rfl⟩
  · rw [aDuring_nonwrite a hw]
    rcases during_nonwrite hw hd with rfl | rfl
    · exact ⟨a, by simp, h⟩
    · exact ⟨aApply a op, by simp, gamma_apply h op⟩

/-- if the abstract check passes, every crash state has an intact target. -/
theorem aSafe_sound {old : Option Content} {new : Content} : ∀ (ops : List Op) (a : AS) (s s' : FSt),
    aSafe a ops = true → Gamma old new a s → CrashState new s ops s' → TargetIntact old new s' := by
  intro ops
  induction ops with
  | nil =>
    intro a s s' hs hg hc
    simp only [CrashState] at hc
    subst hc
    exact gamma_intact hg (by simpa [aSafe] using hs)
  | cons op rest ih =>
    intro a s s' hs hg hc
    simp only [aSafe, Bool.and_eq_true, List.all_eq_true] at hs
    obtain ⟨⟨-, hd⟩, hr⟩ := hs
    rcases hc with hc | hc
    · obtain ⟨a', ha', hg'⟩ := gamma_during hg op hc
      exact gamma_intact hg' (hd a' ha')
    · exact ih _ _ _ hr (gamma_apply hg op) hc

theorem gamma_runOps {old : Option Content} {new : Content} : ∀ (ops : List Op) (a : AS) (s : FSt),
    Gamma old new a s → Gamma old new (ops.foldl aApply a) (runOps new s ops) := by
  intro ops
  induction ops with
  | nil => intro a s h; exact h
  | cons op rest ih => intro a s h; exact ih _ _ (gamma_apply h op)

/-- if the target is abstractly `old` before each operation, then it holds the old content after
any strict prefix of the operations (i.e. whenever an operation fails). -/
theorem aOldBefore_sound {old : Option Content} {new : Content} : ∀ (ops : List Op) (a : AS) (s : FSt) (k : Nat),
    aOldBefore a ops = true → Gamma old new a s → k < ops.length →
    (runOps new s (ops.take k)).target = old := by
  intro ops
  induction ops with
  | nil => intro a s k _ _ hk; simp at hk
  | cons op rest ih =>
    intro a s k hb hg hk
    simp only [aOldBefore, Bool.and_eq_true, beq_iff_eq] at hb
    cases k with
    | zero =>
      simp only [List.take_zero, runOps, List.foldl_nil]
      have := hg.1; rw [hb.1] at this; exact this
    | succ k =>
      simp only [List.take_succ_cons, runOps, List.foldl_cons]
      exact ih _ _ k hb.2 (gamma_apply hg op) (by simpa using hk)

theorem gamma_init (old : Option Content) (new : Content) :
    Gamma old new aInit { target := old, tmp := none } := by
  simp [Gamma, aInit]

end Conduit.AtomicFile
