import ConduitModel.Model.Base64

/-! Helper lemmas: base64 quantum arithmetic and the encode/decode round trip. -/
namespace Conduit.Codec

set_option maxRecDepth 20000 in
theorem b64Val_b64Char_lt : ∀ j, j < 64 → b64Val (b64Char j) = some j := by decide

theorem b64Val_b64Char (i : Nat) : b64Val (b64Char i) = some (i % 64) := by
  have h := b64Val_b64Char_lt (i % 64) (Nat.mod_lt _ (by decide))
  simpa [b64Char, Nat.mod_mod] using h

set_option maxRecDepth 20000 in
theorem b64Char_ne_lt : ∀ j, j < 64 → b64Char j ≠ '=' ∧ b64Char j ≠ '\n' ∧ b64Char j ≠ '\r' := by decide

theorem b64Char_ne (i : Nat) : b64Char i ≠ '=' ∧ b64Char i ≠ '\n' ∧ b64Char i ≠ '\r' := by
  have h := b64Char_ne_lt (i % 64) (Nat.mod_lt _ (by decide))
  simpa [b64Char, Nat.mod_mod] using h

theorem u8_lt (a : UInt8) : a.toNat < 256 := a.toNat_lt

theorem u8_ofNat_eq (a : UInt8) (n : Nat) (h : n = a.toNat) : UInt8.ofNat n = a := by
  subst h; exact UInt8.ofNat_toNat

/-- the quantum decoder inverts the encoder. -/
theorem b64DecodeQ_encode : ∀ bs : Bytes, b64DecodeQ (b64Encode bs) = some bs
  | [] => rfl
  | [a] => by
    have ha := u8_lt a
    have e1 := (b64Char_ne (a.toNat / 4)).1
    simp only [b64Encode, b64DecodeQ, b64Val_b64Char, and_self, if_true]
    congr 2
    apply u8_ofNat_eq; omega
  | [a, b] => by
    have ha := u8_lt a; have hb := u8_lt b
    have e := (b64Char_ne (b.toNat % 16 * 4)).1
    simp only [b64Encode, b64DecodeQ, b64Val_b64Char, and_self, if_true, e, if_false]
    congr 2
    · apply u8_ofNat_eq; omega
    · congr 1; apply u8_ofNat_eq; omega
  | a :: b :: c :: t => by
    have ha := u8_lt a; have hb := u8_lt b; have hc := u8_lt c
    have e := (b64Char_ne (c.toNat % 64)).1
    have ih := b64DecodeQ_encode t
    simp only [b64Encode, b64DecodeQ, b64Val_b64Char, e, false_and, if_false, ih]
    congr 2
    · apply u8_ofNat_eq; omega
    · congr 1
      · apply u8_ofNat_eq; omega
      · congr 1; apply u8_ofNat_eq; omega

def notNl (c : Char) : Bool := !(c = '\n' || c = '\r')

theorem notNl_b64Char (i : Nat) : notNl (b64Char i) = true := by
  have := b64Char_ne i
  simp [notNl, this]

theorem b64Encode_all_notNl : ∀ bs : Bytes, (b64Encode bs).all notNl = true
  | [] => rfl
  | [a] => by simp [b64Encode, notNl_b64Char]; decide
  | [a, b] => by simp [b64Encode, notNl_b64Char]; decide
  | a :: b :: c :: t => by
    have ih := b64Encode_all_notNl t
    simp only [b64Encode, List.all_cons, notNl_b64Char, ih, Bool.and_self]

theorem b64Encode_no_newline (bs : Bytes) : ∀ c ∈ b64Encode bs, (!(c = '\n' || c = '\r')) = true := by
  have h := b64Encode_all_notNl bs
  rw [List.all_eq_true] at h
  exact h

theorem b64Decode_encode (bs : Bytes) : b64Decode (b64Encode bs) = some bs := by
  unfold b64Decode
  rw [List.filter_eq_self.mpr (b64Encode_no_newline bs)]
  exact b64DecodeQ_encode bs

end Conduit.Codec
