import ConduitModel.Proofs.BatchFlags

/-! `ActiveRecords()[k]` is the record at physical index `actList[k]`; converses "ok ⇒ in range". -/
namespace Conduit.Funnel

theorem actFrom_ge {o : Nat} {st : List Status} {p : Nat} (h : p ∈ actFrom o st) : o ≤ p := by
  induction st generalizing o with
  | nil => simp [actFrom] at h
  | cons s st ih =>
    unfold actFrom at h
    by_cases hs : s.flag = .filter
    · simp only [hs, if_true] at h; have := ih h; omega
    · simp only [hs, if_false, List.mem_cons] at h
      rcases h with rfl | h
      · omega
      · have := ih h; omega

theorem activeOf_getElem? (recs : List Rec) (st : List Status) (o k p : Nat) (hl : st.length = recs.length)
    (h : (actFrom o st)[k]? = some p) :
    ((recs.zip st).filterMap fun (r, s) => if s.flag = .filter then none else some r)[k]? = recs[p - o]? := by
  induction st generalizing recs o k with
  | nil => simp [actFrom] at h
  | cons s st ih =>
    cases recs with
    | nil => simp at hl
    | cons r recs =>
      unfold actFrom at h
      by_cases hs : s.flag = .filter
      · simp only [hs, if_true] at h
        have hge := actFrom_ge (List.mem_of_getElem? h)
        have := ih recs (o+1) k (by simpa using hl) h
        simp only [List.zip_cons_cons, List.filterMap_cons, hs, if_true]
        rw [this, show p - o = (p - (o+1)) + 1 by omega]
        simp
      · simp only [hs, if_false] at h
        simp only [List.zip_cons_cons, List.filterMap_cons, hs, if_false]
        cases k with
        | zero => simp at h; subst h; simp
        | succ k =>
          simp only [List.getElem?_cons_succ] at h ⊢
          have hge := actFrom_ge (List.mem_of_getElem? h)
          have := ih recs (o+1) k (by simpa using hl) h
          rw [this, show p - o = (p - (o+1)) + 1 by omega]
          simp

/-- the `k`-th active record is the record at the `k`-th unfiltered physical index. -/
theorem active_getElem? {h : Heap} {b : Batch} (hwf : b.WF h) {k p : Nat} (hk : (actList b.st)[k]? = some p) :
    b.active[k]? = b.recs[p]? := by
  unfold Batch.active
  by_cases h0 : b.filterCount = 0
  · simp only [h0, if_true]
    have h1 := actList_of_countFilter_zero (by have := hwf.2; omega : countFilter b.st = 0)
    rw [h1] at hk
    have := List.getElem?_eq_some_iff.mp hk
    obtain ⟨_, h2⟩ := this
    simp at h2; rw [h2]
  · simp only [h0, if_false]
    by_cases h2 : b.filterCount = b.recs.length
    · exfalso
      have h3 := length_actList b.st
      have h4 := (List.getElem?_eq_some_iff.mp hk).1
      have := hwf.2; have := hwf.1.st_len
      omega
    · simp only [h2, if_false]
      rw [actList_eq_actFrom] at hk
      simpa using activeOf_getElem? b.recs b.st 0 k p hwf.1.st_len hk

/-- `Batch.phys` is the `actList` lookup (for an index that is in range of the statuses). -/
theorem phys_iff {h : Heap} {b : Batch} (hwf : b.WF h) {i p : Nat} (hi : i < b.st.length) :
    b.phys i = .ok p ↔ (actList b.st)[i]? = some p := by
  constructor
  · intro hp; exact phys_eq_ok hwf.2 hp hi
  · intro hp
    have hlt := (List.getElem?_eq_some_iff.mp hp).1
    rw [phys_ok hwf.2 hlt]
    congr 1
    exact (List.getElem?_eq_some_iff.mp hp).2

/-! ### a successful flag mutator had its indices in range -/

theorem setFlagAt_inv {st st' : List Status} {p : Nat} {f : Flag} (h : setFlagAt st p f = .ok st') :
    p < st.length ∧ st'.length = st.length := by
  unfold setFlagAt idx at h
  cases hp : st[p]? with
  | none => simp [hp, panic, bind, Except.bind] at h
  | some s =>
    simp only [hp, bind, Except.bind, pure, Except.pure, Except.ok.injEq] at h
    subst h
    exact ⟨(List.getElem?_eq_some_iff.mp hp).1, by simp⟩

theorem phys_inrange {h : Heap} {b : Batch} (hwf : b.WF h) {k p : Nat} (hp : b.phys k = .ok p) (hlt : p < b.st.length) :
    k < b.nAct := by
  unfold Batch.phys Batch.activeIdx at hp
  by_cases h0 : b.filterCount = 0
  · simp only [h0, if_true, pure, Except.pure, Except.ok.injEq] at hp
    have := b.nAct_eq; have := hwf.2; omega
  · simp only [h0, if_false] at hp
    exact (List.getElem?_eq_some_iff.mp (idx_eq_ok_iff.mp hp)).1

theorem sfStep_inv {h : Heap} {b : Batch} (hwf : b.WF h) {f : Flag} {st st' : List Status} {k : Nat}
    (hl : st.length = b.st.length) (hs : sfStep b f st k = .ok st') : k < b.nAct ∧ st'.length = b.st.length := by
  unfold sfStep at hs
  cases hp : b.phys k with
  | error e => simp [hp, bind, Except.bind] at hs
  | ok p =>
    simp only [hp, bind, Except.bind] at hs
    obtain ⟨h1, h2⟩ := setFlagAt_inv hs
    exact ⟨phys_inrange hwf hp (by omega), by omega⟩

theorem foldlM_sfStep_inv {h : Heap} {b : Batch} (hwf : b.WF h) {f : Flag} (ks : List Nat) {st st' : List Status}
    (hl : st.length = b.st.length) (hs : ks.foldlM (sfStep b f) st = .ok st') : ∀ k ∈ ks, k < b.nAct := by
  induction ks generalizing st with
  | nil => intro k hk; simp at hk
  | cons k ks ih =>
    simp only [List.foldlM_cons] at hs
    cases h1 : sfStep b f st k with
    | error e => simp [h1, bind, Except.bind] at hs
    | ok st1 =>
      simp only [h1, bind, Except.bind] at hs
      obtain ⟨g1, g2⟩ := sfStep_inv hwf hl h1
      intro k' hk'
      rcases List.mem_cons.mp hk' with rfl | hk'
      · exact g1
      · exact ih g2 hs k' hk'

theorem setFlag1_inrange {h : Heap} {b b' : Batch} (hwf : b.WF h) {f : Flag} {i : Nat}
    (hr : b.setFlag1 f i = .ok b') : i < b.nAct := by
  unfold Batch.setFlag1 at hr
  cases hp : b.phys i with
  | error e => simp [hp, bind, Except.bind] at hr
  | ok p =>
    simp only [hp, bind, Except.bind] at hr
    cases hs : setFlagAt b.st p f with
    | error e => simp [hs] at hr
    | ok st' => exact phys_inrange hwf hp (setFlagAt_inv hs).1

theorem setFlagRange_inrange {h : Heap} {b b' : Batch} (hwf : b.WF h) {f : Flag} {i j : Nat}
    (hr : b.setFlagRange f i j = .ok b') : i < j ∧ j ≤ b.nAct := by
  rw [setFlagRange_eq_model] at hr
  unfold Batch.setFlagRangeP at hr
  by_cases hij : i ≥ j
  · simp [hij, panic] at hr
  · simp only [hij, if_false] at hr
    cases hs : (List.range' i (j - i)).foldlM (sfStep b f) b.st with
    | error e => simp [hs, bind, Except.bind] at hr
    | ok st' =>
      have := foldlM_sfStep_inv hwf _ rfl hs (j - 1) (by simp [List.mem_range'_1]; omega)
      omega

theorem retry_inrange {h : Heap} {b b' : Batch} (hwf : b.WF h) {i j : Nat} (hr : b.retry i j = .ok b') :
    i < j ∧ j ≤ b.nAct := by
  unfold Batch.retry at hr
  cases hs : b.setFlagRange .retry i j with
  | error e => simp [hs, bind, Except.bind] at hr
  | ok b1 => exact setFlagRange_inrange hwf hs

theorem filter1_inrange {h : Heap} {b b' : Batch} (hwf : b.WF h) {i : Nat} (hr : b.filter1 i = .ok b') : i < b.nAct := by
  unfold Batch.filter1 at hr
  cases hs : b.setFlag1 .filter i with
  | error e => simp [hs, bind, Except.bind] at hr
  | ok b1 => exact setFlag1_inrange hwf hs

theorem filterRange_inrange {h : Heap} {b b' : Batch} (hwf : b.WF h) {i j : Nat} (hr : b.filterRange i j = .ok b') :
    i < j ∧ j ≤ b.nAct := by
  unfold Batch.filterRange at hr
  cases hs : b.setFlagRange .filter i j with
  | error e => simp [hs, bind, Except.bind] at hr
  | ok b1 => exact setFlagRange_inrange hwf hs

end Conduit.Funnel
