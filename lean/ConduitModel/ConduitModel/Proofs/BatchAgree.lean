import ConduitModel.Proofs.BatchFlags

/-!
# Agreement of the monadic task functions with their pure restatements

`Model/Funnel.lean` writes `ProcessorTask.Do` / `DestinationTask.Do` in the monad
`M = ExceptT Stop (StateM PS)` (event log, plugin scripts, the split-run heap);
`Spec/BatchWF.lean` restates them as pure functions `procDoP` / `destDoP` (and `procMarkP`).
Here: running the monadic function from a state `s` (`x.run.run s`, i.e.
`StateT.run (ExceptT.run x) s : Except Stop α × PS`) logs the call, pops the scripted reply
(`popReplyP`), and returns exactly the value of the pure function; the only other state change is
the heap, which ends as the heap computed by the pure function.

* `popReply_run`, `destDo_eq_model`, `procMark_eq_model`, `procDo_eq_model`, `procDo_ok`.
* `Agree.Sim m f`: the computation `m : M α` only touches the heap and computes `f`.

Core-only.
-/
namespace Conduit.Funnel

/-- pure `popReply` -/
def popReplyP (s : PS) (task : Nat) : Option Reply × PS :=
  match s.scripts.find? (·.1 == task) with
  | some (_, r :: rest) => (some r, { s with scripts := s.scripts.map fun (t, l) => if t == task then (t, rest) else (t, l) })
  | _ => (none, s)
/-- the processor output carried by a reply (anything else reads as no output) -/
def procOut : Option Reply → List PR | some (.proc out) => out | _ => []
/-- the destination reply (write error, ack responses); anything else is an exhausted script -/
def destReply : Option Reply → Option Err × List AckResp | some (.dest w a) => (w, a) | _ => (some scriptExhausted, [])

namespace Agree

/-! ## running `M` -/

theorem ok_bind {α β} (a : α) (f : α → R β) : (Except.ok a >>= f) = f a := rfl
theorem error_bind {α β} (e : Stop) (f : α → R β) : ((Except.error e : R α) >>= f) = Except.error e := rfl
theorem map_ok {α β} (f : α → β) (a : α) : Except.map f (Except.ok a : R α) = Except.ok (f a) := rfl
theorem map_error {α β} (f : α → β) (e : Stop) : Except.map f (Except.error e : R α) = Except.error e := rfl
theorem run_pure {α} (a : α) (s : PS) : (pure a : M α).run.run s = (.ok a, s) := rfl
theorem run_throw {α} (e : Stop) (s : PS) : (throw e : M α).run.run s = (.error e, s) := rfl
theorem run_liftR {α} (r : R α) (s : PS) : (liftR r).run.run s = (r, s) := by
  cases r <;> rfl
theorem run_get (s : PS) : (get : M PS).run.run s = (.ok s, s) := rfl
theorem run_set (s' s : PS) : (set s' : M PUnit).run.run s = (.ok ⟨⟩, s') := rfl
theorem run_emit (e : Ev) (s : PS) : (emit e).run.run s = (.ok ⟨⟩, { s with log := s.log.push e }) := rfl
theorem run_bind {α β} (x : M α) (f : α → M β) (s : PS) :
    (x >>= f).run.run s = (match x.run.run s with
      | (.ok a, s') => (f a).run.run s'
      | (.error e, s') => (.error e, s')) := by
  show _ = _
  simp only [ExceptT.run_bind, StateT.run_bind]
  rcases h : x.run.run s with ⟨r, s'⟩
  cases r <;> simp <;> rfl

end Agree
open Agree

theorem popReply_run (task : Nat) (s : PS) :
    (popReply task).run.run s = (.ok (popReplyP s task).1, (popReplyP s task).2) := by
  unfold popReply popReplyP
  rw [run_bind, run_get]
  simp only
  generalize s.scripts.find? (·.1 == task) = o
  rcases o with _ | ⟨_, _ | ⟨r, rest⟩⟩ <;> rfl

theorem destDo_eq_model (task : Nat) (b : Batch) (info : Option (List (Rec × Option Err × Nat))) (s : PS) :
    (destDo task b info).run.run s =
      (let s0 : PS := { s with log := s.log.push (match info with | none => Ev.write task b.active | some i => Ev.dlqw task i) }
       let rp := popReplyP s0 task
       (destDoP b (destReply rp.1).1 (destReply rp.1).2, rp.2)) := by
  unfold destDo destDoP
  cases info <;>
  · simp only [run_bind, run_emit, popReply_run]
    generalize popReplyP _ task = rp
    obtain ⟨o, s1⟩ := rp
    rcases o with _ | ⟨_ | ⟨w, a⟩⟩
    all_goals simp only [destReply, run_bind, run_pure, run_throw]
    · rfl
    · rfl
    · cases w with
      | some e => simp only [run_bind, run_throw]; rfl
      | none =>
        simp only [run_bind, run_liftR]
        cases destAckLoop (List.map (fun x => x.pos) b.active) (List.map (fun x => x.pos) b.active).length b 0 a with
        | error e => rfl
        | ok x =>
          simp only []
          by_cases h : x.snd < (List.map (fun x => x.pos) b.active).length
          · simp only [h, if_true, run_bind, run_throw, ok_bind]; rfl
          · simp only [h, if_false, run_pure, ok_bind]; rfl

namespace Agree

/-! ## simulation of heap-only computations -/

def Sim {α} (m : M α) (f : Heap → R (Heap × α)) : Prop :=
  ∀ s : PS, ∃ hp : Heap, m.run.run s = ((f s.heap).map (·.2), { s with heap := hp }) ∧
    ∀ h' a, f s.heap = .ok (h', a) → hp = h'

theorem Sim.congr {α} {m : M α} {f f' : Heap → R (Heap × α)} (h : Sim m f) (hf : ∀ hp, f hp = f' hp) :
    Sim m f' := by
  have : f = f' := funext hf
  rw [← this]; exact h

theorem Sim.pure {α} (a : α) : Sim (pure a : M α) (fun h => .ok (h, a)) := by
  intro s
  exact ⟨s.heap, rfl, by intro h' a' he; cases he; rfl⟩

theorem Sim.throw {α} (e : Stop) : Sim (throw e : M α) (fun _ => .error e) := by
  intro s
  exact ⟨s.heap, rfl, by intro h' a' he; cases he⟩

theorem Sim.liftR {α} (r : R α) : Sim (liftR r) (fun h => r.map (h, ·)) := by
  intro s
  refine ⟨s.heap, ?_, ?_⟩
  · rw [run_liftR]; cases r <;> rfl
  · intro h' a' he
    cases r with
    | error e => cases he
    | ok a => cases he; rfl

theorem Sim.bind {α β} {m : M α} {f : Heap → R (Heap × α)} {g : α → M β} {k : α → Heap → R (Heap × β)}
    (hm : Sim m f) (hg : ∀ a, Sim (g a) (k a)) :
    Sim (m >>= g) (fun h => f h >>= fun ha => k ha.2 ha.1) := by
  intro s
  obtain ⟨hp, h1, h2⟩ := hm s
  rw [run_bind, h1]
  dsimp only
  cases hf : f s.heap with
  | error e =>
    refine ⟨hp, rfl, ?_⟩
    intro h' a' he; cases he
  | ok ha =>
    obtain ⟨h1', a⟩ := ha
    have := h2 h1' a hf
    subst this
    obtain ⟨hp2, h3, h4⟩ := hg a { s with heap := hp }
    refine ⟨hp2, ?_, ?_⟩
    · exact h3
    · intro h' a' he
      exact h4 h' a' he

/-- a `for` loop whose body only yields, against a `foldlM` on `(heap, state)` -/
theorem Sim.forIn {α β} (body : α → β → M (ForInStep β)) (step : Heap × β → α → R (Heap × β))
    (hbody : ∀ a b, Sim (body a b) (fun h => (step (h, b) a).map fun hb => (hb.1, ForInStep.yield hb.2)))
    (l : List α) (init : β) : Sim (forIn l init body) (fun h => l.foldlM step (h, init)) := by
  induction l generalizing init with
  | nil => exact Sim.pure init
  | cons a l ih =>
    rw [List.forIn_cons]
    refine (Sim.bind (hbody a init)
      (k := fun r h => match r with | .done b => .ok (h, b) | .yield b => l.foldlM step (h, b)) ?_).congr ?_
    · intro r
      cases r with
      | done b => exact Sim.pure b
      | yield b => exact ih b
    · intro h
      rw [List.foldlM_cons]
      cases step (h, init) a with
      | error e => rfl
      | ok hb => rfl

/-- the `SplitRecord` body: read the heap, run the pure operation, write the heap back -/
theorem Sim.heapOp {α β} (g : Heap → R (Heap × α)) (k : α → β) :
    Sim (do let s ← get
            let x ← Conduit.Funnel.liftR (g s.heap)
            set { s with heap := x.1 }
            Pure.pure (k x.2) : M β)
      (fun h => (g h).map fun hb => (hb.1, k hb.2)) := by
  intro s
  simp only [run_bind, run_get, run_liftR]
  cases hg : g s.heap with
  | error e => exact ⟨s.heap, rfl, by intro _ _ he; cases he⟩
  | ok ha =>
    obtain ⟨h, a⟩ := ha
    exact ⟨h, rfl, by intro _ _ he; cases he; rfl⟩

theorem Sim.liftR' {α β} (r : R α) (k : α → β) :
    Sim (do let a ← Conduit.Funnel.liftR r; Pure.pure (k a) : M β) (fun h => r.map fun a => (h, k a)) := by
  refine (Sim.bind (Sim.liftR r) (fun a => Sim.pure (k a))).congr ?_
  intro h; cases r <;> rfl

theorem map_pair_eq_bind {α} (h : Heap) (r : R α) :
    Except.map (fun x => (h, x)) r = (do let b ← r; pure (h, b)) := by cases r <;> rfl

theorem filterMap_congr' {α β} {f g : α → Option β} (hfg : ∀ x, f x = g x) (l : List α) :
    l.filterMap f = l.filterMap g := by
  have : f = g := funext hfg
  rw [this]

theorem procMark_sim (b : Batch) (from_ : Nat) (records : List PR) :
    Sim (procMark b from_ records) (fun h => procMarkP (h, b) from_ records) := by
  unfold procMark procMarkP
  cases records with
  | nil => exact Sim.pure b
  | cons r tl =>
    cases r with
    | single r0 =>
      refine (Sim.liftR _).congr ?_
      intro h
      dsimp only
      rw [map_pair_eq_bind, filterMap_congr' (g := _)]
      intro x; cases x <;> rfl
    | filter =>
      refine (Sim.liftR _).congr ?_
      intro h
      exact map_pair_eq_bind _ _
    | error e =>
      refine (Sim.liftR _).congr ?_
      intro h
      dsimp only
      rw [map_pair_eq_bind, filterMap_congr' (g := _)]
      intro x; cases x <;> rfl
    | nil =>
      refine (Sim.liftR _).congr ?_
      intro h
      exact map_pair_eq_bind _ _
    | multi m =>
      dsimp only
      generalize (PR.multi m :: tl) = records
      refine (Sim.bind (Sim.forIn _ (procMultiStep from_ records) ?_ _ _) (fun b => Sim.pure b)).congr ?_
      · intro i b
        unfold procMultiStep
        dsimp only
        cases hi : records[i]? with
        | none => exact Sim.pure _
        | some r =>
          cases r with
          | multi m =>
            simp only []
            generalize m.length = n
            rcases n with _ | _ | n <;> simp only []
            · refine (Sim.liftR' _ _).congr ?_
              intro h
              cases b.filter1 (from_ + i) <;> rfl
            · refine (Sim.liftR' _ _).congr ?_
              intro h
              cases b.setRecords (from_ + i) m <;> rfl
            · exact Sim.heapOp (fun h => Batch.splitRecord h b (from_ + i) m) ForInStep.yield
          | _ => exact Sim.pure _
      · intro h
        cases List.foldlM (procMultiStep from_ records) (h, b) (List.range records.length).reverse <;> rfl

/-- `ProcessorTask.Do` after the plugin call returned `out` (the tail of `procDo`, verbatim) -/
def procRest (b : Batch) (out : List PR) : M Batch := do
  let recsIn := b.active
  if out.length = 0 then throw (.err plainErr)
  if out.length > recsIn.length then throw (.err plainErr)
  for i in List.range out.length do
    match out[i]? with
    | some (.multi m) =>
      if m.length > 1 then
        let p ← liftR (b.phys i)
        let ps ← liftR (idx b.pos p "positions[i]")
        let run : Option Nat := match b.runs with
          | none => none
          | some rs => (rs[p]?).join
        if ps == none ∧ run == none then throw (.err (coded "pipeline.empty_source_position"))
    | _ => pure ()
  let out := if recsIn.length > out.length then out ++ List.replicate (recsIn.length - out.length) PR.nil else out
  let mut b := b
  let mut to := out.length
  for i in (List.range out.length).reverse do
    let boundary := i == 0 || !(sameType (out[i-1]?.getD .nil) (out[i]?.getD .nil))
    if boundary then
      b ← procMark b i ((out.take to).drop i)
      to := i
  pure b

theorem procDo_eq_rest (task : Nat) (b : Batch) :
    procDo task b = (do emit (.pcall task b.active); let o ← popReply task; procRest b (procOut o)) := by
  unfold procDo
  dsimp only
  congr 1; funext _
  congr 1; funext o
  rcases o with _ | ⟨out | ⟨w, a⟩⟩ <;> rfl

theorem Sim.ite {α} (c : Prop) [Decidable c] {m1 m2 : M α} {f1 f2 : Heap → R (Heap × α)}
    (h1 : Sim m1 f1) (h2 : Sim m2 f2) :
    Sim (if c then m1 else m2) (fun h => if c then f1 h else f2 h) := by
  by_cases hc : c
  · simp only [hc, if_true]; exact h1
  · simp only [hc, if_false]; exact h2

theorem throw_bind_M {α β} (e : Stop) (f : α → M β) : ((throw e : M α) >>= f) = throw e := rfl

def stepC (b : Batch) (out : List PR) (hu : Heap × PUnit) (i : Nat) : R (Heap × PUnit) :=
  (procCheckStep b out i).map fun _ => hu

def stepG (out : List PR) (s : Heap × Batch × Nat) (i : Nat) : R (Heap × Batch × Nat) :=
  (procGroupStep out ((s.1, s.2.1), s.2.2) i).map fun t => (t.1.1, t.1.2, t.2)

theorem foldlM_stepC (b : Batch) (out : List PR) (l : List Nat) (hu : Heap × PUnit) :
    l.foldlM (stepC b out) hu = (l.forM (procCheckStep b out)).map fun _ => hu := by
  induction l with
  | nil => rfl
  | cons i l ih =>
    rw [List.foldlM_cons]
    show _ = Except.map (fun _ => hu) (procCheckStep b out i >>= fun _ => l.forM (procCheckStep b out))
    unfold stepC
    cases procCheckStep b out i with
    | error e => rfl
    | ok u => exact ih

theorem foldlM_stepG (out : List PR) (l : List Nat) (h : Heap) (b : Batch) (to : Nat) :
    l.foldlM (stepG out) (h, b, to) =
      (l.foldlM (procGroupStep out) ((h, b), to)).map fun t => (t.1.1, t.1.2, t.2) := by
  induction l generalizing h b to with
  | nil => rfl
  | cons i l ih =>
    rw [List.foldlM_cons, List.foldlM_cons]
    unfold stepG
    cases procGroupStep out ((h, b), to) i with
    | error e => rfl
    | ok t => exact ih t.1.1 t.1.2 t.2

theorem ite_helper (c : Prop) [Decidable c] (h : Heap) (u : PUnit) (e : Stop) :
    (if c then Except.error e else Except.ok (h, ForInStep.yield PUnit.unit)) =
      Except.map (fun hb => (hb.1, ForInStep.yield hb.2))
        (Except.map (fun _ => (h, u)) (if c then throw e else pure () : R Unit)) := by
  by_cases hc : c
  · simp only [hc, if_true]; rfl
  · simp only [hc, if_false]; rfl

theorem procRest_sim (b : Batch) (out : List PR) : Sim (procRest b out) (fun h => procDoP h b out) := by
  unfold procRest procDoP
  dsimp only
  by_cases h0 : out.length = 0
  · simp only [h0, if_true, throw_bind_M]
    exact Sim.throw _
  simp only [h0, if_false]
  by_cases h1 : out.length > b.active.length
  · simp only [h1, if_true, throw_bind_M]
    exact Sim.throw _
  simp only [h1, if_false]
  generalize (if b.active.length > out.length then out ++ List.replicate (b.active.length - out.length) PR.nil
    else out) = out'
  refine (Sim.bind (Sim.forIn _ (stepC b out) ?_ _ _)
    (fun _ => Sim.bind (Sim.forIn _ (stepG out') ?_ _ _) (fun s => Sim.pure s.1))).congr ?_
  · intro i u
    unfold stepC procCheckStep
    cases hi : out[i]? with
    | none => exact Sim.pure _
    | some r =>
      cases r with
      | multi m =>
        simp only []
        by_cases hm : m.length > 1
        · simp only [hm, if_true]
          refine (Sim.bind (Sim.liftR _) (fun p => Sim.bind (Sim.liftR _) (fun ps =>
            Sim.ite _ (Sim.throw _) (Sim.pure _)))).congr ?_
          intro h
          cases b.phys i with
          | error e => rfl
          | ok p =>
            simp only [ok_bind, map_ok]
            cases idx b.pos p "positions[i]" with
            | error e => rfl
            | ok ps =>
              simp only [ok_bind, map_ok]
              exact ite_helper _ h u _
        · simp only [hm, if_false]
          exact Sim.pure _
      | _ => exact Sim.pure _
  · intro i bt
    unfold stepG procGroupStep
    obtain ⟨b0, to⟩ := bt
    dsimp only
    by_cases hb : (i == 0 || !sameType (out'[i - 1]?.getD PR.nil) (out'[i]?.getD PR.nil)) = true
    · simp only [hb, if_true]
      refine (Sim.bind (procMark_sim _ _ _) (fun b' => Sim.pure _)).congr ?_
      intro h
      cases procMarkP (h, b0) i (List.drop i (List.take to out')) <;> rfl
    · simp only [hb]
      exact Sim.pure _
  · intro h
    simp only [foldlM_stepC, foldlM_stepG]
    cases (List.range out.length).forM (procCheckStep b out) with
    | error e => rfl
    | ok u =>
      simp only [ok_bind, Except.map]
      cases List.foldlM (procGroupStep out') ((h, b), out'.length) (List.range out'.length).reverse <;> rfl

end Agree
open Agree

theorem procDo_eq_model (task : Nat) (b : Batch) (s : PS) :
    ∃ hp : Heap,
      (procDo task b).run.run s =
        (let s0 : PS := { s with log := s.log.push (.pcall task b.active) }
         let rp := popReplyP s0 task
         ((procDoP rp.2.heap b (procOut rp.1)).map (·.2), { rp.2 with heap := hp })) ∧
      (∀ (h' : Heap) (b' : Batch),
        (let s0 : PS := { s with log := s.log.push (.pcall task b.active) }
         procDoP (popReplyP s0 task).2.heap b (procOut (popReplyP s0 task).1)) = .ok (h', b') → hp = h') := by
  rw [procDo_eq_rest]
  simp only [run_bind, run_emit, popReply_run]
  exact procRest_sim b _ _

/-- `procMark` agrees with `procMarkP` (same form as `procDo_eq_model`) -/
theorem procMark_eq_model (b : Batch) (from_ : Nat) (records : List PR) (s : PS) :
    ∃ hp : Heap,
      (procMark b from_ records).run.run s =
        ((procMarkP (s.heap, b) from_ records).map (·.2), { s with heap := hp }) ∧
      (∀ (h' : Heap) (b' : Batch), procMarkP (s.heap, b) from_ records = .ok (h', b') → hp = h') :=
  procMark_sim b from_ records s

/-- the successful case of `procDo_eq_model`, in equational form -/
theorem procDo_ok (task : Nat) (b : Batch) (s : PS) (h' : Heap) (b' : Batch)
    (hP : procDoP (popReplyP { s with log := s.log.push (.pcall task b.active) } task).2.heap b
        (procOut (popReplyP { s with log := s.log.push (.pcall task b.active) } task).1) = .ok (h', b')) :
    (procDo task b).run.run s =
      (.ok b', { (popReplyP { s with log := s.log.push (.pcall task b.active) } task).2 with heap := h' }) := by
  obtain ⟨hp, h1, h2⟩ := procDo_eq_model task b s
  have := h2 h' b' hP
  subst this
  rw [h1]
  dsimp only
  rw [hP]
  rfl

end Conduit.Funnel
