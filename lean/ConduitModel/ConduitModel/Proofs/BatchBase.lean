import ConduitModel.Spec.BatchWF

/-!
Base lemmas for the batch bookkeeping proofs (C08 / C09): partial indexing, the active-index
map (`actList`, `rank`), `phys`, `active`, the flag setters.
-/
namespace Conduit.Funnel

/-! ### partial indexing -/

theorem idx_ok {α} {l : List α} {i : Nat} (w : String) (h : i < l.length) : idx l i w = .ok l[i] := by
  simp [idx, h, pure, Except.pure]

theorem idx_eq_ok_iff {α} {l : List α} {i : Nat} {w : String} {x : α} : idx l i w = .ok x ↔ l[i]? = some x := by
  unfold idx
  cases h : l[i]? <;> simp [pure, Except.pure, panic]

theorem setAt_ok {α} {l : List α} {i : Nat} (x : α) (w : String) (h : i < l.length) : setAt l i x w = .ok (l.set i x) := by
  simp [setAt, h, pure, Except.pure]

/-- generic `for x in l do s ← g s x` = `foldlM` (in the `pure (yield ·)` form the `do`
elaborator produces). -/
theorem forIn_yield_foldlM {α β} (l : List α) (g : β → α → R β) (init : β) :
    forIn l init (fun a s => do let s' ← g s a; pure (ForInStep.yield s')) = l.foldlM g init := by
  induction l generalizing init with
  | nil => rfl
  | cons a l ih =>
    simp only [List.forIn_cons, List.foldlM_cons, bind_assoc, pure_bind]
    congr; funext s'; exact ih s'

/-! ### notFilt / actList / rank -/

theorem notFilt_of_ge {st : List Status} {i : Nat} (h : st.length ≤ i) : notFilt st i = true := by
  simp [notFilt, h]

theorem notFilt_lt {st : List Status} {i : Nat} (h : i < st.length) : notFilt st i = (st[i].flag != Flag.filter) := by
  simp [notFilt, h, bne]

theorem notFilt_iff {st : List Status} {i : Nat} (h : i < st.length) : notFilt st i = true ↔ st[i].flag ≠ Flag.filter := by
  simp [notFilt_lt h]

theorem mem_actList {st : List Status} {p : Nat} : p ∈ actList st ↔ p < st.length ∧ notFilt st p = true := by
  simp [actList]

theorem actList_pairwise (st : List Status) : (actList st).Pairwise (· < ·) := by
  unfold actList
  exact List.Pairwise.filter _ List.pairwise_lt_range

/-- number of active records strictly below physical index `p` -/
def rank (st : List Status) (p : Nat) : Nat := ((List.range p).filter (notFilt st)).length

theorem range_split {p n : Nat} (hp : p < n) : List.range n = List.range p ++ [p] ++ List.range' (p+1) (n - (p+1)) := by
  rw [List.range_eq_range', List.range_eq_range']
  have h1 : n = p + (1 + (n - (p+1))) := by omega
  conv => lhs; rw [h1]
  rw [← List.range'_append_1, ← List.range'_append_1]
  simp [Nat.add_comm]

theorem actList_split {st : List Status} {p : Nat} (hp : p < st.length) :
    actList st = (List.range p).filter (notFilt st) ++ ((if notFilt st p then [p] else []) ++
      (List.range' (p+1) (st.length - (p+1))).filter (notFilt st)) := by
  unfold actList
  rw [range_split hp]
  by_cases h : notFilt st p = true <;> simp [List.filter_append, h]

theorem actList_rank {st : List Status} {p : Nat} (hp : p < st.length) (hn : notFilt st p = true) :
    (actList st)[rank st p]? = some p := by
  rw [actList_split hp]
  simp [rank, hn]

theorem rank_lt_of_lt {st : List Status} {p q : Nat} (hpq : p < q) (hn : notFilt st p = true) : rank st p < rank st q := by
  unfold rank
  rw [range_split hpq]
  simp [List.filter_append, hn]

theorem rank_mono {st : List Status} {p q : Nat} (hpq : p ≤ q) : rank st p ≤ rank st q := by
  unfold rank
  obtain ⟨d, rfl⟩ := Nat.exists_eq_add_of_le hpq
  rw [List.range_eq_range', List.range_eq_range', ← List.range'_append_1]
  simp [List.filter_append]

/-- the `k`-th active record is at physical index `p` iff `p` is an unfiltered record with
exactly `k` unfiltered records before it. -/
theorem actList_getElem?_iff {st : List Status} {k p : Nat} :
    (actList st)[k]? = some p ↔ p < st.length ∧ notFilt st p = true ∧ rank st p = k := by
  constructor
  · intro h
    have hm : p ∈ actList st := List.mem_of_getElem? h
    obtain ⟨hp, hn⟩ := mem_actList.mp hm
    refine ⟨hp, hn, ?_⟩
    have h2 := actList_rank hp hn
    obtain ⟨hk, hk'⟩ := List.getElem?_eq_some_iff.mp h
    obtain ⟨hr, hr'⟩ := List.getElem?_eq_some_iff.mp h2
    have hpw := List.pairwise_iff_getElem.mp (actList_pairwise st)
    rcases Nat.lt_trichotomy (rank st p) k with hlt | heq | hgt
    · have := hpw _ _ hr hk hlt; omega
    · exact heq
    · have := hpw _ _ hk hr hgt; omega
  · rintro ⟨hp, hn, rfl⟩
    exact actList_rank hp hn

theorem rank_congr {st st' : List Status} {p : Nat} (h : ∀ q : Nat, q < p → notFilt st' q = notFilt st q) :
    rank st' p = rank st p := by
  unfold rank
  congr 1
  apply List.filter_congr
  intro q hq
  exact h q (by simpa using hq)

/-- flags agreeing up to and including `p` keep the active index of `p`. -/
theorem actList_getElem?_agree {st st' : List Status} {k p : Nat} (hl : st.length ≤ st'.length)
    (h : ∀ q : Nat, q ≤ p → notFilt st' q = notFilt st q) (hk : (actList st)[k]? = some p) :
    (actList st')[k]? = some p := by
  obtain ⟨hp, hn, hr⟩ := actList_getElem?_iff.mp hk
  exact actList_getElem?_iff.mpr ⟨by omega, by rw [h p (Nat.le_refl _)]; exact hn,
    by rw [rank_congr (fun q hq => h q (by omega))]; exact hr⟩

def actFrom : Nat → List Status → List Nat
  | _, [] => []
  | k, s :: st => if s.flag = .filter then actFrom (k+1) st else k :: actFrom (k+1) st

theorem actFrom_eq (st pre : List Status) :
    (List.range' pre.length st.length).filter (notFilt (pre ++ st)) = actFrom pre.length st := by
  induction st generalizing pre with
  | nil => simp [actFrom]
  | cons s st ih =>
    have := ih (pre ++ [s])
    simp only [List.length_append, List.length_cons, List.length_nil, List.append_assoc, List.cons_append, List.nil_append, Nat.zero_add] at this
    simp only [List.length_cons, List.range'_succ, List.filter_cons, actFrom, this]
    have : notFilt (pre ++ s :: st) pre.length = (s.flag != Flag.filter) := by
      simp [notFilt, bne]
    rw [this]
    by_cases h : s.flag = .filter <;> simp [h]

theorem actList_eq_actFrom (st : List Status) : actList st = actFrom 0 st := by
  have := actFrom_eq st []
  simpa [actList, List.range_eq_range'] using this

theorem length_actFrom (k : Nat) (st : List Status) : (actFrom k st).length + countFilter st = st.length := by
  induction st generalizing k with
  | nil => simp [actFrom, countFilter]
  | cons s st ih =>
    have := ih (k+1)
    unfold countFilter at this ⊢
    by_cases h : s.flag = .filter <;> simp [actFrom, h] <;> omega

theorem length_actList (st : List Status) : (actList st).length + countFilter st = st.length := by
  rw [actList_eq_actFrom]; exact length_actFrom 0 st

theorem actList_lt {st : List Status} {k : Nat} (hk : k < (actList st).length) : (actList st)[k] < st.length :=
  (mem_actList.mp (List.getElem_mem hk)).1

theorem actList_notFilt {st : List Status} {k : Nat} (hk : k < (actList st).length) :
    notFilt st (actList st)[k] = true :=
  (mem_actList.mp (List.getElem_mem hk)).2

theorem actList_flag {st : List Status} {k : Nat} (hk : k < (actList st).length) :
    (st[(actList st)[k]]'(actList_lt hk)).flag ≠ Flag.filter :=
  (notFilt_iff (actList_lt hk)).mp (actList_notFilt hk)

theorem actList_ge (st : List Status) {k : Nat} (hk : k < (actList st).length) : k ≤ (actList st)[k] := by
  have := actList_getElem?_iff.mp (List.getElem?_eq_getElem hk)
  have h2 : rank st (actList st)[k] ≤ (actList st)[k] := by
    unfold rank
    calc _ ≤ (List.range (actList st)[k]).length := List.length_filter_le _ _
      _ = _ := by simp
  omega

theorem actList_of_countFilter_zero {st : List Status} (h : countFilter st = 0) : actList st = List.range st.length := by
  unfold actList
  rw [List.filter_eq_self]
  intro a ha
  have ha : a < st.length := by simpa using ha
  rw [notFilt_iff ha]
  intro hf
  unfold countFilter at h
  have : st[a] ∈ st.filter (fun s => decide (s.flag = Flag.filter)) := by
    simp [List.mem_filter, hf]
  rw [List.length_eq_zero_iff.mp h] at this
  simp at this

/-! ### `phys` and `active` -/

theorem Batch.nAct_eq (b : Batch) : b.nAct + countFilter b.st = b.st.length := length_actList b.st

theorem phys_ok {b : Batch} (hfc : b.filterCount = countFilter b.st) {i : Nat} (hi : i < b.nAct) :
    b.phys i = .ok ((actList b.st)[i]'hi) := by
  unfold Batch.phys Batch.activeIdx
  by_cases h0 : b.filterCount = 0
  · simp only [h0, if_true]
    have h1 := actList_of_countFilter_zero (by omega : countFilter b.st = 0)
    simp [h1, pure, Except.pure]
  · simp only [h0, if_false]
    exact idx_ok _ hi

theorem phys_eq_ok {b : Batch} (hfc : b.filterCount = countFilter b.st) {i p : Nat} (h : b.phys i = .ok p)
    (hi : i < b.st.length) : (actList b.st)[i]? = some p := by
  unfold Batch.phys Batch.activeIdx at h
  by_cases h0 : b.filterCount = 0
  · simp only [h0, if_true, pure, Except.pure, Except.ok.injEq] at h
    have h1 := actList_of_countFilter_zero (by omega : countFilter b.st = 0)
    subst h; simp [h1, hi]
  · simp only [h0, if_false] at h
    exact idx_eq_ok_iff.mp h

theorem active_filterMap_length (recs : List Rec) (st : List Status) (h : st.length = recs.length) :
    ((recs.zip st).filterMap fun (r, s) => if s.flag = .filter then none else some r).length + countFilter st = st.length := by
  induction recs generalizing st with
  | nil => cases st <;> simp_all [countFilter]
  | cons r recs ih =>
    cases st with
    | nil => simp at h
    | cons s st =>
      have := ih st (by simpa using h)
      unfold countFilter at this ⊢
      by_cases hs : s.flag = .filter <;> simp [hs] at this ⊢ <;> omega

/-- `len(b.ActiveRecords())` is the number of unfiltered flags. -/
theorem active_length {b : Batch} (hl : b.st.length = b.recs.length) (hfc : b.filterCount = countFilter b.st) :
    b.active.length = b.nAct := by
  have h1 := b.nAct_eq
  unfold Batch.active
  by_cases h0 : b.filterCount = 0
  · simp only [h0, if_true]; omega
  · simp only [h0, if_false]
    by_cases h2 : b.filterCount = b.recs.length
    · simp only [h2, if_true, List.length_nil]; omega
    · simp only [h2, if_false]
      exact Nat.add_right_cancel ((active_filterMap_length b.recs b.st hl).trans h1.symm)

/-! ### flag setters -/

theorem setFlagAt_ok {st : List Status} {p : Nat} (f : Flag) (hp : p < st.length) :
    setFlagAt st p f = .ok (st.modify p (setFlagP f)) := by
  unfold setFlagAt
  rw [idx_ok _ hp]
  simp only [bind, Except.bind, pure, Except.pure, Except.ok.injEq]
  apply List.ext_getElem?
  intro j
  rw [List.getElem?_set, List.getElem?_modify]
  by_cases hj : p = j
  · subst hj; simp [hp, setFlagP]
  · simp [hj]

theorem countFilter_cons (s : Status) (st : List Status) :
    countFilter (s :: st) = (if s.flag = .filter then 1 else 0) + countFilter st := by
  unfold countFilter
  by_cases h : s.flag = .filter <;> simp [h] <;> omega

theorem countFilter_modify {st : List Status} {p : Nat} (g : Status → Status) (hp : p < st.length) :
    countFilter (st.modify p g) + (if st[p].flag = .filter then 1 else 0)
      = countFilter st + (if (g st[p]).flag = .filter then 1 else 0) := by
  induction st generalizing p with
  | nil => simp at hp
  | cons s st ih =>
    cases p with
    | zero => simp only [List.modify_zero_cons, countFilter_cons, List.getElem_cons_zero]; omega
    | succ p =>
      have := ih (p := p) (by simpa using hp)
      simp only [List.modify_succ_cons, countFilter_cons, List.getElem_cons_succ]; omega

theorem notFilt_modify {st : List Status} {p : Nat} (g : Status → Status) (q : Nat) :
    notFilt (st.modify p g) q = if p = q ∧ q < st.length then ((g (st[q]?.getD {})).flag != Flag.filter) else notFilt st q := by
  unfold notFilt
  rw [List.getElem?_modify]
  by_cases h : p = q
  · subst h
    by_cases hq : p < st.length
    · simp [hq, bne]
    · simp [hq]
  · simp [h]

/-- set flag `f` at every physical index of `ps` -/
def setFlags (f : Flag) (ps : List Nat) (st : List Status) : List Status :=
  ps.foldl (fun st p => st.modify p (setFlagP f)) st

@[simp] theorem length_setFlags (f : Flag) (ps : List Nat) (st : List Status) : (setFlags f ps st).length = st.length := by
  induction ps generalizing st with
  | nil => rfl
  | cons p ps ih => simp [setFlags, List.foldl_cons] at ih ⊢; rw [ih]; simp

theorem getElem?_setFlags (f : Flag) (ps : List Nat) (st : List Status) (q : Nat) :
    (setFlags f ps st)[q]? = if q ∈ ps then st[q]?.map (setFlagP f) else st[q]? := by
  induction ps generalizing st with
  | nil => simp [setFlags]
  | cons p ps ih =>
    have := ih (st.modify p (setFlagP f))
    simp only [setFlags, List.foldl_cons] at this ⊢
    rw [this, List.getElem?_modify]
    by_cases h2 : p = q
    · subst h2
      by_cases h1 : p ∈ ps
      · simp only [h1, if_true, List.mem_cons, or_true]
        cases st[p]? <;> simp [setFlagP]
      · simp [h1]
    · have h3 : ¬ q = p := fun h => h2 h.symm
      simp [h2, h3]


theorem countFilter_setFlags (f : Flag) (ps : List Nat) (st : List Status) (hnd : ps.Nodup)
    (hps : ∀ p ∈ ps, ∃ s, st[p]? = some s ∧ s.flag ≠ .filter) :
    countFilter (setFlags f ps st) = countFilter st + (if f = .filter then ps.length else 0) := by
  induction ps generalizing st with
  | nil => simp [setFlags]
  | cons p ps ih =>
    obtain ⟨s, hs, hsf⟩ := hps p (by simp)
    obtain ⟨hp, rfl⟩ := List.getElem?_eq_some_iff.mp hs
    have hnd' := List.nodup_cons.mp hnd
    have := ih (st.modify p (setFlagP f)) hnd'.2 (by
      intro p' hp'
      obtain ⟨s', hs', hsf'⟩ := hps p' (by simp [hp'])
      have hne : p ≠ p' := fun h => hnd'.1 (h ▸ hp')
      exact ⟨s', by rw [List.getElem?_modify_ne _ _ hne]; exact hs', hsf'⟩)
    have h2 := countFilter_modify (setFlagP f) hp
    simp only [setFlags, List.foldl_cons] at this ⊢
    rw [this]
    simp only [hsf, if_false, setFlagP] at h2
    by_cases hf : f = .filter <;> simp [hf] at h2 ⊢ <;> omega

theorem notFilt_setFlags (f : Flag) (ps : List Nat) (st : List Status) (q : Nat) :
    notFilt (setFlags f ps st) q = if q ∈ ps ∧ q < st.length then (f != Flag.filter) else notFilt st q := by
  unfold notFilt
  rw [getElem?_setFlags]
  by_cases h : q ∈ ps
  · by_cases hq : q < st.length
    · simp [h, hq, setFlagP, bne]
    · simp [h, hq]
  · simp [h]

theorem foldlM_sfStep {b : Batch} (hfc : b.filterCount = countFilter b.st) (f : Flag) (ks : List Nat)
    (hks : ∀ k ∈ ks, k < b.nAct) (st : List Status) (hl : st.length = b.st.length) :
    ks.foldlM (sfStep b f) st = .ok (setFlags f (ks.map fun k => (actList b.st)[k]?.getD 0) st) := by
  induction ks generalizing st with
  | nil => rfl
  | cons k ks ih =>
    have hk := hks k (by simp)
    have hp : (actList b.st)[k] < st.length := by rw [hl]; exact actList_lt hk
    simp only [List.foldlM_cons, sfStep, phys_ok hfc hk, bind, Except.bind, setFlagAt_ok f hp]
    rw [ih (fun k' hk' => hks k' (by simp [hk'])) _ (by simpa using hl)]
    have hk' : k < (actList b.st).length := hk
    simp only [setFlags, List.map_cons, List.foldl_cons, List.getElem?_eq_getElem hk', Option.getD_some]
    rfl

/-- physical indices of the active records `i … j-1` -/
def physRange (st : List Status) (i j : Nat) : List Nat := ((actList st).take j).drop i

theorem map_range'_physRange (st : List Status) {i j : Nat} (hj : j ≤ (actList st).length) :
    ((List.range' i (j - i)).map fun k => (actList st)[k]?.getD 0) = physRange st i j := by
  apply List.ext_getElem?
  intro n
  simp only [physRange, List.getElem?_map, List.getElem?_drop, List.getElem?_take]
  by_cases h : n < j - i
  · have h1 : i + n < j := by omega
    have h2 : i + n < (actList st).length := by omega
    simp [h, h1, h2]
  · have h1 : ¬ i + n < j := by omega
    simp [h, h1]

theorem mem_physRange {st : List Status} {i j q : Nat} :
    q ∈ physRange st i j ↔ ∃ k : Nat, i ≤ k ∧ k < j ∧ (actList st)[k]? = some q := by
  simp only [physRange, List.mem_iff_getElem?, List.getElem?_drop, List.getElem?_take]
  constructor
  · rintro ⟨n, hn⟩
    by_cases h : i + n < j
    · exact ⟨i + n, by omega, h, by simpa [h] using hn⟩
    · simp [h] at hn
  · rintro ⟨k, h1, h2, h3⟩
    exact ⟨k - i, by have : i + (k - i) = k := by omega
                     simp [this, h2, h3]⟩

theorem physRange_pairwise (st : List Status) (i j : Nat) : (physRange st i j).Pairwise (· < ·) :=
  ((actList_pairwise st).sublist (List.take_sublist _ _)).sublist (List.drop_sublist _ _)

theorem physRange_nodup (st : List Status) (i j : Nat) : (physRange st i j).Nodup :=
  (physRange_pairwise st i j).imp (fun h => Nat.ne_of_lt h)

theorem physRange_length (st : List Status) {i j : Nat} (hj : j ≤ (actList st).length) :
    (physRange st i j).length = j - i := by
  simp [physRange]; omega

theorem physRange_flag {st : List Status} {i j p : Nat} (hp : p ∈ physRange st i j) :
    ∃ s, st[p]? = some s ∧ s.flag ≠ .filter := by
  obtain ⟨k, _, _, hk⟩ := mem_physRange.mp hp
  obtain ⟨h1, h2, _⟩ := actList_getElem?_iff.mp hk
  exact ⟨st[p], by simp [h1], (notFilt_iff h1).mp h2⟩

end Conduit.Funnel
