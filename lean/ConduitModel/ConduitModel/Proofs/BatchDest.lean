import ConduitModel.Proofs.BatchNack

/-!
`DestinationTask.Do`: the ack loop (`destAckLoop`) and `markBatchRecords` (`destMark`) never
panic for a well-formed batch, whatever the destination answers; `.ok` only with every written
record covered by a validated ack; nacks land on the records whose ack carried the error.
-/
namespace Conduit.Funnel

/-! ### `destMark` loop = foldlM -/

theorem destMark_eq_model (b : Batch) (from_ : Nat) (acks : List (PosV × Option Err)) :
    destMark b from_ acks = destMarkP b from_ acks := by
  unfold destMark destMarkP
  have : ∀ (l : List Nat) (b : Batch),
      (forIn l b fun i r => do
        match acks[i]? with
          | some (_, some e) => do
            let b ← r.nack (from_ + i) [some e]
            pure PUnit.unit
            pure (ForInStep.yield b)
          | _ => do
            pure PUnit.unit
            pure (ForInStep.yield r)) = l.foldlM (destMarkStep from_ acks) b := by
    intro l
    induction l with
    | nil => intro b; rfl
    | cons i l ih =>
      intro b
      simp only [List.forIn_cons, List.foldlM_cons, destMarkStep]
      cases hi : acks[i]? with
      | none => simp only [pure_bind]; exact ih b
      | some a =>
        obtain ⟨ap, ae⟩ := a
        cases ae with
        | none => simp only [pure_bind]; exact ih b
        | some e =>
          simp only [bind_assoc, pure_bind]
          congr; funext b'; exact ih b'
  simp only [bind_pure]
  exact this _ b

/-! ### what a sequence of nacks did to the statuses -/

/-- `T q e`: "physical record `q` is to be nacked with error `e`". `Marked`: exactly the targets
are nacked, with their error; every other status is unchanged. -/
def Marked (st0 st' : List Status) (T : Nat → Err → Prop) : Prop :=
  ∀ q : Nat, (∀ e : Err, T q e → st'[q]? = some { flag := .nack, err := some e }) ∧
    ((¬ ∃ e : Err, T q e) → st'[q]? = st0[q]?)

/-- the weaker fact that holds also with split runs in the batch (a nack spreads over the
unfiltered members of the run): every target is flagged nack, every changed status is a nack,
filtered records are untouched. -/
def Weak (st0 st' : List Status) (T : Nat → Err → Prop) : Prop :=
  (∀ (q : Nat) (e : Err), T q e → ∃ s : Status, st'[q]? = some s ∧ s.flag = .nack) ∧
  (∀ q : Nat, st'[q]? ≠ st0[q]? → ∃ s : Status, st'[q]? = some s ∧ s.flag = .nack) ∧
  (∀ (q : Nat) (s : Status), st0[q]? = some s → s.flag = .filter → st'[q]? = some s)

theorem Marked.refl (st : List Status) (T : Nat → Err → Prop) (hT : ∀ q e, ¬ T q e) : Marked st st T :=
  fun q => ⟨fun e h => absurd h (hT q e), fun _ => rfl⟩

theorem Weak.refl (st : List Status) (T : Nat → Err → Prop) (hT : ∀ q e, ¬ T q e) : Weak st st T :=
  ⟨fun q e h => absurd h (hT q e), fun _ h => absurd rfl h, fun _ _ h _ => h⟩

theorem Marked.comp {st0 st1 st2 : List Status} {T1 T2 T : Nat → Err → Prop}
    (h1 : Marked st0 st1 T1) (h2 : Marked st1 st2 T2) (hd : ∀ q e1 e2, T1 q e1 → T2 q e2 → False)
    (hT : ∀ q e, T q e ↔ (T1 q e ∨ T2 q e)) : Marked st0 st2 T := by
  intro q
  constructor
  · intro e he
    rcases (hT q e).mp he with h | h
    · rw [(h2 q).2 (fun ⟨e2, h'⟩ => hd q e e2 h h')]
      exact (h1 q).1 e h
    · exact (h2 q).1 e h
  · intro hn
    rw [(h2 q).2 (fun ⟨e, h⟩ => hn ⟨e, (hT q e).mpr (Or.inr h)⟩)]
    exact (h1 q).2 (fun ⟨e, h⟩ => hn ⟨e, (hT q e).mpr (Or.inl h)⟩)

theorem Weak.comp {st0 st1 st2 : List Status} {T1 T2 T : Nat → Err → Prop}
    (h1 : Weak st0 st1 T1) (h2 : Weak st1 st2 T2) (hT : ∀ q e, T q e → (T1 q e ∨ T2 q e)) : Weak st0 st2 T := by
  refine ⟨?_, ?_, ?_⟩
  · intro q e he
    rcases hT q e he with h | h
    · obtain ⟨s, hs, hf⟩ := h1.1 q e h
      by_cases hc : st2[q]? = st1[q]?
      · exact ⟨s, hc.trans hs, hf⟩
      · exact h2.2.1 q hc
    · exact h2.1 q e h
  · intro q hne
    by_cases hc : st2[q]? = st1[q]?
    · rw [hc] at hne ⊢
      exact h1.2.1 q hne
    · exact h2.2.1 q hc
  · intro q s hs hf
    exact h2.2.2 q s (h1.2.2 q s hs hf) hf

/-! ### one nack -/

theorem nack1_ok {h : Heap} {b : Batch} (hwf : b.WF h) {i : Nat} (hi : i < b.nAct) (e : Err) :
    ∃ b' : Batch, b.nack i [some e] = .ok b' ∧ b'.WF h ∧ actList b'.st = actList b.st ∧
      b'.recs = b.recs ∧ b'.pos = b.pos ∧ b'.runs = b.runs ∧ b'.split = b.split ∧ b'.filterCount = b.filterCount ∧
      Weak b.st b'.st (fun q e' => (actList b.st)[i]? = some q ∧ e' = e) ∧
      (b.split = [] → Marked b.st b'.st (fun q e' => (actList b.st)[i]? = some q ∧ e' = e)) := by
  obtain ⟨b', g1, g2, g3, _, g4, g5, g6, g7, g8, _⟩ := nack_WF hwf (i := i) (errs := [some e]) (by simp; omega)
  obtain ⟨st', k1, _, _, k4, k5, k6, k7⟩ := nack_ok hwf (i := i) (errs := [some e]) (by simp; omega)
  have hb : b' = { b with st := st', tainted := true } := by
    rw [g1] at k1; exact Except.ok.inj k1
  refine ⟨b', g1, g2, g3, g4, g5, g6, g7, g8, ?_, ?_⟩
  · subst hb
    refine ⟨?_, ?_, k4⟩
    · rintro q e' ⟨hq, rfl⟩
      obtain ⟨p, s, hp, hs, hf⟩ := k5 0 (by simp)
      have : p = q := by simpa [hq] using hp.symm
      subst this
      exact ⟨s, hs, hf⟩
    · intro q hne
      obtain ⟨s, hs, hf, _⟩ := k6 q hne
      exact ⟨s, hs, hf⟩
  · intro hsp
    subst hb
    intro q
    obtain ⟨m1, m2⟩ := k7 hsp q
    constructor
    · rintro e' ⟨hq, rfl⟩
      simpa using m1 0 (by simp) (by simpa using hq)
    · intro hn
      apply m2
      rintro ⟨k, hk, hq⟩
      have : k = 0 := by simpa using hk
      subst this
      exact hn ⟨e, by simpa using hq, rfl⟩

/-! ### `markBatchRecords` -/

/-- target relation of the acks `0 … n-1` of one response, written at active indices `from_ + i` -/
def TA (A : List Nat) (from_ : Nat) (acks : List (PosV × Option Err)) (n : Nat) (q : Nat) (e : Err) : Prop :=
  ∃ (i : Nat) (ap : PosV), i < n ∧ A[from_ + i]? = some q ∧ acks[i]? = some (ap, some e)

/-- what `destMark` guarantees about its result -/
structure MarkPost (h : Heap) (b b' : Batch) (T : Nat → Err → Prop) : Prop where
  wf : b'.WF h
  act : actList b'.st = actList b.st
  recs : b'.recs = b.recs
  pos : b'.pos = b.pos
  runs : b'.runs = b.runs
  split : b'.split = b.split
  fc : b'.filterCount = b.filterCount
  weak : Weak b.st b'.st T
  marked : b.split = [] → Marked b.st b'.st T

theorem destMarkLoop_ok {h : Heap} (from_ : Nat) (acks : List (PosV × Option Err)) (n : Nat) {b : Batch}
    (hwf : b.WF h) (hn : from_ + n ≤ b.nAct) :
    ∃ b' : Batch, (List.range n).reverse.foldlM (destMarkStep from_ acks) b = .ok b' ∧
      MarkPost h b b' (TA (actList b.st) from_ acks n) := by
  induction n generalizing b with
  | zero =>
    have hT : ∀ q e, ¬ TA (actList b.st) from_ acks 0 q e := by rintro q e ⟨i, _, hi, _⟩; omega
    exact ⟨b, rfl, ⟨hwf, rfl, rfl, rfl, rfl, rfl, rfl, Weak.refl _ _ hT, fun _ => Marked.refl _ _ hT⟩⟩
  | succ n ih =>
    rw [List.range_succ, List.reverse_append]
    simp only [List.reverse_cons, List.reverse_nil, List.nil_append, List.cons_append, List.foldlM_cons]
    -- first step: index n
    have step : ∃ b1 : Batch, destMarkStep from_ acks b n = .ok b1 ∧
        MarkPost h b b1 (fun q e => ∃ ap : PosV, (actList b.st)[from_ + n]? = some q ∧ acks[n]? = some (ap, some e)) := by
      unfold destMarkStep
      cases ha : acks[n]? with
      | none =>
        have hT : ∀ q e, ¬ ∃ ap : PosV, (actList b.st)[from_ + n]? = some q ∧ (none : Option (PosV × Option Err)) = some (ap, some e) := by
          rintro q e ⟨ap, _, h2⟩; cases h2
        exact ⟨b, rfl, ⟨hwf, rfl, rfl, rfl, rfl, rfl, rfl, Weak.refl _ _ hT, fun _ => Marked.refl _ _ hT⟩⟩
      | some a =>
        obtain ⟨ap, ae⟩ := a
        cases ae with
        | none =>
          have hT : ∀ q e, ¬ ∃ ap' : PosV, (actList b.st)[from_ + n]? = some q ∧ some (ap, (none : Option Err)) = some (ap', some e) := by
            rintro q e ⟨ap', _, h2⟩; cases h2
          exact ⟨b, rfl, ⟨hwf, rfl, rfl, rfl, rfl, rfl, rfl, Weak.refl _ _ hT, fun _ => Marked.refl _ _ hT⟩⟩
        | some e =>
          obtain ⟨b1, g1, g2, g3, g4, g5, g6, g7, g8, g9, g10⟩ := nack1_ok hwf (i := from_ + n) (by omega) e
          refine ⟨b1, g1, ⟨g2, g3, g4, g5, g6, g7, g8, ?_, ?_⟩⟩
          · refine ⟨?_, g9.2.1, g9.2.2⟩
            rintro q e' ⟨ap', hq, he⟩
            cases he
            exact g9.1 q e ⟨hq, rfl⟩
          · intro hsp q
            obtain ⟨m1, m2⟩ := g10 hsp q
            constructor
            · rintro e' ⟨ap', hq, he⟩
              cases he
              exact m1 e ⟨hq, rfl⟩
            · intro hno
              apply m2
              rintro ⟨e', hq, rfl⟩
              exact hno ⟨e', ap, hq, rfl⟩
    obtain ⟨b1, e1, p1⟩ := step
    have hn1 : from_ + n ≤ b1.nAct := by
      show from_ + n ≤ (actList b1.st).length
      rw [p1.act]; exact Nat.le_trans (by omega) hn
    obtain ⟨b2, e2, p2⟩ := ih p1.wf hn1
    rw [p1.act] at p2
    refine ⟨b2, by simp only [e1, bind, Except.bind]; exact e2, ?_⟩
    have hT : ∀ q e, TA (actList b.st) from_ acks (n+1) q e ↔
        ((∃ ap : PosV, (actList b.st)[from_ + n]? = some q ∧ acks[n]? = some (ap, some e)) ∨
          TA (actList b.st) from_ acks n q e) := by
      intro q e
      constructor
      · rintro ⟨i, ap, hi, h1, h2⟩
        by_cases hin : i = n
        · subst hin; exact Or.inl ⟨ap, h1, h2⟩
        · exact Or.inr ⟨i, ap, by omega, h1, h2⟩
      · rintro (⟨ap, h1, h2⟩ | ⟨i, ap, hi, h1, h2⟩)
        · exact ⟨n, ap, by omega, h1, h2⟩
        · exact ⟨i, ap, by omega, h1, h2⟩
    refine ⟨p2.wf, p2.act.trans p1.act, p2.recs.trans p1.recs, p2.pos.trans p1.pos, p2.runs.trans p1.runs,
      p2.split.trans p1.split, p2.fc.trans p1.fc, Weak.comp p1.weak p2.weak (fun q e he => (hT q e).mp he), ?_⟩
    intro hsp
    refine Marked.comp (p1.marked hsp) (p2.marked (p1.split.trans hsp)) ?_ hT
    rintro q e1' e2' ⟨_, h1, _⟩ ⟨i, _, hi, h2, _⟩
    have := actList_inj h1 h2
    omega

theorem destMark_ok {h : Heap} {b : Batch} (hwf : b.WF h) (from_ : Nat) (acks : List (PosV × Option Err))
    (hn : from_ + acks.length ≤ b.nAct) :
    ∃ b' : Batch, destMark b from_ acks = .ok b' ∧ MarkPost h b b' (TA (actList b.st) from_ acks acks.length) := by
  rw [destMark_eq_model]
  exact destMarkLoop_ok from_ acks acks.length hwf hn

/-! ### the ack loop -/

theorem TA_append (A : List Nat) (from_ : Nat) (a1 a2 : List (PosV × Option Err)) (q : Nat) (e : Err) :
    TA A from_ (a1 ++ a2) (a1 ++ a2).length q e ↔
      (TA A from_ a1 a1.length q e ∨ TA A (from_ + a1.length) a2 a2.length q e) := by
  constructor
  · rintro ⟨i, ap, hi, h1, h2⟩
    by_cases hlt : i < a1.length
    · left; exact ⟨i, ap, hlt, h1, by rwa [List.getElem?_append_left hlt] at h2⟩
    · right
      rw [List.getElem?_append_right (by omega)] at h2
      exact ⟨i - a1.length, ap, by simp at hi; omega, by rw [← h1]; congr 1; omega, h2⟩
  · rintro (⟨i, ap, hi, h1, h2⟩ | ⟨i, ap, hi, h1, h2⟩)
    · exact ⟨i, ap, by simp; omega, h1, by rwa [List.getElem?_append_left hi]⟩
    · exact ⟨a1.length + i, ap, by simp; omega, by rw [← h1]; congr 1; omega,
        by rw [List.getElem?_append_right (by omega)]; simpa using h2⟩

theorem MarkPost.comp {h : Heap} {b b1 b2 : Batch} {from_ : Nat} {a1 a2 : List (PosV × Option Err)}
    (p1 : MarkPost h b b1 (TA (actList b.st) from_ a1 a1.length))
    (p2 : MarkPost h b1 b2 (TA (actList b1.st) (from_ + a1.length) a2 a2.length)) :
    MarkPost h b b2 (TA (actList b.st) from_ (a1 ++ a2) (a1 ++ a2).length) := by
  rw [p1.act] at p2
  refine ⟨p2.wf, p2.act.trans p1.act, p2.recs.trans p1.recs, p2.pos.trans p1.pos, p2.runs.trans p1.runs,
    p2.split.trans p1.split, p2.fc.trans p1.fc,
    Weak.comp p1.weak p2.weak (fun q e he => (TA_append _ _ _ _ q e).mp he), ?_⟩
  intro hsp
  refine Marked.comp (p1.marked hsp) (p2.marked (p1.split.trans hsp)) ?_ (TA_append _ _ _ _)
  rintro q e1 e2 ⟨i, _, hi, h1, _⟩ ⟨j, _, _, h2, _⟩
  have := actList_inj h1 h2
  omega

theorem validateAcks_spec : ∀ (acks : List (PosV × Option Err)) (ps : List PosV), validateAcks acks ps = true →
    acks.length ≤ ps.length ∧ ∀ i : Nat, i < acks.length → ∃ a p, acks[i]? = some a ∧ ps[i]? = some p ∧ keyOf a.1 = keyOf p := by
  intro acks
  induction acks with
  | nil => intro ps _; exact ⟨by simp, fun i hi => by simp at hi⟩
  | cons a acks ih =>
    intro ps hv
    cases ps with
    | nil => simp [validateAcks] at hv
    | cons p ps =>
      have hv' : validateAcks acks ps = true ∧ keyOf a.1 = keyOf p := by
        simp only [validateAcks, decide_eq_true_eq, List.length_cons, List.zip_cons_cons, List.all_cons,
          Bool.and_eq_true, beq_iff_eq] at hv ⊢
        obtain ⟨h1, h2, h3⟩ := hv
        exact ⟨⟨by omega, h3⟩, h2⟩
      obtain ⟨h1, h2⟩ := ih ps hv'.1
      refine ⟨by simp; omega, ?_⟩
      intro i hi
      cases i with
      | zero => exact ⟨a, p, rfl, rfl, hv'.2⟩
      | succ i => simpa using h2 i (by simpa using hi)

/-- the acks of a response (`[]` for an error response) -/
def ackList : AckResp → List (PosV × Option Err)
  | .acks l => l
  | .err _ => []

/-- what an `.ok` of the ack loop means: the consumed responses are all ack lists, every ack
matches the position of the record it is counted for, and the batch is marked accordingly. -/
structure AckPost (h : Heap) (positions : List PosV) (resps : List AckResp) (b : Batch) (ackCount : Nat)
    (b' : Batch) (n : Nat) (all : List (PosV × Option Err)) : Prop where
  count : n = ackCount + all.length
  le : n ≤ positions.length
  consumed : ∃ k : Nat, (∀ r ∈ resps.take k, ∃ l, r = AckResp.acks l) ∧ all = (resps.take k).flatMap ackList
  valid : ∀ i : Nat, i < all.length → ∃ a p, all[i]? = some a ∧ positions[ackCount + i]? = some p ∧ keyOf a.1 = keyOf p
  mark : MarkPost h b b' (TA (actList b.st) ackCount all all.length)

theorem destAckLoop_total {h : Heap} (positions : List PosV) (fuel : Nat) {b : Batch} (hwf : b.WF h)
    (hpos : positions.length ≤ b.nAct) (ackCount : Nat) (hac : ackCount ≤ positions.length) (resps : List AckResp) :
    (∃ (b' : Batch) (n : Nat) (all : List (PosV × Option Err)),
        destAckLoop positions fuel b ackCount resps = .ok (b', n) ∧ AckPost h positions resps b ackCount b' n all) ∨
    (∃ e : Err, destAckLoop positions fuel b ackCount resps = .error (.err e)) := by
  induction fuel generalizing b ackCount resps with
  | zero =>
    left
    have hT : ∀ q e, ¬ TA (actList b.st) ackCount [] 0 q e := by rintro q e ⟨i, _, hi, _⟩; omega
    exact ⟨b, ackCount, [], rfl, ⟨rfl, hac, ⟨0, by simp, by simp⟩, fun i hi => by simp at hi,
      ⟨hwf, rfl, rfl, rfl, rfl, rfl, rfl, Weak.refl _ _ hT, fun _ => Marked.refl _ _ hT⟩⟩⟩
  | succ fuel ih =>
    unfold destAckLoop
    cases resps with
    | nil => right; exact ⟨scriptExhausted, rfl⟩
    | cons r rest =>
      cases r with
      | err e => right; exact ⟨wrap e, rfl⟩
      | acks acks =>
        simp only
        by_cases hv : validateAcks acks (positions.drop ackCount) = true
        · simp only [hv, Bool.not_true, Bool.false_eq_true, if_false]
          obtain ⟨hv1, hv2⟩ := validateAcks_spec _ _ hv
          have hlen : ackCount + acks.length ≤ positions.length := by simp at hv1; omega
          obtain ⟨b1, e1, p1⟩ := destMark_ok hwf ackCount acks (by omega)
          simp only [e1, bind, Except.bind]
          have hvalid : ∀ i : Nat, i < acks.length →
              ∃ a p, acks[i]? = some a ∧ positions[ackCount + i]? = some p ∧ keyOf a.1 = keyOf p := by
            intro i hi
            obtain ⟨a, p, h1, h2, h3⟩ := hv2 i hi
            exact ⟨a, p, h1, by simpa using h2, h3⟩
          by_cases hge : ackCount + acks.length ≥ positions.length
          · left
            simp only [hge, if_true]
            exact ⟨b1, _, acks, rfl, ⟨rfl, hlen, ⟨1, by simp, by simp [ackList]⟩, hvalid, p1⟩⟩
          · simp only [hge, if_false]
            have hpos1 : positions.length ≤ b1.nAct := by
              show _ ≤ (actList b1.st).length; rw [p1.act]; exact hpos
            rcases ih p1.wf hpos1 (ackCount + acks.length) hlen rest with ⟨b2, n, all2, e2, q2⟩ | ⟨e, e2⟩
            · left
              refine ⟨b2, n, acks ++ all2, e2, ⟨by rw [q2.count]; simp; omega, q2.le, ?_, ?_, MarkPost.comp p1 q2.mark⟩⟩
              · obtain ⟨k, hk1, hk2⟩ := q2.consumed
                refine ⟨k + 1, ?_, by simp [List.take_succ_cons, ackList, hk2]⟩
                intro r hr
                simp only [List.take_succ_cons, List.mem_cons] at hr
                rcases hr with rfl | hr
                · exact ⟨acks, rfl⟩
                · exact hk1 r hr
              · intro i hi
                by_cases hlt : i < acks.length
                · obtain ⟨a, p, h1, h2, h3⟩ := hvalid i hlt
                  exact ⟨a, p, by rw [List.getElem?_append_left hlt]; exact h1, h2, h3⟩
                · obtain ⟨a, p, h1, h2, h3⟩ := q2.valid (i - acks.length) (by simp at hi; omega)
                  refine ⟨a, p, by rw [List.getElem?_append_right (by omega)]; exact h1, ?_, h3⟩
                  rw [← h2]; congr 1; omega
            · right; exact ⟨e, e2⟩
        · right
          simp only [hv, Bool.not_false, if_true]
          exact ⟨plainErr, rfl⟩

/-! ### `DestinationTask.Do` -/

theorem destDoP_total {h : Heap} {b : Batch} (hwf : b.WF h) (werr : Option Err) (resps : List AckResp) :
    (∃ (b' : Batch) (all : List (PosV × Option Err)), destDoP b werr resps = .ok b' ∧ werr = none ∧
        all.length = b.nAct ∧
        AckPost h (b.active.map (·.pos)) resps b 0 b' (b.active.map (·.pos)).length all) ∨
    (∃ e : Err, destDoP b werr resps = .error (.err e)) := by
  have hact : b.active.length = b.nAct := active_length hwf.1.st_len hwf.2
  unfold destDoP
  cases werr with
  | some e => right; exact ⟨wrap e, rfl⟩
  | none =>
    simp only
    rcases destAckLoop_total (b.active.map (·.pos)) (b.active.map (·.pos)).length hwf (by simp [hact]) 0
      (Nat.zero_le _) resps with ⟨b', n, all, e1, post⟩ | ⟨e, e1⟩
    · simp only [e1, bind, Except.bind]
      by_cases hlt : n < (b.active.map (·.pos)).length
      · right
        simp only [hlt, if_true]
        exact ⟨plainErr, rfl⟩
      · left
        simp only [hlt, if_false]
        have hn : n = (b.active.map (·.pos)).length := by have := post.le; omega
        subst hn
        refine ⟨b', all, rfl, trivial, ?_, post⟩
        have := post.count
        simp at this
        rw [← this]; simp [hact]
    · right
      simp only [e1, bind, Except.bind]
      exact ⟨e, rfl⟩

end Conduit.Funnel
