import ConduitModel.Proofs.BatchBase

/-!
The flag mutators `Ack`/`Retry`/`Filter` (`setFlagNoErr`): agreement of the loop with its
`foldlM` restatement, totality, exact effect, invariant.
-/
namespace Conduit.Funnel

/-! ### loop = foldlM -/

theorem setFlagRange_eq_model (b : Batch) (f : Flag) (i j : Nat) :
    b.setFlagRange f i j = b.setFlagRangeP f i j := by
  unfold Batch.setFlagRange Batch.setFlagRangeP
  split
  · rfl
  · rw [← forIn_yield_foldlM]
    simp only [sfStep, bind_assoc]

/-! ### invariant transfer -/

theorem Batch.Aligned.with_st {h : Heap} {b : Batch} (ha : b.Aligned h) {st' : List Status}
    (hl : st'.length = b.st.length) (t : Bool) (fc : Nat) :
    ({ b with st := st', tainted := t, filterCount := fc } : Batch).Aligned h :=
  ⟨by simpa [hl] using ha.st_len, ha.pos_len, ha.runs_ok, ha.split_keys⟩

theorem physRange_single {st : List Status} {i : Nat} (hi : i < (actList st).length) :
    physRange st i (i+1) = [(actList st)[i]] := by
  apply List.ext_getElem?
  intro n
  simp only [physRange, List.getElem?_drop, List.getElem?_take]
  cases n with
  | zero => simp [hi]
  | succ n => simp

/-- the statuses after flagging the active records `i … j-1` with `f` -/
def Batch.flagged (b : Batch) (f : Flag) (i j : Nat) : List Status := setFlags f (physRange b.st i j) b.st

theorem WF_flagged {h : Heap} {b : Batch} (hwf : b.WF h) {f : Flag} (hf : f ≠ .filter) (i j : Nat) (t : Bool) :
    ({ b with st := b.flagged f i j, tainted := t } : Batch).WF h := by
  refine ⟨hwf.1.with_st (by simp [Batch.flagged]) _ _, ?_⟩
  show b.filterCount = countFilter (b.flagged f i j)
  rw [Batch.flagged, countFilter_setFlags f _ _ (physRange_nodup _ _ _) (fun p hp => physRange_flag hp)]
  simp [hf, hwf.2]

theorem WF_filtered {h : Heap} {b : Batch} (hwf : b.WF h) {i j : Nat} (hj : j ≤ b.nAct) :
    ({ b with st := b.flagged .filter i j, filterCount := b.filterCount + (j - i) } : Batch).WF h := by
  refine ⟨hwf.1.with_st (by simp [Batch.flagged]) _ _, ?_⟩
  show b.filterCount + (j - i) = countFilter (b.flagged .filter i j)
  rw [Batch.flagged, countFilter_setFlags _ _ _ (physRange_nodup _ _ _) (fun p hp => physRange_flag hp)]
  simp [hwf.2, physRange_length _ hj]

/-! ### totality and exact result -/

theorem setFlag1_ok {h : Heap} {b : Batch} (hwf : b.WF h) (f : Flag) {i : Nat} (hi : i < b.nAct) :
    b.setFlag1 f i = .ok { b with st := b.flagged f i (i+1) } := by
  unfold Batch.setFlag1
  rw [phys_ok hwf.2 hi]
  simp only [bind, Except.bind, setFlagAt_ok f (actList_lt hi), pure, Except.pure]
  rw [Batch.flagged, physRange_single hi]
  rfl

theorem setFlagRange_ok {h : Heap} {b : Batch} (hwf : b.WF h) (f : Flag) {i j : Nat} (hij : i < j) (hj : j ≤ b.nAct) :
    b.setFlagRange f i j = .ok { b with st := b.flagged f i j } := by
  rw [setFlagRange_eq_model]
  unfold Batch.setFlagRangeP
  have : ¬ i ≥ j := by omega
  simp only [this, if_false]
  rw [foldlM_sfStep hwf.2 f _ (by intro k hk; have := List.mem_range'_1.mp hk; omega) _ rfl,
    map_range'_physRange _ hj]
  rfl

theorem retry_ok {h : Heap} {b : Batch} (hwf : b.WF h) {i j : Nat} (hij : i < j) (hj : j ≤ b.nAct) :
    b.retry i j = .ok { b with st := b.flagged .retry i j, tainted := true } := by
  unfold Batch.retry
  rw [setFlagRange_ok hwf _ hij hj]; rfl

theorem filter1_ok {h : Heap} {b : Batch} (hwf : b.WF h) {i : Nat} (hi : i < b.nAct) :
    b.filter1 i = .ok { b with st := b.flagged .filter i (i+1), filterCount := b.filterCount + 1 } := by
  unfold Batch.filter1
  rw [setFlag1_ok hwf _ hi]; rfl

theorem filterRange_ok {h : Heap} {b : Batch} (hwf : b.WF h) {i j : Nat} (hij : i < j) (hj : j ≤ b.nAct) :
    b.filterRange i j = .ok { b with st := b.flagged .filter i j, filterCount := b.filterCount + (j - i) } := by
  unfold Batch.filterRange
  rw [setFlagRange_ok hwf _ hij hj]; rfl

/-! ### what the flagging touches -/

/-- exactly the statuses of the active records `i … j-1` get flag `f`; their error, every other
status, and in particular every filtered record is left alone. -/
theorem getElem?_flagged (b : Batch) (f : Flag) (i j q : Nat) :
    ((∃ k : Nat, i ≤ k ∧ k < j ∧ (actList b.st)[k]? = some q) → (b.flagged f i j)[q]? = b.st[q]?.map (setFlagP f)) ∧
    ((¬ ∃ k : Nat, i ≤ k ∧ k < j ∧ (actList b.st)[k]? = some q) → (b.flagged f i j)[q]? = b.st[q]?) := by
  rw [Batch.flagged, getElem?_setFlags]
  constructor
  · intro h; simp only [mem_physRange.mpr h, if_true]
  · intro h
    have : ¬ q ∈ physRange b.st i j := fun h' => h (mem_physRange.mp h')
    simp only [this, if_false]

theorem filtered_untouched (b : Batch) (f : Flag) (i j q : Nat) (s : Status) (hq : b.st[q]? = some s)
    (hs : s.flag = .filter) : (b.flagged f i j)[q]? = some s := by
  refine ((getElem?_flagged b f i j q).2 ?_).trans hq
  rintro ⟨k, _, _, hk⟩
  obtain ⟨h1, h2, _⟩ := actList_getElem?_iff.mp hk
  have := (notFilt_iff h1).mp h2
  obtain ⟨_, rfl⟩ := List.getElem?_eq_some_iff.mp hq
  exact this hs

/-! ### the active-index map after a flagging -/

theorem actList_flagged_of_ne {b : Batch} {f : Flag} (hf : f ≠ .filter) (i j : Nat) :
    actList (b.flagged f i j) = actList b.st := by
  unfold actList
  rw [Batch.flagged, length_setFlags]
  apply List.filter_congr
  intro q hq
  rw [notFilt_setFlags]
  by_cases h : q ∈ physRange b.st i j ∧ q < b.st.length
  · obtain ⟨s, hs, hsf⟩ := physRange_flag h.1
    simp only [h, and_self, if_true]
    have : notFilt b.st q = true := by
      obtain ⟨hq', rfl⟩ := List.getElem?_eq_some_iff.mp hs
      exact (notFilt_iff hq').mpr hsf
    simp [this, hf]
  · simp only [h, if_false]

theorem filter_take_drop {A : List Nat} (hA : A.Nodup) {i j : Nat} (hij : i ≤ j) :
    A.filter (fun q => !(((A.take j).drop i).contains q)) = A.take i ++ A.drop j := by
  generalize hM : (A.take j).drop i = M
  have e : A = A.take i ++ ((A.take j).drop i ++ A.drop j) := by
    have h1 : A.take i = (A.take j).take i := by rw [List.take_take]; congr 1; omega
    rw [h1, ← List.append_assoc, List.take_append_drop, List.take_append_drop]
  have hnd := hA
  rw [e] at hnd
  obtain ⟨_, hnd2, hd1⟩ := List.nodup_append.mp hnd
  obtain ⟨_, _, hd2⟩ := List.nodup_append.mp hnd2
  rw [hM] at e hnd hnd2 hd1 hd2
  conv => lhs; rw [e]
  simp only [List.filter_append]
  have f1 : (A.take i).filter (fun q => !(M.contains q)) = A.take i := by
    rw [List.filter_eq_self]
    intro a ha
    simp only [Bool.not_eq_true', List.contains_eq_mem, decide_eq_false_iff_not]
    intro hm
    exact hd1 a ha a (by simp [hm]) rfl
  have f2 : M.filter (fun q => !(M.contains q)) = [] := by
    rw [List.filter_eq_nil_iff]
    intro a ha
    simp [ha]
  have f3 : (A.drop j).filter (fun q => !(M.contains q)) = A.drop j := by
    rw [List.filter_eq_self]
    intro a ha
    simp only [Bool.not_eq_true', List.contains_eq_mem, decide_eq_false_iff_not]
    intro hm
    exact hd2 a hm a ha rfl
  rw [f1, f2, f3]; simp

/-- `Filter(i, j)` makes `activeRecordIndices` skip exactly the active records `i … j-1`. -/
theorem actList_flagged_filter (b : Batch) {i j : Nat} (hij : i ≤ j) :
    actList (b.flagged .filter i j) = (actList b.st).take i ++ (actList b.st).drop j := by
  have h1 : actList (b.flagged .filter i j) = (actList b.st).filter (fun q => !((physRange b.st i j).contains q)) := by
    unfold actList
    rw [Batch.flagged, length_setFlags, List.filter_filter]
    apply List.filter_congr
    intro q hq
    have hq : q < b.st.length := by simpa using hq
    rw [notFilt_setFlags]
    by_cases h : q ∈ physRange b.st i j
    · simp [h, hq]
    · simp [h]
  rw [h1, physRange]
  exact filter_take_drop ((actList_pairwise _).imp (fun h => Nat.ne_of_lt h)) hij

/-! ### "nothing below active index `i` moved" -/

/-- `b'` looks like `b` to every active index below `i`: same physical index, and a record
that could be split still can. This is what end→start marking relies on. -/
structure Below (i : Nat) (b b' : Batch) : Prop where
  act : ∀ k : Nat, k < i → (actList b'.st)[k]? = (actList b.st)[k]?
  splittable : ∀ k p : Nat, k < i → (actList b.st)[k]? = some p → b.splittableAt p = true → b'.splittableAt p = true

theorem Below.refl (i : Nat) (b : Batch) : Below i b b := ⟨fun _ _ => rfl, fun _ _ _ _ h => h⟩

theorem Below.trans {i j : Nat} {b b' b'' : Batch} (hij : j ≤ i) (h1 : Below i b b') (h2 : Below j b' b'') :
    Below j b b'' :=
  ⟨fun k hk => (h2.act k hk).trans (h1.act k (by omega)),
   fun k p hk hp hs => h2.splittable k p hk ((h1.act k (by omega)).trans hp) (h1.splittable k p (by omega) hp hs)⟩

theorem Below.nAct {i : Nat} {b b' : Batch} (h : Below i b b') (hi : i ≤ b.nAct) : i ≤ b'.nAct := by
  cases i with
  | zero => omega
  | succ k =>
    have h1 := h.act k (by omega)
    have hk : k < (actList b.st).length := hi
    rw [List.getElem?_eq_getElem hk] at h1
    have := (List.getElem?_eq_some_iff.mp h1).1
    exact this

/-- a change of statuses / records / taint / filter count only, which keeps the active-index
map below `i`. -/
theorem Below.of_st {i : Nat} {b b' : Batch} (hpos : b'.pos = b.pos) (hruns : b'.runs = b.runs)
    (hact : ∀ k : Nat, k < i → (actList b'.st)[k]? = (actList b.st)[k]?) : Below i b b' :=
  ⟨hact, fun k p _ _ hs => by simpa [Batch.splittableAt, Batch.runAt, hpos, hruns] using hs⟩

theorem below_flagged {b : Batch} {f : Flag} (hf : f ≠ .filter) (i j : Nat) (t : Bool) :
    Below i b { b with st := b.flagged f i j, tainted := t } :=
  Below.of_st rfl rfl (fun k _ => by show (actList (b.flagged f i j))[k]? = _; rw [actList_flagged_of_ne hf])

theorem below_filtered {b : Batch} {i j : Nat} (hij : i ≤ j) (fc : Nat) :
    Below i b { b with st := b.flagged .filter i j, filterCount := fc } :=
  Below.of_st rfl rfl (fun k hk => by
    show (actList (b.flagged .filter i j))[k]? = _
    rw [actList_flagged_filter b hij, List.getElem?_append]
    by_cases h : k < (actList b.st).length
    · have : k < ((actList b.st).take i).length := by simp; omega
      simp only [this, if_true, List.getElem?_take, hk]
    · have h1 : ¬ k < ((actList b.st).take i).length := by simp; omega
      have h2 : (actList b.st)[k]? = none := by simp; omega
      simp only [h1, if_false, h2]
      simp; omega)

theorem nAct_filtered (b : Batch) {i j : Nat} (hij : i ≤ j) (hj : j ≤ b.nAct) (fc : Nat) :
    ({ b with st := b.flagged .filter i j, filterCount := fc } : Batch).nAct = b.nAct - (j - i) := by
  show (actList (b.flagged .filter i j)).length = _
  rw [actList_flagged_filter b hij]
  simp [Batch.nAct] at hj ⊢; omega

/-! ### the heap only grows -/

theorem runIdOK_mono {h h' : Heap} (hs : h.size ≤ h'.size) {r : Option Nat} (hr : runIdOK h r = true) : runIdOK h' r = true := by
  cases r with
  | none => rfl
  | some id => simp [runIdOK] at hr ⊢; omega

theorem runsOK_mono {h h' : Heap} (hs : h.size ≤ h'.size) {n : Nat} {r : Option (List (Option Nat))}
    (hr : runsOK h n r) : runsOK h' n r := by
  cases r with
  | none => trivial
  | some rs => exact ⟨hr.1, fun r hm => runIdOK_mono hs (hr.2 r hm)⟩

theorem Batch.Aligned.mono_heap {h h' : Heap} (hs : h.size ≤ h'.size) {b : Batch} (ha : b.Aligned h) : b.Aligned h' :=
  ⟨ha.st_len, ha.pos_len, runsOK_mono hs ha.runs_ok, ha.split_keys⟩

theorem Batch.WF.mono_heap {h h' : Heap} (hs : h.size ≤ h'.size) {b : Batch} (hwf : b.WF h) : b.WF h' :=
  ⟨hwf.1.mono_heap hs, hwf.2⟩

/-- two status lists with the same filtered positions have the same filter count. -/
theorem countFilter_congr {st st' : List Status} (hl : st'.length = st.length)
    (h : ∀ q : Nat, notFilt st' q = notFilt st q) : countFilter st' = countFilter st ∧ actList st' = actList st := by
  have h2 : actList st' = actList st := by
    unfold actList
    rw [hl]
    exact List.filter_congr (fun q _ => h q)
  have := length_actList st
  have := length_actList st'
  rw [h2] at this
  exact ⟨by omega, h2⟩

end Conduit.Funnel
