import ConduitModel.Proofs.BatchNack
import ConduitModel.Proofs.BatchSetRecords
import ConduitModel.Proofs.BatchActive

/-! `Nack` / `SetRecords`: whenever they return, the invariant holds (no in-range hypothesis). -/
namespace Conduit.Funnel

/-! ### `Nack`: a successful call had its indices in range -/

theorem nackGo_inrange {h : Heap} {b : Batch} (hwf : b.WF h) (es : List (Option Err)) :
    ∀ (q : Nat) (st st' : List Status), st.length = b.st.length → (∀ x : Nat, notFilt st x = notFilt b.st x) →
      nackGo b b.activeIdx es q st = .ok st' → es = [] ∨ q + es.length ≤ b.nAct := by
  induction es with
  | nil => intro _ _ _ _ _ _; exact Or.inl rfl
  | cons e es ih =>
    intro q st st' hl hn hr
    right
    unfold nackGo at hr
    cases h1 : nackStep b b.activeIdx st q e with
    | error err => simp [h1, bind, Except.bind] at hr
    | ok st1 =>
      simp only [h1, bind, Except.bind] at hr
      -- the step looked up `phys q` and indexed `st` there
      have hq : q < b.nAct := by
        rw [nackStep_eq] at h1
        cases hp : b.phys q with
        | error err => simp [hp, bind, Except.bind] at h1
        | ok p =>
          simp only [hp, bind, Except.bind] at h1
          unfold nackBody at h1
          cases hi : idx st p "recordStatuses" with
          | error err => simp [hi, bind, Except.bind] at h1
          | ok s =>
            have := (List.getElem?_eq_some_iff.mp (idx_eq_ok_iff.mp hi)).1
            exact phys_inrange hwf hp (by omega)
      obtain ⟨st1', g1, g2, _, g4, _⟩ := nackStep_ok hwf hl hn hq e
      rw [h1] at g1
      cases g1
      have hn1 : ∀ x : Nat, notFilt st1 x = notFilt b.st x := by
        intro x
        rw [← hn x]
        rcases g4 x with hx | ⟨hx1, _, hx2, _⟩
        · exact notFilt_of_getElem?_eq hx
        · rw [hx1]; exact notFilt_of_nack hx2 rfl
      rcases ih (q+1) st1 st' (by omega) hn1 hr with h2 | h2
      · subst h2; simp; omega
      · simp; omega

theorem nack_inrange {h : Heap} {b b' : Batch} (hwf : b.WF h) {i : Nat} {errs : List (Option Err)}
    (hr : b.nack i errs = .ok b') : errs = [] ∨ i + errs.length ≤ b.nAct := by
  rw [nack_eq_model] at hr
  unfold Batch.nackP at hr
  cases h1 : nackGo b b.activeIdx errs i b.st with
  | error err => simp [h1, bind, Except.bind] at hr
  | ok st' => exact nackGo_inrange hwf errs i b.st st' rfl (fun _ => rfl) h1

/-- `Nack` keeps the invariant whenever it returns. -/
theorem nack_WF_of_ok {h : Heap} {b b' : Batch} (hwf : b.WF h) {i : Nat} {errs : List (Option Err)}
    (hr : b.nack i errs = .ok b') : b'.WF h := by
  have hi : i + errs.length ≤ b.nAct ∨ errs = [] := (nack_inrange hwf hr).symm
  rcases hi with hi | hi
  · obtain ⟨b'', g1, g2, _⟩ := nack_WF hwf hi
    rw [g1] at hr; cases hr; exact g2
  · subst hi
    rw [nack_eq_model] at hr
    simp only [Batch.nackP, nackGo, bind, Except.bind, pure, Except.pure] at hr
    cases hr
    exact ⟨hwf.1.with_st rfl true b.filterCount, hwf.2⟩

/-! ### `SetRecords`: `len(records)` never changes -/

theorem setRecords_go_length (act : List Nat) (L : Nat) (hL : ∀ p ∈ act, p < L) (fuel : Nat) :
    ∀ (from_ : Nat) (recs out out' : List Rec), out.length = L →
      Batch.setRecords.go act fuel from_ recs out = .ok out' → out'.length = L := by
  induction fuel with
  | zero =>
    intro from_ recs out out' hl hr
    rw [Batch.setRecords.go.eq_1] at hr
    cases hr; exact hl
  | succ fuel ih =>
    intro from_ recs out out' hl hr
    by_cases he : recs = []
    · subst he
      rw [Batch.setRecords.go.eq_2] at hr
      simp only [List.isEmpty_nil, if_true] at hr
      cases hr; exact hl
    · cases haF : act[from_]? with
      | none =>
        rw [Batch.setRecords.go.eq_2] at hr
        have he' : recs.isEmpty = false := by simpa using he
        have : ∃ m, idx act from_ "activeIndices[from]" = .error (.panic m) := by
          simp [idx, haF, panic]
        obtain ⟨m, hm⟩ := this
        simp only [he', Bool.false_eq_true, if_false, hm, bind, Except.bind] at hr
        cases hr
      | some aF =>
        rw [setRecords_go_step act fuel from_ recs out aF he haF] at hr
        cases hf : findToLoop (fun t => (idx act t "activeIndices[idx]").bind fun a =>
            pure (decide (a - aF = t - from_ ∧ a ≥ aF))) (recs.length + 1) from_ (from_ + recs.length) with
        | error err => rw [hf] at hr; cases hr
        | ok to =>
          rw [hf] at hr
          cases ht : idx act to "activeIndices[to]" with
          | error err => simp only [Except.bind, ht] at hr; cases hr
          | ok aT =>
            simp only [Except.bind, ht] at hr
            have haT : aT < L := hL aT (List.mem_of_getElem? (idx_eq_ok_iff.mp ht))
            have haF' : aF < L := hL aF (List.mem_of_getElem? haF)
            refine ih _ _ _ _ ?_ hr
            simp only [List.length_append, List.length_take, List.length_drop]
            omega

/-- `SetRecords` keeps the invariant whenever it returns (a too long `recs` is cut by `copy`). -/
theorem setRecords_WF_of_ok {h : Heap} {b b' : Batch} (hwf : b.WF h) {i : Nat} {recs : List Rec}
    (hr : b.setRecords i recs = .ok b') :
    b'.WF h ∧ b'.st = b.st ∧ b'.pos = b.pos ∧ b'.runs = b.runs ∧ b'.recs.length = b.recs.length := by
  have key : ∀ out : List Rec, out.length = b.recs.length → b' = { b with recs := out } →
      b'.WF h ∧ b'.st = b.st ∧ b'.pos = b.pos ∧ b'.runs = b.runs ∧ b'.recs.length = b.recs.length := by
    intro out hl hb
    subst hb
    refine ⟨⟨⟨by simpa [hl] using hwf.1.st_len, by simpa [hl] using hwf.1.pos_len, by simpa [hl] using hwf.1.runs_ok,
      hwf.1.split_keys⟩, hwf.2⟩, rfl, rfl, rfl, hl⟩
  unfold Batch.setRecords at hr
  rw [activeIdx_eq] at hr
  by_cases h0 : b.filterCount = 0
  · rw [if_pos h0] at hr
    simp only at hr
    by_cases hi : i > b.recs.length
    · simp [hi, panic] at hr
    · simp only [hi, if_false, pure, Except.pure, Except.ok.injEq] at hr
      exact key (copyInto b.recs i recs) (by simp [copyInto]; omega) hr.symm
  · rw [if_neg h0] at hr
    simp only at hr
    cases hg : Batch.setRecords.go (actList b.st) (recs.length + 1) i recs b.recs with
    | error err => simp [hg, bind, Except.bind] at hr
    | ok out =>
      simp only [hg, bind, Except.bind, pure, Except.pure, Except.ok.injEq] at hr
      have hlen := setRecords_go_length (actList b.st) b.recs.length
        (fun p hp => by rw [← hwf.1.st_len]; exact (mem_actList.mp hp).1) _ _ _ _ _ rfl hg
      exact key out hlen hr.symm

end Conduit.Funnel

namespace Conduit.Funnel

/-- a successful `SplitRecord` had its active index in range -/
theorem splitRecord_inrange {h : Heap} {b : Batch} (hwf : b.WF h) {i : Nat} {recs : List Rec} {hb : Heap × Batch}
    (hr : b.splitRecord h i recs = .ok hb) : i < b.nAct := by
  unfold Batch.splitRecord at hr
  cases hp : b.phys i with
  | error err => simp [hp, bind, Except.bind] at hr
  | ok p =>
    simp only [hp, bind, Except.bind] at hr
    cases hi : idx b.pos p "positions[i]" with
    | error err => simp [hi] at hr
    | ok ps =>
      have := (List.getElem?_eq_some_iff.mp (idx_eq_ok_iff.mp hi)).1
      exact phys_inrange hwf hp (by rw [hwf.1.st_len, ← hwf.1.pos_len]; exact this)

end Conduit.Funnel
