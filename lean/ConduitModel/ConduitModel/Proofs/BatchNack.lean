import ConduitModel.Proofs.BatchFlags

/-!
`Nack(i, errs...)` (`setFlagWithErr`): agreement of the loop with its recursive restatement
(`nack_eq_model`), totality and exact effect under `Batch.WF` (`nack_ok`, `nack_ok_ext`,
`nack_changed_extent`), invariant (`nack_WF`).
-/
namespace Conduit.Funnel

/-! ### loop = `nackGo` -/

theorem forIn_nackExtent (e : Option Err) (l : List Nat) (st : List Status) :
    forIn l st (fun j (s : List Status) => (do
      let sj ← idx s j "recordStatuses"
      if (sj.flag != Flag.filter) = true then pure (ForInStep.yield (s.set j { flag := Flag.nack, err := e }))
      else pure (ForInStep.yield s) : R (ForInStep (List Status)))) = l.foldlM (nackExtent e) st := by
  rw [← forIn_yield_foldlM]
  congr 1
  funext j s
  simp only [nackExtent, bind_assoc]
  congr 1
  funext sj
  by_cases h : (sj.flag != Flag.filter) = true <;> simp only [h, if_true, pure_bind] <;> rfl

theorem forIn_nackGo (b : Batch) (act : Option (List Nat)) (i : Nat)
    (F : Option Err → List Status × Nat → R (ForInStep (List Status × Nat)))
    (hF : ∀ e st k, F e (st, k) = (do let st' ← nackStep b act st (i + k) e; pure (ForInStep.yield (st', k + 1))))
    (errs : List (Option Err)) (st : List Status) (k : Nat) :
    forIn errs (st, k) F = (do let st' ← nackGo b act errs (i + k) st; pure (st', k + errs.length)) := by
  induction errs generalizing st k with
  | nil => simp [nackGo]
  | cons e es ih =>
    simp only [List.forIn_cons, hF, bind_assoc, pure_bind, nackGo, List.length_cons]
    congr 1
    funext st'
    rw [ih]
    have : i + (k + 1) = i + k + 1 := by omega
    have h2 : k + 1 + es.length = k + (es.length + 1) := by omega
    rw [this, h2]

theorem nack_eq_model (b : Batch) (i : Nat) (errs : List (Option Err)) : b.nack i errs = b.nackP i errs := by
  unfold Batch.nack Batch.nackP
  simp only []
  rw [forIn_nackGo b b.activeIdx i]
  · simp only [bind_assoc, pure_bind, Nat.add_zero]
  · intro e st k
    simp only [forIn_nackExtent]
    unfold nackStep
    cases b.activeIdx with
    | none =>
      simp only [pure_bind, bind_assoc]
      congr 1; funext _
      by_cases h1 : b.split.length > 0
      · simp only [h1, if_true, bind_assoc]
        congr 1; funext ps
        by_cases h2 : (ps == none) = true ∨ (lookup b.split (keyOf ps)).isSome = true
        · simp only [h2, if_true]
        · simp only [h2, if_false, pure_bind]
      · simp only [h1, if_false, pure_bind]
    | some a =>
      simp only [bind_assoc]
      congr 1; funext p
      congr 1; funext _
      by_cases h1 : b.split.length > 0
      · simp only [h1, if_true, bind_assoc]
        congr 1; funext ps
        by_cases h2 : (ps == none) = true ∨ (lookup b.split (keyOf ps)).isSome = true
        · simp only [h2, if_true]
        · simp only [h2, if_false, pure_bind]
      · simp only [h1, if_false, pure_bind]

/-! ### totality and effect -/

/-- `x` lies in the split extent of physical index `p` -/
def inExtent (b : Batch) (p x : Nat) : Prop :=
  findSplitFrom b.pos p ≤ x ∧ x < findSplitTo b.pos (p+1) b.pos.length

theorem findSplitFrom_le (pos : List PosV) (p : Nat) : findSplitFrom pos p ≤ p := by
  induction p with
  | zero => simp [findSplitFrom]
  | succ p ih => unfold findSplitFrom; split <;> omega

theorem findSplitTo_bounds (pos : List PosV) (t fuel : Nat) :
    t ≤ findSplitTo pos t fuel ∧ findSplitTo pos t fuel ≤ max t pos.length := by
  induction fuel generalizing t with
  | zero => simp [findSplitTo]; omega
  | succ f ih =>
    unfold findSplitTo
    have := ih (t+1)
    split <;> omega

theorem notFilt_of_getElem?_eq {st st' : List Status} {x : Nat} (h : st'[x]? = st[x]?) : notFilt st' x = notFilt st x := by
  unfold notFilt; rw [h]

theorem notFilt_of_nack {st : List Status} {x : Nat} {s : Status} (h : st[x]? = some s) (hs : s.flag = .nack) :
    notFilt st x = true := by
  unfold notFilt; rw [h]; simp [hs]

theorem nackExtent_ok (e : Option Err) {st : List Status} {j : Nat} (hj : j < st.length) :
    nackExtent e st j = .ok (if notFilt st j = true then st.set j { flag := .nack, err := e } else st) := by
  unfold nackExtent
  rw [idx_ok _ hj, notFilt_lt hj]
  simp only [bind, Except.bind]
  by_cases h : (st[j].flag != Flag.filter) = true <;> simp only [h, if_true] <;> rfl

theorem foldlM_nackExtent (e : Option Err) (l : List Nat) (st : List Status) (hl : ∀ j ∈ l, j < st.length) :
    ∃ st', l.foldlM (nackExtent e) st = .ok st' ∧ st'.length = st.length ∧
      ∀ x : Nat, st'[x]? = if x ∈ l ∧ notFilt st x = true then some { flag := .nack, err := e } else st[x]? := by
  induction l generalizing st with
  | nil => exact ⟨st, rfl, rfl, by simp⟩
  | cons j l ih =>
    have hj := hl j (by simp)
    simp only [List.foldlM_cons, nackExtent_ok e hj, bind, Except.bind]
    by_cases hn : notFilt st j = true
    · simp only [hn, if_true]
      obtain ⟨st', h1, h2, h3⟩ := ih (st.set j { flag := .nack, err := e }) (by
        intro j' hj'; simpa using hl j' (by simp [hj']))
      refine ⟨st', h1, by simpa using h2, ?_⟩
      intro x
      rw [h3 x]
      by_cases hx : j = x
      · subst hx
        have : notFilt (st.set j { flag := .nack, err := e }) j = true :=
          notFilt_of_nack (s := { flag := .nack, err := e }) (by simp [hj]) rfl
        simp [this, hn, hj]
      · have h4 : (st.set j { flag := .nack, err := e })[x]? = st[x]? := by simp [hx]
        have hx' : ¬ x = j := fun h => hx h.symm
        rw [notFilt_of_getElem?_eq h4, h4]
        simp [hx']
    · simp only [hn]
      obtain ⟨st', h1, h2, h3⟩ := ih st (by intro j' hj'; exact hl j' (by simp [hj']))
      refine ⟨st', h1, h2, ?_⟩
      intro x
      rw [h3 x]
      by_cases hx : x = j
      · subst hx; simp [hn]
      · simp [hx]


/-- `nackStep` after the active → physical index lookup -/
def nackBody (b : Batch) (st : List Status) (p : Nat) (e : Option Err) : R (List Status) := do
  let _ ← idx st p "recordStatuses"
  let st := st.set p { flag := .nack, err := e }
  if b.split.length > 0 then
    let ps ← idx b.pos p "positions"
    if ps == none ∨ (lookup b.split (keyOf ps)).isSome then
      (List.range' (findSplitFrom b.pos p) (findSplitTo b.pos (p+1) b.pos.length - 1 + 1 - findSplitFrom b.pos p)).foldlM
        (nackExtent e) st
    else pure st
  else pure st

theorem nackStep_eq (b : Batch) (st : List Status) (q : Nat) (e : Option Err) :
    nackStep b b.activeIdx st q e = (do let p ← b.phys q; nackBody b st p e) := by
  unfold nackStep Batch.phys nackBody
  cases b.activeIdx <;> rfl

theorem nackStep_ok {h : Heap} {b : Batch} (hwf : b.WF h) {st : List Status} (hl : st.length = b.st.length)
    (hn : ∀ x : Nat, notFilt st x = notFilt b.st x) {q : Nat} (hq : q < b.nAct) (e : Option Err) :
    ∃ st', nackStep b b.activeIdx st q e = .ok st' ∧ st'.length = st.length ∧
      st'[(actList b.st)[q]'hq]? = some { flag := .nack, err := e } ∧
      (∀ x : Nat, st'[x]? = st[x]? ∨ (notFilt st x = true ∧ x < st.length ∧
          st'[x]? = some { flag := .nack, err := e } ∧ inExtent b ((actList b.st)[q]'hq) x)) ∧
      (b.split = [] → st' = st.set ((actList b.st)[q]'hq) { flag := .nack, err := e }) := by
  rw [nackStep_eq, phys_ok hwf.2 hq]
  have hnp : notFilt st ((actList b.st)[q]'hq) = true := by rw [hn]; exact actList_notFilt hq
  generalize hp : (actList b.st)[q]'hq = p at hnp
  have hpb : p < b.st.length := by rw [← hp]; exact actList_lt hq
  have hps : p < st.length := by omega
  have hpp : p < b.pos.length := by rw [hwf.1.pos_len, ← hwf.1.st_len]; exact hpb
  have hext : inExtent b p p := ⟨findSplitFrom_le _ _, by have := (findSplitTo_bounds b.pos (p+1) b.pos.length).1; omega⟩
  have hset : ∀ x : Nat, (st.set p { flag := .nack, err := e })[x]? = st[x]? ∨ (notFilt st x = true ∧ x < st.length ∧
          (st.set p { flag := .nack, err := e })[x]? = some { flag := .nack, err := e } ∧ inExtent b p x) := by
    intro x
    by_cases hx : p = x
    · subst hx; exact .inr ⟨hnp, hps, by simp [hps], hext⟩
    · exact .inl (by simp [hx])
  unfold nackBody
  simp only [bind, Except.bind, idx_ok _ hps]
  by_cases h1 : b.split.length > 0
  · simp only [h1, if_true, idx_ok _ hpp]
    by_cases h2 : (b.pos[p] == none) = true ∨ (lookup b.split (keyOf b.pos[p])).isSome = true
    · simp only [h2, if_true]
      have hto := findSplitTo_bounds b.pos (p+1) b.pos.length
      obtain ⟨st', h3, h4, h5⟩ := foldlM_nackExtent e
        (List.range' (findSplitFrom b.pos p) (findSplitTo b.pos (p+1) b.pos.length - 1 + 1 - findSplitFrom b.pos p))
        (st.set p { flag := .nack, err := e }) (by
          intro j hj
          have := List.mem_range'_1.mp hj
          have hpl : b.pos.length = st.length := by rw [hl, hwf.1.pos_len, hwf.1.st_len]
          simp only [List.length_set]
          omega)
      refine ⟨st', h3, by simpa using h4, ?_, ?_, by intro h0; simp [h0] at h1⟩
      · rw [h5]; split <;> simp [hps]
      · intro x
        rw [h5]
        by_cases hc : x ∈ List.range' (findSplitFrom b.pos p) (findSplitTo b.pos (p+1) b.pos.length - 1 + 1 - findSplitFrom b.pos p) ∧
            notFilt (st.set p { flag := .nack, err := e }) x = true
        · rw [if_pos hc]
          have hm := List.mem_range'_1.mp hc.1
          have hpl : b.pos.length = st.length := by rw [hl, hwf.1.pos_len, hwf.1.st_len]
          by_cases hx : p = x
          · subst hx; exact .inr ⟨hnp, hps, rfl, hext⟩
          · have h6 : (st.set p { flag := .nack, err := e })[x]? = st[x]? := by simp [hx]
            rw [notFilt_of_getElem?_eq h6] at hc
            exact .inr ⟨hc.2, by omega, rfl, ⟨hm.1, by omega⟩⟩
        · rw [if_neg hc]
          exact hset x
    · simp only [h2, if_false, pure, Except.pure]
      exact ⟨_, rfl, by simp, by simp [hps], hset, by intro h0; simp [h0] at h1⟩
  · simp only [h1, if_false, pure, Except.pure]
    exact ⟨_, rfl, by simp, by simp [hps], hset, fun _ => rfl⟩

theorem actList_inj {st : List Status} {a c x : Nat} (h1 : (actList st)[a]? = some x) (h2 : (actList st)[c]? = some x) :
    a = c := by
  have := (actList_getElem?_iff.mp h1).2.2
  have := (actList_getElem?_iff.mp h2).2.2
  omega

theorem nackGo_ok {h : Heap} {b : Batch} (hwf : b.WF h) (es : List (Option Err)) :
    ∀ (q : Nat) (st : List Status), st.length = b.st.length → (∀ x : Nat, notFilt st x = notFilt b.st x) →
      q + es.length ≤ b.nAct →
    ∃ st', nackGo b b.activeIdx es q st = .ok st' ∧ st'.length = st.length ∧
      (∀ x : Nat, st'[x]? = st[x]? ∨ (notFilt st x = true ∧ x < st.length ∧ ∃ k : Nat, k < es.length ∧
          st'[x]? = some { flag := .nack, err := (es[k]?).join } ∧
          ∃ p : Nat, (actList b.st)[q+k]? = some p ∧ inExtent b p x)) ∧
      (∀ k : Nat, k < es.length → ∃ p s, (actList b.st)[q+k]? = some p ∧ st'[p]? = some s ∧ s.flag = .nack) ∧
      (b.split = [] → ∀ x : Nat,
        (∀ k : Nat, k < es.length → (actList b.st)[q+k]? = some x → st'[x]? = some { flag := .nack, err := (es[k]?).join }) ∧
        ((¬ ∃ k : Nat, k < es.length ∧ (actList b.st)[q+k]? = some x) → st'[x]? = st[x]?)) := by
  induction es with
  | nil =>
    intro q st _ _ _
    exact ⟨st, rfl, rfl, fun _ => .inl rfl, by simp, by simp⟩
  | cons e es ih =>
    intro q st hl hn hq
    simp only [List.length_cons] at hq
    have hq0 : q < b.nAct := by omega
    obtain ⟨st1, s1, s2, s3, s4, s5⟩ := nackStep_ok hwf hl hn hq0 e
    have hn1 : ∀ x : Nat, notFilt st1 x = notFilt st x := by
      intro x
      rcases s4 x with h1 | ⟨h1, _, h2, _⟩
      · exact notFilt_of_getElem?_eq h1
      · rw [h1]; exact notFilt_of_nack h2 rfl
    obtain ⟨st', g1, g2, g3, g4, g5⟩ := ih (q+1) st1 (by omega) (fun x => (hn1 x).trans (hn x)) (by omega)
    have hA : (actList b.st)[q]? = some ((actList b.st)[q]'hq0) := List.getElem?_eq_getElem hq0
    refine ⟨st', ?_, by omega, ?_, ?_, ?_⟩
    · simp only [nackGo, s1, bind, Except.bind]; exact g1
    · intro x
      rcases g3 x with h1 | ⟨h1, h2, k, hk, h3, p, h4, h5⟩
      · rcases s4 x with h6 | ⟨h6, h7, h8, h9⟩
        · exact .inl (h1.trans h6)
        · exact .inr ⟨h6, h7, 0, by simp, by simpa [h1] using h8, _, hA, h9⟩
      · refine .inr ⟨by rw [← hn1]; exact h1, by omega, k+1, by simp; omega, by simpa using h3, p, ?_, h5⟩
        rw [← h4]; congr 1; omega
    · intro k hk
      cases k with
      | zero =>
        rcases g3 ((actList b.st)[q]'hq0) with h1 | ⟨_, _, k, _, h3, _⟩
        · exact ⟨_, _, hA, h1.trans s3, rfl⟩
        · exact ⟨_, _, hA, h3, rfl⟩
      | succ k =>
        obtain ⟨p, s, h1, h2, h3⟩ := g4 k (by simpa using hk)
        exact ⟨p, s, by rw [← h1]; congr 1; omega, h2, h3⟩
    · intro h0 x
      have s5 := s5 h0
      obtain ⟨g5a, g5b⟩ := g5 h0 x
      constructor
      · intro k hk hx
        cases k with
        | zero =>
          rw [Nat.add_zero] at hx
          have hnl : ¬ ∃ k : Nat, k < es.length ∧ (actList b.st)[q+1+k]? = some x := by
            rintro ⟨k, _, hk'⟩
            have := actList_inj hx hk'
            omega
          have hxp : x = (actList b.st)[q]'hq0 := by
            rw [hA] at hx; exact (Option.some.inj hx).symm
          rw [g5b hnl, hxp, s3]; rfl
        | succ k =>
          have := g5a k (by simpa using hk) (by rw [← hx]; congr 1; omega)
          simpa using this
      · intro hne
        have hnl : ¬ ∃ k : Nat, k < es.length ∧ (actList b.st)[q+1+k]? = some x := by
          rintro ⟨k, hk, hk'⟩
          exact hne ⟨k+1, by simp; omega, by rw [← hk']; congr 1; omega⟩
        have hxp : (actList b.st)[q]'hq0 ≠ x := by
          intro hxp
          exact hne ⟨0, by simp, by rw [← hxp]; exact hA⟩
        rw [g5b hnl, s5]
        simp [hxp]

/-- everything `nackGo_ok` gives, for `Batch.nack` itself -/
theorem nack_ok_ext {h : Heap} {b : Batch} (hwf : b.WF h) {i : Nat} {errs : List (Option Err)}
    (hi : i + errs.length ≤ b.nAct) :
    ∃ st' : List Status, b.nack i errs = .ok { b with st := st', tainted := true } ∧
      st'.length = b.st.length ∧
      (∀ x : Nat, st'[x]? = b.st[x]? ∨ (notFilt b.st x = true ∧ x < b.st.length ∧ ∃ k : Nat, k < errs.length ∧
          st'[x]? = some { flag := .nack, err := (errs[k]?).join } ∧
          ∃ p : Nat, (actList b.st)[i+k]? = some p ∧ inExtent b p x)) ∧
      (∀ k : Nat, k < errs.length → ∃ p s, (actList b.st)[i+k]? = some p ∧ st'[p]? = some s ∧ s.flag = .nack) ∧
      (b.split = [] → ∀ q : Nat,
          (∀ k : Nat, k < errs.length → (actList b.st)[i+k]? = some q → st'[q]? = some { flag := .nack, err := (errs[k]?).join }) ∧
          ((¬ ∃ k : Nat, k < errs.length ∧ (actList b.st)[i+k]? = some q) → st'[q]? = b.st[q]?)) := by
  obtain ⟨st', g1, g2, g3, g4, g5⟩ := nackGo_ok hwf errs i b.st rfl (fun _ => rfl) hi
  refine ⟨st', ?_, g2, g3, g4, g5⟩
  rw [nack_eq_model]
  unfold Batch.nackP
  simp only [g1, bind, Except.bind, pure, Except.pure]

theorem nack_ok {h : Heap} {b : Batch} (hwf : b.WF h) {i : Nat} {errs : List (Option Err)}
    (hi : i + errs.length ≤ b.nAct) :
    ∃ st' : List Status, b.nack i errs = .ok { b with st := st', tainted := true } ∧
      st'.length = b.st.length ∧
      (∀ q : Nat, notFilt st' q = notFilt b.st q) ∧
      (∀ (q : Nat) (s : Status), b.st[q]? = some s → s.flag = .filter → st'[q]? = some s) ∧
      (∀ k : Nat, k < errs.length → ∃ p s, (actList b.st)[i+k]? = some p ∧ st'[p]? = some s ∧ s.flag = .nack) ∧
      (∀ q : Nat, st'[q]? ≠ b.st[q]? → ∃ s, st'[q]? = some s ∧ s.flag = .nack ∧ ∃ k : Nat, k < errs.length ∧ s.err = (errs[k]?).join) ∧
      (b.split = [] → ∀ q : Nat,
          (∀ k : Nat, k < errs.length → (actList b.st)[i+k]? = some q → st'[q]? = some { flag := .nack, err := (errs[k]?).join }) ∧
          ((¬ ∃ k : Nat, k < errs.length ∧ (actList b.st)[i+k]? = some q) → st'[q]? = b.st[q]?)) := by
  obtain ⟨st', g1, g2, g3, g4, g5⟩ := nack_ok_ext hwf hi
  refine ⟨st', g1, g2, ?_, ?_, g4, ?_, g5⟩
  · intro q
    rcases g3 q with h1 | ⟨h1, _, k, _, h2, _⟩
    · exact notFilt_of_getElem?_eq h1
    · rw [h1]; exact notFilt_of_nack h2 rfl
  · intro q s hq hs
    rcases g3 q with h1 | ⟨h1, h2, _⟩
    · exact h1.trans hq
    · exfalso
      have := (notFilt_iff h2).mp h1
      obtain ⟨_, rfl⟩ := List.getElem?_eq_some_iff.mp hq
      exact this hs
  · intro q hne
    rcases g3 q with h1 | ⟨_, _, k, hk, h2, _⟩
    · exact absurd h1 hne
    · exact ⟨_, h2, rfl, k, hk, rfl⟩

/-- every changed index lies in the split extent of one of the targets and carries that target's error -/
theorem nack_changed_extent {h : Heap} {b : Batch} (hwf : b.WF h) {i : Nat} {errs : List (Option Err)}
    (hi : i + errs.length ≤ b.nAct) {st' : List Status} (hr : b.nack i errs = .ok { b with st := st', tainted := true })
    {q : Nat} (hq : st'[q]? ≠ b.st[q]?) :
    ∃ k p : Nat, k < errs.length ∧ (actList b.st)[i+k]? = some p ∧
      findSplitFrom b.pos p ≤ q ∧ q ≤ findSplitTo b.pos (p+1) b.pos.length - 1 ∧
      st'[q]? = some { flag := .nack, err := (errs[k]?).join } := by
  obtain ⟨st2, g1, _, g3, _⟩ := nack_ok_ext hwf hi
  rw [hr] at g1
  have : st' = st2 := by injection g1 with g1; injection g1
  subst this
  rcases g3 q with h1 | ⟨_, _, k, hk, h2, p, h3, h4⟩
  · exact absurd h1 hq
  · exact ⟨k, p, hk, h3, h4.1, by have := h4.2; omega, h2⟩

theorem nack_WF {h : Heap} {b : Batch} (hwf : b.WF h) {i : Nat} {errs : List (Option Err)} (hi : i + errs.length ≤ b.nAct) :
    ∃ b' : Batch, b.nack i errs = .ok b' ∧ b'.WF h ∧ actList b'.st = actList b.st ∧ Below i b b' ∧
      b'.recs = b.recs ∧ b'.pos = b.pos ∧ b'.runs = b.runs ∧ b'.split = b.split ∧ b'.filterCount = b.filterCount ∧ b'.tainted = true := by
  obtain ⟨st', g1, g2, g3, _⟩ := nack_ok hwf hi
  obtain ⟨c1, c2⟩ := countFilter_congr g2 g3
  refine ⟨_, g1, ⟨hwf.1.with_st g2 true b.filterCount, ?_⟩, c2, ?_, rfl, rfl, rfl, rfl, rfl, rfl⟩
  · show b.filterCount = countFilter st'
    rw [c1]; exact hwf.2
  · exact Below.of_st rfl rfl (fun k _ => by show (actList st')[k]? = _; rw [c2])

end Conduit.Funnel
