import ConduitModel.Proofs.BatchNack
import ConduitModel.Proofs.BatchSetRecords
import ConduitModel.Proofs.BatchSplit

/-!
`ProcessorTask.Do` (pure core `procDoP`): for a well-formed batch and ANY reply list the
result is `.ok` with a well-formed batch or a returned error — never a panic.
-/
namespace Conduit.Funnel

/-- result `k` asks for a real split (`MultiRecord` with more than one piece) -/
def needSplit (out : List PR) (k : Nat) : Prop := ∃ m : List Rec, out[k]? = some (.multi m) ∧ 1 < m.length

/-- loop invariant of the end→start marking: everything below active index `to` is untouched:
in range, and still splittable where a split is coming. -/
structure PInv (out : List PR) (h : Heap) (b : Batch) (to : Nat) : Prop where
  wf : b.WF h
  le : to ≤ b.nAct
  spl : ∀ k : Nat, k < to → needSplit out k → ∃ p : Nat, (actList b.st)[k]? = some p ∧ b.splittableAt p = true

theorem PInv.step {out : List PR} {h h' : Heap} {b b' : Batch} {to i : Nat} (hinv : PInv out h b to)
    (hb : Below i b b') (hwf : b'.WF h') (hi : i ≤ to) : PInv out h' b' i :=
  ⟨hwf, hb.nAct (Nat.le_trans hi hinv.le), fun k hk hn => by
    obtain ⟨p, hp, hs⟩ := hinv.spl k (by omega) hn
    exact ⟨p, (hb.act k hk).trans hp, hb.splittable k p hk hp hs⟩⟩

/-! ### the `MultiRecord` group -/

theorem procMultiStep_ok {out : List PR} {h : Heap} {b : Batch} {i t : Nat} {records : List PR}
    (hinv : PInv out h b (i + t + 1)) (hrec : records[t]? = out[i+t]?) :
    ∃ (h' : Heap) (b' : Batch), procMultiStep i records (h, b) t = .ok (h', b') ∧ PInv out h' b' (i + t) ∧
      h.size ≤ h'.size := by
  have hlt : i + t < b.nAct := by have := hinv.le; omega
  unfold procMultiStep
  cases hr : records[t]? with
  | none => exact ⟨h, b, rfl, hinv.step (Below.refl _ _) hinv.wf (by omega), Nat.le_refl _⟩
  | some r =>
    cases r with
    | multi m =>
      simp only
      rcases hm : m.length with _ | _ | n
      · simp only
        rw [filter1_ok hinv.wf hlt]
        exact ⟨h, _, rfl, hinv.step (below_filtered (by omega) _) (by
          have := WF_filtered hinv.wf (i := i + t) (j := i + t + 1) hlt
          simpa using this) (by omega), Nat.le_refl _⟩
      · simp only
        obtain ⟨b', h1, h2, _, _, _, _, _, _, h3⟩ := setRecords_WF hinv.wf (i := i + t) (recs := m) (by omega)
        rw [h1]
        exact ⟨h, b', rfl, hinv.step h3 h2 (by omega), Nat.le_refl _⟩
      · simp only
        have hn : needSplit out (i + t) := ⟨m, by rw [← hrec, hr], by omega⟩
        obtain ⟨p, hp, hs⟩ := hinv.spl (i + t) (by omega) hn
        have hp' : (actList b.st)[i + t]'hlt = p := by
          have := List.getElem?_eq_getElem hlt
          rw [hp] at this; exact (Option.some.inj this).symm
        obtain ⟨h', b', h1, h2, h3, _, _, _, _, _, h4, _⟩ :=
          splitRecord_ok hinv.wf hlt (recs := m) (by rw [hp']; exact hs) (by omega)
        exact ⟨h', b', h1, hinv.step h4 h2 (by omega), h3⟩
    | single _ => exact ⟨h, b, rfl, hinv.step (Below.refl _ _) hinv.wf (by omega), Nat.le_refl _⟩
    | filter => exact ⟨h, b, rfl, hinv.step (Below.refl _ _) hinv.wf (by omega), Nat.le_refl _⟩
    | error _ => exact ⟨h, b, rfl, hinv.step (Below.refl _ _) hinv.wf (by omega), Nat.le_refl _⟩
    | nil => exact ⟨h, b, rfl, hinv.step (Below.refl _ _) hinv.wf (by omega), Nat.le_refl _⟩

theorem procMultiLoop_ok {out : List PR} {i : Nat} {records : List PR} (n : Nat) {h : Heap} {b : Batch}
    (hinv : PInv out h b (i + n)) (hrec : ∀ t : Nat, t < n → records[t]? = out[i+t]?) :
    ∃ (h' : Heap) (b' : Batch), (List.range n).reverse.foldlM (procMultiStep i records) (h, b) = .ok (h', b') ∧
      PInv out h' b' i ∧ h.size ≤ h'.size := by
  induction n generalizing h b with
  | zero => exact ⟨h, b, rfl, hinv, Nat.le_refl _⟩
  | succ n ih =>
    obtain ⟨h1, b1, e1, inv1, s1⟩ := procMultiStep_ok (t := n) (records := records) hinv (hrec n (by omega))
    obtain ⟨h2, b2, e2, inv2, s2⟩ := ih inv1 (fun t ht => hrec t (by omega))
    refine ⟨h2, b2, ?_, inv2, by omega⟩
    rw [List.range_succ, List.reverse_append]
    simp only [List.reverse_cons, List.reverse_nil, List.nil_append, List.cons_append, List.foldlM_cons, e1,
      bind, Except.bind]
    exact e2

/-! ### one group -/

theorem length_filterMap_le' {α β} (f : α → Option β) (l : List α) : (l.filterMap f).length ≤ l.length :=
  List.length_filterMap_le f l

theorem procMarkP_ok {out : List PR} {h : Heap} {b : Batch} {i to : Nat} (hinv : PInv out h b to) (hi : i < to)
    (hto : to ≤ out.length) :
    ∃ (h' : Heap) (b' : Batch), procMarkP (h, b) i ((out.take to).drop i) = .ok (h', b') ∧ PInv out h' b' i ∧
      h.size ≤ h'.size := by
  have hle := hinv.le
  have hlen : ((out.take to).drop i).length = to - i := by simp; omega
  have hrec : ∀ t : Nat, t < to - i → ((out.take to).drop i)[t]? = out[i+t]? := by
    intro t ht
    rw [List.getElem?_drop, List.getElem?_take]
    have : i + t < to := by omega
    simp [this]
  generalize hR : (out.take to).drop i = records at hlen hrec
  unfold procMarkP
  cases records with
  | nil => simp at hlen; omega
  | cons r rest =>
    have hl' : (r :: rest).length = to - i := hlen
    cases r with
    | single r0 =>
      simp only
      generalize hrs : List.filterMap _ (PR.single r0 :: rest) = recs
      have : recs.length ≤ to - i := by rw [← hrs, ← hl']; exact List.length_filterMap_le _ _
      obtain ⟨b', h1, h2, _, _, _, _, _, _, h3⟩ := setRecords_WF hinv.wf (i := i) (recs := recs) (by omega)
      rw [h1]
      exact ⟨h, b', rfl, hinv.step h3 h2 (by omega), Nat.le_refl _⟩
    | filter =>
      simp only
      rw [hl', filterRange_ok hinv.wf (by omega) (by omega)]
      exact ⟨h, _, rfl, hinv.step (below_filtered (by omega) _) (WF_filtered hinv.wf (by omega)) (by omega), Nat.le_refl _⟩
    | error e0 =>
      simp only
      generalize hrs : List.filterMap _ (PR.error e0 :: rest) = errs
      have : errs.length ≤ to - i := by rw [← hrs, ← hl']; exact List.length_filterMap_le _ _
      obtain ⟨b', h1, h2, _, h3, _⟩ := nack_WF hinv.wf (i := i) (errs := errs) (by omega)
      rw [h1]
      exact ⟨h, b', rfl, hinv.step h3 h2 (by omega), Nat.le_refl _⟩
    | multi m0 =>
      simp only
      rw [hl']
      exact procMultiLoop_ok (to - i) (by rw [show i + (to - i) = to by omega]; exact hinv) hrec
    | nil =>
      simp only
      rw [hl', retry_ok hinv.wf (by omega) (by omega)]
      exact ⟨h, _, rfl, hinv.step (below_flagged (by decide) _ _ _) (WF_flagged hinv.wf (by decide) _ _ _) (by omega),
        Nat.le_refl _⟩

/-! ### the group loop -/

theorem procGroupLoop_ok {out : List PR} (n : Nat) {h : Heap} {b : Batch} {to : Nat} (hinv : PInv out h b to)
    (hn : n ≤ to) (hto : to ≤ out.length) :
    ∃ (h' : Heap) (b' : Batch) (to' : Nat),
      (List.range n).reverse.foldlM (procGroupStep out) ((h, b), to) = .ok ((h', b'), to') ∧
      PInv out h' b' to' ∧ h.size ≤ h'.size := by
  induction n generalizing h b to with
  | zero => exact ⟨h, b, to, rfl, hinv, Nat.le_refl _⟩
  | succ n ih =>
    rw [List.range_succ, List.reverse_append]
    simp only [List.reverse_cons, List.reverse_nil, List.nil_append, List.cons_append, List.foldlM_cons]
    unfold procGroupStep
    by_cases hb : (n == 0 || !(sameType (out[n-1]?.getD .nil) (out[n]?.getD .nil))) = true
    · simp only [hb, if_true]
      obtain ⟨h1, b1, e1, inv1, s1⟩ := procMarkP_ok (i := n) hinv (by omega) hto
      simp only [e1, bind, Except.bind, pure, Except.pure]
      obtain ⟨h2, b2, to2, e2, inv2, s2⟩ := ih inv1 (Nat.le_refl _) (by omega)
      exact ⟨h2, b2, to2, e2, inv2, by omega⟩
    · simp only [hb, bind, Except.bind, pure, Except.pure]
      exact ih hinv (by omega) hto

/-! ### the `splittable` pre-check -/

theorem procCheckStep_cases {h : Heap} {b : Batch} (hwf : b.WF h) (out : List PR) {i : Nat} (hi : i < b.nAct) :
    (procCheckStep b out i = .ok () ∧
      (needSplit out i → ∃ p : Nat, (actList b.st)[i]? = some p ∧ b.splittableAt p = true)) ∨
    (∃ e, procCheckStep b out i = .error (.err e)) := by
  have hi' : i < (actList b.st).length := hi
  obtain ⟨p, hpe⟩ : ∃ p, (actList b.st)[i]'hi' = p := ⟨_, rfl⟩
  have hp? : (actList b.st)[i]? = some p := by rw [List.getElem?_eq_getElem hi', hpe]
  have hphys : b.phys i = .ok p := (phys_ok hwf.2 hi).trans (congrArg _ hpe)
  have hp : p < b.pos.length := by
    rw [hwf.1.pos_len, ← hwf.1.st_len, ← hpe]; exact actList_lt hi'
  unfold procCheckStep
  cases hr : out[i]? with
  | none => exact Or.inl ⟨rfl, fun ⟨m, hm, _⟩ => by rw [hr] at hm; cases hm⟩
  | some r =>
    cases r with
    | multi m =>
      simp only
      by_cases hm : m.length > 1
      · simp only [hm, if_true, hphys, bind, Except.bind, idx_ok _ hp]
        cases hruns : b.runs with
        | none =>
          simp only
          split
          · right
            exact ⟨_, rfl⟩
          · rename_i hc
            left
            refine ⟨rfl, fun _ => ⟨p, hp?, ?_⟩⟩
            unfold Batch.splittableAt Batch.runAt
            rw [hruns, List.getElem?_eq_getElem hp]
            simp at hc
            simp [hc]
        | some rs =>
          simp only
          split
          · right
            exact ⟨_, rfl⟩
          · rename_i hc
            left
            refine ⟨rfl, fun _ => ⟨p, hp?, ?_⟩⟩
            unfold Batch.splittableAt Batch.runAt
            rw [hruns, List.getElem?_eq_getElem hp]
            by_cases hpn : b.pos[p] = none
            · simp [hpn] at hc
              simp [hpn, Option.isSome_iff_ne_none.mpr hc]
            · simp [hpn]
      · simp only [hm, if_false]
        exact Or.inl ⟨rfl, fun ⟨m', hm', hl⟩ => by rw [hr] at hm'; cases hm'; omega⟩
    | single _ => exact Or.inl ⟨rfl, fun ⟨m, hm, _⟩ => by rw [hr] at hm; cases hm⟩
    | filter => exact Or.inl ⟨rfl, fun ⟨m, hm, _⟩ => by rw [hr] at hm; cases hm⟩
    | error _ => exact Or.inl ⟨rfl, fun ⟨m, hm, _⟩ => by rw [hr] at hm; cases hm⟩
    | nil => exact Or.inl ⟨rfl, fun ⟨m, hm, _⟩ => by rw [hr] at hm; cases hm⟩

theorem procCheck_cases {h : Heap} {b : Batch} (hwf : b.WF h) (out : List PR) (ks : List Nat)
    (hks : ∀ k ∈ ks, k < b.nAct) :
    (ks.forM (procCheckStep b out) = .ok () ∧
      ∀ k ∈ ks, needSplit out k → ∃ p : Nat, (actList b.st)[k]? = some p ∧ b.splittableAt p = true) ∨
    (∃ e, ks.forM (procCheckStep b out) = .error (.err e)) := by
  induction ks with
  | nil => exact Or.inl ⟨rfl, fun _ hk => by simp at hk⟩
  | cons k ks ih =>
    have hk := hks k (by simp)
    simp only [List.forM_eq_forM] at ih ⊢
    rw [List.forM_cons]
    rcases procCheckStep_cases hwf out hk with ⟨h1, h2⟩ | ⟨e, h1⟩
    · rcases ih (fun k' hk' => hks k' (by simp [hk'])) with ⟨h3, h4⟩ | ⟨e, h3⟩
      · left
        simp only [h1, bind, Except.bind, h3]
        refine ⟨trivial, ?_⟩
        intro k' hk' hn
        rcases List.mem_cons.mp hk' with rfl | hk'
        · exact h2 hn
        · exact h4 k' hk' hn
      · right
        simp only [h1, bind, Except.bind, h3]
        exact ⟨e, rfl⟩
    · right
      simp only [h1, bind, Except.bind]
      exact ⟨e, rfl⟩

/-! ### `ProcessorTask.Do` -/

/-- the padded reply: `nil` entries for the records the processor skipped -/
def padOut (n : Nat) (out : List PR) : List PR :=
  if n > out.length then out ++ List.replicate (n - out.length) PR.nil else out

theorem needSplit_padOut {n : Nat} {out : List PR} {k : Nat} (hn : needSplit (padOut n out) k) :
    needSplit out k ∧ k < out.length := by
  obtain ⟨m, hm, hl⟩ := hn
  unfold padOut at hm
  by_cases h : n > out.length
  · simp only [h, if_true] at hm
    by_cases hk : k < out.length
    · rw [List.getElem?_append_left hk] at hm
      exact ⟨⟨m, hm, hl⟩, hk⟩
    · rw [List.getElem?_append_right (by omega)] at hm
      have := List.getElem?_eq_some_iff.mp hm
      obtain ⟨_, h2⟩ := this
      simp at h2
  · simp only [h, if_false] at hm
    exact ⟨⟨m, hm, hl⟩, (List.getElem?_eq_some_iff.mp hm).1⟩

theorem length_padOut {n : Nat} {out : List PR} (h : out.length ≤ n) : (padOut n out).length = n := by
  unfold padOut
  by_cases h1 : n > out.length
  · simp [h1]; omega
  · simp [h1]; omega

/-- the shape of `procDoP` after the two length checks -/
theorem procDoP_eq (h : Heap) (b : Batch) (out : List PR) (h0 : out.length ≠ 0) (h1 : ¬ out.length > b.active.length) :
    procDoP h b out = (do
      (List.range out.length).forM (procCheckStep b out)
      let s ← (List.range (padOut b.active.length out).length).reverse.foldlM
        (procGroupStep (padOut b.active.length out)) ((h, b), (padOut b.active.length out).length)
      pure s.1) := by
  unfold procDoP padOut
  simp only [h0, h1, if_false]

/-- totality of `ProcessorTask.Do`: `.ok` with a well-formed batch, or a returned error. -/
theorem procDoP_total {h : Heap} {b : Batch} (hwf : b.WF h) (out : List PR) :
    (∃ (h' : Heap) (b' : Batch), procDoP h b out = .ok (h', b') ∧ b'.WF h' ∧ h.size ≤ h'.size) ∨
    (∃ e : Err, procDoP h b out = .error (.err e)) := by
  have hact : b.active.length = b.nAct := active_length hwf.1.st_len hwf.2
  by_cases h0 : out.length = 0
  · right; exact ⟨plainErr, by unfold procDoP; simp only [h0, if_true]; rfl⟩
  by_cases h1 : out.length > b.active.length
  · right; exact ⟨plainErr, by unfold procDoP; simp only [h0, h1, if_true, if_false]; rfl⟩
  rw [procDoP_eq h b out h0 h1]
  rcases procCheck_cases hwf out (List.range out.length) (by intro k hk; have := List.mem_range.mp hk; omega) with
    ⟨hc, hspl⟩ | ⟨e, hc⟩
  · left
    have hlen : (padOut b.active.length out).length = b.nAct := by rw [length_padOut (by omega), hact]
    have hinv : PInv (padOut b.active.length out) h b (padOut b.active.length out).length :=
      ⟨hwf, by omega, fun k _ hn => by
        obtain ⟨h2, h3⟩ := needSplit_padOut hn
        exact hspl k (List.mem_range.mpr h3) h2⟩
    obtain ⟨h', b', to', e1, inv1, s1⟩ := procGroupLoop_ok (padOut b.active.length out).length hinv
      (Nat.le_refl _) (Nat.le_refl _)
    refine ⟨h', b', ?_, inv1.wf, s1⟩
    simp only [hc, bind, Except.bind, e1, pure, Except.pure]
  · right
    exact ⟨e, by simp only [hc, bind, Except.bind]⟩

theorem procDoP_empty (h : Heap) (b : Batch) : procDoP h b [] = .error (.err plainErr) := rfl

theorem procDoP_too_many (h : Heap) (b : Batch) (out : List PR) (hl : out.length > b.active.length) :
    procDoP h b out = .error (.err plainErr) := by
  unfold procDoP
  by_cases h0 : out.length = 0
  · simp only [h0, if_true]; rfl
  · simp only [h0, hl, if_true, if_false]; rfl

end Conduit.Funnel
