import ConduitModel.Spec.BatchWF

/-! Retry accounting of `doTaskAttempt` (`RecordFlagRetry` branch): `nextRetry`, `retryChain`. -/
namespace Conduit.Funnel

theorem nextRetry_none (size : Nat) : nextRetry none size = .ok { count := 1, size := size, stall := 0 } := rfl

/-- what an accepted retry round looks like -/
theorem nextRetry_some_ok {r n : RetryAttempt} {size : Nat} (h : nextRetry (some r) size = .ok n) :
    n.count = r.count + 1 ∧ n.size = size ∧ n.count ≤ maxRetryAttempts ∧ n.stall < maxRetryStall ∧
      (r.size ≤ size → n.stall = r.stall + 1) ∧ (size < r.size → n.stall = 0) := by
  unfold nextRetry at h
  simp only at h
  by_cases h1 : (if size ≥ r.size then r.stall + 1 else 0) ≥ maxRetryStall
  · simp [h1] at h
  · simp only [h1, if_false] at h
    by_cases h2 : r.count + 1 > maxRetryAttempts
    · simp [h2] at h
    · simp only [h2, if_false, Except.ok.injEq] at h
      subst h
      refine ⟨rfl, rfl, by simp at h2 ⊢; omega, by simp at h1 ⊢; omega, ?_, ?_⟩
      · intro h3; simp [h3]
      · intro h3; have : ¬ size ≥ r.size := by omega
        simp [this]

theorem nextRetry_ok_count {r : Option RetryAttempt} {n : RetryAttempt} {size : Nat} (h : nextRetry r size = .ok n) :
    n.count = (r.map (·.count)).getD 0 + 1 ∧ n.count ≤ maxRetryAttempts ∧ n.stall < maxRetryStall ∧ n.size = size := by
  cases r with
  | none => rw [nextRetry_none] at h; cases h; simp [maxRetryAttempts, maxRetryStall]
  | some r => have := nextRetry_some_ok h; simp; omega

/-- a chain of accepted nested retries after attempt `r` has at most `maxRetryAttempts - r.count` rounds -/
theorem retryChain_length {r : Option RetryAttempt} {sizes : List Nat} (h : retryChain r sizes = true) :
    (r.map (·.count)).getD 0 + sizes.length ≤ maxRetryAttempts ∨ sizes = [] := by
  induction sizes generalizing r with
  | nil => exact Or.inr rfl
  | cons s rest ih =>
    left
    unfold retryChain at h
    cases hn : nextRetry r s with
    | error e => simp [hn] at h
    | ok n =>
      simp only [hn] at h
      have h1 := nextRetry_ok_count hn
      rcases ih h with h2 | h2
      · simp at h2 ⊢; omega
      · subst h2; simp; omega

theorem retryChain_drop {r : Option RetryAttempt} {sizes : List Nat} (h : retryChain r sizes = true) (t : Nat)
    (ht : t < sizes.length) :
    ∃ r' : RetryAttempt, r'.size = sizes[t] ∧ r'.stall < maxRetryStall ∧ retryChain (some r') (sizes.drop (t+1)) = true := by
  induction t generalizing r sizes with
  | zero =>
    cases sizes with
    | nil => simp at ht
    | cons s rest =>
      unfold retryChain at h
      cases hn : nextRetry r s with
      | error e => simp [hn] at h
      | ok n =>
        simp only [hn] at h
        have h1 := nextRetry_ok_count hn
        exact ⟨n, by simp [h1.2.2.2], h1.2.2.1, by simpa using h⟩
  | succ t ih =>
    cases sizes with
    | nil => simp at ht
    | cons s rest =>
      unfold retryChain at h
      cases hn : nextRetry r s with
      | error e => simp [hn] at h
      | ok n =>
        simp only [hn] at h
        obtain ⟨r', h1, h2, h3⟩ := ih h (by simpa using ht)
        exact ⟨r', by simpa using h1, h2, by simpa using h3⟩

/-- `m` consecutive non-shrinking rounds after attempt `r` push the stall counter to `r.stall + m`,
which an accepted chain keeps below `maxRetryStall`. -/
theorem retryChain_stall {r : RetryAttempt} {sizes : List Nat} (h : retryChain (some r) sizes = true) (m : Nat)
    (hm : m ≤ sizes.length)
    (hns : ∀ u : Nat, u < m → (if u = 0 then r.size else sizes[u-1]?.getD 0) ≤ sizes[u]?.getD 0) :
    r.stall + m < maxRetryStall ∨ m = 0 := by
  induction m generalizing r sizes with
  | zero => exact Or.inr rfl
  | succ m ih =>
    left
    cases sizes with
    | nil => simp at hm
    | cons s rest =>
      unfold retryChain at h
      cases hn : nextRetry (some r) s with
      | error e => simp [hn] at h
      | ok n =>
        simp only [hn] at h
        have h1 := nextRetry_some_ok hn
        have h0 := hns 0 (by omega)
        simp at h0
        have hst := h1.2.2.2.2.1 h0
        rcases ih h (by simpa using hm) (by
          intro u hu
          have := hns (u+1) (by omega)
          cases u with
          | zero => simpa [h1.2.1] using this
          | succ u => simpa using this) with h2 | h2
        · omega
        · subst h2; omega

end Conduit.Funnel
