import ConduitModel.Proofs.BatchFlags

/-!
`SetRecords` (batch.go): the `findTo` bisection finds the end of a physically contiguous block of
active indices; `SetRecords(i, recs)` is total on a well-formed batch when `i + len(recs)` is
within the active records, keeps `len(records)` (hence the alignment invariant), writes `recs[k]`
at the physical index of active record `i + k` and nothing else.
-/
namespace Conduit.Funnel

/-! ### `findTo`: the bisection -/

theorem findToLoop_ok (check : Nat → R Bool) (P : Nat → Bool) (fuel lo hi : Nat)
    (hc : ∀ t : Nat, lo < t → t < hi → check t = .ok (P t)) :
    ∃ t : Nat, findToLoop check fuel lo hi = .ok t ∧ lo ≤ t ∧ (lo < hi → t < hi) ∧ (t = lo ∨ P t = true) := by
  induction fuel generalizing lo hi with
  | zero => exact ⟨lo, rfl, Nat.le_refl _, fun h => h, Or.inl rfl⟩
  | succ fuel ih =>
    rw [findToLoop.eq_2]
    by_cases h : lo + 1 < hi
    · simp only [h, if_true]
      have hm1 : lo < (lo + hi) / 2 := by omega
      have hm2 : (lo + hi) / 2 < hi := by omega
      rw [hc _ hm1 hm2]
      simp only [bind, Except.bind]
      by_cases hp : P ((lo + hi) / 2) = true
      · simp only [hp, if_true]
        obtain ⟨t, h1, h2, h3, h4⟩ := ih ((lo + hi) / 2) hi (fun t ht1 ht2 => hc t (by omega) ht2)
        refine ⟨t, h1, by omega, fun _ => h3 hm2, Or.inr ?_⟩
        rcases h4 with rfl | h4
        · exact hp
        · exact h4
      · simp only [hp]
        obtain ⟨t, h1, h2, h3, h4⟩ := ih lo ((lo + hi) / 2) (fun t ht1 ht2 => hc t ht1 (by omega))
        exact ⟨t, h1, h2, fun _ => by have := h3 hm1; omega, h4⟩
    · simp only [h, if_false]
      exact ⟨lo, rfl, Nat.le_refl _, fun h => h, Or.inl rfl⟩

theorem findToLoop_end (check : Nat → R Bool) (P : Nat → Bool) (fuel lo hi : Nat)
    (hc : ∀ t : Nat, lo < t → t < hi → check t = .ok (P t)) (hfuel : hi - lo ≤ fuel) (hlo : P lo = true) :
    ∃ t : Nat, findToLoop check fuel lo hi = .ok t ∧ lo ≤ t ∧ (lo < hi → t < hi) ∧ P t = true ∧
      (t + 1 < hi → P (t + 1) = false) := by
  induction fuel generalizing lo hi with
  | zero => exact ⟨lo, rfl, Nat.le_refl _, fun h => h, hlo, fun h => by omega⟩
  | succ fuel ih =>
    rw [findToLoop.eq_2]
    by_cases h : lo + 1 < hi
    · simp only [h, if_true]
      have hm1 : lo < (lo + hi) / 2 := by omega
      have hm2 : (lo + hi) / 2 < hi := by omega
      rw [hc _ hm1 hm2]
      simp only [bind, Except.bind]
      by_cases hp : P ((lo + hi) / 2) = true
      · simp only [hp, if_true]
        obtain ⟨t, h1, h2, h3, h4, h5⟩ := ih ((lo + hi) / 2) hi (fun t ht1 ht2 => hc t (by omega) ht2) (by omega) hp
        exact ⟨t, h1, by omega, fun _ => h3 hm2, h4, h5⟩
      · simp only [hp]
        obtain ⟨t, h1, h2, h3, h4, h5⟩ := ih lo ((lo + hi) / 2) (fun t ht1 ht2 => hc t ht1 (by omega)) (by omega) hlo
        refine ⟨t, h1, h2, fun _ => by have := h3 hm1; omega, h4, fun h6 => ?_⟩
        have := h3 hm1
        by_cases h7 : t + 1 < (lo + hi) / 2
        · exact h5 h7
        · have : t + 1 = (lo + hi) / 2 := by omega
          rw [this]; simpa using hp
    · simp only [h, if_false]
      exact ⟨lo, rfl, Nat.le_refl _, fun h => h, hlo, fun h' => by omega⟩

/-- with a monotone predicate (true then false) the result is the end of the block. -/
theorem findToLoop_block (check : Nat → R Bool) (P : Nat → Bool) (fuel lo hi : Nat)
    (hc : ∀ t : Nat, lo < t → t < hi → check t = .ok (P t)) (hfuel : hi - lo ≤ fuel)
    (hmono : ∀ t t' : Nat, lo ≤ t → t ≤ t' → t' < hi → P t' = true → P t = true) (hlo : P lo = true) :
    ∃ t : Nat, findToLoop check fuel lo hi = .ok t ∧ lo ≤ t ∧ (lo < hi → t < hi) ∧
      ∀ s : Nat, lo ≤ s → s < hi → (P s = true ↔ s ≤ t) := by
  obtain ⟨t, h1, h2, h3, h4, h5⟩ := findToLoop_end check P fuel lo hi hc hfuel hlo
  refine ⟨t, h1, h2, h3, fun s hs1 hs2 => ⟨fun hs => ?_, fun hs => ?_⟩⟩
  · by_cases h : s ≤ t
    · exact h
    · have := hmono (t + 1) s (by omega) (by omega) hs2 hs
      rw [h5 (by omega)] at this
      exact absurd this (by simp)
  · exact hmono s t hs1 hs (h3 (by omega)) h4

/-! ### list splicing -/

theorem splice_eq {α} (out seg : List α) (a m : Nat) (hm : seg.length ≤ m) :
    out.take a ++ seg.take m ++ out.drop (a + min seg.length m) = out.take a ++ seg ++ out.drop (a + seg.length) := by
  rw [List.take_of_length_le hm, Nat.min_eq_left hm]

theorem splice_length {α} (out seg : List α) (a : Nat) (h : a + seg.length ≤ out.length) :
    (out.take a ++ seg ++ out.drop (a + seg.length)).length = out.length := by
  simp; omega

theorem splice_getElem? {α} (out seg : List α) (a : Nat) (h : a + seg.length ≤ out.length) (q : Nat) :
    (out.take a ++ seg ++ out.drop (a + seg.length))[q]? =
      if a ≤ q ∧ q < a + seg.length then seg[q - a]? else out[q]? := by
  rw [List.append_assoc, List.getElem?_append]
  have hl : (out.take a).length = a := by simp; omega
  rw [hl]
  by_cases h1 : q < a
  · have : ¬ (a ≤ q ∧ q < a + seg.length) := by omega
    simp only [h1, this, if_true, if_false, List.getElem?_take]
  · simp only [h1, if_false]
    rw [List.getElem?_append]
    by_cases h2 : q - a < seg.length
    · have : a ≤ q ∧ q < a + seg.length := by omega
      simp only [h2, this, and_self, if_true]
    · have : ¬ (a ≤ q ∧ q < a + seg.length) := by omega
      simp only [h2, this, if_false, List.getElem?_drop]
      congr 1; omega

theorem pairwise_lt_add {l : List Nat} (hp : l.Pairwise (· < ·)) {i d a c : Nat}
    (h1 : l[i]? = some a) (h2 : l[i + d]? = some c) : a + d ≤ c := by
  induction d generalizing c with
  | zero => rw [Nat.add_zero, h1] at h2; injection h2 with h2; omega
  | succ d ih =>
    obtain ⟨hc, hc'⟩ := List.getElem?_eq_some_iff.mp h2
    have hd : i + d < l.length := by omega
    have := ih (List.getElem?_eq_getElem hd)
    have h3 := List.pairwise_iff_getElem.mp hp (i + d) (i + (d + 1)) hd hc (by omega)
    omega


/-! ### the segment loop of `SetRecords` -/

/-- the contiguity test of `findTo` -/
def contig (act : List Nat) (from_ aF t : Nat) : Bool :=
  decide (act[t]?.getD 0 - aF = t - from_ ∧ act[t]?.getD 0 ≥ aF)

/-- one iteration of `go` on a non-empty `recs`, with the binds spelled out. -/
theorem setRecords_go_step (act : List Nat) (fuel from_ : Nat) (recs out : List Rec) (aF : Nat)
    (he : recs ≠ []) (haF : act[from_]? = some aF) :
    Batch.setRecords.go act (fuel + 1) from_ recs out =
      (findToLoop (fun t => (idx act t "activeIndices[idx]").bind fun a => pure (decide (a - aF = t - from_ ∧ a ≥ aF)))
        (recs.length + 1) from_ (from_ + recs.length)).bind fun to =>
      (idx act to "activeIndices[to]").bind fun aT =>
        Batch.setRecords.go act fuel (to + 1) (recs.drop (to - from_ + 1))
          (out.take aF ++ (recs.take (to - from_ + 1)).take (aT + 1 - aF)
            ++ out.drop (aF + min (recs.take (to - from_ + 1)).length (aT + 1 - aF))) := by
  rw [Batch.setRecords.go.eq_2]
  have he' : recs.isEmpty = false := by simpa using he
  simp only [he', Bool.false_eq_true, if_false]
  rw [idx_eq_ok_iff.mpr haF]
  rfl

theorem setRecords_go_spec (act : List Nat) (L : Nat) (hpw : act.Pairwise (· < ·)) (hL : ∀ p ∈ act, p < L)
    (fuel from_ : Nat) (recs out : List Rec) (hfuel : recs.length ≤ fuel)
    (hfr : from_ + recs.length ≤ act.length) (hout : out.length = L) :
    ∃ out' : List Rec, Batch.setRecords.go act fuel from_ recs out = .ok out' ∧ out'.length = L ∧
      (∀ k : Nat, k < recs.length → ∃ p : Nat, act[from_ + k]? = some p ∧ out'[p]? = recs[k]?) ∧
      (∀ q : Nat, (¬ ∃ k : Nat, k < recs.length ∧ act[from_ + k]? = some q) → out'[q]? = out[q]?) := by
  induction fuel generalizing from_ recs out with
  | zero =>
    have : recs = [] := List.length_eq_zero_iff.mp (by omega)
    subst this
    exact ⟨out, rfl, hout, fun k hk => by simp at hk, fun _ _ => rfl⟩
  | succ fuel ih =>
    by_cases he : recs = []
    · subst he
      exact ⟨out, by rw [Batch.setRecords.go.eq_2]; rfl, hout, fun k hk => by simp at hk, fun _ _ => rfl⟩
    · have hpos : 0 < recs.length := List.length_pos_iff.mpr he
      have hf : from_ < act.length := by omega
      obtain ⟨aF, haF⟩ : ∃ aF : Nat, act[from_]? = some aF := ⟨_, List.getElem?_eq_getElem hf⟩
      rw [setRecords_go_step act fuel from_ recs out aF he haF]
      obtain ⟨to, hto, hto1, hto2, hto3⟩ := findToLoop_ok
        (fun t => (idx act t "activeIndices[idx]").bind fun a => pure (decide (a - aF = t - from_ ∧ a ≥ aF)))
        (contig act from_ aF) (recs.length + 1) from_ (from_ + recs.length) (by
          intro t _ ht2
          have ht : t < act.length := by omega
          rw [idx_ok _ ht]
          simp [Except.bind, pure, Except.pure, ht, contig])
      have hto2 := hto2 (by omega)
      rw [hto]
      have ht : to < act.length := by omega
      obtain ⟨aT, haT⟩ : ∃ aT : Nat, act[to]? = some aT := ⟨_, List.getElem?_eq_getElem ht⟩
      simp only [Except.bind]
      rw [idx_eq_ok_iff.mpr haT]
      dsimp only
      -- the segment `from_ … to` is physically contiguous
      have hT : aT = aF + (to - from_) := by
        rcases hto3 with rfl | hto3
        · rw [haF] at haT; injection haT with haT; omega
        · simp only [contig, haT, Option.getD_some, decide_eq_true_eq] at hto3
          omega
      have hn : to - from_ + 1 ≤ recs.length := by omega
      have hseg : (recs.take (to - from_ + 1)).length = to - from_ + 1 := by
        rw [List.length_take]; omega
      rw [splice_eq out _ aF _ (by rw [hseg]; omega)]
      have hcont : ∀ k : Nat, k < to - from_ + 1 → act[from_ + k]? = some (aF + k) := by
        intro k hk
        have hk' : from_ + k < act.length := by omega
        have hc := List.getElem?_eq_getElem hk'
        have h1 := pairwise_lt_add hpw haF hc
        have h2 := pairwise_lt_add hpw (d := to - from_ - k) hc (by
          have : from_ + k + (to - from_ - k) = to := by omega
          rw [this]; exact haT)
        rw [hc]; congr 1; omega
      have hfit : aF + (recs.take (to - from_ + 1)).length ≤ out.length := by
        have := hL aT (List.mem_of_getElem? haT)
        rw [hseg]; omega
      obtain ⟨out', e, hlen, hin, hout'⟩ := ih (to + 1) (recs.drop (to - from_ + 1))
        (out.take aF ++ recs.take (to - from_ + 1) ++ out.drop (aF + (recs.take (to - from_ + 1)).length))
        (by rw [List.length_drop]; omega) (by rw [List.length_drop]; omega)
        (by rw [splice_length _ _ _ hfit]; exact hout)
      rw [List.length_drop] at hin hout'
      -- a later active index is physically beyond the segment
      have hlater : ∀ k' q : Nat, act[to + 1 + k']? = some q → aF + (to - from_ + 1) ≤ q := by
        intro k' q hq
        have := pairwise_lt_add hpw (d := 1 + k') haT (by rw [← Nat.add_assoc]; exact hq)
        omega
      refine ⟨out', e, hlen, ?_, ?_⟩
      · intro k hk
        by_cases hkn : k < to - from_ + 1
        · refine ⟨aF + k, hcont k hkn, ?_⟩
          rw [hout' (aF + k) (by
            rintro ⟨k', _, hk'⟩
            have := hlater k' _ hk'
            omega)]
          rw [splice_getElem? _ _ _ hfit, hseg]
          have : aF ≤ aF + k ∧ aF + k < aF + (to - from_ + 1) := by omega
          simp only [this, and_self, if_true, List.getElem?_take]
          have : aF + k - aF = k := by omega
          simp only [this, hkn, if_true]
        · obtain ⟨p, hp1, hp2⟩ := hin (k - (to - from_ + 1)) (by omega)
          have e1 : to + 1 + (k - (to - from_ + 1)) = from_ + k := by omega
          have e2 : to - from_ + 1 + (k - (to - from_ + 1)) = k := by omega
          rw [e1] at hp1
          rw [List.getElem?_drop, e2] at hp2
          exact ⟨p, hp1, hp2⟩
      · intro q hq
        rw [hout' q (by
          rintro ⟨k', hk'1, hk'2⟩
          apply hq
          refine ⟨to - from_ + 1 + k', by omega, ?_⟩
          have : from_ + (to - from_ + 1 + k') = to + 1 + k' := by omega
          rw [this]; exact hk'2)]
        rw [splice_getElem? _ _ _ hfit, hseg]
        have : ¬ (aF ≤ q ∧ q < aF + (to - from_ + 1)) := by
          intro ⟨h1, h2⟩
          apply hq
          refine ⟨q - aF, by omega, ?_⟩
          rw [hcont (q - aF) (by omega)]
          congr 1; omega
        simp only [this, if_false]

/-! ### `SetRecords` -/

theorem activeIdx_eq (b : Batch) :
    b.activeIdx = if b.filterCount = 0 then none else some (actList b.st) := rfl

/-- `SetRecords(i, recs)` never indexes out of range, keeps `len(records)`, writes `recs[k]` at
the physical index of the active record `i + k`, and touches nothing else. -/
theorem setRecords_effect {h : Heap} {b : Batch} (hwf : b.WF h) {i : Nat} {recs : List Rec}
    (hi : i + recs.length ≤ b.nAct) :
    ∃ out : List Rec, b.setRecords i recs = .ok { b with recs := out } ∧ out.length = b.recs.length ∧
      (∀ k : Nat, k < recs.length → ∃ p : Nat, (actList b.st)[i + k]? = some p ∧ out[p]? = recs[k]?) ∧
      (∀ q : Nat, (¬ ∃ k : Nat, k < recs.length ∧ (actList b.st)[i + k]? = some q) → out[q]? = b.recs[q]?) := by
  have hlen : b.nAct ≤ b.recs.length := by
    have := b.nAct_eq
    have := hwf.1.st_len
    omega
  unfold Batch.setRecords
  rw [activeIdx_eq]
  by_cases h0 : b.filterCount = 0
  · simp only [h0, if_true]
    have hi' : ¬ i > b.recs.length := by omega
    simp only [hi', if_false, pure, Except.pure]
    have hfit : i + recs.length ≤ b.recs.length := by omega
    have hact := actList_of_countFilter_zero (by have := hwf.2; omega : countFilter b.st = 0)
    refine ⟨copyInto b.recs i recs, rfl, ?_⟩
    unfold copyInto
    rw [splice_eq _ _ _ _ (by omega)]
    refine ⟨splice_length _ _ _ hfit, ?_, ?_⟩
    · intro k hk
      have hk' : i + k < b.st.length := by have := hwf.1.st_len; omega
      refine ⟨i + k, by rw [hact]; simp [hk'], ?_⟩
      rw [splice_getElem? _ _ _ hfit]
      have : i ≤ i + k ∧ i + k < i + recs.length := by omega
      simp only [this, and_self, if_true]
      congr 1; omega
    · intro q hq
      rw [splice_getElem? _ _ _ hfit]
      have : ¬ (i ≤ q ∧ q < i + recs.length) := by
        intro ⟨h1, h2⟩
        apply hq
        have hq' : q < b.st.length := by have := hwf.1.st_len; omega
        refine ⟨q - i, by omega, ?_⟩
        have e : i + (q - i) = q := by omega
        rw [hact, e]; simp [hq']
      simp only [this, if_false]
  · simp only [h0, if_false]
    obtain ⟨out, e, h1, h2, h3⟩ := setRecords_go_spec (actList b.st) b.recs.length (actList_pairwise _)
      (fun p hp => by have := (mem_actList.mp hp).1; have := hwf.1.st_len; omega)
      (recs.length + 1) i recs b.recs (by omega) hi rfl
    refine ⟨out, ?_, h1, h2, h3⟩
    simp only [e, bind, Except.bind, pure, Except.pure]

theorem setRecords_ok {h : Heap} {b : Batch} (hwf : b.WF h) {i : Nat} {recs : List Rec}
    (hi : i + recs.length ≤ b.nAct) :
    ∃ out : List Rec, b.setRecords i recs = .ok { b with recs := out } ∧ out.length = b.recs.length := by
  obtain ⟨out, e, hl, _⟩ := setRecords_effect hwf hi
  exact ⟨out, e, hl⟩

theorem setRecords_WF {h : Heap} {b : Batch} (hwf : b.WF h) {i : Nat} {recs : List Rec}
    (hi : i + recs.length ≤ b.nAct) :
    ∃ b' : Batch, b.setRecords i recs = .ok b' ∧ b'.WF h ∧ b'.st = b.st ∧ b'.pos = b.pos ∧ b'.runs = b.runs ∧
      b'.split = b.split ∧ b'.filterCount = b.filterCount ∧ b'.tainted = b.tainted ∧ Below i b b' := by
  obtain ⟨out, e, hl⟩ := setRecords_ok hwf hi
  refine ⟨_, e, ⟨⟨?_, ?_, ?_, hwf.1.split_keys⟩, hwf.2⟩, rfl, rfl, rfl, rfl, rfl, rfl,
    Below.of_st rfl rfl (fun _ _ => rfl)⟩
  · show b.st.length = out.length
    rw [hl]; exact hwf.1.st_len
  · show b.pos.length = out.length
    rw [hl]; exact hwf.1.pos_len
  · show runsOK h out.length b.runs
    rw [hl]; exact hwf.1.runs_ok

end Conduit.Funnel
