import ConduitModel.Proofs.BatchFlags

/-!
`SplitRecord` (batch.go): totality under the `splittable` guard, the exact effect on the four
parallel slices, invariant preservation, "nothing below active index `i` moved", and the
necessity of the guard.
-/
namespace Conduit.Funnel

/-! ### list / count helpers -/

theorem countFilter_append (a c : List Status) : countFilter (a ++ c) = countFilter a + countFilter c := by
  simp [countFilter, List.filter_append]

theorem countFilter_replicate_default (n : Nat) : countFilter (List.replicate n ({} : Status)) = 0 := by
  induction n with
  | zero => rfl
  | succ n ih => rw [List.replicate_succ, countFilter_cons, ih]; rfl

/-- reading below the insertion point of `l[:k] ++ xs ++ l[k:]` -/
theorem getElem?_ins_lt {α} {l xs : List α} {k q : Nat} (hq : q < k) (hk : k ≤ l.length) :
    (l.take k ++ xs ++ l.drop k)[q]? = l[q]? := by
  have h1 : q < (l.take k).length := by simp; omega
  rw [List.append_assoc, List.getElem?_append_left h1, List.getElem?_take]
  simp [hq]

theorem length_ins {α} {l xs : List α} {k : Nat} (hk : k ≤ l.length) :
    (l.take k ++ xs ++ l.drop k).length = l.length + xs.length := by
  simp; omega

theorem mem_ins {α} {l xs : List α} {k : Nat} {a : α} :
    a ∈ l.take k ++ xs ++ l.drop k ↔ a ∈ l ∨ a ∈ xs := by
  constructor
  · intro h
    rcases List.mem_append.mp h with h | h
    · rcases List.mem_append.mp h with h | h
      · exact .inl (List.mem_of_mem_take h)
      · exact .inr h
    · exact .inl (List.mem_of_mem_drop h)
  · rintro (h | h)
    · rw [← List.take_append_drop k l] at h
      rcases List.mem_append.mp h with h | h
      · exact List.mem_append.mpr (.inl (List.mem_append.mpr (.inl h)))
      · exact List.mem_append.mpr (.inr h)
    · exact List.mem_append.mpr (.inl (List.mem_append.mpr (.inr h)))

theorem countFilter_ins (st : List Status) (k n : Nat) :
    countFilter (st.take k ++ List.replicate n ({} : Status) ++ st.drop k) = countFilter st := by
  rw [countFilter_append, countFilter_append, countFilter_replicate_default, Nat.add_zero, ← countFilter_append,
    List.take_append_drop]

theorem notFilt_ins_lt {st : List Status} {k n q : Nat} (hq : q < k) (hk : k ≤ st.length) :
    notFilt (st.take k ++ List.replicate n ({} : Status) ++ st.drop k) q = notFilt st q := by
  unfold notFilt
  rw [getElem?_ins_lt hq hk]

/-- `runs[:p+1] ++ [rid, …] ++ runs[p+1:]` stays parallel and allocated -/
theorem runsOK_ins {h : Heap} {m : Nat} {rs : List (Option Nat)} (hr : runsOK h m (some rs)) {k : Nat} (hk : k ≤ m)
    {rid : Nat} (hrid : rid < h.size) (n : Nat) :
    runsOK h (m + n) (some (rs.take k ++ List.replicate n (some rid) ++ rs.drop k)) := by
  refine ⟨?_, ?_⟩
  · rw [length_ins (by rw [hr.1]; exact hk), hr.1]; simp
  · intro r hm
    rcases mem_ins.mp hm with hm | hm
    · exact hr.2 r hm
    · rw [(List.mem_replicate.mp hm).2]; simp [runIdOK, hrid]

/-- the postcondition of `SplitRecord` on active index `i` = physical index `p` -/
def SplitPost (h : Heap) (b : Batch) (i p : Nat) (recs : List Rec) (h' : Heap) (b' : Batch) : Prop :=
  b'.WF h' ∧ h.size ≤ h'.size ∧
    b'.recs = b.recs.take p ++ recs ++ b.recs.drop (p + 1) ∧
    b'.st = b.st.take (p + 1) ++ List.replicate (recs.length - 1) ({} : Status) ++ b.st.drop (p + 1) ∧
    b'.pos = b.pos.take (p + 1) ++ List.replicate (recs.length - 1) none ++ b.pos.drop (p + 1) ∧
    b'.filterCount = b.filterCount ∧ b'.tainted = b.tainted ∧
    Below i b b' ∧ b'.nAct = b.nAct + (recs.length - 1)

/-! ### the tail of `SplitRecord` -/

/-- the tail of `SplitRecord` once the run id is known -/
def splitTail (h : Heap) (b : Batch) (p rid : Nat) (recs : List Rec) : Heap × Batch :=
  (h.set! rid { h[rid]! with total := h[rid]!.total + recs.length - 1 },
   { b with
      recs := b.recs.take p ++ recs ++ b.recs.drop (p+1),
      st := b.st.take (p+1) ++ List.replicate (recs.length - 1) ({} : Status) ++ b.st.drop (p+1),
      pos := b.pos.take (p+1) ++ List.replicate (recs.length - 1) none ++ b.pos.drop (p+1),
      runs := some ((b.runs.getD []).take (p+1) ++ List.replicate (recs.length - 1) (some rid) ++ (b.runs.getD []).drop (p+1)) })

theorem splitTail_post {h : Heap} {b : Batch} (hwf : b.WF h) {i p : Nat} (hip : (actList b.st)[i]? = some p)
    {rs : List (Option Nat)} (hruns : b.runs = some rs) {rid : Nat} (hrid : rid < h.size) {recs : List Rec}
    (hr : 1 ≤ recs.length) :
    SplitPost h b i p recs (splitTail h b p rid recs).1 (splitTail h b p rid recs).2 := by
  obtain ⟨hp, hnf, _⟩ := actList_getElem?_iff.mp hip
  have ha := hwf.1
  have hsl := ha.st_len
  have hpl := ha.pos_len
  have hro := ha.runs_ok
  rw [hruns] at hro
  have hsz : (splitTail h b p rid recs).1.size = h.size := by simp [splitTail]
  have hbelow : Below i b (splitTail h b p rid recs).2 := by
    have hact : ∀ k : Nat, k < i → (actList (splitTail h b p rid recs).2.st)[k]? = (actList b.st)[k]? := by
      intro k hk
      have hi := (List.getElem?_eq_some_iff.mp hip).1
      have hk' : k < (actList b.st).length := by omega
      have hlt : (actList b.st)[k] < p := by
        have := List.pairwise_iff_getElem.mp (actList_pairwise b.st) k i hk' hi hk
        rw [(List.getElem?_eq_some_iff.mp hip).2] at this
        exact this
      rw [List.getElem?_eq_getElem hk']
      refine actList_getElem?_agree ?_ ?_ (List.getElem?_eq_getElem hk')
      · show b.st.length ≤ (b.st.take (p+1) ++ List.replicate (recs.length - 1) ({} : Status) ++ b.st.drop (p+1)).length
        rw [length_ins (by omega)]; omega
      · intro q hq
        exact notFilt_ins_lt (by omega) (by omega)
    refine ⟨hact, ?_⟩
    intro k q hk hkq hs
    have hi := (List.getElem?_eq_some_iff.mp hip).1
    have hk' : k < (actList b.st).length := by omega
    have hlt : q < p := by
      have := List.pairwise_iff_getElem.mp (actList_pairwise b.st) k i hk' hi hk
      rw [(List.getElem?_eq_some_iff.mp hip).2, (List.getElem?_eq_some_iff.mp hkq).2] at this
      exact this
    have e1 : (splitTail h b p rid recs).2.pos[q]? = b.pos[q]? := getElem?_ins_lt (by omega) (by omega)
    have e2 : (splitTail h b p rid recs).2.runAt q = b.runAt q := by
      simp only [Batch.runAt, splitTail, hruns, Option.getD_some]
      rw [getElem?_ins_lt (by omega) (by rw [hro.1]; omega)]
    simp only [Batch.splittableAt, e1, e2] at hs ⊢
    exact hs
  refine ⟨⟨⟨?_, ?_, ?_, ?_⟩, ?_⟩, by omega, rfl, rfl, rfl, rfl, rfl, hbelow, ?_⟩
  · show (b.st.take (p+1) ++ List.replicate (recs.length - 1) ({} : Status) ++ b.st.drop (p+1)).length
      = (b.recs.take p ++ recs ++ b.recs.drop (p+1)).length
    rw [length_ins (by omega)]; simp; omega
  · show (b.pos.take (p+1) ++ List.replicate (recs.length - 1) none ++ b.pos.drop (p+1)).length
      = (b.recs.take p ++ recs ++ b.recs.drop (p+1)).length
    rw [length_ins (by omega)]; simp; omega
  · show runsOK _ (b.recs.take p ++ recs ++ b.recs.drop (p+1)).length
      (some ((b.runs.getD []).take (p+1) ++ List.replicate (recs.length - 1) (some rid) ++ (b.runs.getD []).drop (p+1)))
    have hlen : (b.recs.take p ++ recs ++ b.recs.drop (p+1)).length = b.recs.length + (recs.length - 1) := by
      simp; omega
    rw [hlen, hruns, Option.getD_some]
    exact runsOK_ins (runsOK_mono (by omega) hro) (by omega) (by omega) _
  · intro kv hkv
    obtain ⟨x, hx, hxk⟩ := ha.split_keys kv hkv
    exact ⟨x, mem_ins.mpr (.inl hx), hxk⟩
  · show b.filterCount = countFilter (b.st.take (p+1) ++ List.replicate (recs.length - 1) ({} : Status) ++ b.st.drop (p+1))
    rw [countFilter_ins]; exact hwf.2
  · have h1 := length_actList b.st
    have h2 := length_actList (splitTail h b p rid recs).2.st
    have h3 : countFilter (splitTail h b p rid recs).2.st = countFilter b.st := countFilter_ins _ _ _
    have h4 : (splitTail h b p rid recs).2.st.length = b.st.length + (recs.length - 1) := by
      show (b.st.take (p+1) ++ List.replicate (recs.length - 1) ({} : Status) ++ b.st.drop (p+1)).length = _
      rw [length_ins (by omega)]; simp
    unfold Batch.nAct
    omega

/-! ### computing `splitRecord` -/

theorem splitRecord_existing {h : Heap} {b : Batch} {i p : Nat} {recs : List Rec} (hp : b.phys i = .ok p)
    (h1 : p < b.recs.length) (h2 : p < b.st.length) (h3 : p < b.pos.length)
    {rs : List (Option Nat)} (hruns : b.runs = some rs) {r : Nat} (hr : rs[p]? = some (some r)) :
    b.splitRecord h i recs = .ok (splitTail h b p r recs) := by
  have h4 : p < rs.length := (List.getElem?_eq_some_iff.mp hr).1
  have c1 : ¬ (p + 1 > b.recs.length ∨ p + 1 > b.st.length ∨ p + 1 > b.pos.length) := by omega
  have c2 : ¬ (p + 1 > rs.length) := by omega
  have e1 : idx rs p "runs[i]" = .ok (some r) := idx_eq_ok_iff.mpr hr
  unfold Batch.splitRecord
  rw [hp]
  simp only [bind, Except.bind, idx_ok _ h3, hruns, e1, pure, Except.pure, c1, c2, if_false, Option.getD_some]
  simp only [splitTail, hruns, Option.getD_some]

/-- the batch after a fresh run `rid` was attached to physical index `p` -/
def withNewRun (b : Batch) (p rid : Nat) : Batch :=
  { b with
    split := if (lookup b.split (keyOf (b.pos[p]?.getD none))).isNone then b.split ++ [(keyOf (b.pos[p]?.getD none), b.recs[p]?.getD default)] else b.split,
    runs := some ((b.runs.getD (b.recs.map fun _ => none)).set p (some rid)) }

def newRun (b : Batch) (p : Nat) : SplitRun :=
  { origPos := b.pos[p]?.getD none,
    origRec := (lookup b.split (keyOf (b.pos[p]?.getD none))).getD (b.recs[p]?.getD default), total := 1 }

theorem splitRecord_new {h : Heap} {b : Batch} {i p : Nat} {recs : List Rec} (hp : b.phys i = .ok p)
    (h1 : p < b.recs.length) (h2 : p < b.st.length) (h3 : p < b.pos.length)
    (hruns : ∀ rs, b.runs = some rs → rs.length = b.recs.length ∧ rs[p]? = some none) (hpos : b.pos[p]? ≠ some none) :
    b.splitRecord h i recs = .ok (splitTail (h.push (newRun b p)) (withNewRun b p h.size) p h.size recs) := by
  have c1 : ¬ (p + 1 > b.recs.length ∨ p + 1 > b.st.length ∨ p + 1 > b.pos.length) := by omega
  have hne : (b.pos[p] == none) = false := by
    cases hx : b.pos[p] with
    | none => exact absurd (by rw [List.getElem?_eq_getElem h3, hx]) hpos
    | some k => rfl
  unfold Batch.splitRecord
  rw [hp]
  cases hr : b.runs with
  | none =>
    have h5 : p < (b.recs.map fun _ => (none : Option Nat)).length := by simpa using h1
    have c2 : ¬ (p + 1 > ((b.recs.map fun _ => (none : Option Nat)).set p (some h.size)).length) := by
      simp only [List.length_set]; omega
    by_cases hl : (lookup b.split (keyOf b.pos[p])).isNone = true
    · simp only [bind, Except.bind, idx_ok _ h3, idx_ok _ h1, pure, Except.pure, c1, if_false, Option.getD_none, Option.getD_some, hne,
        Bool.false_eq_true, hr, setAt_ok _ _ h5, c2, hl, if_true]
      simp only [splitTail, withNewRun, newRun, hr, Option.getD_none, List.getElem?_eq_getElem h3, List.getElem?_eq_getElem h1, Option.getD_some, hl, if_true]
    · simp only [bind, Except.bind, idx_ok _ h3, idx_ok _ h1, pure, Except.pure, c1, if_false, Option.getD_none, Option.getD_some, hne,
        Bool.false_eq_true, hr, setAt_ok _ _ h5, c2, hl]
      simp only [splitTail, withNewRun, newRun, hr, Option.getD_none, List.getElem?_eq_getElem h3, List.getElem?_eq_getElem h1, Option.getD_some, hl, if_false, Bool.false_eq_true]
  | some rs =>
    obtain ⟨hlen, hnone⟩ := hruns rs hr
    have e1 : idx rs p "runs[i]" = .ok none := idx_eq_ok_iff.mpr hnone
    have h5 : p < rs.length := by omega
    have c2 : ¬ (p + 1 > (rs.set p (some h.size)).length) := by
      simp only [List.length_set]; omega
    by_cases hl : (lookup b.split (keyOf b.pos[p])).isNone = true
    · simp only [bind, Except.bind, idx_ok _ h3, idx_ok _ h1, pure, Except.pure, c1, if_false, Option.getD_some, hne,
        Bool.false_eq_true, hr, setAt_ok _ _ h5, c2, hl, if_true, e1]
      simp only [splitTail, withNewRun, newRun, hr, List.getElem?_eq_getElem h3, List.getElem?_eq_getElem h1, Option.getD_some, hl, if_true]
    · simp only [bind, Except.bind, idx_ok _ h3, idx_ok _ h1, pure, Except.pure, c1, if_false, Option.getD_some, hne,
        Bool.false_eq_true, hr, setAt_ok _ _ h5, c2, hl, e1]
      simp only [splitTail, withNewRun, newRun, hr, List.getElem?_eq_getElem h3, List.getElem?_eq_getElem h1, Option.getD_some, hl, if_false, Bool.false_eq_true]

/-! ### attaching a fresh run -/

theorem withNewRun_WF {h : Heap} {b : Batch} (hwf : b.WF h) {p : Nat} (hp : p < b.pos.length) (x : SplitRun) :
    (withNewRun b p h.size).WF (h.push x) := by
  have ha := hwf.1
  refine ⟨⟨ha.st_len, ha.pos_len, ?_, ?_⟩, hwf.2⟩
  · show runsOK _ b.recs.length (some ((b.runs.getD (b.recs.map fun _ => none)).set p (some h.size)))
    have hro := ha.runs_ok
    refine ⟨?_, ?_⟩
    · rw [List.length_set]
      cases hr : b.runs with
      | none => simp
      | some rs => rw [hr] at hro; simpa using hro.1
    · intro r hm
      rcases List.mem_or_eq_of_mem_set hm with hm | rfl
      · cases hr : b.runs with
        | none =>
          rw [hr] at hm
          simp only [Option.getD_none, List.mem_map] at hm
          obtain ⟨_, _, rfl⟩ := hm
          rfl
        | some rs =>
          rw [hr] at hm hro
          exact runIdOK_mono (by simp) (hro.2 r hm)
      · simp [runIdOK]
  · intro kv hkv
    have hmem : b.pos[p]?.getD none ∈ b.pos := by
      rw [List.getElem?_eq_getElem hp]; exact List.getElem_mem hp
    by_cases hl : (lookup b.split (keyOf (b.pos[p]?.getD none))).isNone = true
    · have hkv' : kv ∈ b.split ++ [(keyOf (b.pos[p]?.getD none), b.recs[p]?.getD default)] := by
        simpa [withNewRun, hl] using hkv
      rcases List.mem_append.mp hkv' with hkv' | hkv'
      · exact ha.split_keys kv hkv'
      · rw [List.mem_singleton.mp hkv']
        exact ⟨_, hmem, rfl⟩
    · have hkv' : kv ∈ b.split := by simpa [withNewRun, hl] using hkv
      exact ha.split_keys kv hkv'

theorem withNewRun_splittable {b : Batch} {p rid q : Nat}
    (hs : b.splittableAt q = true) : (withNewRun b p rid).splittableAt q = true := by
  have hrun : (b.runAt q).isSome = true → ((withNewRun b p rid).runAt q).isSome = true := by
    intro h
    cases hr : b.runs with
    | none => simp [Batch.runAt, hr] at h
    | some rs =>
      simp only [Batch.runAt, hr] at h
      simp only [Batch.runAt, withNewRun, hr, Option.getD_some, List.getElem?_set]
      by_cases hpq : p = q
      · subst hpq
        have : p < rs.length := by
          cases hx : rs[p]? with
          | none => rw [hx] at h; simp at h
          | some _ => exact (List.getElem?_eq_some_iff.mp hx).1
        simp [this]
      · simpa [hpq] using h
  simp only [Batch.splittableAt, Bool.or_eq_true] at hs ⊢
  rcases hs with hs | hs
  · exact .inl hs
  · exact .inr (hrun hs)

theorem below_withNewRun (i : Nat) (b : Batch) (p rid : Nat) : Below i b (withNewRun b p rid) :=
  ⟨fun _ _ => rfl, fun _ _ _ _ hs => withNewRun_splittable hs⟩

theorem splitNew_post {h : Heap} {b : Batch} (hwf : b.WF h) {i p : Nat} (hip : (actList b.st)[i]? = some p)
    {recs : List Rec} (hr : 1 ≤ recs.length) :
    SplitPost h b i p recs (splitTail (h.push (newRun b p)) (withNewRun b p h.size) p h.size recs).1
      (splitTail (h.push (newRun b p)) (withNewRun b p h.size) p h.size recs).2 := by
  have hp : p < b.pos.length := by
    have := (actList_getElem?_iff.mp hip).1
    rw [hwf.1.pos_len, ← hwf.1.st_len]; exact this
  have hwf1 := withNewRun_WF hwf hp (newRun b p)
  have hpost := splitTail_post hwf1 (i := i) (p := p) hip (rs := _) rfl (rid := h.size) (by simp) hr
  obtain ⟨w, s, e1, e2, e3, e4, e5, bl, na⟩ := hpost
  have hs : h.size ≤ (h.push (newRun b p)).size := by simp
  exact ⟨w, Nat.le_trans hs s, e1, e2, e3, e4, e5, Below.trans (Nat.le_refl i) (below_withNewRun i b p h.size) bl, na⟩

/-! ### the theorems -/

theorem splitRecord_ok_aux {h : Heap} {b : Batch} (hwf : b.WF h) {i p : Nat} (hip : (actList b.st)[i]? = some p)
    {recs : List Rec} (hs : b.splittableAt p = true) (hr : 1 ≤ recs.length) :
    ∃ (h' : Heap) (b' : Batch), b.splitRecord h i recs = .ok (h', b') ∧ SplitPost h b i p recs h' b' := by
  obtain ⟨hi, hpe⟩ := List.getElem?_eq_some_iff.mp hip
  have hphys := phys_ok hwf.2 hi
  rw [hpe] at hphys
  have h2 : p < b.st.length := (actList_getElem?_iff.mp hip).1
  have h1 : p < b.recs.length := by rw [← hwf.1.st_len]; exact h2
  have h3 : p < b.pos.length := by rw [hwf.1.pos_len]; exact h1
  have hro := hwf.1.runs_ok
  by_cases hrun : ∃ rs r, b.runs = some rs ∧ rs[p]? = some (some r)
  · obtain ⟨rs, r, hruns, hrs⟩ := hrun
    rw [hruns] at hro
    have hrid : r < h.size := by
      have := hro.2 (some r) (List.mem_of_getElem? hrs)
      simpa [runIdOK] using this
    exact ⟨_, _, splitRecord_existing hphys h1 h2 h3 hruns hrs, splitTail_post hwf hip hruns hrid hr⟩
  · have hruns : ∀ rs, b.runs = some rs → rs.length = b.recs.length ∧ rs[p]? = some none := by
      intro rs hruns
      rw [hruns] at hro
      refine ⟨hro.1, ?_⟩
      have hlt : p < rs.length := by rw [hro.1]; exact h1
      rw [List.getElem?_eq_getElem hlt]
      cases hx : rs[p] with
      | none => rfl
      | some r => exact absurd ⟨rs, r, hruns, by rw [List.getElem?_eq_getElem hlt, hx]⟩ hrun
    have hra : b.runAt p = none := by
      unfold Batch.runAt
      cases hr' : b.runs with
      | none => rfl
      | some rs => simp [(hruns rs hr').2]
    have hpos : b.pos[p]? ≠ some none := by
      simpa [Batch.splittableAt, hra] using hs
    exact ⟨_, _, splitRecord_new hphys h1 h2 h3 hruns hpos, splitNew_post hwf hip hr⟩

/-- `SplitRecord` is total under the `splittable` guard, keeps the invariant, grows the four
parallel slices in lockstep and leaves everything below active index `i` alone. -/
theorem splitRecord_ok {h : Heap} {b : Batch} (hwf : b.WF h) {i : Nat} (hi : i < b.nAct) {recs : List Rec}
    (hs : b.splittableAt ((actList b.st)[i]'hi) = true) (hr : 1 ≤ recs.length) :
    ∃ (h' : Heap) (b' : Batch), b.splitRecord h i recs = .ok (h', b') ∧ b'.WF h' ∧ h.size ≤ h'.size ∧
      b'.recs = b.recs.take ((actList b.st)[i]'hi) ++ recs ++ b.recs.drop ((actList b.st)[i]'hi + 1) ∧
      b'.st = b.st.take ((actList b.st)[i]'hi + 1) ++ List.replicate (recs.length - 1) ({} : Status) ++ b.st.drop ((actList b.st)[i]'hi + 1) ∧
      b'.pos = b.pos.take ((actList b.st)[i]'hi + 1) ++ List.replicate (recs.length - 1) none ++ b.pos.drop ((actList b.st)[i]'hi + 1) ∧
      b'.filterCount = b.filterCount ∧ b'.tainted = b.tainted ∧
      Below i b b' ∧ b'.nAct = b.nAct + (recs.length - 1) := by
  obtain ⟨h', b', e, hpost⟩ := splitRecord_ok_aux hwf (List.getElem?_eq_getElem hi) hs hr
  exact ⟨h', b', e, hpost⟩

/-- the guard is necessary: without a position and without a run, `SplitRecord` panics. -/
theorem splitRecord_panics_of_not_splittable {h : Heap} {b : Batch} (hwf : b.WF h) {i : Nat} (hi : i < b.nAct)
    {recs : List Rec} (hs : b.splittableAt ((actList b.st)[i]'hi) = false) :
    ∃ m, b.splitRecord h i recs = .error (.panic m) := by
  have hphys := phys_ok hwf.2 hi
  have h2 : (actList b.st)[i] < b.st.length := actList_lt hi
  generalize (actList b.st)[i] = p at hphys h2 hs
  have h1 : p < b.recs.length := by rw [← hwf.1.st_len]; exact h2
  have h3 : p < b.pos.length := by rw [hwf.1.pos_len]; exact h1
  have hro := hwf.1.runs_ok
  simp only [Batch.splittableAt, Bool.or_eq_false_iff] at hs
  obtain ⟨hpos, hrun⟩ := hs
  have hne : (b.pos[p] == none) = true := by
    rw [List.getElem?_eq_getElem h3] at hpos
    cases hx : b.pos[p] with
    | none => rfl
    | some k => rw [hx] at hpos; simp at hpos
  unfold Batch.splitRecord
  rw [hphys]
  cases hr : b.runs with
  | none =>
    simp only [bind, Except.bind, idx_ok _ h3, pure, Except.pure, hne, if_true]
    exact ⟨_, rfl⟩
  | some rs =>
    rw [hr] at hro
    have hlt : p < rs.length := by rw [hro.1]; exact h1
    have e1 : idx rs p "runs[i]" = .ok none := by
      apply idx_eq_ok_iff.mpr
      simp only [Batch.runAt, hr, List.getElem?_eq_getElem hlt, Option.join_some] at hrun
      rw [List.getElem?_eq_getElem hlt]
      cases hx : rs[p] with
      | none => rfl
      | some r => rw [hx] at hrun; simp at hrun
    simp only [bind, Except.bind, idx_ok _ h3, pure, Except.pure, hne, if_true, e1]
    exact ⟨_, rfl⟩

end Conduit.Funnel
