import ConduitModel.Proofs.BatchFlags

/-!
# `NewBatch`, `sub`, `originalBatch`, `clone` keep the batch invariant (C08 / C09)

* `new_WF` — `NewBatch` establishes `Batch.WF`.
* `sub_ok` / `sub_panics` — `sub(from, to)` is total exactly on in-range bounds, the slice is
  well-formed and is the expected slice of every parallel list.
* `original_WF` / `original_of_split_nil` — `originalBatch()`.
* `clone_WF` / `clone_copy` — `clone()` (`cloneRuns`): well-formed in the grown heap, same shape,
  old runs untouched, new runs are fresh copies, sharing preserved.
Core-only.
-/
namespace Conduit.Funnel

/-! ### `NewBatch` -/

theorem countFilter_map_default {α} (l : List α) : countFilter (l.map fun _ => ({} : Status)) = 0 := by
  induction l with
  | nil => rfl
  | cons a l ih => rw [List.map_cons, countFilter_cons, ih]; rfl

theorem new_WF (h : Heap) (recs : List Rec) : (Batch.new recs).WF h := by
  refine ⟨⟨?_, ?_, ?_, ?_⟩, ?_⟩
  · simp [Batch.new]
  · simp [Batch.new]
  · simp [Batch.new, runsOK, runIdOK]
  · intro kv hkv; simp [Batch.new] at hkv
  · show 0 = countFilter (recs.map fun _ => ({} : Status))
    rw [countFilter_map_default]

/-! ### `sub` -/

theorem countFilter_sublist {a c : List Status} (hs : a.Sublist c) : countFilter a ≤ countFilter c := by
  unfold countFilter
  exact (hs.filter _).length_le

theorem countFilter_sl_zero {st : List Status} (h : countFilter st = 0) (from_ to : Nat) :
    countFilter ((st.take to).drop from_) = 0 := by
  have := countFilter_sublist ((List.drop_sublist from_ (st.take to)).trans (List.take_sublist to st))
  omega

theorem foldl_keys {β} (f : List (Nat × β) → PosV → List (Nat × β))
    (hf : ∀ acc p, ∀ kv ∈ f acc p, kv ∈ acc ∨ keyOf p = kv.1) (ps : List PosV) (acc : List (Nat × β)) :
    ∀ kv ∈ ps.foldl f acc, kv ∈ acc ∨ ∃ p ∈ ps, keyOf p = kv.1 := by
  induction ps generalizing acc with
  | nil => intro kv hkv; exact Or.inl hkv
  | cons p ps ih =>
    intro kv hkv
    rw [List.foldl_cons] at hkv
    rcases ih _ kv hkv with hm | ⟨q, hq, hqk⟩
    · rcases hf acc p kv hm with hm | hm
      · exact Or.inl hm
      · exact Or.inr ⟨p, List.mem_cons_self, hm⟩
    · exact Or.inr ⟨q, List.mem_cons_of_mem _ hq, hqk⟩

theorem ite_foldl_keys {β} (c : Prop) [Decidable c] (f : List (Nat × β) → PosV → List (Nat × β))
    (hf : ∀ acc p, ∀ kv ∈ f acc p, kv ∈ acc ∨ keyOf p = kv.1) (ps : List PosV) :
    ∀ kv ∈ (if c then ps.foldl f [] else []), ∃ p ∈ ps, keyOf p = kv.1 := by
  intro kv hkv
  by_cases hc : c
  · simp only [hc, if_true] at hkv
    rcases foldl_keys f hf ps [] kv hkv with hm | hm
    · cases hm
    · exact hm
  · simp only [hc, if_false] at hkv; cases hkv

/-- the invariant of a slice `[from_, to)` of a well-formed batch, whatever the (correctly keyed)
rebuilt `splitRecords` map is. -/
theorem slice_WF {h : Heap} {b : Batch} (hwf : b.WF h) {from_ to : Nat} (hft : from_ ≤ to) (hto : to ≤ b.recs.length)
    {runs' : Option (List (Option Nat))} {split' : List (Nat × Rec)}
    (hr : runs' = b.runs.map (fun rs => (rs.take to).drop from_))
    (hsp : ∀ kv ∈ split', ∃ p ∈ (b.pos.take to).drop from_, keyOf p = kv.1) :
    Batch.WF h { recs := (b.recs.take to).drop from_, st := (b.st.take to).drop from_, pos := (b.pos.take to).drop from_,
                 runs := runs',
                 filterCount := if b.filterCount > 0 then countFilter ((b.st.take to).drop from_) else 0,
                 tainted := false, split := split' } := by
  obtain ⟨⟨hst, hpos, hruns, _⟩, hfc⟩ := hwf
  refine ⟨⟨?_, ?_, ?_, hsp⟩, ?_⟩
  · simp; omega
  · simp; omega
  · subst hr
    cases hb : b.runs with
    | none => trivial
    | some rs =>
      rw [hb] at hruns
      refine ⟨?_, ?_⟩
      · simp; have := hruns.1; omega
      · intro r hm
        exact hruns.2 r ((List.take_sublist to rs).subset ((List.drop_sublist from_ _).subset hm))
  · show (if b.filterCount > 0 then countFilter ((b.st.take to).drop from_) else 0) = countFilter ((b.st.take to).drop from_)
    by_cases hz : b.filterCount > 0
    · simp only [hz, if_true]
    · simp only [hz, if_false]
      rw [countFilter_sl_zero (by omega)]

theorem sub_ok {h : Heap} {b : Batch} (hwf : b.WF h) {from_ to : Nat} (hft : from_ ≤ to) (hto : to ≤ b.recs.length) :
    ∃ b' : Batch, b.sub from_ to = .ok b' ∧ b'.WF h ∧
      b'.recs = (b.recs.take to).drop from_ ∧ b'.st = (b.st.take to).drop from_ ∧ b'.pos = (b.pos.take to).drop from_ ∧
      b'.runs = b.runs.map (fun rs => (rs.take to).drop from_) ∧ b'.tainted = false := by
  have hst := hwf.1.st_len
  have hpos := hwf.1.pos_len
  have hruns := hwf.1.runs_ok
  have hc : ¬ (from_ > to ∨ to > b.recs.length ∨ to > b.st.length ∨ to > b.pos.length) := by omega
  have hgt : ∀ rs, b.runs = some rs → ¬ to > rs.length := by
    intro rs hr; rw [hr] at hruns; have := hruns.1; omega
  unfold Batch.sub
  simp only [hc, if_false]
  rcases hr : b.runs with _ | rs
  · simp only [bind, Except.bind, pure, Except.pure]
    refine ⟨_, rfl, slice_WF hwf hft hto (by rw [hr]; rfl) ?_, rfl, rfl, rfl, rfl, rfl⟩
    apply ite_foldl_keys
    intro acc p kv hkv
    by_cases hpn : (p == none) = true
    · simp only [hpn, if_true] at hkv; exact Or.inl hkv
    · simp only [hpn] at hkv
      cases hlk : lookup b.split (keyOf p) with
      | none => rw [hlk] at hkv; exact Or.inl hkv
      | some r =>
        rw [hlk] at hkv
        by_cases hl : (lookup acc (keyOf p)).isSome = true
        · simp only [hl, if_true] at hkv; exact Or.inl hkv
        · simp only [hl] at hkv
          rcases List.mem_append.mp hkv with hm | hm
          · exact Or.inl hm
          · simp at hm; rw [hm]; exact Or.inr rfl
  · simp only [hgt rs hr, if_false, bind, Except.bind, pure, Except.pure]
    refine ⟨_, rfl, slice_WF hwf hft hto (by rw [hr]; rfl) ?_, rfl, rfl, rfl, rfl, rfl⟩
    apply ite_foldl_keys
    intro acc p kv hkv
    by_cases hpn : (p == none) = true
    · simp only [hpn, if_true] at hkv; exact Or.inl hkv
    · simp only [hpn] at hkv
      cases hlk : lookup b.split (keyOf p) with
      | none => rw [hlk] at hkv; exact Or.inl hkv
      | some r =>
        rw [hlk] at hkv
        by_cases hl : (lookup acc (keyOf p)).isSome = true
        · simp only [hl, if_true] at hkv; exact Or.inl hkv
        · simp only [hl] at hkv
          rcases List.mem_append.mp hkv with hm | hm
          · exact Or.inl hm
          · simp at hm; rw [hm]; exact Or.inr rfl

theorem sub_panics {b : Batch} {from_ to : Nat} (hbad : from_ > to ∨ to > b.recs.length) :
    ∃ m, b.sub from_ to = .error (.panic m) := by
  have hc : (from_ > to ∨ to > b.recs.length ∨ to > b.st.length ∨ to > b.pos.length) := by omega
  unfold Batch.sub
  simp only [hc, if_true]
  exact ⟨_, rfl⟩

/-! ### `originalBatch` -/

theorem map_snd_zip_sublist {α β} (a : List α) (c : List β) : ((a.zip c).map Prod.snd).Sublist c := by
  induction a generalizing c with
  | nil => simp
  | cons x a ih =>
    cases c with
    | nil => simp
    | cons y c => simp [ih]

/-- the statuses of the rows kept by `originalBatch` are a sublist of the batch's statuses. -/
theorem rows_st_sublist (pos : List PosV) (recs : List Rec) (st : List Status)
    (q : PosV × Rec × Status → Bool) (g : PosV × Rec × Status → Status) (hg : ∀ p r s, g (p, r, s) = s) :
    (((pos.zip (recs.zip st)).filter q).map g).Sublist st := by
  have : g = fun x => x.2.2 := funext (fun ⟨p, r, s⟩ => hg p r s)
  subst this
  refine (List.filter_sublist.map _).trans ?_
  have h1 := map_snd_zip_sublist pos (recs.zip st)
  have h2 := map_snd_zip_sublist recs st
  have h3 := (h1.map Prod.snd).trans h2
  rw [List.map_map] at h3
  exact h3

theorem original_of_split_nil {b : Batch} (hs : b.split = []) : b.original = b := by
  unfold Batch.original
  simp [hs]

theorem original_WF {h : Heap} {b : Batch} (hwf : b.WF h) : b.original.WF h := by
  unfold Batch.original
  by_cases hs : b.split.length = 0
  · simp only [hs, if_true]; exact hwf
  · simp only [hs, if_false]
    refine ⟨⟨?_, ?_, ?_, ?_⟩, ?_⟩
    · simp
    · simp
    · refine ⟨by simp, ?_⟩
      intro r hr
      simp at hr
      rw [← hr.2]; rfl
    · intro kv hkv; cases hkv
    · by_cases hz : b.filterCount > 0
      · simp only [hz, if_true]
      · simp only [hz, if_false]
        have h0 : countFilter b.st = 0 := by have := hwf.2; omega
        apply Eq.symm
        apply Nat.le_zero.mp
        refine Nat.le_trans ?_ (Nat.le_of_eq h0)
        apply countFilter_sublist
        apply rows_st_sublist
        intro p r s; rfl

/-! ### `clone` -/

/-- accumulator of `cloneRuns`: the heap, the `seen` map (old id ↦ new id), the new `runs`. -/
abbrev CloneAcc := Heap × List (Nat × Nat) × List (Option Nat)

/-- one iteration of `cloneRuns` -/
def cloneStep (acc : CloneAcc) (r : Option Nat) : CloneAcc :=
  match r with
  | none => (acc.1, acc.2.1, acc.2.2 ++ [none])
  | some id =>
    match acc.2.1.find? (·.1 == id) with
    | some kv => (acc.1, acc.2.1, acc.2.2 ++ [some kv.2])
    | none => (acc.1.push acc.1[id]!, acc.2.1 ++ [(id, acc.1.size)], acc.2.2 ++ [some acc.1.size])

theorem foldl_cloneStep_eq (f : CloneAcc → Option Nat → CloneAcc) (hf : ∀ acc r, f acc r = cloneStep acc r)
    (a : CloneAcc) (rs : List (Option Nat)) : List.foldl f a rs = List.foldl cloneStep a rs := by
  have : f = cloneStep := funext fun acc => funext fun r => hf acc r
  rw [this]

/-- what one `cloneRuns` iteration does to the accumulator. -/
theorem cloneStep_spec (acc : CloneAcc) (r : Option Nat) (hseen : ∀ kv ∈ acc.2.1, kv.2 < acc.1.size) :
    ∃ o : Option Nat, (cloneStep acc r).2.2 = acc.2.2 ++ [o] ∧ o.isSome = r.isSome ∧
      runIdOK (cloneStep acc r).1 o = true ∧ acc.1.size ≤ (cloneStep acc r).1.size ∧
      ∀ kv ∈ (cloneStep acc r).2.1, kv.2 < (cloneStep acc r).1.size := by
  obtain ⟨h, seen, out⟩ := acc
  cases r with
  | none => exact ⟨none, rfl, rfl, rfl, Nat.le_refl _, hseen⟩
  | some id =>
    unfold cloneStep
    cases hfd : seen.find? (·.1 == id) with
    | some kv =>
      simp only [hfd]
      refine ⟨some kv.2, rfl, rfl, ?_, Nat.le_refl _, hseen⟩
      have := hseen kv (List.mem_of_find?_eq_some hfd)
      simpa [runIdOK] using this
    | none =>
      simp only [hfd]
      refine ⟨some h.size, rfl, rfl, ?_, ?_, ?_⟩
      · simp [runIdOK]
      · simp
      · intro kv hkv
        rcases List.mem_append.mp hkv with hm | hm
        · have := hseen kv hm; simp at this ⊢; omega
        · simp at hm; subst hm; simp

/-- the `cloneRuns` loop: the new `runs` is as long as the old, nil exactly where the old is, refers
only to allocated runs, and the heap only grows. -/
theorem cloneFold_spec (rs : List (Option Nat)) (acc : CloneAcc)
    (hseen : ∀ kv ∈ acc.2.1, kv.2 < acc.1.size) (hout : ∀ r ∈ acc.2.2, runIdOK acc.1 r = true) :
    ∃ out' : List (Option Nat), (rs.foldl cloneStep acc).2.2 = acc.2.2 ++ out' ∧ out'.length = rs.length ∧
      (∀ k : Nat, (out'[k]?).join.isSome = (rs[k]?).join.isSome) ∧
      acc.1.size ≤ (rs.foldl cloneStep acc).1.size ∧
      (∀ r ∈ (rs.foldl cloneStep acc).2.2, runIdOK (rs.foldl cloneStep acc).1 r = true) ∧
      ∀ kv ∈ (rs.foldl cloneStep acc).2.1, kv.2 < (rs.foldl cloneStep acc).1.size := by
  induction rs generalizing acc with
  | nil => exact ⟨[], by simp, rfl, fun _ => rfl, Nat.le_refl _, hout, hseen⟩
  | cons r rs ih =>
    obtain ⟨o, ho, hsome, hok, hsz, hseen'⟩ := cloneStep_spec acc r hseen
    have hout' : ∀ x ∈ (cloneStep acc r).2.2, runIdOK (cloneStep acc r).1 x = true := by
      intro x hx
      rw [ho] at hx
      rcases List.mem_append.mp hx with hm | hm
      · exact runIdOK_mono hsz (hout x hm)
      · simp at hm; subst hm; exact hok
    obtain ⟨out', h1, h2, h3, h4, h5, h6⟩ := ih (cloneStep acc r) hseen' hout'
    rw [List.foldl_cons]
    refine ⟨o :: out', ?_, by simp [h2], ?_, Nat.le_trans hsz h4, h5, h6⟩
    · rw [h1, ho]; simp
    · intro k
      cases k with
      | zero => cases o <;> cases r <;> simp_all
      | succ k => simpa using h3 k

/-- `Batch.clone` in terms of `cloneStep`. -/
theorem clone_eq (h : Heap) (b : Batch) :
    b.clone h = match b.runs with
      | none => (h, b)
      | some rs => ((rs.foldl cloneStep (h, [], [])).1, { b with runs := some (rs.foldl cloneStep (h, [], [])).2.2 }) := by
  unfold Batch.clone
  cases b.runs with
  | none => rfl
  | some rs =>
    dsimp only
    rw [foldl_cloneStep_eq]
    rintro ⟨h1, seen, out⟩ r
    cases r with
    | none => rfl
    | some id =>
      unfold cloneStep
      cases hfd : seen.find? (·.1 == id) with
      | none => simp only [hfd]
      | some kv => simp only [hfd]

theorem clone_WF {h : Heap} {b : Batch} (hwf : b.WF h) :
    (b.clone h).2.WF (b.clone h).1 ∧ h.size ≤ (b.clone h).1.size ∧
      (b.clone h).2.recs = b.recs ∧ (b.clone h).2.st = b.st ∧ (b.clone h).2.pos = b.pos ∧
      (b.clone h).2.filterCount = b.filterCount ∧ (b.clone h).2.split = b.split ∧ (b.clone h).2.tainted = b.tainted ∧
      (∀ p : Nat, ((b.clone h).2.runAt p).isSome = (b.runAt p).isSome) := by
  rw [clone_eq]
  cases hr : b.runs with
  | none =>
    exact ⟨hwf, Nat.le_refl _, rfl, rfl, rfl, rfl, rfl, rfl, fun _ => rfl⟩
  | some rs =>
    dsimp only
    obtain ⟨out', h1, h2, h3, h4, h5, h6⟩ := cloneFold_spec rs (h, [], []) (by intro kv hkv; cases hkv) (by intro r hr; cases hr)
    generalize List.foldl cloneStep (h, [], []) rs = res at *
    obtain ⟨h', seen, out⟩ := res
    simp only [List.nil_append] at h1
    subst h1
    have hro := hwf.1.runs_ok
    rw [hr] at hro
    refine ⟨⟨⟨hwf.1.st_len, hwf.1.pos_len, ⟨by rw [h2]; exact hro.1, h5⟩, hwf.1.split_keys⟩, hwf.2⟩, h4, rfl, rfl, rfl, rfl, rfl, rfl, ?_⟩
    intro p
    simp only [Batch.runAt, hr]
    exact h3 p


/-! ### `clone`: sharing is preserved and the new runs are copies -/

theorem push_get_lt (h : Heap) (x : SplitRun) {i : Nat} (hi : i < h.size) : (h.push x)[i]! = h[i]! := by
  simp [getElem!_pos, hi, Nat.lt_succ_of_lt hi, Array.getElem_push_lt]

theorem push_get_size (h : Heap) (x : SplitRun) : (h.push x)[h.size]! = x := by
  simp

/-- old entry `r` of `runs` and its clone `o`, given the `seen` map -/
def cloneRel (seen : List (Nat × Nat)) : Option Nat → Option Nat → Prop
  | none, none => True
  | some id, some nid => (id, nid) ∈ seen
  | _, _ => False

theorem cloneRel_mono {seen seen' : List (Nat × Nat)} (hs : ∀ kv ∈ seen, kv ∈ seen') {r o : Option Nat}
    (h : cloneRel seen r o) : cloneRel seen' r o := by
  cases r <;> cases o <;> simp_all [cloneRel]

/-- loop invariant of `cloneRuns` after the entries `done` of the old `runs`, from heap `h0`. -/
structure CloneInv (h0 : Heap) (done : List (Option Nat)) (acc : CloneAcc) : Prop where
  size_le : h0.size ≤ acc.1.size
  prefix_eq : ∀ i : Nat, i < h0.size → acc.1[i]! = h0[i]!
  seen_ok : ∀ kv ∈ acc.2.1, kv.1 < h0.size ∧ h0.size ≤ kv.2 ∧ kv.2 < acc.1.size ∧ acc.1[kv.2]! = h0[kv.1]!
  seen_inj : ∀ kv ∈ acc.2.1, ∀ kv' ∈ acc.2.1, (kv.1 = kv'.1 ↔ kv.2 = kv'.2)
  len : acc.2.2.length = done.length
  rel : ∀ ro ∈ done.zip acc.2.2, cloneRel acc.2.1 ro.1 ro.2

theorem CloneInv.step {h0 : Heap} {done : List (Option Nat)} {acc : CloneAcc} (inv : CloneInv h0 done acc)
    {r : Option Nat} (hr : ∀ id, r = some id → id < h0.size) : CloneInv h0 (done ++ [r]) (cloneStep acc r) := by
  obtain ⟨h, seen, out⟩ := acc
  obtain ⟨h1, h2, h3, h4, h5, h6⟩ := inv
  simp only at h1 h2 h3 h4 h5 h6
  cases r with
  | none =>
    refine ⟨h1, h2, h3, h4, by simp [cloneStep, h5], ?_⟩
    intro ro hro
    simp only [cloneStep] at hro ⊢
    rw [List.zip_append h5.symm] at hro
    rcases List.mem_append.mp hro with hm | hm
    · exact h6 ro hm
    · simp at hm; subst hm; trivial
  | some id =>
    have hid := hr id rfl
    unfold cloneStep
    cases hfd : seen.find? (·.1 == id) with
    | some kv =>
      simp only [hfd]
      have hmem := List.mem_of_find?_eq_some hfd
      have hk : kv.1 = id := by simpa using List.find?_some hfd
      refine ⟨h1, h2, h3, h4, by simp [h5], ?_⟩
      intro ro hro
      simp only at hro ⊢
      rw [List.zip_append h5.symm] at hro
      rcases List.mem_append.mp hro with hm | hm
      · exact h6 ro hm
      · simp at hm; subst hm; show (id, kv.2) ∈ seen; rw [← hk]; exact hmem
    | none =>
      simp only [hfd]
      have hnone : ∀ kv ∈ seen, kv.1 ≠ id := by
        intro kv hkv; simpa using List.find?_eq_none.mp hfd kv hkv
      refine ⟨by simp; omega, ?_, ?_, ?_, by simp [h5], ?_⟩
      · intro i hi
        show (h.push h[id]!)[i]! = h0[i]!
        rw [push_get_lt h _ (by omega)]; exact h2 i hi
      · intro kv hkv
        show kv.1 < h0.size ∧ h0.size ≤ kv.2 ∧ kv.2 < (h.push h[id]!).size ∧ (h.push h[id]!)[kv.2]! = h0[kv.1]!
        rcases List.mem_append.mp hkv with hm | hm
        · obtain ⟨a, c, d, e⟩ := h3 kv hm
          refine ⟨a, c, by simp; omega, ?_⟩
          rw [push_get_lt h _ d]; exact e
        · simp at hm; subst hm
          refine ⟨hid, h1, by simp, ?_⟩
          show (h.push h[id]!)[h.size]! = h0[id]!
          rw [push_get_size]; exact h2 id hid
      · intro kv hkv kv' hkv'
        rcases List.mem_append.mp hkv with hm | hm <;> rcases List.mem_append.mp hkv' with hm' | hm'
        · exact h4 kv hm kv' hm'
        · simp at hm'; subst hm'
          have := hnone kv hm; have := (h3 kv hm).2.2.1
          constructor <;> intro hh <;> simp at hh <;> omega
        · simp at hm; subst hm
          have := hnone kv' hm'; have := (h3 kv' hm').2.2.1
          constructor <;> intro hh <;> simp at hh <;> omega
        · simp at hm hm'; subst hm; subst hm'; simp
      · intro ro hro
        simp only at hro ⊢
        rw [List.zip_append h5.symm] at hro
        rcases List.mem_append.mp hro with hm | hm
        · exact cloneRel_mono (fun kv hkv => List.mem_append_left _ hkv) (h6 ro hm)
        · simp at hm; subst hm; show (id, h.size) ∈ seen ++ [(id, h.size)]; simp

theorem CloneInv.fold {h0 : Heap} (rs : List (Option Nat)) (hrs : ∀ id, some id ∈ rs → id < h0.size)
    {done : List (Option Nat)} {acc : CloneAcc} (inv : CloneInv h0 done acc) :
    CloneInv h0 (done ++ rs) (rs.foldl cloneStep acc) := by
  induction rs generalizing done acc with
  | nil => simpa using inv
  | cons r rs ih =>
    have := ih (fun id hm => hrs id (List.mem_cons_of_mem _ hm))
      (inv.step (r := r) (fun id he => hrs id (by rw [he]; exact List.mem_cons_self)))
    simpa using this


theorem CloneInv.entry {h0 : Heap} {rs : List (Option Nat)} {acc : CloneAcc} (inv : CloneInv h0 rs acc)
    {k id : Nat} (hk : rs[k]? = some (some id)) : ∃ nid, acc.2.2[k]? = some (some nid) ∧ (id, nid) ∈ acc.2.1 := by
  have hlt : k < rs.length := (List.getElem?_eq_some_iff.mp hk).1
  have hlt' : k < acc.2.2.length := by rw [inv.len]; exact hlt
  have hz : (rs.zip acc.2.2)[k]? = some (some id, acc.2.2[k]) :=
    List.getElem?_zip_eq_some.mpr ⟨hk, List.getElem?_eq_getElem hlt'⟩
  have hrel := inv.rel _ (List.mem_of_getElem? hz)
  cases ho : acc.2.2[k] with
  | none => rw [ho] at hrel; exact hrel.elim
  | some nid =>
    rw [ho] at hrel
    exact ⟨nid, by rw [List.getElem?_eq_getElem hlt', ho], hrel⟩

theorem runAt_some_iff {b : Batch} {rs : List (Option Nat)} (hr : b.runs = some rs) {k id : Nat} :
    b.runAt k = some id ↔ rs[k]? = some (some id) := by
  simp [Batch.runAt, hr, Option.join_eq_some_iff]

/-- `clone` leaves the existing runs alone, gives every record that had a run a fresh copy of it,
and two records share their new run iff they shared the old one. -/
theorem clone_copy {h : Heap} {b : Batch} (hwf : b.WF h) :
    (∀ i : Nat, i < h.size → (b.clone h).1[i]! = h[i]!) ∧
    (∀ k id : Nat, b.runAt k = some id → ∃ nid, (b.clone h).2.runAt k = some nid ∧ h.size ≤ nid ∧
        nid < (b.clone h).1.size ∧ (b.clone h).1[nid]! = h[id]!) ∧
    (∀ k l id id' nid nid' : Nat, b.runAt k = some id → b.runAt l = some id' →
        (b.clone h).2.runAt k = some nid → (b.clone h).2.runAt l = some nid' → (id = id' ↔ nid = nid')) := by
  rw [clone_eq]
  cases hr : b.runs with
  | none =>
    refine ⟨fun _ _ => rfl, ?_, ?_⟩
    · intro k id hk; simp [Batch.runAt, hr] at hk
    · intro k l id id' nid nid' hk; simp [Batch.runAt, hr] at hk
  | some rs =>
    dsimp only
    have hro := hwf.1.runs_ok
    rw [hr] at hro
    have hrs : ∀ id, some id ∈ rs → id < h.size := by
      intro id hm; simpa [runIdOK] using hro.2 _ hm
    have inv0 : CloneInv h [] (h, [], []) :=
      ⟨Nat.le_refl _, fun _ _ => rfl, (by intro kv hkv; cases hkv), (by intro kv hkv; cases hkv), rfl, (by intro ro hro; cases hro)⟩
    have inv := CloneInv.fold rs hrs inv0
    rw [List.nil_append] at inv
    generalize List.foldl cloneStep (h, [], []) rs = res at *
    obtain ⟨h', seen, out⟩ := res
    have hr' : ({ b with runs := some out } : Batch).runs = some out := rfl
    refine ⟨inv.prefix_eq, ?_, ?_⟩
    · intro k id hk
      obtain ⟨nid, ho, hm⟩ := inv.entry ((runAt_some_iff hr).mp hk)
      obtain ⟨_, c, d, e⟩ := inv.seen_ok _ hm
      exact ⟨nid, (runAt_some_iff hr').mpr ho, c, d, e⟩
    · intro k l id id' nid nid' hk hl hk' hl'
      obtain ⟨n1, ho1, hm1⟩ := inv.entry ((runAt_some_iff hr).mp hk)
      obtain ⟨n2, ho2, hm2⟩ := inv.entry ((runAt_some_iff hr).mp hl)
      have e1 := (runAt_some_iff hr').mp hk'
      have e2 := (runAt_some_iff hr').mp hl'
      simp only at ho1 ho2
      rw [ho1] at e1; rw [ho2] at e2
      simp at e1 e2; subst e1; subst e2
      exact inv.seen_inj _ hm1 _ hm2

end Conduit.Funnel
