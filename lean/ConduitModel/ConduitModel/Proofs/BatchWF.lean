import ConduitModel.Proofs.BatchBase
import ConduitModel.Proofs.BatchFlags
import ConduitModel.Proofs.BatchActive
import ConduitModel.Proofs.BatchNack
import ConduitModel.Proofs.BatchSetRecords
import ConduitModel.Proofs.BatchSplit
import ConduitModel.Proofs.BatchSub
import ConduitModel.Proofs.BatchInv
import ConduitModel.Proofs.BatchProc
import ConduitModel.Proofs.BatchDest
import ConduitModel.Proofs.BatchRetry
import ConduitModel.Proofs.BatchAgree

/-!
Proofs for the batch bookkeeping of the funnel engine (C08 alignment / mark-hits-right-record,
C09 totality). One file per mutator family:

* `BatchBase`        partial indexing, `actList`/`rank` (active index ↦ physical index), `phys`, `active`
* `BatchFlags`       `Ack`/`Retry`/`Filter` (`setFlagNoErr`), the `Below` relation (end→start marking)
* `BatchActive`      `ActiveRecords()[k] = records[actList[k]]`; "ok ⇒ indices were in range"
* `BatchNack`        `Nack` (`setFlagWithErr`, split extents)
* `BatchSetRecords`  `SetRecords` and the `findTo` bisection
* `BatchSplit`       `SplitRecord`
* `BatchSub`         `NewBatch`, `sub`, `clone`, `originalBatch`
* `BatchInv`         `Nack` / `SetRecords` keep the invariant whenever they return
* `BatchProc`        `ProcessorTask.Do` / `markBatchRecords`
* `BatchDest`        `DestinationTask.Do` ack loop / `markBatchRecords`
* `BatchRetry`       retry accounting of `doTaskAttempt`
* `BatchAgree`       the monadic `procDo` / `procMark` / `destDo` of the model = the pure restatements
-/
