import ConduitModel.Spec.Ctl

/-!
Helper lemmas for C14/C15 over M6: the three outcomes of a service call in normal form, and the
*frame theorem* for the orchestrator's `transaction + rollback.R` shape: if every registered
rollback exactly undoes its step, a failure at any store operation leaves memory and store as
they were.
-/
namespace Conduit.Ctl

/-! ## one service call -/

/-- the state after a successful service call. -/
def stepOk (f : Svc) (s : St) : St :=
  ({ s with ctr := s.ctr + 1, mem := f.upd s.mem,
            nameU := match f.nm with | some n => n :: s.nameU | none => s.nameU }).write
    (fun k => k.sync (f.upd s.mem) f.kind f.id)

theorem Svc.run_pre_err {f : Svc} {s : St} {e : Err} (h : f.pre s.mem = some e) :
    f.run s = (.error e, s) := by
  simp [Svc.run, h]

theorem Svc.run_fail {f : Svc} {s : St} (h : f.pre s.mem = none) (hf : s.failsNow = true) :
    f.run s = (.error .st, { s with ctr := s.ctr + 1, mem := if f.keep then s.mem else f.upd s.mem,
                                    nameU := match f.nm with | some n => n :: s.nameU | none => s.nameU }) := by
  unfold Svc.run; simp only [h, hf]; rfl

theorem Svc.run_ok {f : Svc} {s : St} (h : f.pre s.mem = none) (hf : s.failsNow = false) :
    f.run s = (.ok (), stepOk f s) := by
  unfold Svc.run; simp only [h, hf]; rfl

@[simp] theorem St.write_mem (s : St) (g : KV → KV) : (s.write g).mem = s.mem := by
  unfold St.write; split <;> rfl
@[simp] theorem St.write_ctr (s : St) (g : KV → KV) : (s.write g).ctr = s.ctr := by
  unfold St.write; split <;> rfl
@[simp] theorem St.write_failAt (s : St) (g : KV → KV) : (s.write g).failAt = s.failAt := by
  unfold St.write; split <;> rfl
@[simp] theorem St.write_next (s : St) (g : KV → KV) : (s.write g).next = s.next := by
  unfold St.write; split <;> rfl
theorem St.write_tx_some (s : St) (g : KV → KV) (t : KV) (h : s.tx = some t) :
    (s.write g).tx = some (g t) ∧ (s.write g).kv = s.kv := by
  unfold St.write; simp [h]
theorem St.write_tx_none (s : St) (g : KV → KV) (h : s.tx = none) :
    (s.write g).tx = none ∧ (s.write g).kv = g s.kv := by
  unfold St.write; simp [h]

@[simp] theorem stepOk_mem (f : Svc) (s : St) : (stepOk f s).mem = f.upd s.mem := by simp [stepOk]
@[simp] theorem stepOk_ctr (f : Svc) (s : St) : (stepOk f s).ctr = s.ctr + 1 := by simp [stepOk]
@[simp] theorem stepOk_failAt (f : Svc) (s : St) : (stepOk f s).failAt = s.failAt := by simp [stepOk]
@[simp] theorem stepOk_next (f : Svc) (s : St) : (stepOk f s).next = s.next := by simp [stepOk]
theorem stepOk_tx_some (f : Svc) (s : St) (t : KV) (h : s.tx = some t) :
    (stepOk f s).tx = some (t.sync (f.upd s.mem) f.kind f.id) ∧ (stepOk f s).kv = s.kv := by
  unfold stepOk; exact St.write_tx_some _ _ t h
theorem stepOk_tx_none (f : Svc) (s : St) (h : s.tx = none) :
    (stepOk f s).tx = none ∧ (stepOk f s).kv = s.kv.sync (f.upd s.mem) f.kind f.id := by
  unfold stepOk; exact St.write_tx_none _ _ h

theorem failsNow_iff (s : St) : s.failsNow = true ↔ s.failAt = some (s.ctr + 1) := by
  simp [St.failsNow]

/-- the failure index is not ahead of the counter any more. -/
def Spent (s : St) : Prop := ∀ t, s.failAt = some t → t ≤ s.ctr

theorem Spent.not_fails {s : St} (h : Spent s) : s.failsNow = false := by
  cases hf : s.failsNow with
  | false => rfl
  | true =>
    have := h _ ((failsNow_iff s).1 hf)
    omega

theorem Spent.stepOk {s : St} (h : Spent s) (f : Svc) : Spent (stepOk f s) := by
  intro t ht
  simp at ht
  have := h t ht
  simp; omega

/-! ## the rollback frame -/

/-- memory after the steps' mutations. -/
def applySteps (m : Mem) : List Step → Mem
  | [] => m
  | st :: rest => applySteps (st.act.upd m) rest

/-- every step's validation passes; every registered rollback is applicable after its step and
exactly undoes it. -/
def Reversible (m : Mem) : List Step → Prop
  | [] => True
  | st :: rest =>
    st.act.pre m = none ∧ st.undo.pre (st.act.upd m) = none ∧ st.undo.upd (st.act.upd m) = m ∧
    Reversible (st.act.upd m) rest

/-- every step's validation passes (in the memory its predecessors produced). -/
def PreOk (m : Mem) : List Step → Prop
  | [] => True
  | st :: rest => st.act.pre m = none ∧ PreOk (st.act.upd m) rest

/-- the state after all steps succeeded. -/
def okRun (s : St) : List Step → St
  | [] => s
  | st :: rest => okRun (stepOk st.act s) rest

theorem okRun_mem (s : St) (L : List Step) : (okRun s L).mem = applySteps s.mem L := by
  induction L generalizing s with
  | nil => rfl
  | cons st rest ih => simp [okRun, applySteps, ih]

theorem okRun_ctr (s : St) (L : List Step) : (okRun s L).ctr = s.ctr + L.length := by
  induction L generalizing s with
  | nil => rfl
  | cons st rest ih => simp [okRun, ih]; omega

theorem okRun_failAt (s : St) (L : List Step) : (okRun s L).failAt = s.failAt := by
  induction L generalizing s with
  | nil => rfl
  | cons st rest ih => simp [okRun, ih]

theorem okRun_kv_tx (s : St) (L : List Step) (t : KV) (h : s.tx = some t) :
    (okRun s L).kv = s.kv ∧ ∃ t', (okRun s L).tx = some t' := by
  induction L generalizing s t with
  | nil => exact ⟨rfl, t, h⟩
  | cons st rest ih =>
    obtain ⟨h1, h2⟩ := stepOk_tx_some st.act s t h
    obtain ⟨h3, h4⟩ := ih (stepOk st.act s) _ h1
    exact ⟨by simp [okRun, h3, h2], h4⟩

/-- all steps succeed when the failing index is not among their store operations. -/
theorem runSteps_ok (L : List Step) : ∀ (stack : List Svc) (s : St), PreOk s.mem L →
    (∀ j, j < L.length → s.failAt ≠ some (s.ctr + j + 1)) →
    runSteps L stack s = (none, (L.map (·.undo)).reverse ++ stack, okRun s L) := by
  induction L with
  | nil => intro stack s _ _; simp [runSteps, okRun]
  | cons st rest ih =>
    intro stack s hr hk
    obtain ⟨h1, h4⟩ := hr
    have hf : s.failsNow = false := by
      cases hf : s.failsNow with
      | false => rfl
      | true => exact absurd ((failsNow_iff s).1 hf) (by simpa using hk 0 (by simp))
    simp only [runSteps, Svc.run_ok h1 hf, okRun]
    rw [ih (st.undo :: stack) (stepOk st.act s) (by simpa using h4)
      (by intro j hj; simp; have := hk (j + 1) (by simp; omega); intro h; apply this; rw [h]; congr 1; omega)]
    simp

theorem Reversible.take {m : Mem} {L : List Step} (h : Reversible m L) (j : Nat) : Reversible m (L.take j) := by
  induction L generalizing m j with
  | nil => simp [Reversible]
  | cons st rest ih =>
    cases j with
    | zero => simp [Reversible]
    | succ j =>
      obtain ⟨h1, h2, h3, h4⟩ := h
      exact ⟨h1, h2, h3, ih h4 j⟩

/-- the `j`-th step's store operation fails: the steps before it succeeded, the failing step
left memory alone (`keep`), nothing reached the store. -/
theorem runSteps_fail (L : List Step) : ∀ (stack : List Svc) (s : St) (j : Nat) (t : KV), PreOk s.mem L →
    s.tx = some t → j < L.length → s.failAt = some (s.ctr + j + 1) → (∀ st, L[j]? = some st → st.act.keep = true) →
    ∃ s', runSteps L stack s = (some .st, ((L.take j).map (·.undo)).reverse ++ stack, s') ∧
      s'.mem = applySteps s.mem (L.take j) ∧ s'.kv = s.kv ∧ Spent s' ∧ s'.failAt = s.failAt ∧ s'.next = s.next ∧
      ∃ t', s'.tx = some t' := by
  induction L with
  | nil => intro _ _ j _ _ _ hj; simp at hj
  | cons st rest ih =>
    intro stack s j t hr htx hj hk hkeep
    obtain ⟨h1, h4⟩ := hr
    cases j with
    | zero =>
      have hf : s.failsNow = true := (failsNow_iff s).2 (by simpa using hk)
      have hkp : st.act.keep = true := hkeep st (by simp)
      refine ⟨{ s with ctr := s.ctr + 1, mem := if st.act.keep then s.mem else st.act.upd s.mem,
                       nameU := match st.act.nm with | some n => n :: s.nameU | none => s.nameU },
        by simp only [runSteps, Svc.run_fail h1 hf]; rfl, ?_, rfl, ?_, rfl, rfl, ⟨t, htx⟩⟩
      · simp [hkp, applySteps]
      · intro t' ht'; simp at ht'; simp [hk] at ht'; subst ht'; simp
    | succ j =>
      have hf : s.failsNow = false := by
        cases hf : s.failsNow with
        | false => rfl
        | true => have := (failsNow_iff s).1 hf; rw [hk] at this; simp at this
      obtain ⟨htx1, hkv1⟩ := stepOk_tx_some st.act s t htx
      obtain ⟨s', e1, e2, e3, e4, e5, e6, e7⟩ := ih (st.undo :: stack) (stepOk st.act s) j _ (by simpa using h4) htx1
        (by simpa using hj) (by simp [hk]; omega) (by intro st' h; exact hkeep st' (by simpa using h))
      refine ⟨s', ?_, ?_, ?_, e4, ?_, ?_, e7⟩
      · simp only [runSteps, Svc.run_ok h1 hf, e1]; simp
      · simpa [applySteps] using e2
      · rw [e3, hkv1]
      · simpa using e5
      · simpa using e6

/-- executing the registered rollbacks of `L` (most recent first) when no store operation can
fail any more restores the memory `L` started from and leaves the store alone. -/
theorem runRollback_restores (L : List Step) : ∀ (m : Mem) (stack : List Svc) (s : St) (t : KV), Reversible m L →
    s.mem = applySteps m L → Spent s → s.tx = some t →
    ∃ s', runRollback ((L.map (·.undo)).reverse ++ stack) s = runRollback stack s' ∧
      s'.mem = m ∧ s'.kv = s.kv ∧ Spent s' ∧ (∃ t', s'.tx = some t') ∧ s'.next = s.next := by
  induction L with
  | nil => intro m stack s t _ hm hs ht; exact ⟨s, by simp, by simpa [applySteps] using hm, rfl, hs, ⟨t, ht⟩, rfl⟩
  | cons st rest ih =>
    intro m stack s t hr hm hs ht
    obtain ⟨_, h2, h3, h4⟩ := hr
    obtain ⟨s1, e1, e2, e3, e4, ⟨t1, e5⟩, e6⟩ := ih (st.act.upd m) (st.undo :: stack) s t h4 (by simpa [applySteps] using hm) hs ht
    have hrun : st.undo.run s1 = (.ok (), stepOk st.undo s1) := Svc.run_ok (by rw [e2]; exact h2) e4.not_fails
    refine ⟨stepOk st.undo s1, ?_, ?_, ?_, e4.stepOk _, ?_, ?_⟩
    · simp only [List.map_cons, List.reverse_cons, List.append_assoc, List.singleton_append]
      rw [e1]; simp [runRollback, hrun]
    · simp [e2, h3]
    · rw [(stepOk_tx_some st.undo s1 t1 e5).2, e3]
    · exact ⟨_, (stepOk_tx_some st.undo s1 t1 e5).1⟩
    · simpa using e6

/-- memory, store and transaction after successful steps do not depend on counters. -/
theorem okRun_congr (L : List Step) : ∀ (s s' : St), s.mem = s'.mem → s.kv = s'.kv → s.tx = s'.tx →
    (okRun s L).mem = (okRun s' L).mem ∧ (okRun s L).kv = (okRun s' L).kv ∧ (okRun s L).tx = (okRun s' L).tx := by
  induction L with
  | nil => intro s s' a b c; exact ⟨a, b, c⟩
  | cons st rest ih =>
    intro s s' a b c
    apply ih
    · simp [a]
    · unfold stepOk St.write; rw [a, b, c]; cases s'.tx <;> simp
    · unfold stepOk St.write; rw [a, b, c]; cases s'.tx <;> simp

/-- all-or-nothing for a program run from `s` (counters fresh): against the run without any
store failure. -/
def AtomicRun (prog : M Unit) (s : St) : Prop :=
  ((prog s).1 = .ok () → (prog s).2.view = (prog { s with failAt := none }).2.view) ∧
  ((prog s).1 ≠ .ok () → (prog s).2.view = s.view)

theorem view_eq {s t : St} (h1 : s.mem = t.mem) (h2 : s.kv = t.kv) : s.view = t.view := by
  simp [St.view, h1, h2]

/-- the first step's validation refuses. -/
def FirstPreFails (m : Mem) (L : List Step) : Prop :=
  ∃ st rest e, L = st :: rest ∧ st.act.pre m = some e

/-- **Frame theorem.** A transactional orchestrator method (`NewTransaction`, guards, steps with
registered rollbacks, `Commit`, deferred `MustExecute`) is all-or-nothing for every failing
store-operation index, provided the guards having passed, either the first step's validation
refuses, or every rollback exactly undoes its step (`Reversible`) and the step whose store
operation fails leaves memory alone (`keep`). -/
theorem orch_atomic {β} (g : Mem → Except Err β) (steps : β → List Step) (s : St)
    (htx : s.tx = none) (hc : s.ctr = 0)
    (H : ∀ b, g s.mem = .ok b → FirstPreFails s.mem (steps b) ∨
      (PreOk s.mem (steps b) ∧
        (∀ j, j ≤ (steps b).length → s.failAt = some (j + 2) → Reversible s.mem ((steps b).take j)) ∧
        ∀ j st, s.failAt = some (j + 2) → (steps b)[j]? = some st → st.act.keep = true)) :
    AtomicRun (orch g steps) s := by
  unfold AtomicRun
  -- the run without failure
  have hnf : ({ s with failAt := none } : St).failsNow = false := by simp [St.failsNow]
  by_cases hk1 : s.failsNow = true
  · -- NewTransaction fails
    simp [orch, hk1, St.view]
  have hk1' : s.failsNow = false := by simpa using hk1
  have hne1 : s.failAt ≠ some 1 := by
    intro h; have := (failsNow_iff s).2 (by rw [h, hc]); simp [this] at hk1
  cases hg : g s.mem with
  | error e => simp [orch, hk1', hg, St.view]
  | ok b =>
    rcases H b hg with ⟨st, rest, e, hL, hpre⟩ | ⟨hpok, hrevs, hkeep⟩
    · -- first step refuses: empty rollback stack
      have : st.act.run { s with ctr := s.ctr + 1, tx := some s.kv } = (.error e, { s with ctr := s.ctr + 1, tx := some s.kv }) :=
        Svc.run_pre_err (by simpa using hpre)
      simp [orch, hk1', hg, hL, runSteps, this, runRollback, St.view]
    · -- reversible steps
      let s1 : St := { s with ctr := s.ctr + 1, tx := some s.kv }
      let L := steps b
      have hs1 : s1.mem = s.mem := rfl
      have hrev1 : PreOk s1.mem L := hpok
      by_cases hin : ∃ j, j < L.length ∧ s.failAt = some (j + 2)
      · -- a step's store operation fails
        obtain ⟨j, hj, hk⟩ := hin
        obtain ⟨s', e1, e2, e3, e4, e5, e6, ⟨t', e7⟩⟩ := runSteps_fail L [] s1 j s.kv hrev1 rfl hj
          (by show s.failAt = some (s.ctr + 1 + j + 1); rw [hk, hc]; congr 1; omega) (hkeep j · hk)
        obtain ⟨s'', f1, f2, f3, f4, f5, f6⟩ := runRollback_restores (L.take j) s.mem [] s' t' (hrevs j (Nat.le_of_lt hj) hk) e2 e4 e7
        have hrun : runSteps (steps b) [] s1 = (some .st, ((L.take j).map (·.undo)).reverse ++ [], s') := e1
        have hrb : runRollback (((L.take j).map (·.undo)).reverse ++ []) s' = (true, s'') := by
          rw [f1]; rfl
        have hout : orch g steps s = (.error .st, { s'' with tx := none }) := by
          simp only [orch, hk1', hg]
          show (match runSteps (steps b) [] s1 with
            | (none, stack, s) => _
            | (some e, stack, s) => _) = _
          rw [hrun]; simp only [hrb]
        rw [hout]
        refine ⟨by simp, fun _ => view_eq f2 ?_⟩
        show s''.kv = s.kv
        rw [f3, e3]
      · -- no step fails
        have hall : ∀ j, j < L.length → s1.failAt ≠ some (s1.ctr + j + 1) := by
          intro j hj h
          apply hin ⟨j, hj, ?_⟩
          have : s.failAt = some (s.ctr + 1 + j + 1) := h
          rw [this, hc]; congr 1; omega
        have hrun : runSteps (steps b) [] s1 = (none, (L.map (·.undo)).reverse ++ [], okRun s1 L) :=
          runSteps_ok L [] s1 hrev1 hall
        obtain ⟨hkv, t', htx'⟩ := okRun_kv_tx s1 L s.kv rfl
        by_cases hcm : (okRun s1 L).failsNow = true
        · -- Commit fails
          have hsp : Spent ({ okRun s1 L with ctr := (okRun s1 L).ctr + 1 } : St) := by
            intro t ht
            have := (failsNow_iff _).1 hcm
            simp at ht; rw [ht] at this; simp at this; simp; omega
          have hkc : s.failAt = some (L.length + 2) := by
            have := (failsNow_iff _).1 hcm
            rw [okRun_failAt, okRun_ctr] at this
            have h2 : s1.failAt = s.failAt := rfl
            have h3 : s1.ctr = s.ctr + 1 := rfl
            rw [h2, h3, hc] at this; rw [this]; congr 1; omega
          have hrev : Reversible s.mem L := by
            have := hrevs L.length (Nat.le_refl _) hkc
            rwa [show List.take L.length (steps b) = L from List.take_length] at this
          obtain ⟨s'', f1, f2, f3, f4, f5, f6⟩ := runRollback_restores L s.mem []
            ({ okRun s1 L with ctr := (okRun s1 L).ctr + 1 } : St) t' hrev (by simpa using okRun_mem s1 L) hsp htx'
          have hrb : runRollback ((L.map (·.undo)).reverse ++ []) ({ okRun s1 L with ctr := (okRun s1 L).ctr + 1 } : St) = (true, s'') := by
            rw [f1]; rfl
          have hout : orch g steps s = (.error .st, { s'' with tx := none }) := by
            simp only [orch, hk1', hg]
            show (match runSteps (steps b) [] s1 with
              | (none, stack, s) => _
              | (some e, stack, s) => _) = _
            rw [hrun]; simp only [hcm, if_true, hrb]
          rw [hout]
          refine ⟨by simp, fun _ => view_eq f2 ?_⟩
          show s''.kv = s.kv
          rw [f3]; exact hkv
        · -- success
          have hcm' : (okRun s1 L).failsNow = false := by simpa using hcm
          have hout : orch g steps s = (.ok (), { okRun s1 L with ctr := (okRun s1 L).ctr + 1, kv := (okRun s1 L).tx.getD (okRun s1 L).kv, tx := none }) := by
            simp only [orch, hk1', hg]
            show (match runSteps (steps b) [] s1 with
              | (none, stack, s) => _
              | (some e, stack, s) => _) = _
            rw [hrun]; simp only [hcm']; rfl
          -- the failure-free run
          let s0 : St := { s with failAt := none }
          let s01 : St := { s0 with ctr := s0.ctr + 1, tx := some s0.kv }
          have hrun0 : runSteps (steps b) [] s01 = (none, (L.map (·.undo)).reverse ++ [], okRun s01 L) :=
            runSteps_ok L [] s01 hrev1 (by intro j _; simp [s01, s0])
          have hcm0 : (okRun s01 L).failsNow = false := by
            simp [St.failsNow, okRun_failAt, s01, s0]
          have hout0 : orch g steps s0 = (.ok (), { okRun s01 L with ctr := (okRun s01 L).ctr + 1, kv := (okRun s01 L).tx.getD (okRun s01 L).kv, tx := none }) := by
            have hg0 : g s0.mem = .ok b := hg
            simp only [orch, hnf, hg0]
            show (match runSteps (steps b) [] s01 with
              | (none, stack, s) => _
              | (some e, stack, s) => _) = _
            rw [hrun0]; simp only [hcm0]; rfl
          obtain ⟨c1, c2, c3⟩ := okRun_congr L s1 s01 rfl rfl rfl
          rw [hout, hout0]
          refine ⟨fun _ => view_eq c1 ?_, by simp⟩
          show (okRun s1 L).tx.getD (okRun s1 L).kv = (okRun s01 L).tx.getD (okRun s01 L).kv
          rw [c2, c3]

end Conduit.Ctl
