import ConduitModel.Proofs.Ctl

/-!
Per-operation facts for C14: every rollback the orchestrator registers exactly undoes its step
(under the invariant and outside the F7 triggers), hence — by the frame theorem — every API
operation is all-or-nothing for every failing store-operation index.
-/
namespace Conduit.Ctl

/-! ## maps and memory -/

theorem Mem.ext' {a b : Mem} (h1 : a.pls = b.pls) (h2 : a.cns = b.cns) (h3 : a.prs = b.prs)
    (h4 : a.names = b.names) : a = b := by
  cases a; cases b; simp at *; exact ⟨h1, h2, h3, h4⟩

theorem Map.set_self {α} (m : Map α) (k : Id) (v : α) (h : m k = some v) : m.set k v = m := by
  funext j; by_cases hj : j = k <;> simp [Map.set, hj, h]

theorem Map.set_set {α} (m : Map α) (k : Id) (a b : α) : (m.set k a).set k b = m.set k b := by
  funext j; by_cases hj : j = k <;> simp [Map.set, hj]

theorem Map.set_del {α} (m : Map α) (k : Id) (a : α) (h : m k = none) : (m.set k a).del k = m := by
  funext j; by_cases hj : j = k <;> simp [Map.set, Map.del, hj, h]

theorem Map.del_set {α} (m : Map α) (k : Id) (a : α) (h : m k = some a) : (m.del k).set k a = m := by
  funext j; by_cases hj : j = k <;> simp [Map.set, Map.del, hj, h]

theorem updPl_updPl (m : Mem) (id : Id) (f g : Pl → Pl) (p : Pl) (h : m.pls id = some p) (hg : g (f p) = p) :
    (m.updPl id f).updPl id g = m := by
  simp only [Mem.updPl, h, Map.set_same, Map.set_set, hg]
  exact Mem.ext' (Map.set_self _ _ _ h) rfl rfl rfl

theorem updCn_updCn (m : Mem) (id : Id) (f g : Cn → Cn) (c : Cn) (h : m.cns id = some c) (hg : g (f c) = c) :
    (m.updCn id f).updCn id g = m := by
  simp only [Mem.updCn, h, Map.set_same, Map.set_set, hg]
  exact Mem.ext' rfl (Map.set_self _ _ _ h) rfl rfl

theorem updPr_updPr (m : Mem) (id : Id) (f g : Pr → Pr) (r : Pr) (h : m.prs id = some r) (hg : g (f r) = r) :
    (m.updPr id f).updPr id g = m := by
  simp only [Mem.updPr, h, Map.set_same, Map.set_set, hg]
  exact Mem.ext' rfl rfl (Map.set_self _ _ _ h) rfl

theorem erase_append_self (l : List Id) (a : Id) (h : a ∉ l) : (l ++ [a]).erase a = l := by
  induction l with
  | nil => simp
  | cons x xs ih =>
    simp at h
    have hx : (x == a) = false := by simp; exact fun e => h.1 e.symm
    simp [List.erase_cons, hx, ih h.2]

theorem erase_append_last (l : List Id) (a : Id) (hn : l.Nodup) (hl : l.getLast? = some a) :
    l.erase a ++ [a] = l := by
  induction l with
  | nil => simp at hl
  | cons x xs ih =>
    cases xs with
    | nil => simp at hl; subst hl; simp
    | cons y ys =>
      have hl' : (y :: ys).getLast? = some a := by simpa [List.getLast?_cons_cons] using hl
      have hmem : a ∈ y :: ys := List.mem_of_getLast? hl'
      have hnd := List.nodup_cons.1 hn
      have hx : (x == a) = false := by simp; intro e; subst e; exact hnd.1 hmem
      have := ih hnd.2 hl'
      rw [List.erase_cons_tail (by simp [hx]), List.cons_append, this]

/-! ## guards -/

theorem plGuards_ok {m : Mem} {id : Id} {p : Pl} (h : plGuards m id = .ok p) :
    m.pls id = some p ∧ p.prov = 0 ∧ p.status ≠ 1 := by
  unfold plGuards getPl notConfig notRunning at h
  cases hp : m.pls id with
  | none => simp [hp, bind, Except.bind] at h
  | some q =>
    simp only [hp, bind, Except.bind] at h
    by_cases h1 : q.prov = 0 <;> simp [h1] at h
    by_cases h2 : q.status = 1 <;> simp [h2, pure, Except.pure] at h
    subst h; exact ⟨rfl, h1, h2⟩

theorem check_ok {c : Bool} {e : Err} (h : check c e = .ok ()) : c = true := by
  unfold check at h; cases c <;> simp at h ⊢

/-! ## from `AtomicRun` of the body to `Atomic` of the op -/

theorem atomic_of_run (v : Variant) (s : St) (op : Op) (k : Option Nat) (hapi : op.isApi = true)
    (h : AtomicRun (opBody v s.next op) { s with ctr := 0, failAt := k }) : Atomic v s op k := by
  unfold Atomic exec
  unfold AtomicRun at h
  simp only [hapi, if_true] at *
  exact ⟨fun h1 => by have := h.1 h1; simpa [St.view] using this,
         fun h1 => by have := h.2 h1; simpa [St.view] using this⟩

/-- guards + one service call, no transaction. -/
theorem guarded_atomic (g : Mem → Except Err Unit) (f : Svc) (s : St)
    (hk : s.failsNow = true → f.keep = true) : AtomicRun (guarded g f) s := by
  unfold AtomicRun guarded
  cases hg : g s.mem with
  | error e => simp [St.view]
  | ok u =>
    have hg0 : g ({ s with failAt := none } : St).mem = .ok u := hg
    simp only [hg0]
    cases hp : f.pre s.mem with
    | some e => rw [Svc.run_pre_err hp]; simp
    | none =>
      have hp0 : f.pre ({ s with failAt := none } : St).mem = none := hp
      have hnf : ({ s with failAt := none } : St).failsNow = false := by simp [St.failsNow]
      rw [Svc.run_ok hp0 hnf]
      cases hf : s.failsNow with
      | true => rw [Svc.run_fail hp hf]; simp [hk hf, St.view]
      | false =>
        rw [Svc.run_ok hp hf]
        refine ⟨fun _ => ?_, by simp⟩
        unfold stepOk St.write
        cases s.tx <;> simp [St.view]

/-! ## Connectors.Create -/

theorem atomic_cnCreate (v : Variant) (s : St) (typ plugin pid name settings : Nat) (k : Option Nat)
    (hi : Inv s) (ht : f7Trigger v s (.cnCreate typ plugin pid name settings) k = false) :
    Atomic v s (.cnCreate typ plugin pid name settings) k := by
  apply atomic_of_run _ _ _ _ rfl
  simp only [opBody, opCnCreate]
  refine orch_atomic _ _ { s with ctr := 0, failAt := k } hi.tx rfl ?_
  intro b hg
  show FirstPreFails s.mem _ ∨ PreOk s.mem _ ∧ (∀ j, j ≤ _ → k = some (j + 2) → Reversible s.mem _) ∧
    ∀ j st, k = some (j + 2) → _ → _
  replace hg : (do let _ ← plGuards s.mem pid; check (connValid typ plugin settings) Err.inv) = Except.ok b := hg
  -- guards passed: the pipeline exists
  have hpl : ∃ p, s.mem.pls pid = some p := by
    simp only [bind, Except.bind] at hg
    cases h : plGuards s.mem pid with
    | error e => simp [h] at hg
    | ok p => exact ⟨p, (plGuards_ok h).1⟩
  obtain ⟨p, hp⟩ := hpl
  have hfc := hi.fresh.cns s.next (Nat.le_refl _)
  have hnotin : s.next ∉ p.conns := fun h => Nat.lt_irrefl _ (hi.fresh.plC pid p _ hp h)
  cases hpre : (svcCnCreate s.next typ plugin pid name settings 0 0).pre s.mem with
  | some e => exact Or.inl ⟨_, _, e, rfl, hpre⟩
  | none =>
    refine Or.inr ⟨⟨hpre, by simp [svcPlAddConn, svcCnCreate, preHasPl, hp], trivial⟩, ?_, ?_⟩
    · intro j hj _
      have hr1 : (svcCnDelete s.next).upd ((svcCnCreate s.next typ plugin pid name settings 0 0).upd s.mem) = s.mem := by
        simp only [svcCnDelete, svcCnCreate]
        exact Mem.ext' rfl (Map.set_del _ _ _ hfc) rfl rfl
      have hr2 : ∀ m : Mem, m.pls pid = some p →
          (svcPlRemConn v pid s.next).upd ((svcPlAddConn v pid s.next).upd m) = m := by
        intro m hm
        simp only [svcPlRemConn, svcPlAddConn]
        exact updPl_updPl m pid _ _ p hm (by simp [erase_append_self _ _ hnotin])
      match j, hj with
      | 0, _ => trivial
      | 1, _ => exact ⟨hpre, by simp [svcCnDelete, svcCnCreate, preHasCn], hr1, trivial⟩
      | 2, _ =>
        refine ⟨hpre, by simp [svcCnDelete, svcCnCreate, preHasCn], hr1, ?_, ?_, ?_, trivial⟩
        · simp [svcPlAddConn, svcCnCreate, preHasPl, hp]
        · simp [svcPlRemConn, svcPlAddConn, svcCnCreate, Mem.updPl, hp]
        · exact hr2 _ (by simp [svcCnCreate, hp])
    · intro j st hk hst
      match j with
      | 0 => simp at hst; subst hst; rfl
      | 1 =>
        simp at hst; subst hst
        have : k = some 3 := hk
        subst this
        simpa [f7Trigger, svcPlAddConn] using ht
      | j + 2 => simp at hst

/-! ## Pipelines.* (no transaction) -/

theorem failsNow_fresh (s : St) (k : Option Nat) :
    ({ s with ctr := 0, failAt := k } : St).failsNow = true ↔ k = some 1 := by
  simp [St.failsNow]

theorem atomic_plCreate (v : Variant) (s : St) (name desc : Nat) (k : Option Nat) :
    Atomic v s (.plCreate name desc) k := by
  apply atomic_of_run _ _ _ _ rfl
  simp only [opBody, opPlCreate]
  have := guarded_atomic (fun _ => .ok ()) (svcPlCreate s.next name desc 0) { s with ctr := 0, failAt := k } (fun _ => rfl)
  simpa [guarded, AtomicRun] using this

theorem atomic_plUpdate (v : Variant) (s : St) (i name desc : Nat) (k : Option Nat)
    (ht : f7Trigger v s (.plUpdate i name desc) k = false) : Atomic v s (.plUpdate i name desc) k := by
  apply atomic_of_run _ _ _ _ rfl
  simp only [opBody, opPlUpdate]
  apply guarded_atomic
  intro hf
  have := (failsNow_fresh s k).1 hf
  subst this
  simpa [f7Trigger, svcPlUpdate] using ht

theorem atomic_plUpdateDLQ (v : Variant) (s : St) (i : Nat) (d : Dlq) (k : Option Nat)
    (ht : f7Trigger v s (.plUpdateDLQ i d) k = false) : Atomic v s (.plUpdateDLQ i d) k := by
  apply atomic_of_run _ _ _ _ rfl
  simp only [opBody, opPlUpdateDLQ]
  apply guarded_atomic
  intro hf
  have := (failsNow_fresh s k).1 hf
  subst this
  simpa [f7Trigger, svcPlUpdateDLQ] using ht

theorem atomic_plDelete (v : Variant) (s : St) (i : Nat) (k : Option Nat) : Atomic v s (.plDelete i) k := by
  apply atomic_of_run _ _ _ _ rfl
  simp only [opBody, opPlDelete]
  exact guarded_atomic _ _ _ (fun _ => rfl)

/-! ## Connectors.Update -/

theorem cnGuardsUpdate_ok {m : Mem} {id settings : Nat} {c : Cn} (h : cnGuardsUpdate m id settings = .ok c) :
    m.cns id = some c := by
  unfold cnGuardsUpdate getCn at h
  cases hc : m.cns id with
  | none => simp [hc, bind, Except.bind] at h
  | some q =>
    simp only [hc, bind, Except.bind] at h
    cases h1 : notConfig q.prov with
    | error e => simp [h1] at h
    | ok _ =>
      simp only [h1] at h
      cases h2 : getPl m q.pipeline with
      | error e => simp [h2] at h
      | ok p =>
        simp only [h2] at h
        cases h3 : notRunning p with
        | error e => simp [h3] at h
        | ok _ =>
          simp only [h3] at h
          cases h4 : check (connValid q.typ q.plugin settings) Err.inv with
          | error e => simp [h4] at h
          | ok _ => simp [h4, pure, Except.pure] at h; rw [h]

theorem atomic_cnUpdate (v : Variant) (s : St) (i plugin name settings : Nat) (k : Option Nat)
    (hi : Inv s) (ht : f7Trigger v s (.cnUpdate i plugin name settings) k = false) :
    Atomic v s (.cnUpdate i plugin name settings) k := by
  apply atomic_of_run _ _ _ _ rfl
  simp only [opBody, opCnUpdate]
  refine orch_atomic _ _ { s with ctr := 0, failAt := k } hi.tx rfl ?_
  intro c hg
  show FirstPreFails s.mem _ ∨ PreOk s.mem _ ∧ (∀ j, j ≤ _ → k = some (j + 2) → Reversible s.mem _) ∧
    ∀ j st, k = some (j + 2) → _ → _
  replace hg : cnGuardsUpdate s.mem i settings = .ok c := hg
  have hc : s.mem.cns i = some c := cnGuardsUpdate_ok hg
  have hpre : (svcCnUpdate v i plugin name settings).pre s.mem = none := by simp [svcCnUpdate, preHasCn, hc]
  refine Or.inr ⟨⟨hpre, trivial⟩, ?_, ?_⟩
  · intro j hj hk
    match j, hj with
    | 0, _ => trivial
    | 1, _ =>
      have : k = some 3 := hk
      subst this
      have hv : v.cnOrchOldPlugin = true := by simpa [f7Trigger] using ht
      simp only [hv, if_true, List.take]
      refine ⟨hpre, ?_, ?_, trivial⟩
      · simp [svcCnUpdate, preHasCn, Mem.updCn, hc]
      · simp only [svcCnUpdate]
        exact updCn_updCn _ _ _ _ c hc rfl
  · intro j st hk hst
    match j with
    | 0 =>
      simp at hst; subst hst
      have : k = some 2 := hk
      subst this
      simpa [f7Trigger, svcCnUpdate] using ht
    | j + 1 => simp at hst

/-! ## Connectors.Delete -/

theorem cnGuardsDelete_ok {m : Mem} {id : Nat} {c : Cn} (h : cnGuardsDelete m id = .ok c) :
    m.cns id = some c ∧ c.prov = 0 ∧ c.procs = [] ∧ ∃ p, m.pls c.pipeline = some p := by
  unfold cnGuardsDelete getCn at h
  cases hc : m.cns id with
  | none => simp [hc, bind, Except.bind] at h
  | some q =>
    simp only [hc, bind, Except.bind] at h
    by_cases h1 : q.prov = 0 <;> simp [notConfig, h1] at h
    cases h2 : check q.procs.isEmpty Err.att with
    | error e => simp [h2] at h
    | ok _ =>
      simp only [h2] at h
      cases h3 : getPl m q.pipeline with
      | error e => simp [h3] at h
      | ok p =>
        simp only [h3] at h
        cases h4 : notRunning p with
        | error e => simp [h4] at h
        | ok _ =>
          simp [h4, pure, Except.pure] at h
          subst h
          refine ⟨rfl, h1, by simpa using check_ok h2, p, ?_⟩
          unfold getPl at h3
          cases hp : m.pls q.pipeline <;> simp [hp] at h3
          rw [h3]

theorem atomic_cnDelete (v : Variant) (s : St) (i : Nat) (k : Option Nat)
    (hi : Inv s) (ht : f7Trigger v s (.cnDelete i) k = false) : Atomic v s (.cnDelete i) k := by
  apply atomic_of_run _ _ _ _ rfl
  simp only [opBody, opCnDelete]
  refine orch_atomic _ _ { s with ctr := 0, failAt := k } hi.tx rfl ?_
  intro c hg
  show FirstPreFails s.mem _ ∨ PreOk s.mem _ ∧ (∀ j, j ≤ _ → k = some (j + 2) → Reversible s.mem _) ∧
    ∀ j st, k = some (j + 2) → _ → _
  replace hg : cnGuardsDelete s.mem i = .ok c := hg
  obtain ⟨hc, hprov, hprocs, p, hp⟩ := cnGuardsDelete_ok hg
  obtain ⟨p', hp', hin⟩ := hi.refs.connPl i c hc
  rw [hp] at hp'; cases hp'
  have hpre1 : (svcCnDelete i).pre s.mem = none := by simp [svcCnDelete, preHasCn, hc]
  have hpre2 : (svcPlRemConn v c.pipeline i).pre ((svcCnDelete i).upd s.mem) = none := by
    simp [svcPlRemConn, svcCnDelete, hp, hin]
  have htyp := hi.wf.cnTyp i c hc
  refine Or.inr ⟨⟨hpre1, hpre2, trivial⟩, ?_, ?_⟩
  · intro j hj hk
    -- the connector can be re-created as it was
    have hrec : k = some 3 ∨ k = some 4 → cnRecreatable c = true := by
      rintro (h | h) <;> subst h <;> simp [f7Trigger, hc] at ht
      · exact ht.2
      · exact ht.1
    have hr1 : k = some 3 ∨ k = some 4 →
        (svcCnCreate i c.typ c.plugin c.pipeline c.name c.settings c.prov 0).pre ((svcCnDelete i).upd s.mem) = none ∧
        (svcCnCreate i c.typ c.plugin c.pipeline c.name c.settings c.prov 0).upd ((svcCnDelete i).upd s.mem) = s.mem := by
      intro h
      have hrc := hrec h
      simp [cnRecreatable] at hrc
      obtain ⟨⟨⟨hs, hn0⟩, hn99⟩, hpl⟩ := hrc
      constructor
      · rcases htyp with h1 | h1 <;> simp [svcCnCreate, hn0, hn99, hpl, h1]
      · simp only [svcCnCreate, svcCnDelete]
        refine Mem.ext' rfl ?_ rfl rfl
        have : ({ typ := c.typ, plugin := c.plugin, name := c.name, settings := c.settings, pipeline := c.pipeline,
                  prov := c.prov, state := 0, procs := [] } : Cn) = c := by
          cases c; simp at hs hprocs ⊢; exact ⟨hs.symm, hprocs⟩
        rw [this]; exact Map.del_set _ _ _ hc
    match j, hj with
    | 0, _ => trivial
    | 1, _ =>
      have hk3 : k = some 3 := hk
      obtain ⟨a, b⟩ := hr1 (Or.inl hk3)
      exact ⟨hpre1, a, b, trivial⟩
    | 2, _ =>
      have hk4 : k = some 4 := hk
      obtain ⟨a, b⟩ := hr1 (Or.inr hk4)
      subst hk4
      simp [f7Trigger, hc, hp] at ht
      have hlast : lastIn p.conns i = true := ht.2
      refine ⟨hpre1, a, b, hpre2, ?_, ?_, trivial⟩
      · simp [svcPlAddConn, svcPlRemConn, svcCnDelete, preHasPl, Mem.updPl, hp]
      · simp only [svcPlAddConn, svcPlRemConn]
        refine updPl_updPl _ _ _ _ p (by simp [svcCnDelete, hp]) ?_
        have := erase_append_last p.conns i (hi.refs.plNodupC _ _ hp) (by simpa [lastIn] using hlast)
        cases p; simp at this ⊢; exact this
  · intro j st hk hst
    match j with
    | 0 => simp at hst; subst hst; rfl
    | 1 =>
      simp at hst; subst hst
      have : k = some 3 := hk
      subst this
      simp [f7Trigger, hc] at ht
      simpa [svcPlRemConn] using ht.1
    | j + 2 => simp at hst

/-! ## Processors.* -/

theorem procPipeline_ok {m : Mem} {ptype parent : Nat} {p : Pl} (h : procPipeline m ptype parent = .ok p) :
    (ptype = 2 ∧ m.pls parent = some p) ∨ (ptype = 1 ∧ ∃ c, m.cns parent = some c ∧ m.pls c.pipeline = some p) := by
  unfold procPipeline at h
  by_cases h2 : ptype = 2
  · simp only [h2, if_true] at h
    unfold getPl at h
    cases hp : m.pls parent <;> simp [hp] at h
    exact Or.inl ⟨h2, by rw [h]⟩
  · by_cases h1 : ptype = 1
    · simp only [h2, h1, if_false, if_true] at h
      have : (2 : Nat) ≠ 1 := by decide
      unfold getCn getPl at h
      cases hc : m.cns parent with
      | none => simp [hc, bind, Except.bind] at h
      | some c =>
        simp only [hc, bind, Except.bind] at h
        cases hp : m.pls c.pipeline <;> simp [hp] at h
        exact Or.inr ⟨h1, c, rfl, by rw [hp, h]⟩
    · simp [h2, h1] at h

theorem atomic_prCreate (v : Variant) (s : St) (plugin ptype parent settings : Nat) (workers : Int) (cond : Nat)
    (k : Option Nat) (hi : Inv s) (ht : f7Trigger v s (.prCreate plugin ptype parent settings workers cond) k = false) :
    Atomic v s (.prCreate plugin ptype parent settings workers cond) k := by
  apply atomic_of_run _ _ _ _ rfl
  simp only [opBody, opPrCreate]
  refine orch_atomic _ _ { s with ctr := 0, failAt := k } hi.tx rfl ?_
  intro b hg
  show FirstPreFails s.mem _ ∨ PreOk s.mem _ ∧ (∀ j, j ≤ _ → k = some (j + 2) → Reversible s.mem _) ∧
    ∀ j st, k = some (j + 2) → _ → _
  replace hg : (do let p ← procPipeline s.mem ptype parent; notConfig p.prov; notRunning p) = Except.ok b := hg
  have hpp : ∃ p, procPipeline s.mem ptype parent = .ok p := by
    simp only [bind, Except.bind] at hg
    cases h : procPipeline s.mem ptype parent with
    | error e => simp [h] at hg
    | ok p => exact ⟨p, rfl⟩
  obtain ⟨p, hpp⟩ := hpp
  have hfr := hi.fresh.prs s.next (Nat.le_refl _)
  cases hpre : (svcPrCreate s.next plugin ptype parent settings workers 0 cond).pre s.mem with
  | some e => exact Or.inl ⟨_, _, e, rfl, hpre⟩
  | none =>
    have hr1 : (svcPrDelete s.next).upd ((svcPrCreate s.next plugin ptype parent settings workers 0 cond).upd s.mem) = s.mem := by
      simp only [svcPrDelete, svcPrCreate]
      exact Mem.ext' rfl rfl (Map.set_del _ _ _ hfr) rfl
    have hu1 : (svcPrDelete s.next).pre ((svcPrCreate s.next plugin ptype parent settings workers 0 cond).upd s.mem) = none := by
      simp [svcPrDelete, svcPrCreate, preHasPr]
    rcases procPipeline_ok hpp with ⟨h2, hp⟩ | ⟨h1, c, hc, _⟩
    · -- parent is the pipeline
      have hnotin : s.next ∉ p.procs := fun h => Nat.lt_irrefl _ (hi.fresh.plR parent p _ hp h)
      simp only [attachStep, h2, if_true]
      have ha2 : (svcPlAddProc v parent s.next).pre ((svcPrCreate s.next plugin 2 parent settings workers 0 cond).upd s.mem) = none := by
        simp [svcPlAddProc, svcPrCreate, preHasPl, hp]
      subst h2
      refine Or.inr ⟨⟨hpre, ha2, trivial⟩, ?_, ?_⟩
      · intro j hj _
        match j, hj with
        | 0, _ => trivial
        | 1, _ => exact ⟨hpre, hu1, hr1, trivial⟩
        | 2, _ =>
          refine ⟨hpre, hu1, hr1, ha2, ?_, ?_, trivial⟩
          · simp [svcPlRemProc, svcPlAddProc, svcPrCreate, Mem.updPl, hp]
          · simp only [svcPlRemProc, svcPlAddProc]
            exact updPl_updPl _ _ _ _ p (by simp [svcPrCreate, hp]) (by simp [erase_append_self _ _ hnotin])
      · intro j st hk hst
        match j with
        | 0 => simp at hst; subst hst; rfl
        | 1 =>
          simp at hst; subst hst
          have : k = some 3 := hk
          subst this
          simpa [f7Trigger, svcPlAddProc] using ht
        | j + 2 => simp at hst
    · -- parent is a connector
      have hnotin : s.next ∉ c.procs := fun h => Nat.lt_irrefl _ (hi.fresh.cnR parent c _ hc h)
      have h12 : ¬ ptype = 2 := by omega
      simp only [attachStep, h12, if_false]
      have ha2 : (svcCnAddProc v parent s.next).pre ((svcPrCreate s.next plugin ptype parent settings workers 0 cond).upd s.mem) = none := by
        simp [svcCnAddProc, svcPrCreate, preHasCn, hc]
      refine Or.inr ⟨⟨hpre, ha2, trivial⟩, ?_, ?_⟩
      · intro j hj _
        match j, hj with
        | 0, _ => trivial
        | 1, _ => exact ⟨hpre, hu1, hr1, trivial⟩
        | 2, _ =>
          refine ⟨hpre, hu1, hr1, ha2, ?_, ?_, trivial⟩
          · simp [svcCnRemProc, svcCnAddProc, svcPrCreate, Mem.updCn, hc]
          · simp only [svcCnRemProc, svcCnAddProc]
            exact updCn_updCn _ _ _ _ c (by simp [svcPrCreate, hc]) (by simp [erase_append_self _ _ hnotin])
      · intro j st hk hst
        match j with
        | 0 => simp at hst; subst hst; rfl
        | 1 =>
          simp at hst; subst hst
          have : k = some 3 := hk
          subst this
          simpa [f7Trigger, svcCnAddProc, h12] using ht
        | j + 2 => simp at hst

theorem prGuards_ok {m : Mem} {id : Nat} {r : Pr} (h : prGuards m id = .ok r) :
    m.prs id = some r ∧ r.prov = 0 ∧ ∃ p, procPipeline m r.ptype r.parent = .ok p := by
  unfold prGuards getPr at h
  cases hr : m.prs id with
  | none => simp [hr, bind, Except.bind] at h
  | some q =>
    simp only [hr, bind, Except.bind] at h
    by_cases h1 : q.prov = 0 <;> simp [notConfig, h1] at h
    cases h2 : procPipeline m q.ptype q.parent with
    | error e => simp [h2] at h
    | ok p =>
      simp only [h2] at h
      cases h3 : notRunning p with
      | error e => simp [h3] at h
      | ok _ =>
        simp [h3, pure, Except.pure] at h
        subst h
        exact ⟨rfl, h1, p, h2⟩

theorem atomic_prUpdate (v : Variant) (s : St) (i plugin settings : Nat) (workers : Int) (k : Option Nat)
    (hi : Inv s) (ht : f7Trigger v s (.prUpdate i plugin settings workers) k = false) :
    Atomic v s (.prUpdate i plugin settings workers) k := by
  apply atomic_of_run _ _ _ _ rfl
  simp only [opBody, opPrUpdate]
  refine orch_atomic _ _ { s with ctr := 0, failAt := k } hi.tx rfl ?_
  intro r hg
  show FirstPreFails s.mem _ ∨ PreOk s.mem _ ∧ (∀ j, j ≤ _ → k = some (j + 2) → Reversible s.mem _) ∧
    ∀ j st, k = some (j + 2) → _ → _
  replace hg : prGuards s.mem i = .ok r := hg
  obtain ⟨hr, _, _⟩ := prGuards_ok hg
  cases hpre : (svcPrUpdate v i plugin settings workers).pre s.mem with
  | some e => exact Or.inl ⟨_, _, e, rfl, hpre⟩
  | none =>
    refine Or.inr ⟨⟨hpre, trivial⟩, ?_, ?_⟩
    · intro j hj _
      match j, hj with
      | 0, _ => trivial
      | 1, _ =>
        refine ⟨hpre, ?_, ?_, trivial⟩
        · simp [svcPrUpdate, Mem.updPr, hr, hi.wf.prPlg i r hr]
        · simp only [svcPrUpdate]
          exact updPr_updPr _ _ _ _ r hr (by simp)
    · intro j st hk hst
      match j with
      | 0 =>
        simp at hst; subst hst
        have : k = some 2 := hk
        subst this
        simpa [f7Trigger, svcPrUpdate] using ht
      | j + 1 => simp at hst

theorem atomic_prDelete (v : Variant) (s : St) (i : Nat) (k : Option Nat)
    (hi : Inv s) (ht : f7Trigger v s (.prDelete i) k = false) : Atomic v s (.prDelete i) k := by
  apply atomic_of_run _ _ _ _ rfl
  simp only [opBody, opPrDelete]
  refine orch_atomic _ _ { s with ctr := 0, failAt := k } hi.tx rfl ?_
  intro r hg
  show FirstPreFails s.mem _ ∨ PreOk s.mem _ ∧ (∀ j, j ≤ _ → k = some (j + 2) → Reversible s.mem _) ∧
    ∀ j st, k = some (j + 2) → _ → _
  replace hg : prGuards s.mem i = .ok r := hg
  obtain ⟨hr, hprov, _, _⟩ := prGuards_ok hg
  have hpre1 : (svcPrDelete i).pre s.mem = none := by simp [svcPrDelete, preHasPr, hr]
  -- the processor can be re-created as it was
  have hrec : k = some 3 ∨ k = some 4 → prRecreatable r = true := by
    rintro (h | h) <;> subst h <;> simp [f7Trigger, hr] at ht
    · exact ht.2
    · exact ht.1
  have hr1 : k = some 3 ∨ k = some 4 →
      (svcPrCreate i r.plugin r.ptype r.parent r.settings r.workers 0 r.cond).pre ((svcPrDelete i).upd s.mem) = none ∧
      (svcPrCreate i r.plugin r.ptype r.parent r.settings r.workers 0 r.cond).upd ((svcPrDelete i).upd s.mem) = s.mem := by
    intro h
    have hrc := hrec h
    simp [prRecreatable] at hrc
    obtain ⟨hw, hpl⟩ := hrc
    have hw0 : ¬ r.workers < 0 := by omega
    have hw1 : ¬ r.workers = 0 := by omega
    constructor
    · simp [svcPrCreate, hw0, hpl]
    · simp only [svcPrCreate, svcPrDelete, hw1, if_false]
      refine Mem.ext' rfl rfl ?_ rfl
      have : ({ plugin := r.plugin, settings := r.settings, workers := r.workers, cond := r.cond, ptype := r.ptype,
                parent := r.parent, prov := 0 } : Pr) = r := by
        cases r; simp at hprov ⊢; exact hprov.symm
      rw [this]; exact Map.del_set _ _ _ hr
  rcases hi.refs.procPar i r hr with ⟨h2, p, hp, hin⟩ | ⟨h1, c, hc, hin⟩
  · -- parent is the pipeline
    rw [show detachStep v r.ptype r.parent i = ⟨svcPlRemProc v r.parent i, svcPlAddProc v r.parent i⟩ from by
      simp [detachStep, h2]]
    have hpre2 : (svcPlRemProc v r.parent i).pre ((svcPrDelete i).upd s.mem) = none := by
      simp [svcPlRemProc, svcPrDelete, hp, hin]
    refine Or.inr ⟨⟨hpre1, hpre2, trivial⟩, ?_, ?_⟩
    · intro j hj hk
      match j, hj with
      | 0, _ => trivial
      | 1, _ =>
        obtain ⟨a, b⟩ := hr1 (Or.inl hk)
        exact ⟨hpre1, a, b, trivial⟩
      | 2, _ =>
        have hk4 : k = some 4 := hk
        obtain ⟨a, b⟩ := hr1 (Or.inr hk4)
        subst hk4
        simp [f7Trigger, hr, h2, hp] at ht
        have hlast : lastIn p.procs i = true := ht.2
        refine ⟨hpre1, a, b, hpre2, ?_, ?_, trivial⟩
        · simp [svcPlAddProc, svcPlRemProc, svcPrDelete, preHasPl, Mem.updPl, hp]
        · simp only [svcPlAddProc, svcPlRemProc]
          refine updPl_updPl _ _ _ _ p (by simp [svcPrDelete, hp]) ?_
          have := erase_append_last p.procs i (hi.refs.plNodupR _ _ hp) (by simpa [lastIn] using hlast)
          cases p; simp at this ⊢; exact this
    · intro j st hk hst
      match j with
      | 0 => simp at hst; subst hst; rfl
      | 1 =>
        simp at hst; subst hst
        have : k = some 3 := hk
        subst this
        simp [f7Trigger, hr, h2] at ht
        simpa [svcPlRemProc] using ht.1
      | j + 2 => simp at hst
  · -- parent is a connector
    have h12 : ¬ r.ptype = 2 := by omega
    rw [show detachStep v r.ptype r.parent i = ⟨svcCnRemProc v r.parent i, svcCnAddProc v r.parent i⟩ from by
      simp [detachStep, h12]]
    have hpre2 : (svcCnRemProc v r.parent i).pre ((svcPrDelete i).upd s.mem) = none := by
      simp [svcCnRemProc, svcPrDelete, hc, hin]
    refine Or.inr ⟨⟨hpre1, hpre2, trivial⟩, ?_, ?_⟩
    · intro j hj hk
      match j, hj with
      | 0, _ => trivial
      | 1, _ =>
        obtain ⟨a, b⟩ := hr1 (Or.inl hk)
        exact ⟨hpre1, a, b, trivial⟩
      | 2, _ =>
        have hk4 : k = some 4 := hk
        obtain ⟨a, b⟩ := hr1 (Or.inr hk4)
        subst hk4
        simp [f7Trigger, hr, h12, hc] at ht
        have hlast : lastIn c.procs i = true := ht.2
        refine ⟨hpre1, a, b, hpre2, ?_, ?_, trivial⟩
        · simp [svcCnAddProc, svcCnRemProc, svcPrDelete, preHasCn, Mem.updCn, hc]
        · simp only [svcCnAddProc, svcCnRemProc]
          refine updCn_updCn _ _ _ _ c (by simp [svcPrDelete, hc]) ?_
          have := erase_append_last c.procs i (hi.refs.cnNodupR _ _ hc) (by simpa [lastIn] using hlast)
          cases c; simp at this ⊢; exact this
    · intro j st hk hst
      match j with
      | 0 => simp at hst; subst hst; rfl
      | 1 =>
        simp at hst; subst hst
        have : k = some 3 := hk
        subst this
        simp [f7Trigger, hr, h12] at ht
        simpa [svcCnRemProc] using ht.1
      | j + 2 => simp at hst

/-! ## guards: running / file-provisioned resources are refused before anything is touched -/

theorem orch_guard_err {β} (g : Mem → Except Err β) (steps : β → List Step) (s : St) (e : Err)
    (h : g s.mem = .error e) : (orch g steps s).1 ≠ .ok () ∧ (orch g steps s).2.view = s.view := by
  unfold orch
  cases hf : s.failsNow <;> simp [h, St.view]

theorem guarded_guard_err (g : Mem → Except Err Unit) (f : Svc) (s : St) (e : Err)
    (h : g s.mem = .error e) : (guarded g f s).1 ≠ .ok () ∧ (guarded g f s).2.view = s.view := by
  simp [guarded, h]

theorem guarded_of_body (v : Variant) (s : St) (op : Op) (k : Option Nat)
    (h : (opBody v s.next op { s with ctr := 0, failAt := if op.isApi then k else none }).1 ≠ .ok () ∧
         (opBody v s.next op { s with ctr := 0, failAt := if op.isApi then k else none }).2.view = s.view) :
    (exec v s op k).1 ≠ .ok () ∧ (exec v s op k).2.view = s.view := by
  unfold exec; simpa [St.view] using h

theorem plGuards_locked {m : Mem} {i : Id} (h : (m.pls i).any Pl.locked = true) : ∃ e, plGuards m i = .error e := by
  cases hp : m.pls i with
  | none => simp [hp] at h
  | some p =>
    simp [hp, Pl.locked] at h
    unfold plGuards getPl notConfig notRunning
    simp only [hp, bind, Except.bind]
    by_cases h1 : p.prov = 0
    · have h2 : p.status = 1 := by rcases h with h | h <;> simp_all
      simp [h1, h2]
    · simp [h1]

theorem procPipeline_owner (m : Mem) (ptype parent : Id) :
    procPipeline m ptype parent = match procOwner m ptype parent with
      | some p => .ok p
      | none => if ptype = 2 ∨ (ptype = 1 ∧ (m.cns parent).isSome) then .error .nf else if ptype = 1 then .error .nf else .error .inv := by
  unfold procPipeline procOwner getPl getCn
  by_cases h2 : ptype = 2
  · simp only [h2, if_true]; cases m.pls parent <;> simp
  · by_cases h1 : ptype = 1
    · simp only [h1, if_true]
      cases hc : m.cns parent with
      | none => simp [bind, Except.bind]
      | some c => simp [bind, Except.bind]; cases m.pls c.pipeline <;> simp
    · simp [h2, h1]

theorem procGuard_locked {m : Mem} {ptype parent : Id} (h : (procOwner m ptype parent).any Pl.locked = true) :
    ∃ e, (do let p ← procPipeline m ptype parent; notConfig p.prov; notRunning p : Except Err Unit) = .error e := by
  rw [procPipeline_owner]
  cases hp : procOwner m ptype parent with
  | none => simp [hp] at h
  | some p =>
    simp [hp, Pl.locked] at h
    simp only [bind, Except.bind, notConfig, notRunning]
    by_cases h1 : p.prov = 0
    · have h2 : p.status = 1 := by rcases h with h | h <;> simp_all
      simp [h1, h2]
    · simp [h1]

/-- **guards**: an API call that would modify a resource of a running pipeline or a
file-provisioned resource fails and changes nothing — for every failing store-op index. -/
theorem guarded_all (v : Variant) (s : St) (op : Op) (k : Option Nat) : Guarded v s op k := by
  intro hprot
  apply guarded_of_body
  cases op with
  | plCreate name desc => simp [protectedOp] at hprot
  | plUpdate i name desc =>
    obtain ⟨e, he⟩ := plGuards_locked (m := s.mem) (i := i) (by simpa [protectedOp] using hprot)
    exact guarded_guard_err _ _ _ e (by show (do let _ ← plGuards s.mem i; pure ()) = _; simp [he, bind, Except.bind])
  | plUpdateDLQ i d =>
    obtain ⟨e, he⟩ := plGuards_locked (m := s.mem) (i := i) (by simpa [protectedOp] using hprot)
    exact guarded_guard_err _ _ _ e (by
      show (do let _ ← plGuards s.mem i; check (connValid 2 d.plugin d.settings) .inv) = _
      simp [he, bind, Except.bind])
  | plDelete i =>
    obtain ⟨e, he⟩ := plGuards_locked (m := s.mem) (i := i) (by simpa [protectedOp] using hprot)
    exact guarded_guard_err _ _ _ e (by
      show (do let p ← plGuards s.mem i; check p.conns.isEmpty .att; check p.procs.isEmpty .att) = _
      simp [he, bind, Except.bind])
  | cnCreate typ plugin pid name settings =>
    obtain ⟨e, he⟩ := plGuards_locked (m := s.mem) (i := pid) (by simpa [protectedOp] using hprot)
    exact orch_guard_err _ _ _ e (by
      show (do let _ ← plGuards s.mem pid; check (connValid typ plugin settings) .inv) = _
      simp [he, bind, Except.bind])
  | cnUpdate i plugin name settings =>
    simp only [protectedOp] at hprot
    cases hc : s.mem.cns i with
    | none => simp [hc] at hprot
    | some c =>
      simp [hc] at hprot
      have : ∃ e, cnGuardsUpdate s.mem i settings = .error e := by
        unfold cnGuardsUpdate getCn getPl notConfig notRunning
        simp only [hc, bind, Except.bind]
        by_cases h1 : c.prov = 0
        · have h2 : (s.mem.pls c.pipeline).any Pl.running = true := by rcases hprot with h | h <;> simp_all
          cases hp : s.mem.pls c.pipeline with
          | none => simp [hp] at h2
          | some p => simp [hp, Pl.running] at h2; simp [h1, h2]
        · simp [h1]
      obtain ⟨e, he⟩ := this
      exact orch_guard_err _ _ _ e he
  | cnDelete i =>
    simp only [protectedOp] at hprot
    cases hc : s.mem.cns i with
    | none => simp [hc] at hprot
    | some c =>
      simp [hc] at hprot
      have : ∃ e, cnGuardsDelete s.mem i = .error e := by
        unfold cnGuardsDelete getCn getPl notConfig notRunning check
        simp only [hc, bind, Except.bind]
        by_cases h1 : c.prov = 0
        · have h2 : (s.mem.pls c.pipeline).any Pl.running = true := by rcases hprot with h | h <;> simp_all
          cases hp : s.mem.pls c.pipeline with
          | none => simp [hp] at h2
          | some p =>
            simp [hp, Pl.running] at h2
            by_cases h3 : c.procs.isEmpty <;> simp [h1, h2, h3]
        · simp [h1]
      obtain ⟨e, he⟩ := this
      exact orch_guard_err _ _ _ e he
  | prCreate plugin ptype parent settings workers cond =>
    obtain ⟨e, he⟩ := procGuard_locked (m := s.mem) (ptype := ptype) (parent := parent) (by simpa [protectedOp] using hprot)
    exact orch_guard_err _ _ _ e he
  | prUpdate i plugin settings workers =>
    simp only [protectedOp] at hprot
    cases hr : s.mem.prs i with
    | none => simp [hr] at hprot
    | some r =>
      simp [hr] at hprot
      have : ∃ e, prGuards s.mem i = .error e := by
        unfold prGuards getPr notConfig notRunning
        simp only [hr, bind, Except.bind]
        by_cases h1 : r.prov = 0
        · have h2 : (procOwner s.mem r.ptype r.parent).any Pl.running = true := by rcases hprot with h | h <;> simp_all
          rw [procPipeline_owner]
          cases hp : procOwner s.mem r.ptype r.parent with
          | none => simp [hp] at h2
          | some p => simp [hp, Pl.running] at h2; simp [h1, h2]
        · simp [h1]
      obtain ⟨e, he⟩ := this
      exact orch_guard_err _ _ _ e he
  | prDelete i =>
    simp only [protectedOp] at hprot
    cases hr : s.mem.prs i with
    | none => simp [hr] at hprot
    | some r =>
      simp [hr] at hprot
      have : ∃ e, prGuards s.mem i = .error e := by
        unfold prGuards getPr notConfig notRunning
        simp only [hr, bind, Except.bind]
        by_cases h1 : r.prov = 0
        · have h2 : (procOwner s.mem r.ptype r.parent).any Pl.running = true := by rcases hprot with h | h <;> simp_all
          rw [procPipeline_owner]
          cases hp : procOwner s.mem r.ptype r.parent with
          | none => simp [hp] at h2
          | some p => simp [hp, Pl.running] at h2; simp [h1, h2]
        · simp [h1]
      obtain ⟨e, he⟩ := this
      exact orch_guard_err _ _ _ e he
  | envStatus i st => simp [protectedOp] at hprot
  | envState i st => simp [protectedOp] at hprot
  | envPl n => simp [protectedOp] at hprot
  | envCn t p n st => simp [protectedOp] at hprot
  | envPr t p st => simp [protectedOp] at hprot

end Conduit.Ctl
